//go:build verif

package frag

// C03 — peer-controlled bytes never crash the process: core/internal/frag.
//
//   frag-feedseq: sequences of wire datagrams (every one goes through protocol.ParseUDPMessage, so
//                 only shapes a peer can really deliver are fed) into one Defragger: any FragID /
//                 FragCount / PacketID incl. FragID>=FragCount, count changes in the middle of a
//                 message, duplicate and conflicting fragments. After every sequence the same
//                 Defragger must still reassemble a fresh well-formed message exactly.
//   frag-split:   FragUDPMessage for any (payload size, address length, limit) incl. limit <= header,
//                 0, negative, and payloads needing 254..257 and many more fragments (sender side:
//                 the limit comes from the peer's QUIC datagram size, the payload from the remote
//                 UDP host).

import (
	"bytes"
	"fmt"
	"sort"
	"strings"
	"testing"

	"github.com/apernet/hysteria/core/v2/internal/protocol"
)

func vfC03Wire(sid uint32, pid uint16, fid, fcnt uint8, addr string, data []byte) []byte {
	return vfC03Cat([]byte{byte(sid >> 24), byte(sid >> 16), byte(sid >> 8), byte(sid), byte(pid >> 8), byte(pid), fid, fcnt},
		vfC03VarintMin(uint64(len(addr))), []byte(addr), data)
}

// vfC03FeedWire is what both session managers do with a datagram: parse, then Defragger.Feed.
func vfC03FeedWire(d *Defragger, b []byte) *protocol.UDPMessage {
	m, err := protocol.ParseUDPMessage(b)
	if err != nil {
		return nil
	}
	return d.Feed(m)
}

func TestVerifC03FragFeedSeq(t *testing.T) {
	k := vfNewKit(t, "C03", "frag-feedseq")
	defer k.Finish()
	r := vfC03New(k)
	defer r.Close()
	const entry = "frag:Defragger.Feed"
	// a single datagram into a fresh Defragger is also replayable as a stateless entry
	r.Entry(entry, func(b []byte) { vfC03FeedWire(&Defragger{}, b) })
	if r.Replay() {
		return
	}
	nseq := k.N(4000, 120000)
	for i := 0; i < nseq; i++ {
		id := fmt.Sprintf("%d", i)
		if r.SkipSeq(id) {
			continue
		}
		rng := k.Rand("seq-" + id)
		d := &Defragger{}
		r.NewObject("Defragger, sequence " + id)
		steps := 2 + rng.Intn(14)
		// a small pool of ids/counts makes collisions (same id, other count; same slot twice) likely
		pids := []uint16{0, 1, uint16(rng.Intn(0x10000)), 0xffff}
		counts := []uint8{0, 1, 2, 3, uint8(2 + rng.Intn(6)), 254, 255, uint8(rng.Intn(256))}
		emitted := 0
		panicked := false
		for s := 0; s < steps && !panicked; s++ {
			pid := pids[rng.Intn(len(pids))]
			cnt := counts[rng.Intn(len(counts))]
			var fid uint8
			switch rng.Intn(6) {
			case 0:
				fid = cnt // == count
			case 1:
				fid = uint8(rng.Intn(256)) // anything, often >= count
			case 2:
				fid = 255
			default:
				if cnt > 0 {
					fid = uint8(rng.Intn(int(cnt)))
				}
			}
			dl := 1 + rng.Intn(40)
			if rng.Intn(20) == 0 {
				dl = 1 + rng.Intn(1200)
			}
			data := make([]byte, dl)
			rng.Read(data)
			wire := vfC03Wire(uint32(rng.Intn(3)), pid, fid, cnt, "h.verif:1", data)
			if rng.Intn(25) == 0 {
				// raw damage: still has to survive the parser to reach Feed
				wire[rng.Intn(len(wire))] ^= 1 << rng.Intn(8)
			}
			panicked = r.DoObj(entry, r.SeqID(id), wire, func(b []byte) {
				if out := vfC03FeedWire(d, b); out != nil {
					emitted++
					if out.FragCount > 1 {
						// a reassembled message reports itself as whole
						panic(fmt.Sprintf("Feed returned a message with FragCount=%d", out.FragCount))
					}
				}
			})
		}
		k.Count("ev_emitted_hostile", int64(emitted))
		if panicked {
			continue
		}
		// service continues: a fresh, well-formed message with an unused packet id, in order or reversed
		cpid := uint16(0x8000 + i%0x7000)
		for cpid == pids[2] {
			cpid++
		}
		nf := 2 + rng.Intn(4)
		tag := fmt.Sprintf("c03-canary-%d-", i)
		var parts [][]byte
		var whole []byte
		for f := 0; f < nf; f++ {
			p := []byte(fmt.Sprintf("%s%d|", tag, f))
			parts = append(parts, p)
			whole = append(whole, p...)
		}
		order := rng.Perm(nf)
		r.Canary(entry, r.SeqID(id), map[string]any{"packet_id": cpid, "fragments": nf, "order": order}, func() error {
			var out *protocol.UDPMessage
			for j, f := range order {
				got := vfC03FeedWire(d, vfExact(vfC03Wire(77, cpid, uint8(f), uint8(nf), "canary.verif:9", parts[f])))
				if j < nf-1 && got != nil {
					return fmt.Errorf("emitted after %d of %d fragments", j+1, nf)
				}
				out = got
			}
			if out == nil {
				return fmt.Errorf("complete %d-fragment message (packet id %d) was not emitted", nf, cpid)
			}
			if !bytes.Equal(out.Data, whole) || out.Addr != "canary.verif:9" || out.SessionID != 77 {
				return fmt.Errorf("reassembled %q, want %q", out.Data, whole)
			}
			return nil
		})
		if i < 2 {
			k.Sample(map[string]any{"sequence": id, "steps": steps, "emitted_from_hostile": emitted, "canary_fragments": nf})
		}
	}

	// Aggregate workload: COMPLETE, well-formed fragment sets whose payloads add up to totals around
	// the 4096-byte UDP buffer, 8 KiB, 64 KiB, 255 x 1200/1400 bytes (every datagram is small and
	// valid). One Defragger receives several sets in a row (what a session sees), then the canary.
	sets := vfC03AggregateSets(k.Rand("aggregate"), k.N(25, 1500))
	var d *Defragger
	for i, set := range sets {
		id := fmt.Sprintf("agg-%d", i)
		if r.SkipSeq(id) {
			continue
		}
		if d == nil || i%4 == 0 || r.k.ReplayCase() != "" {
			d = &Defragger{}
			r.NewObject("Defragger, aggregate sets from " + id)
		}
		parts, whole := vfC03SetPayloads(set, uint32(i))
		pid := uint16(1 + i%0x7000)
		var out *protocol.UDPMessage
		emissions := 0
		panicked := false
		for _, f := range set.Order {
			wire := vfC03Wire(3, pid, uint8(f), uint8(len(set.Sizes)), "agg.verif:53", parts[f])
			panicked = r.DoObj(entry, r.SeqID(id), wire, func(b []byte) {
				if m := vfC03FeedWire(d, b); m != nil {
					emissions++
					out = m
				}
			})
			if panicked {
				break
			}
		}
		if panicked {
			break
		}
		k.Count("ev_aggregate_sets", 1)
		k.Count("aggregate_bytes", int64(set.Total))
		if out != nil {
			k.Count("ev_aggregate_emitted", 1)
			// a complete set is well-formed input: whatever is emitted for it must be the message itself
			if emissions != 1 || !bytes.Equal(out.Data, whole) {
				r.ServiceStopped(entry, r.SeqID(id), map[string]any{"set": set.Label, "total": set.Total},
					"complete fragment set %s: %d emissions, emitted %d bytes that differ from the %d-byte message", set.Label, emissions, len(out.Data), len(whole))
			}
		}
		if i%4 == 3 || i == len(sets)-1 {
			cpid := uint16(0x7800 + i%0x700)
			r.Canary(entry, r.SeqID(id), map[string]any{"after": set.Label}, func() error {
				if got := vfC03FeedWire(d, vfExact(vfC03Wire(77, cpid, 1, 2, "canary.verif:9", []byte("-world")))); got != nil {
					return fmt.Errorf("emitted after 1 of 2 fragments")
				}
				got := vfC03FeedWire(d, vfExact(vfC03Wire(77, cpid, 0, 2, "canary.verif:9", []byte("hello"))))
				if got == nil || string(got.Data) != "hello-world" {
					return fmt.Errorf("2-fragment message after %s not reassembled: %v", set.Label, got)
				}
				return nil
			})
		}
		if i == 12 {
			k.Sample(map[string]any{"aggregate_set": set.Label, "fragments": len(set.Sizes), "total_bytes": set.Total, "arrivals": len(set.Order)})
		}
	}
}

type vfC03SplitCase struct {
	Payload int `json:"payload_len"`
	AddrLen int `json:"addr_len"`
	Limit   int `json:"limit"`
}

func vfC03SplitInput(c vfC03SplitCase) []byte {
	return []byte(fmt.Sprintf("%d/%d/%d", c.Payload, c.AddrLen, c.Limit))
}

func TestVerifC03FragSplit(t *testing.T) {
	k := vfNewKit(t, "C03", "frag-split")
	defer k.Finish()
	r := vfC03New(k)
	defer r.Close()
	const entry = "frag:FragUDPMessage"
	payload := make([]byte, 70000)
	for i := range payload {
		payload[i] = byte(i * 7)
	}
	// the "input" of this entry is the triple payload/addrlen/limit in text form
	r.Entry(entry, func(b []byte) {
		var c vfC03SplitCase
		if _, err := fmt.Sscanf(string(b), "%d/%d/%d", &c.Payload, &c.AddrLen, &c.Limit); err != nil {
			return
		}
		addr := strings.Repeat("a", c.AddrLen)
		m := &protocol.UDPMessage{SessionID: 5, PacketID: 9, FragID: 0, FragCount: 1, Addr: addr, Data: vfExact(payload[:c.Payload])}
		frags := FragUDPMessage(m, c.Limit)
		if frags == nil {
			k.Count("ev_split_discarded", 1)
			return
		}
		k.Count("ev_split_sent", 1)
		k.Count("ev_fragments", int64(len(frags)))
		// what the senders do next: serialize each fragment into the 4096-byte send buffer
		buf := make([]byte, protocol.MaxUDPSize)
		for i := range frags {
			_ = frags[i].Serialize(buf)
		}
	})
	if r.Replay() {
		return
	}
	rng := k.Rand("grid")
	hdrOf := func(al int) int { return 8 + len(vfC03VarintMin(uint64(al))) + al }
	var cases []vfC03SplitCase
	addrLens := []int{1, 3, 9, 21, 63, 64, 255, 2048}
	for _, al := range addrLens {
		h := hdrOf(al)
		for _, lim := range []int{-1 << 62, -1 << 31, -1, 0, 1, 7, 8, h - 2, h - 1, h, h + 1, h + 2, h + 3, h + 7, h + 15, h + 16, h + 17, h + 100, 1200, 1252, 1452, 4096, 65535, 1 << 31, 1 << 62} {
			sizes := map[int]bool{0: true, 1: true, 2: true, 255: true, 256: true, 257: true, 1200: true, 2560: true, 4080: true, 4095: true, 4096: true, 4097: true, 65535: true}
			if b := lim - h; b > 0 && b < 400 {
				for _, mul := range []int{1, 2, 254, 255, 256, 257, 258, 511, 512, 513} {
					for _, d := range []int{-1, 0, 1} {
						if v := mul*b + d; v >= 0 && v <= 70000 {
							sizes[v] = true
						}
					}
				}
			}
			ks := make([]int, 0, len(sizes))
			for s := range sizes {
				ks = append(ks, s)
			}
			sort.Ints(ks) // deterministic case order
			for _, s := range ks {
				cases = append(cases, vfC03SplitCase{s, al, lim})
			}
		}
	}
	for i, nr := 0, k.N(5000, 150000); i < nr; i++ {
		al := 1 + rng.Intn(80)
		if rng.Intn(10) == 0 {
			al = 1 + rng.Intn(2048)
		}
		h := hdrOf(al)
		lim := h - 3 + rng.Intn(40)
		if rng.Intn(3) == 0 {
			lim = rng.Intn(1500)
		}
		s := rng.Intn(4097)
		if rng.Intn(4) == 0 {
			s = rng.Intn(65536)
		}
		cases = append(cases, vfC03SplitCase{s, al, lim})
	}
	for i, c := range cases {
		r.Do(entry, vfC03SplitInput(c))
		if i%1000 == 999 {
			// service continues: an ordinary message still splits into the expected number of fragments
			r.Canary(entry, "", "payload 3000, addr 9, limit 1200", func() error {
				m := &protocol.UDPMessage{SessionID: 1, PacketID: 2, FragCount: 1, Addr: "h.verif:53", Data: vfExact(payload[:3000])}
				budget := 1200 - m.HeaderSize()
				want := (3000 + budget - 1) / budget
				fr := FragUDPMessage(m, 1200)
				if len(fr) != want {
					return fmt.Errorf("got %d fragments, want %d", len(fr), want)
				}
				var cat []byte
				for _, f := range fr {
					cat = append(cat, f.Data...)
				}
				if !bytes.Equal(cat, payload[:3000]) {
					return fmt.Errorf("fragments do not concatenate to the payload")
				}
				return nil
			})
		}
	}
	k.Sample(map[string]any{"entry": entry, "cases": len(cases), "example payload/addrlen/limit": "2560/3/22"})
}
