//go:build verif

package udphop

// C19 (part b) — every packet of a hopping client goes to the server IP on a port of the
// configured set from the newest local socket; at most two sockets stay open between hops;
// the previous socket keeps delivering until the next hop; failed socket creations change
// nothing; after Close every socket ever opened is closed and reads and writes fail.
//
// Everything runs inside testing/synctest bubbles: hop timers run on the virtual clock, and
// "has it settled" is decided by synctest.Wait(), never by the wall clock.
//
// Observation boundary: the ListenUDPFunc the package lets a caller inject. The fake listen
// function (vfC19Net.listen) fails at scripted creation indexes and otherwise hands out fake
// sockets (vfC19Sock) that keep an open/closed census (with the number of Close calls), record
// every successful WriteTo (socket, destination, payload) and accept injected inbound packets.
//
// Parts:
//   hop-addr  ResolveUDPHopAddr + addrs(): one UDPAddr per port of the set, server IP.
//   hop-enum  every subset of failing creations for every history of 0..8 hops.
//   hop-long  random failure subsets over 9..200 hops.
//   hop-race  reads/writes/deadline/buffer calls/Close on the very instants of the hops (-race).

import (
	"errors"
	"fmt"
	"math/rand"
	"net"
	"os"
	"runtime"
	"sort"
	"strconv"
	"strings"
	"sync"
	"sync/atomic"
	"testing"
	"testing/synctest"
	"time"
)

// ---------------------------------------------------------------------------- fakes

var vfC19ErrListen = errors.New("vfC19: scripted socket creation failure")

type vfC19Sent struct {
	Sock int    `json:"sock"`
	IP   string `json:"ip"`
	Port int    `json:"port"`
	Tag  string `json:"tag"`
	UDP  bool   `json:"udp_addr"`
}

type vfC19Attempt struct {
	Idx int
	T   time.Time
	OK  bool
}

type vfC19Net struct {
	mu       sync.Mutex
	fail     func(idx int) bool
	attempts []vfC19Attempt
	socks    []*vfC19Sock // successfully created, in creation order
	sent     []vfC19Sent
	hopCh    chan int
	spin     int // Gosched rounds inside listen (widens the hop's critical section; no virtual time passes)
	// closeErr: every socket's closing Close call really closes it and then reports an error, as
	// close(2) may (EIO); the code under test must not let that stop it closing the other sockets
	closeErr bool
}

func vfC19NewNet(fail func(int) bool) *vfC19Net {
	return &vfC19Net{fail: fail, hopCh: make(chan int, 1024)}
}

func (n *vfC19Net) listen() (net.PacketConn, error) {
	n.mu.Lock()
	idx := len(n.attempts)
	failed := n.fail != nil && n.fail(idx)
	var s *vfC19Sock
	if !failed {
		s = &vfC19Sock{net: n, id: idx, closeCh: make(chan struct{}), dlCh: make(chan struct{}), inbox: make(chan []byte, 64)}
		n.socks = append(n.socks, s)
	}
	n.attempts = append(n.attempts, vfC19Attempt{Idx: idx, T: time.Now(), OK: !failed})
	spin := n.spin
	n.mu.Unlock()
	for i := 0; i < spin; i++ {
		runtime.Gosched()
	}
	select {
	case n.hopCh <- idx:
	default:
	}
	if failed {
		return nil, vfC19ErrListen
	}
	return s, nil
}

// pair returns the two newest successfully created sockets (cur, prev); either may be nil.
func (n *vfC19Net) pair() (cur, prev *vfC19Sock) {
	n.mu.Lock()
	defer n.mu.Unlock()
	if l := len(n.socks); l > 0 {
		cur = n.socks[l-1]
		if l > 1 {
			prev = n.socks[l-2]
		}
	}
	return
}

func (n *vfC19Net) allSocks() []*vfC19Sock {
	n.mu.Lock()
	defer n.mu.Unlock()
	return append([]*vfC19Sock(nil), n.socks...)
}

func (n *vfC19Net) sentLen() int {
	n.mu.Lock()
	defer n.mu.Unlock()
	return len(n.sent)
}

func (n *vfC19Net) sentFrom(i int) []vfC19Sent {
	n.mu.Lock()
	defer n.mu.Unlock()
	return append([]vfC19Sent(nil), n.sent[i:]...)
}

func (n *vfC19Net) attemptsCopy() []vfC19Attempt {
	n.mu.Lock()
	defer n.mu.Unlock()
	return append([]vfC19Attempt(nil), n.attempts...)
}

// openIDs lists the sockets that are open right now.
func (n *vfC19Net) openIDs() []int {
	var ids []int
	for _, s := range n.allSocks() {
		if !s.isClosed() {
			ids = append(ids, s.id)
		}
	}
	return ids
}

type vfC19Sock struct {
	net *vfC19Net
	id  int // creation index (0 = the socket made by the constructor)

	mu         sync.Mutex
	closed     bool
	closeCalls int // Close calls made by the code under test
	forced     bool
	closeCh    chan struct{}
	inbox      chan []byte
	setCalls   int
	rdl        time.Time     // read deadline, honoured on the (virtual) clock like a UDP socket
	dlCh       chan struct{} // closed and replaced whenever the read deadline changes (wakes blocked readers)
	lastWDL    time.Time     // write deadline: recorded only (WriteTo never blocks)
	timeouts   int
	rbuf, wbuf int
}

func vfC19TimeoutErr() error {
	return &net.OpError{Op: "read", Net: "udp", Err: os.ErrDeadlineExceeded}
}

func (s *vfC19Sock) isClosed() bool { s.mu.Lock(); defer s.mu.Unlock(); return s.closed }

// ReadFrom behaves like a UDP socket's: closed -> permanent error; read deadline already passed ->
// timeout error at once (even if data is pending); otherwise block until a packet, Close, the
// deadline, or a change of the deadline.
func (s *vfC19Sock) ReadFrom(b []byte) (int, net.Addr, error) {
	for {
		s.mu.Lock()
		closed, dl, wake := s.closed, s.rdl, s.dlCh
		s.mu.Unlock()
		if closed {
			return 0, nil, net.ErrClosed
		}
		var timerC <-chan time.Time
		var timer *time.Timer
		if !dl.IsZero() {
			left := time.Until(dl)
			if left <= 0 {
				s.mu.Lock()
				s.timeouts++
				s.mu.Unlock()
				return 0, nil, vfC19TimeoutErr()
			}
			timer = time.NewTimer(left)
			timerC = timer.C
		}
		select {
		case p := <-s.inbox:
			if timer != nil {
				timer.Stop()
			}
			select {
			case <-s.closeCh: // a closed socket delivers nothing
				return 0, nil, net.ErrClosed
			default:
			}
			return copy(b, p), &net.UDPAddr{IP: net.IPv4(10, 19, 19, 1), Port: 1}, nil
		case <-s.closeCh:
			if timer != nil {
				timer.Stop()
			}
			return 0, nil, net.ErrClosed
		case <-timerC:
			s.mu.Lock()
			s.timeouts++
			s.mu.Unlock()
			return 0, nil, vfC19TimeoutErr()
		case <-wake: // deadline changed: evaluate again
			if timer != nil {
				timer.Stop()
			}
		}
	}
}

// setRDL must be called with s.mu held.
func (s *vfC19Sock) setRDL(t time.Time) {
	s.rdl = t
	close(s.dlCh)
	s.dlCh = make(chan struct{})
}

// inject queues an inbound packet; false if the socket is closed (a closed socket receives nothing).
func (s *vfC19Sock) inject(p []byte) bool {
	s.mu.Lock()
	defer s.mu.Unlock()
	if s.closed {
		return false
	}
	select {
	case s.inbox <- append([]byte(nil), p...):
		return true
	default:
		return false
	}
}

func (s *vfC19Sock) WriteTo(b []byte, addr net.Addr) (int, error) {
	s.mu.Lock()
	defer s.mu.Unlock()
	if s.closed {
		return 0, net.ErrClosed
	}
	rec := vfC19Sent{Sock: s.id, Tag: string(b)}
	if ua, ok := addr.(*net.UDPAddr); ok && ua != nil {
		rec.UDP, rec.IP, rec.Port = true, ua.IP.String(), ua.Port
	} else if addr != nil {
		rec.IP = addr.String()
	}
	s.net.mu.Lock()
	s.net.sent = append(s.net.sent, rec) // recorded before the verdict is returned
	s.net.mu.Unlock()
	return len(b), nil
}

func (s *vfC19Sock) Close() error {
	s.mu.Lock()
	defer s.mu.Unlock()
	s.closeCalls++
	if s.closed {
		return net.ErrClosed
	}
	s.closed = true
	close(s.closeCh)
	if s.net != nil && s.net.closeErr {
		return &net.OpError{Op: "close", Net: "udp", Err: errors.New("vf: input/output error")}
	}
	return nil
}

// forceClose is harness cleanup (so that a leaked socket's reader does not keep the bubble alive).
func (s *vfC19Sock) forceClose() {
	s.mu.Lock()
	defer s.mu.Unlock()
	if !s.closed {
		s.closed, s.forced = true, true
		close(s.closeCh)
	}
}

func (s *vfC19Sock) LocalAddr() net.Addr {
	return &net.UDPAddr{IP: net.IPv4(127, 0, 0, 1), Port: 30000 + s.id%30000}
}

func (s *vfC19Sock) setErr() error {
	s.setCalls++
	if s.closed {
		return net.ErrClosed
	}
	return nil
}
func (s *vfC19Sock) SetDeadline(t time.Time) error {
	s.mu.Lock()
	defer s.mu.Unlock()
	s.lastWDL = t
	s.setRDL(t)
	return s.setErr()
}
func (s *vfC19Sock) SetReadDeadline(t time.Time) error {
	s.mu.Lock()
	defer s.mu.Unlock()
	s.setRDL(t)
	return s.setErr()
}
func (s *vfC19Sock) SetWriteDeadline(t time.Time) error {
	s.mu.Lock()
	defer s.mu.Unlock()
	s.lastWDL = t
	return s.setErr()
}
func (s *vfC19Sock) SetReadBuffer(n int) error {
	s.mu.Lock()
	defer s.mu.Unlock()
	s.rbuf = n
	return s.setErr()
}
func (s *vfC19Sock) SetWriteBuffer(n int) error {
	s.mu.Lock()
	defer s.mu.Unlock()
	s.wbuf = n
	return s.setErr()
}

// ---------------------------------------------------------------------------- port sets (by construction)

type vfC19PortCfg struct {
	Host   string   // host part given to ResolveUDPHopAddr
	Expr   string   // port expression
	Rng    [][2]int // the ranges the expression was built from (expected set = their union)
	ports  []bool   // indexed by port
	nports int
	ip     net.IP
}

func (p *vfC19PortCfg) has(port int) bool { return port >= 0 && port < 65536 && p.ports[port] }

func (p *vfC19PortCfg) init() {
	p.ports = make([]bool, 65536)
	for _, r := range p.Rng {
		for v := r[0]; v <= r[1]; v++ {
			if !p.ports[v] {
				p.nports++
			}
			p.ports[v] = true
		}
	}
	p.ip = net.ParseIP(strings.Trim(p.Host, "[]"))
}

func vfC19PortCfgs() []*vfC19PortCfg {
	l := []*vfC19PortCfg{
		{Host: "10.19.19.1", Expr: "443", Rng: [][2]int{{443, 443}}},
		{Host: "10.19.19.1", Expr: "20000-20004", Rng: [][2]int{{20000, 20004}}},
		{Host: "[2001:db8::19]", Expr: "20004-20000", Rng: [][2]int{{20000, 20004}}},
		{Host: "10.19.19.1", Expr: "0", Rng: [][2]int{{0, 0}}},
		{Host: "10.19.19.1", Expr: "65535", Rng: [][2]int{{65535, 65535}}},
		{Host: "10.19.19.1", Expr: "0,65535", Rng: [][2]int{{0, 0}, {65535, 65535}}},
		{Host: "[2001:db8::19]", Expr: "1000-1002,1003-1005,1004", Rng: [][2]int{{1000, 1005}}},
		{Host: "10.19.19.1", Expr: "65533-65535,1-0", Rng: [][2]int{{65533, 65535}, {0, 1}}},
		{Host: "10.19.19.1", Expr: "8443,8443,8443", Rng: [][2]int{{8443, 8443}}},
		{Host: "10.19.19.1", Expr: "5000-5100,5050-5060,7044", Rng: [][2]int{{5000, 5100}, {7044, 7044}}},
		// isolated ports: every neighbour of a member is outside the set
		{Host: "10.19.19.1", Expr: "1001,2002,3003,4004,5005,6006,7007,8008", Rng: [][2]int{{1001, 1001}, {2002, 2002}, {3003, 3003}, {4004, 4004}, {5005, 5005}, {6006, 6006}, {7007, 7007}, {8008, 8008}}},
		{Host: "[2001:db8::19]", Expr: "30013-30020,30000-30009,30011", Rng: [][2]int{{30000, 30009}, {30011, 30011}, {30013, 30020}}},
		{Host: "192.0.2.77", Expr: "2,4,6,8,10,12,14,16,18,20,22,24,26,28,30,65534", Rng: [][2]int{{2, 2}, {4, 4}, {6, 6}, {8, 8}, {10, 10}, {12, 12}, {14, 14}, {16, 16}, {18, 18}, {20, 20}, {22, 22}, {24, 24}, {26, 26}, {28, 28}, {30, 30}, {65534, 65534}}},
	}
	for _, p := range l {
		p.init()
	}
	return l
}

// vfC19Resolve runs the package's own resolver and compares the result with the expected set.
func vfC19Resolve(k *vfKit, pc *vfC19PortCfg, replay any) *UDPHopAddr {
	a, err := ResolveUDPHopAddr(pc.Host + ":" + pc.Expr)
	if err != nil {
		k.Violation("udphop:resolve-rejects-valid", replay, "ResolveUDPHopAddr(%q) failed: %v", pc.Host+":"+pc.Expr, err)
		return nil
	}
	k.Count("ev_resolved", 1)
	seen := make([]bool, 65536)
	nseen := 0
	for _, p := range a.Ports {
		if !pc.ports[int(p)] {
			k.Violation("udphop:resolve-port-outside-set", replay, "%q resolved to port %d which is not in the expression's set", pc.Expr, p)
			return nil
		}
		if seen[int(p)] {
			k.Violation("udphop:resolve-port-duplicate", replay, "%q resolved to port %d twice", pc.Expr, p)
			return nil
		}
		seen[int(p)] = true
		nseen++
	}
	if nseen != pc.nports {
		k.Violation("udphop:resolve-port-missing", replay, "%q resolved to %d ports, the set has %d", pc.Expr, nseen, pc.nports)
		return nil
	}
	if !a.IP.Equal(pc.ip) {
		k.Violation("udphop:resolve-ip", replay, "resolved IP %v, expected %v", a.IP, pc.ip)
		return nil
	}
	return a
}

func TestVerifC19HopAddr(t *testing.T) {
	k := vfNewKit(t, "C19", "hop-addr")
	defer k.Finish()
	r := k.Rand("addr")
	var cfgs []*vfC19PortCfg
	cfgs = append(cfgs, vfC19PortCfgs()...)
	all := &vfC19PortCfg{Host: "10.19.19.1", Expr: "all", Rng: [][2]int{{0, 65535}}}
	star := &vfC19PortCfg{Host: "[2001:db8::19]", Expr: "*", Rng: [][2]int{{0, 65535}}}
	all.init()
	star.init()
	cfgs = append(cfgs, all, star)
	n := k.N(300, 3000)
	for i := 0; i < n; i++ {
		cnt := 1 + r.Intn(5)
		pc := &vfC19PortCfg{Host: []string{"10.19.19.1", "[2001:db8::19]", "192.0.2.77"}[r.Intn(3)]}
		var items []string
		for j := 0; j < cnt; j++ {
			lo := []int{0, 1, 440, 5000, 65500, 65535 - r.Intn(30), r.Intn(65536)}[r.Intn(7)]
			hi := lo + []int{0, 0, 1, 5, 40, 700}[r.Intn(6)]
			if hi > 65535 {
				hi = 65535
			}
			pc.Rng = append(pc.Rng, [2]int{lo, hi})
			switch {
			case lo == hi:
				items = append(items, strconv.Itoa(lo))
			case r.Intn(3) == 0:
				items = append(items, fmt.Sprintf("%d-%d", hi, lo))
			default:
				items = append(items, fmt.Sprintf("%d-%d", lo, hi))
			}
		}
		pc.Expr = strings.Join(items, ",")
		pc.init()
		cfgs = append(cfgs, pc)
	}
	for i, pc := range cfgs {
		cs := map[string]any{"case_id": fmt.Sprintf("addr/%d", i), "host": pc.Host, "expr": pc.Expr}
		if rc := k.ReplayCase(); rc != "" && rc != cs["case_id"] {
			continue
		}
		k.Eval()
		a := vfC19Resolve(k, pc, cs)
		if a == nil {
			continue
		}
		addrs, err := a.addrs()
		if err != nil {
			k.Violation("udphop:addrs-error", cs, "addrs() failed: %v", err)
			continue
		}
		seen := make([]bool, 65536)
		nseen := 0
		ok := true
		for _, x := range addrs {
			ua, isUDP := x.(*net.UDPAddr)
			if !isUDP || !ua.IP.Equal(pc.ip) || ua.Port < 0 || ua.Port > 65535 || !pc.ports[ua.Port] || seen[ua.Port] {
				k.Violation("udphop:addrs-wrong-target", cs, "addrs() contains %v: not a fresh (server IP, port of the set) pair", x)
				ok = false
				break
			}
			seen[ua.Port] = true
			nseen++
		}
		if ok && nseen != pc.nports {
			k.Violation("udphop:addrs-missing-port", cs, "addrs() has %d targets, the set has %d ports", nseen, pc.nports)
		}
		k.Count("addr_targets", int64(len(addrs)))
		if len(pc.Rng) > 1 {
			k.Nontrivial(pc.Host + ":" + pc.Expr)
		}
		if i%97 == 0 {
			k.Sample(map[string]any{"addr": pc.Host + ":" + pc.Expr, "targets": len(addrs)})
		}
	}
}

// ---------------------------------------------------------------------------- one strict history

type vfC19Hist struct {
	CaseID        string `json:"case_id"`
	Host          string `json:"host"`
	Ports         string `json:"ports"`
	MinNs         int64  `json:"interval_min_ns"`
	MaxNs         int64  `json:"interval_max_ns"`
	Hops          int    `json:"hops"`
	Fail          []int  `json:"failing_creation_indexes"` // 1-based hop attempt numbers whose socket creation fails
	PreQueued     int    `json:"packets_queued_before_close"`
	ReaderAtClose bool   `json:"reader_blocked_at_close"`
	CloseAtHop    bool   `json:"close_at_instant_of_next_hop"`
	MidRounds     bool   `json:"mid_interval_rounds"`
	DeadlineMode  int    `json:"read_deadline_steps"` // 0 none, 1 after about a third of the hop attempts, 2 after every hop attempt
	VSeed         int64  `json:"variant_seed"`

	pc   *vfC19PortCfg
	fail map[int]bool
}

type vfC19ReadRes struct {
	data []byte
	err  error
}

// vfC19Run drives one history inside a bubble. All verdicts are k.Violation calls.
type vfC19Run struct {
	k       *vfKit
	h       *vfC19Hist
	net     *vfC19Net
	u       *udpHopPacketConn
	r       *rand.Rand
	seq     int
	bad     bool // a violation was recorded for this history
	rd      *vfC19Reader
	far     time.Time
	dlSteps int
	effI    [2]time.Duration
}

func (x *vfC19Run) viol(key, format string, args ...any) {
	x.bad = true
	x.k.Violation(key, x.h, format, args...)
}

// vfC19Reader is one goroutine per history that performs ReadFrom calls on request (goroutine
// creation is expensive under the race detector, so it is reused for all reads of a history).
type vfC19Reader struct {
	u    *udpHopPacketConn
	req  chan int
	res  chan vfC19ReadRes
	stop atomic.Bool
	busy atomic.Bool
	// timeout results are only counted (a deadline step produces > 1000 of them); everything
	// else is passed on through res
	timeouts atomic.Int64
	overflow atomic.Int64
}

func (rd *vfC19Reader) loop() {
	buf := make([]byte, 256)
	for n := range rd.req {
		for i := 0; i < n; i++ {
			m, _, err := rd.u.ReadFrom(buf)
			if rd.stop.Load() {
				break
			}
			if vfC19IsTimeout(err) {
				rd.timeouts.Add(1)
				continue
			}
			var data []byte
			if m > 0 {
				data = append(data, buf[:m]...)
			}
			select {
			case rd.res <- vfC19ReadRes{data: data, err: err}:
			default:
				rd.overflow.Add(1)
			}
		}
		rd.busy.Store(false)
	}
}

func (rd *vfC19Reader) start(n int) {
	rd.stop.Store(false)
	rd.busy.Store(true)
	rd.req <- n
}

// drain returns the results since the last drain; timeout results come back as one entry each
// (with a shared error value), after the others.
func (rd *vfC19Reader) drain() (res []vfC19ReadRes) {
	defer func() {
		te := vfC19TimeoutErr()
		for n := rd.timeouts.Swap(0); n > 0; n-- {
			res = append(res, vfC19ReadRes{err: te})
		}
	}()
	for {
		select {
		case r := <-rd.res:
			res = append(res, r)
			continue
		default:
		}
		return res
	}
}

// abort releases a reader the code under test left blocked (harness cleanup only): the pending
// ReadFrom is fed a sentinel packet whose result is discarded.
func (rd *vfC19Reader) abort() {
	rd.stop.Store(true)
	b := make([]byte, udpBufferSize)
	m := copy(b, "vfC19-sentinel")
	select {
	case rd.u.recvQueue <- &udpPacket{Buf: b, N: m}:
	default:
	}
	synctest.Wait()
}

// readN performs up to n ReadFrom calls, none of which is allowed to block: synctest.Wait()
// tells how far the reader got. blocked is true when a call did not return.
func (x *vfC19Run) readN(n int) (res []vfC19ReadRes, blocked bool) {
	if n <= 0 {
		return nil, false
	}
	x.rd.start(n)
	synctest.Wait()
	if x.rd.busy.Load() {
		blocked = true
		x.rd.abort()
	}
	return x.rd.drain(), blocked
}

// census compares the set of open sockets with the two newest successfully created ones.
func (x *vfC19Run) census(stage string) (cur, prev *vfC19Sock) {
	cur, prev = x.net.pair()
	open := x.net.openIDs()
	x.k.Count("ev_census_checks", 1)
	want := map[int]bool{}
	if cur != nil {
		want[cur.id] = true
	}
	if prev != nil {
		want[prev.id] = true
	}
	for _, id := range open {
		if !want[id] {
			x.viol("udphop:stale-socket-left-open", "%s: socket #%d is still open although sockets %v are the two newest (open now: %v): more sockets stay open between hops than the pair",
				stage, id, vfC19Keys(want), open)
			break
		}
	}
	if len(open) > 2 {
		x.viol("udphop:more-than-two-open", "%s: %d sockets open between hops: %v", stage, len(open), open)
	}
	for id := range want {
		found := false
		for _, o := range open {
			found = found || o == id
		}
		if !found {
			which := "current"
			if prev != nil && id == prev.id {
				which = "previous"
			}
			x.viol("udphop:live-socket-closed:"+which, "%s: the %s socket #%d is closed although no later socket creation succeeded (open now: %v)", stage, which, id, open)
		}
	}
	return
}

func vfC19Keys(m map[int]bool) []int {
	var l []int
	for k := range m {
		l = append(l, k)
	}
	sort.Ints(l)
	return l
}

// round: writes must leave via the newest socket to server:port-of-set; packets injected on the
// previous and the current socket must come out of ReadFrom.
func (x *vfC19Run) round(stage string) {
	cur, prev := x.census(stage)
	if cur == nil {
		return
	}
	x.writes(stage, cur)
	x.inbound(stage, cur, prev)
}

// writes: every WriteTo must leave exactly once via the newest socket to server:port-of-set.
func (x *vfC19Run) writes(stage string, cur *vfC19Sock) {
	for i := 0; i < 2; i++ {
		x.seq++
		tag := fmt.Sprintf("w|%s|%d", x.h.CaseID, x.seq)
		before := x.net.sentLen()
		n, err := x.u.WriteTo([]byte(tag), x.u.Addr)
		recs := x.net.sentFrom(before)
		x.k.Count("ev_writes_checked", 1)
		if err != nil || n != len(tag) {
			x.viol("udphop:write-failed-while-open", "%s: WriteTo returned (%d, %v) on an open hop connection", stage, n, err)
			continue
		}
		if len(recs) != 1 {
			x.viol("udphop:write-not-sent-once", "%s: one WriteTo produced %d socket writes: %+v", stage, len(recs), recs)
			continue
		}
		rec := recs[0]
		if rec.Sock != cur.id {
			x.viol("udphop:write-not-via-newest-socket", "%s: WriteTo left via socket #%d, the newest socket is #%d", stage, rec.Sock, cur.id)
		}
		if !rec.UDP || !net.ParseIP(rec.IP).Equal(x.h.pc.ip) {
			x.viol("udphop:write-wrong-ip", "%s: WriteTo went to %s:%d, the server IP is %v", stage, rec.IP, rec.Port, x.h.pc.ip)
		} else if !x.h.pc.has(rec.Port) {
			x.viol("udphop:write-port-outside-set", "%s: WriteTo went to port %d which is not in %q", stage, rec.Port, x.h.Ports)
		}
		if rec.Tag != tag {
			x.viol("udphop:write-payload-changed", "%s: payload %q was sent as %q", stage, tag, rec.Tag)
		}
	}
}

// inbound: packets injected on the previous and on the current socket must come out of ReadFrom.
func (x *vfC19Run) inbound(stage string, cur, prev *vfC19Sock) {
	want := map[string]string{}
	inj := func(s *vfC19Sock, which string) {
		if s == nil {
			return
		}
		x.seq++
		tag := fmt.Sprintf("r|%s|%d|%s#%d", x.h.CaseID, x.seq, which, s.id)
		if s.inject([]byte(tag)) {
			want[tag] = which
		} // a closed socket was already reported by the census
	}
	// order of injection varies; both must arrive
	if x.r.Intn(2) == 0 {
		inj(prev, "previous")
		inj(cur, "current")
	} else {
		inj(cur, "current")
		inj(prev, "previous")
	}
	synctest.Wait()
	results, _ := x.readN(len(want))
	for _, res := range results {
		x.k.Count("ev_reads_checked", 1)
		if res.err != nil {
			x.viol("udphop:read-error-while-open", "%s: ReadFrom failed with %v while %d injected packet(s) were outstanding", stage, res.err, len(want))
			break
		}
		if _, ok := want[string(res.data)]; !ok {
			x.viol("udphop:unexpected-packet", "%s: ReadFrom returned %q which is not an outstanding injected packet", stage, res.data)
			continue
		}
		x.k.Count("ev_delivered_"+want[string(res.data)], 1)
		delete(want, string(res.data))
	}
	for tag, which := range want {
		x.viol("udphop:packet-lost:"+which+"-socket", "%s: packet %q injected on the open %s socket before the next hop was never returned by ReadFrom", stage, tag, which)
	}
}

func (x *vfC19Run) wantDeadlineStep() bool {
	if x.dlSteps >= 8 { // each step costs > 1000 reads (the receive loops fill the queue with timeout results)
		return false
	}
	switch x.h.DeadlineMode {
	case 1:
		return x.r.Intn(6) == 0
	case 2:
		return true
	}
	return false
}

func vfC19IsTimeout(err error) bool {
	var ne net.Error
	return err != nil && errors.As(err, &ne) && ne.Timeout()
}

// deadlineStep lets a read deadline expire between two hops and then extends/clears it:
//   - a ReadFrom with an expired deadline must fail with a timeout error (net.Error, Timeout()),
//     without blocking and without inventing data;
//   - once the deadline is extended or cleared and the stale timeout results have been read, the
//     connection must work as before: packets arriving on the previous AND the current socket
//     are delivered, writes leave via the newest socket (x.round).
//
// It may spend at most maxSleep of virtual time (returns what it spent). Packets are injected only
// after the caller has read the queue empty, so the documented "queue full -> drop" path is not
// involved in any verdict here.
func (x *vfC19Run) deadlineStep(stage string, maxSleep time.Duration) (spent time.Duration) {
	k, u := x.k, x.u
	k.Count("ev_deadline_steps", 1)
	x.dlSteps++
	stage += " / read deadline"
	set := func(t time.Time) {
		var err error
		if x.r.Intn(3) == 0 {
			err = u.SetDeadline(t)
		} else {
			err = u.SetReadDeadline(t)
		}
		if err != nil {
			x.viol("udphop:set-deadline-failed-while-open", "%s: setting the deadline on an open hop connection failed: %v", stage, err)
		}
	}
	judge := func(res []vfC19ReadRes, what string) (timeouts int) {
		for _, r := range res {
			switch {
			case vfC19IsTimeout(r.err):
				timeouts++
			case r.err != nil:
				x.viol("udphop:read-error-while-open", "%s: %s: ReadFrom failed with %v (not a timeout) on an open connection", stage, what, r.err)
			default:
				x.viol("udphop:unexpected-packet", "%s: %s: ReadFrom returned %q although nothing was injected", stage, what, r.data)
			}
		}
		return
	}
	if maxSleep >= 1 && x.r.Intn(3) != 0 {
		// a reader is blocked on the empty queue, the deadline lies ahead and expires
		d := 1 + time.Duration(x.r.Int63n(int64(maxSleep)))
		x.rd.start(1)
		synctest.Wait()
		set(time.Now().Add(d))
		synctest.Wait()
		if !x.rd.busy.Load() {
			judge(x.rd.drain(), "before the deadline")
			x.viol("udphop:read-returned-without-packet", "%s: ReadFrom returned %v before its deadline although nothing was received", stage, d)
		}
		time.Sleep(d)
		spent = d
		synctest.Wait()
		if x.rd.busy.Load() {
			x.viol("udphop:expired-deadline-read-does-not-time-out", "%s: a ReadFrom blocked since before the deadline is still blocked after the read deadline (+%v) passed", stage, d)
			x.rd.abort()
			x.rd.drain()
		} else if judge(x.rd.drain(), "at the deadline") == 1 {
			k.Count("ev_blocked_read_timed_out", 1)
		}
	} else {
		// deadline already in the past when it is set (what quic-go does to unblock its reader)
		set(time.Now().Add(-time.Duration(1 + x.r.Int63n(int64(time.Second)))))
		synctest.Wait()
	}
	// further reads with the expired deadline: timeout errors, never blocking
	n := 1 + x.r.Intn(3)
	res, blocked := x.readN(n)
	if blocked {
		x.viol("udphop:expired-deadline-read-does-not-time-out", "%s: ReadFrom blocks although the read deadline has passed (read #%d)", stage, len(res)+1)
	}
	k.Count("ev_expired_reads_timed_out", int64(judge(res, "with an expired deadline")))
	// extend or clear
	if x.r.Intn(2) == 0 {
		set(time.Time{})
	} else {
		set(x.far)
	}
	synctest.Wait()
	// the caller reads on: stale timeout results are allowed, then the read must block (nothing was injected)
	const maxReads = 6000 // > queue size + sockets; a connection that still reports timeouts after that is not working
	x.rd.start(maxReads)
	synctest.Wait()
	if x.rd.busy.Load() {
		x.rd.abort()
		k.Count("stale_timeouts_after_extension", int64(judge(x.rd.drain(), "after the deadline was extended")))
	} else {
		judge(x.rd.drain(), "after the deadline was extended")
		x.viol("udphop:timeouts-after-deadline-extended", "%s: %d consecutive reads failed after the read deadline was extended/cleared; the connection does not resume", stage, maxReads)
		return
	}
	x.round(stage + " expired, then extended")
	return
}

func (x *vfC19Run) run(t *testing.T) {
	k, h := x.k, x.h
	x.r = rand.New(rand.NewSource(h.VSeed))
	x.net = vfC19NewNet(func(idx int) bool { return h.fail[idx] })
	x.net.closeErr = h.VSeed%3 == 0
	addr := vfC19Resolve(k, h.pc, h)
	if addr == nil {
		return
	}
	t0 := time.Now()
	pcn, err := NewUDPHopPacketConn(addr, HopIntervalConfig{Min: time.Duration(h.MinNs), Max: time.Duration(h.MaxNs)}, x.net.listen)
	if err != nil {
		t.Fatalf("C19 harness: constructor failed on a valid configuration: %v", err)
	}
	x.u = pcn.(*udpHopPacketConn)
	<-x.net.hopCh // creation #0
	x.rd = &vfC19Reader{u: x.u, req: make(chan int), res: make(chan vfC19ReadRes, 1024)}
	go x.rd.loop()
	min, max := x.effI[0], x.effI[1]
	defer x.cleanup()

	// far: a read deadline that cannot expire before the history is over
	x.far = t0.Add(time.Duration(h.Hops+8)*max + time.Hour)
	synctest.Wait()
	x.round("before the first hop")
	last := t0
	sleptInInterval := time.Duration(0)
	if x.wantDeadlineStep() {
		sleptInInterval += x.deadlineStep("before the first hop", (min-1)/2)
		if got := len(x.net.attemptsCopy()); got != 1 {
			x.viol("udphop:hop-gap-outside-interval", "a hop attempt happened %v after construction, before the minimum interval %v", sleptInInterval, min)
			return
		}
	}
	for hop := 1; hop <= h.Hops; hop++ {
		idx := <-x.net.hopCh
		synctest.Wait()
		now := time.Now()
		if idx != hop {
			t.Fatalf("C19 harness: expected creation #%d, saw #%d", hop, idx)
		}
		k.Count("ev_hop_attempts", 1)
		if h.fail[hop] {
			k.Count("ev_hop_creation_failed", 1)
		}
		gap := now.Sub(last)
		last = now
		if gap < min || gap > max {
			x.viol("udphop:hop-gap-outside-interval", "hop attempt #%d came %v after the previous one; configured interval is [%v, %v]", hop, gap, min, max)
		}
		stage := fmt.Sprintf("after hop attempt #%d (creation %s)", hop, map[bool]string{true: "failed", false: "succeeded"}[h.fail[hop]])
		x.round(stage)
		sleptInInterval = 0
		early := func() bool {
			if got := len(x.net.attemptsCopy()); got != hop+1 {
				x.viol("udphop:hop-gap-outside-interval", "a hop attempt happened %v after attempt #%d, before the minimum interval %v", sleptInInterval, hop, min)
				return true
			}
			return false
		}
		// everything between two hops must fit below the minimum interval: budget = min-1
		if x.wantDeadlineStep() {
			sleptInInterval += x.deadlineStep(stage, (min-1)/2)
			if early() {
				return
			}
		}
		if h.MidRounds || x.r.Intn(4) == 0 {
			d := 1 + time.Duration(x.r.Int63n(int64(min-1-sleptInInterval)))
			time.Sleep(d)
			sleptInInterval += d
			synctest.Wait()
			if early() {
				return
			}
			x.round(stage + fmt.Sprintf(" +%v", sleptInInterval))
			if x.wantDeadlineStep() && min-1-sleptInInterval > 2 {
				sleptInInterval += x.deadlineStep(stage+fmt.Sprintf(" +%v", sleptInInterval), (min-1-sleptInInterval)/2)
				if early() {
					return
				}
			}
		}
	}
	x.closePhase(min, max, sleptInInterval)
}

func (x *vfC19Run) closePhase(min, max, slept time.Duration) {
	k, h := x.k, x.h
	u := x.u
	// optionally leave packets in the receive queue
	pre := map[string]bool{}
	cur, prev := x.net.pair()
	for i := 0; i < h.PreQueued; i++ {
		s := cur
		if prev != nil && i%2 == 1 {
			s = prev
		}
		x.seq++
		tag := fmt.Sprintf("q|%s|%d#%d", h.CaseID, x.seq, s.id)
		if s.inject([]byte(tag)) {
			pre[tag] = true
		}
	}
	synctest.Wait()
	blockedReader := false
	if h.ReaderAtClose && h.PreQueued == 0 {
		blockedReader = true
		x.rd.start(1)
		synctest.Wait()
		if !x.rd.busy.Load() {
			for _, res := range x.rd.drain() {
				x.viol("udphop:read-returned-without-packet", "ReadFrom returned (%q, %v) although nothing was received and the connection is open", res.data, res.err)
			}
			blockedReader = false
		}
	}
	if h.CloseAtHop {
		// Min == Max here: the next hop fires exactly min after the last one; Close is issued on that instant.
		time.Sleep(min - slept)
	}
	var closeErr error
	if k.Guard("udphop:Close-panic", h, func() { closeErr = u.Close() }) {
		x.bad = true
	}
	_ = closeErr
	synctest.Wait()
	k.Count("ev_close_checked", 1)
	if blockedReader {
		if x.rd.busy.Load() {
			x.viol("udphop:close-does-not-unblock-reader", "a ReadFrom blocked on the empty queue is still blocked after Close returned")
			x.rd.abort()
		}
		for _, res := range x.rd.drain() {
			if res.err == nil {
				x.viol("udphop:read-returned-without-packet", "reader blocked at Close returned data %q although nothing was received", res.data)
			} else {
				k.Count("ev_reader_unblocked_by_close", 1)
			}
		}
	}
	x.closedCensus("right after Close")
	// a second Close must not close anything again (and must not panic)
	if k.Guard("udphop:second-Close-panic", h, func() { _ = u.Close() }) {
		x.bad = true
	}
	synctest.Wait()
	x.closedCensus("after a second Close")

	// reads: never block; only packets queued before Close may still come out
	results, blocked := x.readN(h.PreQueued + 3)
	if blocked {
		x.viol("udphop:read-blocks-after-close", "ReadFrom blocks after Close (read #%d, %d pre-queued packets outstanding)", len(results)+1, len(pre))
	}
	for _, res := range results {
		k.Count("ev_reads_after_close", 1)
		if res.err == nil {
			if !pre[string(res.data)] {
				x.viol("udphop:read-succeeds-after-close", "ReadFrom after Close returned %q which was not queued before Close", res.data)
			} else {
				delete(pre, string(res.data))
				k.Count("prequeued_returned_after_close", 1)
			}
		}
	}
	// packets arriving after Close must never be returned
	post := map[string]bool{}
	for _, s := range x.net.allSocks() {
		x.seq++
		tag := fmt.Sprintf("p|%s|%d#%d", h.CaseID, x.seq, s.id)
		post[tag] = true
		s.inject([]byte(tag))
	}
	synctest.Wait()
	results, blocked = x.readN(len(post) + len(pre) + 2)
	if blocked {
		x.viol("udphop:read-blocks-after-close", "ReadFrom blocks after Close (read #%d after packets were injected post-Close)", len(results)+1)
	}
	for _, res := range results {
		k.Count("ev_reads_after_close", 1)
		if res.err == nil {
			if post[string(res.data)] {
				x.viol("udphop:post-close-packet-returned", "packet %q arrived after Close and was returned by ReadFrom", res.data)
			} else if !pre[string(res.data)] {
				x.viol("udphop:read-succeeds-after-close", "ReadFrom after Close returned %q which was not queued before Close", res.data)
			} else {
				delete(pre, string(res.data))
			}
		}
	}
	// writes fail
	for i := 0; i < 2; i++ {
		before := x.net.sentLen()
		n, err := u.WriteTo([]byte("w-after-close|"+h.CaseID), u.Addr)
		k.Count("ev_writes_after_close", 1)
		if err == nil {
			x.viol("udphop:write-succeeds-after-close", "WriteTo after Close returned (%d, nil)", n)
		}
		if recs := x.net.sentFrom(before); len(recs) != 0 {
			x.viol("udphop:write-sent-after-close", "WriteTo after Close put a packet on socket #%d", recs[0].Sock)
		}
	}
	// nothing may be opened later: let several maximal intervals pass
	nAtt := len(x.net.attemptsCopy())
	time.Sleep(3*max + time.Second)
	synctest.Wait()
	x.closedCensus("3 intervals after Close")
	if got := len(x.net.attemptsCopy()); got > nAtt {
		k.Count("listen_calls_after_close", int64(got-nAtt))
	}
}

// closedCensus: every socket ever created is closed, by exactly one Close call.
func (x *vfC19Run) closedCensus(stage string) {
	for _, s := range x.net.allSocks() {
		s.mu.Lock()
		closed, calls := s.closed, s.closeCalls
		s.mu.Unlock()
		x.k.Count("ev_sockets_censused_after_close", 1)
		if !closed {
			x.viol("udphop:socket-open-after-close", "%s: socket #%d (of %d created) is still open", stage, s.id, len(x.net.allSocks()))
		} else if calls > 1 {
			x.viol("udphop:socket-closed-twice", "%s: socket #%d was closed %d times", stage, s.id, calls)
		}
	}
}

func (x *vfC19Run) forceCloseChan() {
	defer func() { _ = recover() }()
	select {
	case <-x.u.closeChan:
	default:
		close(x.u.closeChan)
	}
}

// cleanup makes sure the bubble can exit whatever the code under test did (it never judges).
func (x *vfC19Run) cleanup() {
	// First let every receive loop finish (sockets force-closed, queue emptied), so that nothing the
	// code under test may be waiting for is still parked; only then call Close, and only if the
	// connection mutex is free (a Close blocked on a mutex would hang the bubble in real time).
	for _, s := range x.net.allSocks() {
		s.forceClose()
	}
	x.drainQueue()
	if x.lockFree() {
		func() {
			defer func() { _ = recover() }()
			_ = x.u.Close()
		}()
	}
	x.forceCloseChan()
	if x.rd != nil {
		synctest.Wait()
		if x.rd.busy.Load() {
			x.rd.abort()
		}
		close(x.rd.req)
		if n := x.rd.overflow.Load(); n > 0 {
			x.k.Inconclusive(fmt.Sprintf("%s: %d read results beyond the harness buffer were not examined", x.h.CaseID, n))
		}
	}
	x.drainQueue()
}

// drainQueue empties the receive queue until it stays empty (harness cleanup only).
func (x *vfC19Run) drainQueue() {
	for i := 0; i < 8; i++ {
		synctest.Wait()
		n := 0
		for {
			select {
			case <-x.u.recvQueue:
				n++
				continue
			default:
			}
			break
		}
		if n == 0 && i > 0 {
			return
		}
	}
}

// lockFree reports whether the connection mutex can be taken right now. It is only meaningful at a
// quiescent point (after synctest.Wait()): there every goroutine of the bubble is durably blocked, so
// a held mutex means its holder is parked while holding it.
func (x *vfC19Run) lockFree() bool {
	if x.u.connMutex.TryLock() {
		x.u.connMutex.Unlock()
		return true
	}
	return false
}

func vfC19RunHist(k *vfKit, t *testing.T, h *vfC19Hist) {
	if rc := k.ReplayCase(); rc != "" && rc != h.CaseID {
		return
	}
	h.fail = map[int]bool{}
	for _, i := range h.Fail {
		h.fail[i] = true
	}
	min, max := time.Duration(h.MinNs), time.Duration(h.MaxNs)
	if min == 0 && max == 0 { // documented default: a fixed 30 s interval
		min, max = 30*time.Second, 30*time.Second
	}
	k.Eval()
	x := &vfC19Run{k: k, h: h, effI: [2]time.Duration{min, max}}
	synctest.Test(t, func(t *testing.T) { x.run(t) })
	if h.Hops > 0 {
		k.Nontrivial(fmt.Sprintf("%s|%s|%d|%d|%d|%v|%d|%v|%v|%v|%d", h.Host, h.Ports, h.MinNs, h.MaxNs, h.Hops, h.Fail, h.PreQueued, h.ReaderAtClose, h.CloseAtHop, h.MidRounds, h.DeadlineMode))
	}
}

type vfC19Interval struct{ min, max time.Duration }

var vfC19Intervals = []vfC19Interval{
	{5 * time.Second, 5 * time.Second},
	{5 * time.Second, 10 * time.Second},
	{0, 0}, // default
	{10 * time.Second, 30 * time.Second},
	{5 * time.Second, 5*time.Second + 1},
	{7 * time.Second, time.Hour},
	{30 * time.Second, 30 * time.Second},
	{12345678901, 23456789012},
}

// variant fills the Close/round options of a history from its own PRNG.
func vfC19Variant(r *rand.Rand, h *vfC19Hist, quick bool) {
	h.VSeed = r.Int63()
	switch r.Intn(4) {
	case 0:
		h.PreQueued = 1 + r.Intn(4)
	case 1, 2:
		h.ReaderAtClose = true
	}
	h.MidRounds = r.Intn(3) == 0
	// a deadline step costs > 2000 channel operations (the receive loops fill the 1024-slot queue
	// with timeout results), so the quick tier does fewer of them
	d := r.Intn(40)
	switch {
	case d == 0 || (!quick && d < 3):
		h.DeadlineMode = 2
	case d <= 6 || (!quick && d <= 24):
		h.DeadlineMode = 1
	}
	if h.MinNs == h.MaxNs && r.Intn(3) == 0 {
		h.CloseAtHop = true
	}
}

func TestVerifC19HopEnum(t *testing.T) {
	// The passes are split over two go test children (VERIF_C19_ENUM=a: even passes, b: odd passes)
	// so that they run in parallel; without the variable one child runs all of them.
	half := os.Getenv("VERIF_C19_ENUM")
	name := "hop-enum"
	if half != "" {
		name += "-" + half
	}
	k := vfNewKit(t, "C19", name)
	defer k.Finish()
	pcs := vfC19PortCfgs()
	passes := k.N(2, 24)
	const maxHops = 8
	mine := 0
	for pass := 0; pass < passes; pass++ {
		if (half == "a" && pass%2 != 0) || (half == "b" && pass%2 != 1) {
			continue
		}
		mine++
		r := k.Rand(fmt.Sprintf("enum/%d", pass))
		subsets := 0
		for n := 0; n <= maxHops; n++ {
			for mask := 0; mask < 1<<n; mask++ {
				iv := vfC19Intervals[r.Intn(len(vfC19Intervals))]
				pc := pcs[r.Intn(len(pcs))]
				h := &vfC19Hist{
					CaseID: fmt.Sprintf("enum/p%d/n%d/m%d", pass, n, mask),
					Host:   pc.Host, Ports: pc.Expr, pc: pc,
					MinNs: int64(iv.min), MaxNs: int64(iv.max), Hops: n,
				}
				for b := 0; b < n; b++ {
					if mask>>b&1 == 1 {
						h.Fail = append(h.Fail, b+1)
					}
				}
				vfC19Variant(r, h, k.Quick())
				vfC19RunHist(k, t, h)
				subsets++
				if (n == 3 && mask == 5) || (n == 8 && mask == 0xb6) {
					k.Sample(h)
				}
			}
		}
		if mine == 1 {
			k.Count("exhaustive_fault_subsets", int64(subsets))
			k.Count("exhaustive_max_hops", maxHops)
		}
	}
	k.Count("passes", int64(mine))
}

func TestVerifC19HopLong(t *testing.T) {
	k := vfNewKit(t, "C19", "hop-long")
	defer k.Finish()
	pcs := vfC19PortCfgs()
	r := k.Rand("long")
	n := k.N(60, 1500)
	for i := 0; i < n; i++ {
		hops := 9 + r.Intn(40)
		switch {
		case i%8 == 0:
			hops = 200
		case i%8 == 1:
			hops = 100 + r.Intn(100)
		}
		iv := vfC19Intervals[r.Intn(len(vfC19Intervals))]
		pc := pcs[r.Intn(len(pcs))]
		h := &vfC19Hist{
			CaseID: fmt.Sprintf("long/%d", i),
			Host:   pc.Host, Ports: pc.Expr, pc: pc,
			MinNs: int64(iv.min), MaxNs: int64(iv.max), Hops: hops,
		}
		// failure pattern: sparse, dense, bursts, all-but-few, alternating
		mode := r.Intn(5)
		burst := 0
		for a := 1; a <= hops; a++ {
			f := false
			switch mode {
			case 0:
				f = r.Intn(10) == 0
			case 1:
				f = r.Intn(2) == 0
			case 2:
				if burst > 0 {
					f = true
					burst--
				} else if r.Intn(8) == 0 {
					burst = 1 + r.Intn(9)
				}
			case 3:
				f = r.Intn(10) != 0
			default:
				f = a%2 == 0
			}
			if f {
				h.Fail = append(h.Fail, a)
			}
		}
		vfC19Variant(r, h, k.Quick())
		vfC19RunHist(k, t, h)
		if i < 2 {
			k.Sample(h)
		}
	}
	if k.ReplayCase() == "" {
		vfC19StaleTimeoutProbe(k, t, pcs[1])
	}
	// constructor edge: invalid interval configurations and a failing first socket leave nothing open
	bad := []HopIntervalConfig{{Min: 10 * time.Second}, {Max: 10 * time.Second}, {Min: 30 * time.Second, Max: 10 * time.Second},
		{Min: 4 * time.Second, Max: 6 * time.Second}, {Min: time.Nanosecond, Max: time.Nanosecond}}
	for i, c := range bad {
		for _, failFirst := range []bool{false, true} {
			cs := map[string]any{"case_id": fmt.Sprintf("ctor/%d/%v", i, failFirst), "min": c.Min, "max": c.Max, "first_creation_fails": failFirst}
			if rc := k.ReplayCase(); rc != "" && rc != cs["case_id"] {
				continue
			}
			if failFirst {
				c = HopIntervalConfig{Min: 5 * time.Second, Max: 6 * time.Second}
			}
			k.Eval()
			synctest.Test(t, func(t *testing.T) {
				nt := vfC19NewNet(func(idx int) bool { return failFirst && idx == 0 })
				a := vfC19Resolve(k, pcs[1], cs)
				if a == nil {
					return
				}
				pcn, err := NewUDPHopPacketConn(a, c, nt.listen)
				synctest.Wait()
				k.Count("ev_ctor_edge", 1)
				if err != nil {
					if open := nt.openIDs(); len(open) != 0 {
						k.Violation("udphop:ctor-error-leaks-socket", cs, "constructor returned %v but left sockets %v open", err, open)
					}
					for _, s := range nt.allSocks() {
						s.forceClose()
					}
					return
				}
				// accepted (not judged): it must still close down completely
				_ = pcn.Close()
				synctest.Wait()
				if open := nt.openIDs(); len(open) != 0 {
					k.Violation("udphop:socket-open-after-close", cs, "sockets %v open after Close", open)
				}
				for _, s := range nt.allSocks() {
					s.forceClose()
				}
			})
		}
	}
}

// vfC19StaleTimeoutProbe is an OBSERVATION, not a verdict. While a read deadline is expired each
// receive loop keeps re-reading its socket and pushes one timeout result per read into the shared
// receive queue until the queue (1024 slots) is full. If a packet arrives after the caller has
// extended the deadline but before the caller has read those stale results, the receive loop finds
// the queue full and drops the packet (the code's documented "queue is full, drop the packet" path).
// C19's delivery clause is checked only with packets that arrive after the stale results were read
// (deadlineStep); what happens in the other order is recorded here as counters and a sample.
func vfC19StaleTimeoutProbe(k *vfKit, t *testing.T, pc *vfC19PortCfg) {
	synctest.Test(t, func(t *testing.T) {
		h := &vfC19Hist{CaseID: "probe/stale-timeouts", Host: pc.Host, Ports: pc.Expr, pc: pc, MinNs: int64(5 * time.Second), MaxNs: int64(5 * time.Second), Hops: 1}
		x := &vfC19Run{k: k, h: h, r: rand.New(rand.NewSource(1))}
		x.net = vfC19NewNet(nil)
		addr := vfC19Resolve(k, pc, h)
		if addr == nil {
			return
		}
		pcn, err := NewUDPHopPacketConn(addr, HopIntervalConfig{Min: 5 * time.Second, Max: 5 * time.Second}, x.net.listen)
		if err != nil {
			t.Fatalf("C19 harness: %v", err)
		}
		x.u = pcn.(*udpHopPacketConn)
		x.rd = &vfC19Reader{u: x.u, req: make(chan int), res: make(chan vfC19ReadRes, 1024)}
		go x.rd.loop()
		defer x.cleanup()
		<-x.net.hopCh
		<-x.net.hopCh // hop #1 at t=5s: socket #0 is now the previous socket
		synctest.Wait()
		_, prev := x.net.pair()
		if prev == nil {
			return
		}
		_ = x.u.SetReadDeadline(time.Now().Add(-time.Second)) // expired
		synctest.Wait()
		queued := len(x.u.recvQueue)
		_ = x.u.SetReadDeadline(time.Time{}) // cleared
		synctest.Wait()
		tag := "probe-packet-on-previous-socket"
		prev.inject([]byte(tag))
		synctest.Wait()
		got, timeouts := false, 0
		for i := 0; i < 4; i++ { // one read at a time: every freed slot is refilled by a blocked receive loop
			res, blocked := x.readN(1)
			if blocked {
				break
			}
			for _, r := range res {
				if vfC19IsTimeout(r.err) {
					timeouts++
				} else if string(r.data) == tag {
					got = true
				}
			}
		}
		x.rd.start(6000)
		synctest.Wait()
		if x.rd.busy.Load() {
			x.rd.abort()
		}
		for _, r := range x.rd.drain() {
			if vfC19IsTimeout(r.err) {
				timeouts++
			} else if string(r.data) == tag {
				got = true
			}
		}
		k.Count("probe_timeout_results_queued_by_one_expired_deadline", int64(queued))
		k.Count("probe_stale_timeouts_read_after_deadline_cleared", int64(timeouts))
		if got {
			k.Count("probe_packet_before_stale_results_read_delivered", 1)
		} else {
			k.Count("probe_packet_before_stale_results_read_dropped", 1)
		}
		k.Sample(map[string]any{"observation": "not a verdict", "history": "hop #1 ok; SetReadDeadline(past); SetReadDeadline(zero); packet injected on previous socket; caller reads on",
			"timeout_results_in_queue": queued, "stale_timeouts_read": timeouts, "packet_delivered": got})
	})
}

// ---------------------------------------------------------------------------- expired deadline, nobody reads

// vfC19Idle: the caller sets a read deadline in the past and then stops calling ReadFrom (what a QUIC
// transport does when it shuts down). The receive loops fill the queue with timeout results and
// park. Hops must go on all the same (gap <= Max, census = the two newest sockets, writes via the
// newest socket), and Close must return and close every socket ever opened.
//
// "Never returns" is decided logically: (a) no hop attempt within Max of the previous one, or
// (b) at a quiescent point (synctest.Wait(): every goroutine of the bubble is durably blocked) the
// connection mutex is held - its holder is parked inside a critical section, so WriteTo/Close/the next
// hop can never get in - and it is still held three maximal intervals later with nobody touching the
// connection. WriteTo/Close are only called when the mutex is free (a goroutine blocked on a mutex is
// not durably blocked and would stall the bubble in real time).
type vfC19IdleCase struct {
	CaseID     string `json:"case_id"`
	Host       string `json:"host"`
	Ports      string `json:"ports"`
	MinNs      int64  `json:"interval_min_ns"`
	MaxNs      int64  `json:"interval_max_ns"`
	HopsBefore int    `json:"hops_before_deadline"`
	HopsAfter  int    `json:"hops_after_deadline_with_nobody_reading"`
	Fail       []int  `json:"failing_creation_indexes"`
	SetAtNs    int64  `json:"deadline_set_ns_after_last_hop"`
	UseSetDL   bool   `json:"via_SetDeadline"`
	VSeed      int64  `json:"variant_seed"`
}

func vfC19RunIdle(k *vfKit, t *testing.T, c *vfC19IdleCase, pc *vfC19PortCfg) {
	min, max := time.Duration(c.MinNs), time.Duration(c.MaxNs)
	fail := map[int]bool{}
	for _, i := range c.Fail {
		fail[i] = true
	}
	h := &vfC19Hist{CaseID: c.CaseID, Host: c.Host, Ports: c.Ports, pc: pc, MinNs: c.MinNs, MaxNs: c.MaxNs, Hops: c.HopsBefore + c.HopsAfter, Fail: c.Fail, fail: fail}
	x := &vfC19Run{k: k, h: h, r: rand.New(rand.NewSource(c.VSeed)), effI: [2]time.Duration{min, max}}
	x.net = vfC19NewNet(func(idx int) bool { return fail[idx] })
	addr := vfC19Resolve(k, pc, c)
	if addr == nil {
		return
	}
	viol := func(key, format string, args ...any) { k.Violation(key, c, format, args...) }
	t0 := time.Now()
	pcn, err := NewUDPHopPacketConn(addr, HopIntervalConfig{Min: min, Max: max}, x.net.listen)
	if err != nil {
		t.Fatalf("C19 harness: constructor failed on a valid configuration: %v", err)
	}
	x.u = pcn.(*udpHopPacketConn)
	<-x.net.hopCh
	x.rd = &vfC19Reader{u: x.u, req: make(chan int), res: make(chan vfC19ReadRes, 1024)}
	go x.rd.loop()
	defer x.cleanup()
	synctest.Wait()

	// stuck: the connection mutex is held at two quiescent points three maximal intervals apart.
	stuck := func(stage string) bool {
		if x.lockFree() {
			return false
		}
		before := len(x.net.attemptsCopy())
		time.Sleep(3*max + time.Second)
		synctest.Wait()
		if x.lockFree() {
			return false
		}
		viol("udphop:hop-or-close-never-returns", "%s: the connection mutex is held while every goroutine is parked, and still 3 intervals later (hop attempts in between: %d): a hop/Close/WriteTo never returns, so later WriteTo and Close calls block for good; open sockets now: %v",
			stage, len(x.net.attemptsCopy())-before, x.net.openIDs())
		return true
	}
	// nextHop waits for hop attempt #hop; it must come within Max of the previous attempt.
	last := t0
	nextHop := func(hop int) bool {
		deadline := time.NewTimer(time.Until(last.Add(max)) + 1)
		defer deadline.Stop()
		select {
		case idx := <-x.net.hopCh:
			synctest.Wait()
			if idx != hop {
				t.Fatalf("C19 harness: expected creation #%d, saw #%d", hop, idx)
			}
			now := time.Now()
			if gap := now.Sub(last); gap < min || gap > max {
				viol("udphop:hop-gap-outside-interval", "hop attempt #%d came %v after the previous one; configured interval is [%v, %v]", hop, gap, min, max)
			}
			last = now
			k.Count("ev_hop_attempts", 1)
			return true
		case <-deadline.C:
			synctest.Wait()
			viol("udphop:hop-or-close-never-returns", "no hop attempt #%d within the maximal interval %v after attempt #%d (mutex free: %v, open sockets: %v): the previous hop never returned or hopping stopped",
				hop, max, hop-1, x.lockFree(), x.net.openIDs())
			return false
		}
	}
	hop := 0
	for ; hop < c.HopsBefore; hop++ {
		if !nextHop(hop + 1) {
			return
		}
		x.round(fmt.Sprintf("after hop attempt #%d", hop+1))
	}
	// the caller sets an expired read deadline and stops reading
	if c.SetAtNs > 0 {
		time.Sleep(time.Duration(c.SetAtNs))
		synctest.Wait()
	}
	past := time.Now().Add(-time.Second)
	if c.UseSetDL {
		err = x.u.SetDeadline(past)
	} else {
		err = x.u.SetReadDeadline(past)
	}
	if err != nil {
		viol("udphop:set-deadline-failed-while-open", "setting a read deadline in the past on an open hop connection failed: %v", err)
	}
	synctest.Wait()
	k.Count("ev_idle_expired_deadline_set", 1)
	k.Count("idle_timeout_results_queued", int64(len(x.u.recvQueue)))
	for i := 0; i < c.HopsAfter; i++ {
		hop++
		if !nextHop(hop) {
			return
		}
		stage := fmt.Sprintf("after hop attempt #%d (expired read deadline, nobody reading)", hop)
		if stuck(stage) {
			return
		}
		cur, _ := x.census(stage)
		if cur != nil && !c.UseSetDL { // with SetDeadline the write deadline is expired too: writes are not judged
			x.writes(stage, cur)
		}
		k.Count("ev_idle_hops_checked", 1)
	}
	// Close, still with nobody reading
	if x.r.Intn(2) == 0 {
		time.Sleep(1 + time.Duration(x.r.Int63n(int64(min)-1)))
		synctest.Wait()
	}
	if stuck("before Close") {
		return
	}
	if k.Guard("udphop:Close-panic", c, func() { _ = x.u.Close() }) {
		return
	}
	synctest.Wait()
	k.Count("ev_close_checked", 1)
	if stuck("after Close") {
		return
	}
	x.closedCensus("after Close (expired read deadline, nobody reading)")
	before := x.net.sentLen()
	if _, err := x.u.WriteTo([]byte("w-after-close|"+c.CaseID), x.u.Addr); err == nil {
		viol("udphop:write-succeeds-after-close", "WriteTo after Close returned nil")
	}
	if recs := x.net.sentFrom(before); len(recs) != 0 {
		viol("udphop:write-sent-after-close", "WriteTo after Close put a packet on socket #%d", recs[0].Sock)
	}
	k.Count("ev_writes_after_close", 1)
	// reads: the queue holds stale timeout results; every read must fail, none may block
	post := map[string]bool{}
	for _, s := range x.net.allSocks() {
		tag := fmt.Sprintf("p|%s|#%d", c.CaseID, s.id)
		post[tag] = true
		s.inject([]byte(tag))
	}
	synctest.Wait()
	res, blocked := x.readN(1100)
	if blocked {
		viol("udphop:read-blocks-after-close", "ReadFrom blocks after Close (read #%d)", len(res)+1)
	}
	k.Count("ev_reads_after_close", 1)
	k.Count("idle_failed_reads_after_close", int64(len(res)))
	for _, r := range res {
		if r.err == nil {
			if post[string(r.data)] {
				viol("udphop:post-close-packet-returned", "packet %q arrived after Close and was returned by ReadFrom", r.data)
			} else {
				viol("udphop:read-succeeds-after-close", "ReadFrom after Close returned %q", r.data)
			}
		}
	}
	time.Sleep(3*max + time.Second)
	synctest.Wait()
	x.closedCensus("3 intervals after Close (expired read deadline, nobody reading)")
}

func TestVerifC19HopIdle(t *testing.T) {
	k := vfNewKit(t, "C19", "hop-idle")
	defer k.Finish()
	pcs := vfC19PortCfgs()
	passes := k.N(1, 12)
	for pass := 0; pass < passes; pass++ {
		r := k.Rand(fmt.Sprintf("idle/%d", pass))
		// every subset of failing creations for every (hops before, hops after) in {0,1,2} x {2,3,4}
		for hb := 0; hb <= 2; hb++ {
			for ha := 2; ha <= 4; ha++ {
				n := hb + ha
				for mask := 0; mask < 1<<n; mask++ {
					iv := vfC19Intervals[r.Intn(len(vfC19Intervals))]
					pc := pcs[r.Intn(len(pcs))]
					min, max := iv.min, iv.max
					if min == 0 {
						min, max = 30*time.Second, 30*time.Second
					}
					c := &vfC19IdleCase{
						CaseID: fmt.Sprintf("idle/p%d/b%d/a%d/m%d", pass, hb, ha, mask),
						Host:   pc.Host, Ports: pc.Expr, MinNs: int64(min), MaxNs: int64(max),
						HopsBefore: hb, HopsAfter: ha, UseSetDL: r.Intn(4) == 0, VSeed: r.Int63(),
					}
					if r.Intn(2) == 0 {
						c.SetAtNs = 1 + r.Int63n(int64(min)-1)
					}
					for b := 0; b < n; b++ {
						if mask>>b&1 == 1 {
							c.Fail = append(c.Fail, b+1)
						}
					}
					if rc := k.ReplayCase(); rc != "" && rc != c.CaseID {
						continue
					}
					k.Eval()
					synctest.Test(t, func(t *testing.T) { vfC19RunIdle(k, t, c, pc) })
					k.Nontrivial(fmt.Sprintf("%+v", *c))
					if mask == 0 && hb == 1 && ha == 2 {
						k.Sample(c)
					}
				}
			}
		}
	}
}

// ---------------------------------------------------------------------------- concurrency

type vfC19RaceCase struct {
	CaseID    string `json:"case_id"`
	Ports     string `json:"ports"`
	Fail      []int  `json:"failing_creation_indexes"`
	CloseTick int    `json:"close_at_tick"` // Close is issued at CloseTick * 5 s (+ CloseSkew ns): the instant of hop #CloseTick
	CloseSkew int64  `json:"close_skew_ns"`
	Closers   int    `json:"concurrent_close_calls"`
	Spin      int    `json:"listen_spin"`
	GridMs    int    `json:"worker_grid_ms"`
}

func TestVerifC19HopRace(t *testing.T) {
	k := vfNewKit(t, "C19", "hop-race")
	defer k.Finish()
	pcs := vfC19PortCfgs()
	r := k.Rand("race")
	n := k.N(400, 6000)
	for i := 0; i < n; i++ {
		pc := pcs[r.Intn(len(pcs))]
		c := &vfC19RaceCase{
			CaseID: fmt.Sprintf("race/%d", i), Ports: pc.Expr,
			CloseTick: 2 + r.Intn(10), CloseSkew: []int64{0, 0, 0, -1, 1}[r.Intn(5)],
			Closers: 1 + r.Intn(3), Spin: []int{0, 3, 20, 100}[r.Intn(4)],
			GridMs: []int{5000, 2500, 1000, 5000}[r.Intn(4)],
		}
		fail := map[int]bool{}
		for a := 1; a <= c.CloseTick+1; a++ {
			if r.Intn(3) == 0 {
				fail[a] = true
				c.Fail = append(c.Fail, a)
			}
		}
		seed := r.Int63()
		if rc := k.ReplayCase(); rc != "" && rc != c.CaseID {
			continue
		}
		k.Eval()
		synctest.Test(t, func(t *testing.T) { vfC19RaceScenario(k, t, c, pc, fail, seed) })
		k.Nontrivial(fmt.Sprintf("%+v", *c))
		if i < 2 {
			k.Sample(c)
		}
	}
}

func vfC19RaceScenario(k *vfKit, t *testing.T, c *vfC19RaceCase, pc *vfC19PortCfg, fail map[int]bool, seed int64) {
	const hopEvery = 5 * time.Second
	nt := vfC19NewNet(func(idx int) bool { return fail[idx] })
	nt.spin = c.Spin
	addr := vfC19Resolve(k, pc, c)
	if addr == nil {
		return
	}
	pcn, err := NewUDPHopPacketConn(addr, HopIntervalConfig{Min: hopEvery, Max: hopEvery}, nt.listen)
	if err != nil {
		t.Fatalf("C19 harness: constructor failed: %v", err)
	}
	u := pcn.(*udpHopPacketConn)
	<-nt.hopCh
	grid := time.Duration(c.GridMs) * time.Millisecond
	closeAt := time.Duration(c.CloseTick)*hopEvery + time.Duration(c.CloseSkew)

	var closeReturned atomic.Bool // some Close call has returned
	var closeStarted atomic.Bool
	done := make(chan struct{}) // stops setters / injector
	var wg sync.WaitGroup
	var readersExited, writersExited atomic.Int32

	var injMu sync.Mutex
	injected := map[string]bool{} // tag -> injected after Close started
	delivered := map[string]int{} // tag -> times returned
	viol := func(key, format string, args ...any) { k.Violation(key, c, format, args...) }

	// readers
	const nReaders, nWriters = 2, 2
	for g := 0; g < nReaders; g++ {
		wg.Add(1)
		go func() {
			defer wg.Done()
			defer readersExited.Add(1)
			buf := make([]byte, 128)
			for {
				n, _, err := u.ReadFrom(buf)
				k.Count("ev_race_reads", 1)
				if err != nil {
					var ne net.Error
					if errors.As(err, &ne) && ne.Timeout() {
						continue
					}
					return
				}
				tag := string(buf[:n])
				injMu.Lock()
				post, known := injected[tag]
				delivered[tag]++
				injMu.Unlock()
				if !known {
					viol("udphop:unexpected-packet", "ReadFrom returned %q which was never injected", tag)
				} else if post {
					viol("udphop:post-close-packet-returned", "packet %q was injected after Close had returned and came out of ReadFrom", tag)
				} else {
					k.Count("ev_race_delivered", 1)
				}
			}
		}()
	}
	// writers
	for g := 0; g < nWriters; g++ {
		wg.Add(1)
		go func(g int) {
			defer wg.Done()
			defer writersExited.Add(1)
			for i := 0; ; i++ {
				cur0, prev0 := nt.pair()
				floor := cur0.id
				if prev0 != nil {
					floor = prev0.id // a creation may be in progress: the socket before it is still legitimate
				}
				closedBefore := closeReturned.Load()
				tag := fmt.Sprintf("w|%s|%d|%d", c.CaseID, g, i)
				_, err := u.WriteTo([]byte(tag), u.Addr)
				k.Count("ev_race_writes", 1)
				if err != nil {
					if !closeStarted.Load() {
						viol("udphop:write-failed-while-open", "WriteTo failed with %v before any Close was issued", err)
					}
					return
				}
				if closedBefore {
					viol("udphop:write-succeeds-after-close", "WriteTo succeeded although Close had already returned")
					return
				}
				// find my record
				var rec *vfC19Sent
				nt.mu.Lock()
				for j := len(nt.sent) - 1; j >= 0; j-- {
					if nt.sent[j].Tag == tag {
						x := nt.sent[j]
						rec = &x
						break
					}
				}
				nt.mu.Unlock()
				switch {
				case rec == nil:
					viol("udphop:write-not-sent-once", "WriteTo(%q) returned success but no socket saw the packet", tag)
				case rec.Sock < floor:
					viol("udphop:write-not-via-newest-socket", "WriteTo left via socket #%d although socket #%d had been installed before the call", rec.Sock, floor)
				case !rec.UDP || !net.ParseIP(rec.IP).Equal(pc.ip):
					viol("udphop:write-wrong-ip", "WriteTo went to %s:%d, server IP is %v", rec.IP, rec.Port, pc.ip)
				case !pc.has(rec.Port):
					viol("udphop:write-port-outside-set", "WriteTo went to port %d, not in %q", rec.Port, pc.Expr)
				}
				time.Sleep(grid)
			}
		}(g)
	}
	// setters and other calls that take the connection mutex
	wg.Add(1)
	go func() {
		defer wg.Done()
		rr := rand.New(rand.NewSource(seed))
		for i := 0; ; i++ {
			select {
			case <-done:
				return
			default:
			}
			far := time.Now().Add(24 * time.Hour) // recorded by the fakes, never expires inside a scenario
			switch rr.Intn(8) {
			case 0:
				_ = u.SetDeadline(far)
			case 1:
				_ = u.SetReadDeadline(far)
			case 2:
				_ = u.SetWriteDeadline(far)
			case 3:
				_ = u.SetReadBuffer(1 << (10 + rr.Intn(8)))
			case 4:
				_ = u.SetWriteBuffer(1 << (10 + rr.Intn(8)))
			case 5:
				_ = u.LocalAddr()
			case 6:
				_, _ = u.SyscallConn()
			default:
				_ = u.SetDeadline(time.Time{})
			}
			k.Count("ev_race_setcalls", 1)
			time.Sleep(grid)
		}
	}()
	// injector: tagged packets on the two newest sockets at every grid instant
	wg.Add(1)
	go func() {
		defer wg.Done()
		for i := 0; ; i++ {
			select {
			case <-done:
				return
			default:
			}
			cur, prev := nt.pair()
			for j, s := range []*vfC19Sock{cur, prev} {
				if s == nil {
					continue
				}
				tag := fmt.Sprintf("r|%s|%d|%d#%d", c.CaseID, i, j, s.id)
				injMu.Lock()
				injected[tag] = closeReturned.Load()
				injMu.Unlock()
				s.inject([]byte(tag))
				k.Count("ev_race_injected", 1)
			}
			time.Sleep(grid)
		}
	}()
	// closers
	closedCh := make(chan struct{})
	var closeOnce sync.Once
	for g := 0; g < c.Closers; g++ {
		wg.Add(1)
		go func() {
			defer wg.Done()
			time.Sleep(closeAt)
			closeStarted.Store(true)
			k.Guard("udphop:Close-panic", c, func() { _ = u.Close() })
			closeReturned.Store(true)
			closeOnce.Do(func() { close(closedCh) })
		}()
	}

	// monitor: census at every quiescent point after a hop attempt
	strictWrite := func(stage string) {
		cur, _ := nt.pair()
		before := nt.sentLen()
		tag := fmt.Sprintf("m|%s|%s", c.CaseID, stage)
		if _, err := u.WriteTo([]byte(tag), u.Addr); err != nil {
			viol("udphop:write-failed-while-open", "%s: WriteTo failed with %v", stage, err)
			return
		}
		for _, rec := range nt.sentFrom(before) {
			if rec.Tag == tag && rec.Sock != cur.id {
				viol("udphop:write-not-via-newest-socket", "%s (quiescent): WriteTo left via socket #%d, newest is #%d", stage, rec.Sock, cur.id)
			}
		}
	}
loop:
	for {
		select {
		case idx := <-nt.hopCh:
			synctest.Wait()
			k.Count("ev_race_hop_attempts", 1)
			if closeReturned.Load() || closeStarted.Load() {
				continue
			}
			cur, prev := nt.pair()
			open := nt.openIDs()
			want := map[int]bool{cur.id: true}
			if prev != nil {
				want[prev.id] = true
			}
			if len(open) != len(want) {
				viol("udphop:census-under-load", "after hop attempt #%d: open sockets %v, expected exactly %v", idx, open, vfC19Keys(want))
			} else {
				for _, id := range open {
					if !want[id] {
						viol("udphop:census-under-load", "after hop attempt #%d: open sockets %v, expected exactly %v", idx, open, vfC19Keys(want))
						break
					}
				}
			}
			k.Count("ev_census_checks", 1)
			strictWrite(fmt.Sprintf("after hop attempt #%d", idx))
		case <-closedCh:
			break loop
		}
	}
	synctest.Wait()
	// after Close: all workers that depend on the connection must have ended
	stuck := false
	if got := readersExited.Load(); got != nReaders {
		stuck = true
		viol("udphop:close-does-not-unblock-reader", "%d of %d readers are still inside ReadFrom after Close returned", nReaders-int(got), nReaders)
	}
	time.Sleep(grid + time.Second) // writers asleep at Close time wake up and must fail
	synctest.Wait()
	if got := writersExited.Load(); got != nWriters {
		viol("udphop:write-succeeds-after-close", "%d of %d writers are still running one grid step after Close", nWriters-int(got), nWriters)
	}
	if stuck {
		func() {
			defer func() { _ = recover() }()
			select {
			case <-u.closeChan:
			default:
				close(u.closeChan)
			}
		}()
	}
	for _, s := range nt.allSocks() {
		s.mu.Lock()
		closed, calls := s.closed, s.closeCalls
		s.mu.Unlock()
		k.Count("ev_sockets_censused_after_close", 1)
		if !closed {
			viol("udphop:socket-open-after-close", "socket #%d still open after Close under load", s.id)
		} else if calls > 1 {
			viol("udphop:socket-closed-twice", "socket #%d was closed %d times (%d concurrent Close calls)", s.id, calls, c.Closers)
		}
	}
	if _, err := u.WriteTo([]byte("late"), u.Addr); err == nil {
		viol("udphop:write-succeeds-after-close", "WriteTo after Close returned nil")
	}
	time.Sleep(3 * hopEvery)
	synctest.Wait()
	close(done)
	for _, s := range nt.allSocks() {
		if !s.isClosed() {
			viol("udphop:socket-open-after-close", "socket #%d open three intervals after Close", s.id)
		}
		s.forceClose()
	}
	for i := 0; i < 4; i++ {
		synctest.Wait()
		for {
			select {
			case <-u.recvQueue:
				continue
			default:
			}
			break
		}
	}
	wg.Wait()
	injMu.Lock()
	k.Count("race_packets_delivered_distinct", int64(len(delivered)))
	injMu.Unlock()
}
