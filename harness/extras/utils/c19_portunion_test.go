//go:build verif

package utils

// C19 (part a) — a port expression denotes exactly the union of its listed ports and ranges.
//
// Reference model (written from the doc comments of portunion.go, the table in
// portunion_test.go and the documented syntax "1234,5000-6000,7044" / "all" / "*";
// NOT from the parsing code):
//
//   expr   := "all" | "*" | item ("," item)*
//   item   := PORT | PORT "-" PORT            (a range is inclusive; reversed bounds are swapped)
//   PORT   := decimal number 0..65535
//   anything else is invalid and must yield nil.
//
// Three classes are produced by the reference:
//   valid      canonical strings of the grammar above (no whitespace, no sign, no leading
//              zeros): the implementation MUST accept and the port set must be equal.
//   invalid    empty string / empty item / missing bound / more than one "-" in an item /
//              a character that is neither digit, "-", "," (nor whitespace, "+") / a number
//              above 65535: the implementation MUST return nil.
//   ambiguous  strings the documentation does not settle (whitespace around tokens, leading
//              zeros, "+" sign, "ALL", a wildcard inside a list): accept/reject is NOT
//              judged; if the implementation accepts, the set must equal the lenient reading.
//
// Oracles per expression: accept/reject by class; Ports() as a set over all 65 536 ports ==
// reference set; Ports() has no duplicates; the documented normal form (sorted, Start<=End,
// non-overlapping); Contains() agrees with the reference (boundary ports for every expression,
// all 65 536 ports for a sub-sample).

import (
	"fmt"
	"math/bits"
	"math/rand"
	"strconv"
	"strings"
	"sync"
	"testing"
)

const (
	vfC19Invalid   = 0
	vfC19Valid     = 1
	vfC19Ambiguous = 2
)

// vfC19Set is a set of ports (bitset) plus the bounds of the items it was built from.
type vfC19Set struct {
	w     [1024]uint64
	edges []int
}

func (s *vfC19Set) clear()         { s.w = [1024]uint64{}; s.edges = s.edges[:0] }
func (s *vfC19Set) has(p int) bool { return s.w[p>>6]>>(uint(p)&63)&1 == 1 }
func (s *vfC19Set) fill(lo, hi int) {
	s.edges = append(s.edges, lo, hi)
	for p := lo; p <= hi; {
		if p&63 == 0 && p+63 <= hi {
			s.w[p>>6] = ^uint64(0)
			p += 64
			continue
		}
		s.w[p>>6] |= 1 << (uint(p) & 63)
		p++
	}
}
func (s *vfC19Set) count() int {
	n := 0
	for _, w := range s.w {
		n += bits.OnesCount64(w)
	}
	return n
}

func vfC19IsSpace(c byte) bool {
	return c == ' ' || c == '\t' || c == '\n' || c == '\r' || c == '\v' || c == '\f'
}

func vfC19Trim(s string) string {
	for len(s) > 0 && vfC19IsSpace(s[0]) {
		s = s[1:]
	}
	for len(s) > 0 && vfC19IsSpace(s[len(s)-1]) {
		s = s[:len(s)-1]
	}
	return s
}

// vfC19Number reads one PORT token. ok=false: not a port number at all.
// strict=false: readable only under the lenient reading.
func vfC19Number(tok string) (v int, strict bool, ok bool) {
	strict = true
	t := vfC19Trim(tok)
	if t != tok {
		strict = false
	}
	if len(t) > 0 && t[0] == '+' {
		strict = false
		t = t[1:]
	}
	if t == "" {
		return 0, false, false
	}
	for i := 0; i < len(t); i++ {
		if t[i] < '0' || t[i] > '9' {
			return 0, false, false
		}
	}
	if len(t) > 1 && t[0] == '0' {
		strict = false
		for len(t) > 1 && t[0] == '0' {
			t = t[1:]
		}
	}
	if len(t) > 5 {
		return 0, false, false
	}
	for i := 0; i < len(t); i++ {
		v = v*10 + int(t[i]-'0')
	}
	if v > 65535 {
		return 0, false, false
	}
	return v, strict, true
}

// vfC19RefParse is the reference reading of a port expression.
func vfC19RefParse(s string, set *vfC19Set) int {
	set.clear()
	if s == "all" || s == "*" {
		set.fill(0, 65535)
		return vfC19Valid
	}
	strict := true
	rest := s
	last := false
	for {
		var item string
		if i := strings.IndexByte(rest, ','); i >= 0 {
			item, rest = rest[:i], rest[i+1:]
		} else {
			item, last = rest, true
		}
		it := vfC19Trim(item)
		if it != item {
			strict = false
		}
		if it == "" {
			return vfC19Invalid
		}
		if it == "*" || strings.EqualFold(it, "all") {
			// wildcard inside a list, with other case or with blanks: not settled by the docs
			strict = false
			set.fill(0, 65535)
		} else {
			dash := strings.IndexByte(it, '-')
			if dash < 0 {
				v, st, ok := vfC19Number(it)
				if !ok {
					return vfC19Invalid
				}
				strict = strict && st
				set.fill(v, v)
			} else {
				a, b := it[:dash], it[dash+1:]
				if strings.IndexByte(b, '-') >= 0 {
					return vfC19Invalid
				}
				lo, st1, ok1 := vfC19Number(a)
				hi, st2, ok2 := vfC19Number(b)
				if !ok1 || !ok2 {
					return vfC19Invalid
				}
				strict = strict && st1 && st2
				if lo > hi {
					lo, hi = hi, lo
				}
				set.fill(lo, hi)
			}
		}
		if last {
			break
		}
	}
	if strict {
		return vfC19Valid
	}
	return vfC19Ambiguous
}

// ---------------------------------------------------------------------------- generator

var vfC19Edges = []int{0, 1, 2, 3, 9, 10, 79, 80, 81, 99, 100, 255, 256, 1023, 1024, 1025, 9999, 10000,
	32767, 32768, 49151, 49152, 65530, 65531, 65532, 65533, 65534, 65535}

type vfC19Range struct{ lo, hi int }

func vfC19Clamp(v int) int {
	if v < 0 {
		return 0
	}
	if v > 65535 {
		return 65535
	}
	return v
}

func vfC19Pick(r *rand.Rand) int {
	switch r.Intn(4) {
	case 0:
		return vfC19Edges[r.Intn(len(vfC19Edges))]
	case 1:
		return r.Intn(200) // crowded low area: many collisions
	case 2:
		return 65535 - r.Intn(40)
	}
	return r.Intn(65536)
}

// vfC19NextRange makes a range that stands in a chosen relation to an earlier one.
func vfC19NextRange(r *rand.Rand, prev []vfC19Range) (vfC19Range, string) {
	fresh := func() vfC19Range {
		a := vfC19Pick(r)
		var b int
		switch r.Intn(4) {
		case 0:
			b = a
		case 1:
			b = a + r.Intn(6)
		case 2:
			b = a + r.Intn(3000)
		default:
			b = vfC19Pick(r)
		}
		b = vfC19Clamp(b)
		if a > b {
			a, b = b, a
		}
		return vfC19Range{a, b}
	}
	if len(prev) == 0 || r.Intn(5) == 0 {
		return fresh(), "fresh"
	}
	p := prev[r.Intn(len(prev))]
	w := r.Intn(40)
	switch r.Intn(11) {
	case 0: // adjacent above
		return vfC19Range{vfC19Clamp(p.hi + 1), vfC19Clamp(p.hi + 1 + w)}, "adj-above"
	case 1: // adjacent below
		return vfC19Range{vfC19Clamp(p.lo - 1 - w), vfC19Clamp(p.lo - 1)}, "adj-below"
	case 2: // gap of exactly one port above (must NOT be merged into one set)
		return vfC19Range{vfC19Clamp(p.hi + 2), vfC19Clamp(p.hi + 2 + w)}, "gap1-above"
	case 3: // gap of exactly one port below
		return vfC19Range{vfC19Clamp(p.lo - 2 - w), vfC19Clamp(p.lo - 2)}, "gap1-below"
	case 4: // overlapping above
		s := p.lo + r.Intn(p.hi-p.lo+1)
		return vfC19Range{s, vfC19Clamp(p.hi + 1 + w)}, "overlap-above"
	case 5: // overlapping below
		e := p.lo + r.Intn(p.hi-p.lo+1)
		return vfC19Range{vfC19Clamp(p.lo - 1 - w), e}, "overlap-below"
	case 6: // contained (strictly smaller end where possible)
		s := p.lo + r.Intn(p.hi-p.lo+1)
		e := s + r.Intn(p.hi-s+1)
		return vfC19Range{s, e}, "contained"
	case 7: // containing
		return vfC19Range{vfC19Clamp(p.lo - w), vfC19Clamp(p.hi + r.Intn(40))}, "containing"
	case 8: // identical
		return p, "identical"
	case 9: // same start, shorter
		return vfC19Range{p.lo, p.lo + r.Intn(p.hi-p.lo+1)}, "same-start"
	default: // same end
		return vfC19Range{p.lo + r.Intn(p.hi-p.lo+1), p.hi}, "same-end"
	}
}

func vfC19RenderCanonical(r *rand.Rand, rs []vfC19Range) string {
	items := make([]string, 0, len(rs))
	for _, x := range rs {
		switch {
		case x.lo == x.hi && r.Intn(4) != 0:
			items = append(items, strconv.Itoa(x.lo))
		case r.Intn(3) == 0: // reversed
			items = append(items, strconv.Itoa(x.hi)+"-"+strconv.Itoa(x.lo))
		default:
			items = append(items, strconv.Itoa(x.lo)+"-"+strconv.Itoa(x.hi))
		}
	}
	r.Shuffle(len(items), func(i, j int) { items[i], items[j] = items[j], items[i] })
	return strings.Join(items, ",")
}

var vfC19JunkTokens = []string{"", "-", "--", "a", "http", "80a", "a80", "8o", "0x50", "1e3", "1_000", "80;81",
	"80:81", "80/tcp", "80.0", "-80", "80-", "-80-", "80--90", "80-90-100", "1-2-3", "65536", "65537", "70000",
	"99999", "100000", "4294967376", "18446744073709551696", "65616", "65535-65536", "65536-1", "0-65536",
	"٨٠", "８０", "80\x00", "\x0080", "#80", "80#", "all-80", "80-all", "*-5", "5-*", "1..5", "1~5", "1–5",
	"[80]", "80|81", "%38%30", "²", "١", "80e", "e", ".", "80.", "0b11", "0o17", "1 0", "6 5535", "80-9 0",
	"1-\x002", "NaN", "inf", "-0", "0--0", "−1"}

var vfC19AmbiguousTokens = []string{" 80", "80 ", " 80 ", "\t80", "80\n", "80 - 90", "80- 90", "80 -90", "080", "00080",
	"0000000000000000000080", "00", "000", "0-00010", "010-0005", "+80", "+80-+90", "80-+90", "+0", "065535",
	"0065535-0", "ALL", "All", "aLL", " all", "all ", " * ", "*", "all", "00000-65535", "+65535"}

// vfC19Gen returns one expression and a label of how it was made.
func vfC19Gen(r *rand.Rand) (string, string) {
	canon := func(maxItems int) (string, []string) {
		n := 1 + r.Intn(maxItems)
		var rs []vfC19Range
		var rel []string
		for i := 0; i < n; i++ {
			x, how := vfC19NextRange(r, rs)
			rs = append(rs, x)
			rel = append(rel, how)
		}
		return vfC19RenderCanonical(r, rs), rel
	}
	switch c := r.Intn(100); {
	case c < 62:
		s, rel := canon(8)
		return s, "canonical:" + strings.Join(rel, "+")
	case c < 66:
		s, _ := canon(40)
		return s, "canonical-long"
	case c < 68:
		if r.Intn(2) == 0 {
			return "all", "wildcard"
		}
		return "*", "wildcard"
	case c < 84: // a valid list damaged by one junk token or a structural defect
		s, _ := canon(4)
		items := strings.Split(s, ",")
		switch r.Intn(6) {
		case 0:
			return s + ",", "junk:trailing-comma"
		case 1:
			return "," + s, "junk:leading-comma"
		case 2:
			i := r.Intn(len(items))
			items[i] = items[i] + ","
			return strings.Join(items, ",") + ",1", "junk:double-comma"
		case 3:
			return "", "junk:empty"
		default:
			i := r.Intn(len(items) + 1)
			tok := vfC19JunkTokens[r.Intn(len(vfC19JunkTokens))]
			items = append(items[:i], append([]string{tok}, items[i:]...)...)
			if r.Intn(4) == 0 {
				return tok, "junk:token-alone"
			}
			return strings.Join(items, ","), "junk:token-in-list"
		}
	case c < 96: // not settled by the documentation
		s, _ := canon(3)
		items := strings.Split(s, ",")
		tok := vfC19AmbiguousTokens[r.Intn(len(vfC19AmbiguousTokens))]
		switch r.Intn(4) {
		case 0:
			return tok, "ambiguous:alone"
		case 1:
			return strings.Join(items, ", "), "ambiguous:blank-after-comma"
		default:
			i := r.Intn(len(items) + 1)
			items = append(items[:i], append([]string{tok}, items[i:]...)...)
			return strings.Join(items, ","), "ambiguous:in-list"
		}
	default: // random soup over the alphabet of the grammar
		const al = "0123456789-,,--0569 *al+"
		n := r.Intn(14)
		b := make([]byte, n)
		for i := range b {
			b[i] = al[r.Intn(len(al))]
		}
		return string(b), "soup"
	}
}

// ---------------------------------------------------------------------------- oracle

type vfC19ExprCase struct {
	CaseID string `json:"case_id"`
	Expr   string `json:"expr"`
	How    string `json:"how"`
}

type vfC19Checker struct {
	k   *vfKit
	ref vfC19Set
	got vfC19Set
}

func vfC19FirstDiff(ref, got *vfC19Set) (int, bool) {
	for i := range ref.w {
		if d := ref.w[i] ^ got.w[i]; d != 0 {
			return i<<6 + bits.TrailingZeros64(d), true
		}
	}
	return 0, false
}

// checkUnion compares a normalized PortUnion with the reference set held in c.ref.
func (c *vfC19Checker) checkUnion(cs vfC19ExprCase, pu PortUnion, fullContains bool) {
	k := c.k
	// documented normal form: sorted low to high, no overlapping ranges, Start <= End
	for i, rg := range pu {
		if rg.Start > rg.End {
			k.Violation("utils:normal-form", cs, "range %d of %v has Start > End", i, pu)
			break
		}
		if i > 0 && uint32(rg.Start) <= uint32(pu[i-1].End) {
			k.Violation("utils:normal-form", cs, "ranges %d and %d of %v overlap or are out of order", i-1, i, pu)
			break
		}
	}
	var ports []uint16
	if k.Guard("utils:Ports-panic", cs, func() { ports = pu.Ports() }) {
		return
	}
	k.Count("ports_compared", int64(len(ports)))
	c.got.w = [1024]uint64{}
	dup := -1
	for _, p := range ports {
		if c.got.has(int(p)) && dup < 0 {
			dup = int(p)
		}
		c.got.w[p>>6] |= 1 << (uint(p) & 63)
	}
	if dup >= 0 {
		k.Violation("utils:ports-duplicate", cs, "Ports() lists port %d more than once (union %v)", dup, pu)
	}
	if p, bad := vfC19FirstDiff(&c.ref, &c.got); bad {
		k.Violation("utils:set-mismatch", cs, "port %d: reference says member=%v, Ports() says member=%v (union %v)",
			p, c.ref.has(p), c.got.has(p), pu)
	}
	// Contains: the bounds of every listed item -1/+0/+1, plus 0 and 65535; every port for a sub-sample
	probes := 0
	probe := func(p int) bool {
		if p < 0 || p > 65535 {
			return true
		}
		probes++
		if got := pu.Contains(uint16(p)); got != c.ref.has(p) {
			k.Violation("utils:contains-mismatch", cs, "Contains(%d)=%v, reference %v (union %v)", p, got, c.ref.has(p), pu)
			return false
		}
		return true
	}
	defer func() { k.Count("contains_probes", int64(probes)) }()
	if fullContains {
		for p := 0; p < 65536; p++ {
			if !probe(p) {
				break
			}
		}
		return
	}
	probe(0)
	probe(65535)
	for i, e := range c.ref.edges {
		if i >= 128 {
			break
		}
		if !probe(e-1) || !probe(e) || !probe(e+1) {
			break
		}
	}
}

func (c *vfC19Checker) checkExpr(cs vfC19ExprCase, fullContains bool) {
	k := c.k
	k.Eval()
	class := vfC19RefParse(cs.Expr, &c.ref)
	var pu PortUnion
	if k.Guard("utils:ParsePortUnion-panic", cs, func() { pu = ParsePortUnion(cs.Expr) }) {
		return
	}
	k.Count("ev_parse_calls", 1)
	accepted := pu != nil
	switch class {
	case vfC19Valid:
		k.Count("ev_expr_valid", 1)
		if !accepted {
			k.Violation("utils:valid-rejected", cs, "ParsePortUnion(%q) = nil, but the expression is a well-formed list of ports/ranges", cs.Expr)
			return
		}
	case vfC19Invalid:
		k.Count("ev_expr_invalid", 1)
		if accepted {
			k.Violation("utils:invalid-accepted", cs, "ParsePortUnion(%q) = %v, but the expression is not a list of ports/ranges (must be nil)", cs.Expr, pu)
		} else {
			k.Count("ev_rejected", 1)
		}
		return
	default:
		k.Count("ev_expr_ambiguous", 1)
		if !accepted {
			k.Count("ambiguous_rejected", 1)
			return
		}
		k.Count("ambiguous_accepted", 1)
	}
	k.Count("ev_accepted", 1)
	if len(pu) == 0 {
		k.Violation("utils:empty-union", cs, "ParsePortUnion(%q) returned an empty non-nil union", cs.Expr)
		return
	}
	if strings.Count(cs.Expr, ",")+strings.Count(cs.Expr, "-") >= 1 {
		k.Nontrivial(cs.Expr)
	}
	c.checkUnion(cs, pu, fullContains)
}

// ---------------------------------------------------------------------------- tests

func TestVerifC19PortExpr(t *testing.T) {
	k := vfNewKit(t, "C19", "port-expr")
	defer k.Finish()
	c := &vfC19Checker{k: k}
	run := func(cs vfC19ExprCase, full bool) {
		if rc := k.ReplayCase(); rc != "" && rc != cs.CaseID {
			return
		}
		c.checkExpr(cs, full)
	}
	// fixed cases: the documented examples, every junk/ambiguous token alone, boundary pairs
	fixed := []string{"", "all", "*", "1234", "5678,1234,9012", "1234-1240", "1240-1234",
		"5678,1200-1236,9100-9012,1234-1240", "5678,1200-1236,65531-65535,65532-65534,9100-9012,1234-1240",
		"5678,1200-1236,65532-65535,65531-65534,9100-9012,1234-1240", "1234-", "1234-ggez", "233,", "1234-1240-1250",
		"-,,", "http", "0", "65535", "0-65535", "65535-0", "0,65535", "0-0", "65535-65535", "65534-65535,0-1",
		"1-100,5-10", "1-100,5-10,101", "5-10,1-100", "1-100,100-200", "1-100,101-200", "1-100,102-200",
		"1-100,1-100", "1-5,1-3", "1-3,1-5", "10-20,12-13,14-15,21", "65535,65535", "65534,65535", "65533,65535",
		"0-65534,65535", "0-65534,65534-65535", "1-65535,0", "0-32767,32768-65535", "65531-65535,65532-65534",
		"20000-50000", "1234,5000-6000,7044,8000-9000", "2-1,4-3,6-5", "3,2,1,0"}
	for i, s := range fixed {
		run(vfC19ExprCase{CaseID: fmt.Sprintf("fixed/%d", i), Expr: s, How: "fixed"}, true)
	}
	for i, s := range vfC19JunkTokens {
		run(vfC19ExprCase{CaseID: fmt.Sprintf("junk/%d", i), Expr: s, How: "junk-token"}, true)
	}
	for i, s := range vfC19AmbiguousTokens {
		run(vfC19ExprCase{CaseID: fmt.Sprintf("amb/%d", i), Expr: s, How: "ambiguous-token"}, true)
	}
	// every ordered pair of two boundary ranges: a-b,c-d with bounds around 0, a mid value and 65535
	pts := []int{0, 1, 2, 3, 65532, 65533, 65534, 65535}
	pi := 0
	for _, a := range pts {
		for _, b := range pts {
			for _, cc := range pts {
				for _, d := range pts {
					pi++
					if pi%3 != 0 && k.Quick() {
						continue
					}
					run(vfC19ExprCase{CaseID: fmt.Sprintf("pair/%d", pi), Expr: fmt.Sprintf("%d-%d,%d-%d", a, b, cc, d), How: "boundary-pair"}, false)
				}
			}
		}
	}
	n := k.N(20000, 250000)
	fullEvery := k.N(25, 100)
	r := k.Rand("gen")
	hows := map[string]int{}
	for i := 0; i < n; i++ {
		s, how := vfC19Gen(r)
		cs := vfC19ExprCase{CaseID: fmt.Sprintf("gen/%d", i), Expr: s, How: how}
		run(cs, i%fullEvery == 0)
		hows[strings.SplitN(how, ":", 2)[0]]++
		if i%4001 == 7 {
			class := vfC19RefParse(s, &c.ref)
			k.Sample(map[string]any{"expr": s, "how": how, "reference_class": []string{"invalid", "valid", "ambiguous"}[class]})
		}
	}
	for h, v := range hows {
		k.Count("gen_"+h, int64(v))
	}
}

// Normalize() called directly on unions built from Start<=End ranges (the type's contract).
func TestVerifC19Normalize(t *testing.T) {
	k := vfNewKit(t, "C19", "port-normalize")
	defer k.Finish()
	c := &vfC19Checker{k: k}
	r := k.Rand("norm")
	n := k.N(6000, 60000)
	for i := 0; i < n; i++ {
		cs := vfC19ExprCase{CaseID: fmt.Sprintf("norm/%d", i), How: "normalize"}
		cnt := 1 + r.Intn(9)
		var rs []vfC19Range
		for j := 0; j < cnt; j++ {
			x, _ := vfC19NextRange(r, rs)
			rs = append(rs, x)
		}
		r.Shuffle(len(rs), func(a, b int) { rs[a], rs[b] = rs[b], rs[a] })
		c.ref.clear()
		u := make(PortUnion, 0, len(rs))
		var sb strings.Builder
		for _, x := range rs {
			c.ref.fill(x.lo, x.hi)
			u = append(u, PortRange{uint16(x.lo), uint16(x.hi)})
			fmt.Fprintf(&sb, "{%d,%d}", x.lo, x.hi)
		}
		cs.Expr = sb.String()
		if rc := k.ReplayCase(); rc != "" && rc != cs.CaseID {
			continue
		}
		k.Eval()
		var out PortUnion
		if k.Guard("utils:Normalize-panic", cs, func() { out = u.Normalize() }) {
			continue
		}
		k.Count("ev_normalize_calls", 1)
		if cnt > 1 {
			k.Nontrivial(cs.Expr)
		}
		c.checkUnion(cs, out, i%50 == 0)
		if i%1500 == 3 {
			k.Sample(map[string]any{"ranges": cs.Expr, "normalized": fmt.Sprint(out)})
		}
	}
}

// Concurrent use of the read-only API on shared values (race detector is the oracle here).
func TestVerifC19PortConcurrent(t *testing.T) {
	k := vfNewKit(t, "C19", "port-concurrent")
	defer k.Finish()
	r := k.Rand("conc")
	rounds := k.N(30, 400)
	for round := 0; round < rounds; round++ {
		var exprs []string
		for len(exprs) < 16 {
			s, _ := vfC19Gen(r)
			exprs = append(exprs, s)
		}
		shared := make([]PortUnion, len(exprs))
		refs := make([]*vfC19Set, len(exprs))
		class := make([]int, len(exprs))
		want := make([]int, len(exprs))
		wantSum := make([]int, len(exprs))
		probeRef := make([][8]bool, len(exprs))
		for i, s := range exprs {
			shared[i] = ParsePortUnion(s)
			refs[i] = &vfC19Set{}
			class[i] = vfC19RefParse(s, refs[i])
			want[i] = refs[i].count()
			for p := 0; p < 65536; p++ {
				if refs[i].has(p) {
					wantSum[i] += p
				}
			}
			for g := 0; g < 8; g++ {
				probeRef[i][g] = refs[i].has((g*8191 + i*257) & 0xffff)
			}
			if want[i] > 4000 { // big sets add nothing to the interleavings and are slow under the race detector
				class[i] = vfC19Invalid
			}
		}
		var wg sync.WaitGroup
		for g := 0; g < 8; g++ {
			wg.Add(1)
			go func(g int) {
				defer wg.Done()
				for i, s := range exprs {
					cs := vfC19ExprCase{CaseID: fmt.Sprintf("conc/%d/%d", round, i), Expr: s}
					mine := ParsePortUnion(s)
					k.Count("ev_conc_parse", 1)
					if (mine == nil) != (shared[i] == nil) {
						k.Violation("utils:concurrent-parse-differs", cs,
							"ParsePortUnion(%q) gave nil=%v in one goroutine and nil=%v in another", s, mine == nil, shared[i] == nil)
						continue
					}
					if shared[i] == nil || class[i] == vfC19Invalid {
						continue
					}
					n, sum := 0, 0
					for _, p := range shared[i].Ports() {
						sum += int(p)
						n++
					}
					probe := (g*8191 + i*257) & 0xffff
					if n != want[i] || sum != wantSum[i] || shared[i].Contains(uint16(probe)) != probeRef[i][g] {
						k.Violation("utils:concurrent-read-differs", cs,
							"shared union of %q read concurrently: %d ports with sum %d (reference %d, sum %d), Contains(%d)=%v (reference %v)",
							s, n, sum, want[i], wantSum[i], probe, shared[i].Contains(uint16(probe)), probeRef[i][g])
					}
				}
			}(g)
		}
		wg.Wait()
		k.Eval()
		k.Nontrivial(strings.Join(exprs, "|"))
	}
}
