//go:build verif

package realm

// C20 part "udp-socket": PunchPacketConn over a REAL kernel UDP socket (loopback), outside
// any synctest bubble — the wrapped conn is a *net.UDPConn, so type-specific paths of the
// wrapper (UDP fast paths, address conversion) are what runs.
//
// Two socket layouts alternate by case:
//   v4:   server net.ListenUDP("udp4", 127.0.0.1:0), 4 sender sockets on 127.0.0.1
//         (same IP, different ports);
//   dual: server net.ListenUDP("udp", [::]:0), 3 senders on 127.0.0.1 and 1 on ::1
//         (skipped, and counted, if IPv6 loopback is not available).
//
// A reader goroutine sits in wrapper.ReadFrom. The script is strictly lock-step: the harness
// sends ONE datagram from a chosen sender and waits until the wrapper has accounted for it —
// ReadFrom returned it, or a punch event, or a STUN event arrived (channels are kept empty) —
// before the next step (AddPunchAttempt / RemovePunchAttempt / next datagram). No timing
// verdicts: a 20 s real-time watchdog per datagram only ever yields "inconclusive".
//
// Oracles: a returned datagram is byte-identical to the one in flight AND its source address
// is the local address of the socket that sent it (the payload's unique tag names packet and
// sender); a diverted one is a lenient-STUN binding success or reference-valid under an
// attempt registered right now, and its event carries the real sender; a reference-valid
// packet of a registered attempt is not handed to the reader.

import (
	"bytes"
	"fmt"
	"math/rand"
	"net"
	"net/netip"
	"testing"
	"time"
)

type vfC20UDPGot struct {
	data []byte
	addr string // Network()+" "+String(), copied out immediately
	ap   netip.AddrPort
	apOK bool
	err  error
}

func vfC20UDPCase(t *testing.T, k *vfKit, caseID string, r *rand.Rand, dual bool) (ran bool) {
	var srv *net.UDPConn
	var err error
	if dual {
		srv, err = net.ListenUDP("udp", &net.UDPAddr{IP: net.IPv6unspecified, Port: 0})
	} else {
		srv, err = net.ListenUDP("udp4", &net.UDPAddr{IP: net.IPv4(127, 0, 0, 1), Port: 0})
	}
	if err != nil {
		k.Count("udp_listen_failed", 1)
		return false
	}
	defer srv.Close()
	port := srv.LocalAddr().(*net.UDPAddr).Port
	type sender struct {
		c    *net.UDPConn
		to   *net.UDPAddr
		self netip.AddrPort
	}
	var senders []sender
	closeAll := func() {
		for _, s := range senders {
			s.c.Close()
		}
	}
	defer closeAll()
	addSender := func(network string, ip net.IP) bool {
		c, err := net.ListenUDP(network, &net.UDPAddr{IP: ip, Port: 0})
		if err != nil {
			return false
		}
		la := c.LocalAddr().(*net.UDPAddr)
		a, _ := netip.AddrFromSlice(la.IP)
		senders = append(senders, sender{c: c, to: &net.UDPAddr{IP: ip, Port: port}, self: netip.AddrPortFrom(a.Unmap(), uint16(la.Port))})
		return true
	}
	n4 := 4
	if dual {
		n4 = 3
	}
	for i := 0; i < n4; i++ {
		if !addSender("udp4", net.IPv4(127, 0, 0, 1)) {
			t.Fatalf("vfC20: cannot open a loopback sender socket")
		}
	}
	if dual {
		if !addSender("udp6", net.IPv6loopback) {
			k.Count("udp_no_ipv6_loopback", 1)
			return false
		}
	}

	w, err := NewPunchPacketConn(srv, 8)
	if err != nil {
		t.Fatalf("NewPunchPacketConn: %v", err)
	}
	gotCh := make(chan vfC20UDPGot, 4)
	readerDone := make(chan struct{})
	go func() {
		defer close(readerDone)
		buf := make([]byte, 2048)
		for {
			n, addr, err := w.ReadFrom(buf)
			if err != nil {
				gotCh <- vfC20UDPGot{err: err}
				return
			}
			g := vfC20UDPGot{data: append([]byte(nil), buf[:n]...)}
			if addr != nil {
				g.addr = addr.Network() + " " + addr.String()
				g.ap, g.apOK = vfC20AddrUsable(addr)
			}
			gotCh <- g
		}
	}()
	defer func() {
		srv.Close()
		<-readerDone
	}()

	nMeta := 1 + r.Intn(4)
	metas := make([]vfC20Meta, nMeta)
	for i := range metas {
		metas[i] = vfC20RandMeta(r)
	}
	uids := make([]string, nMeta)
	for i := range uids {
		uids[i] = vfC20AttemptID(r, fmt.Sprintf("u-att-%d", i), 600)
	}
	reg := map[string]vfC20Meta{}
	var hist []string
	nSteps := 40 + r.Intn(60)
	cur := r.Intn(len(senders))
	sawPass, sawDiv := 0, 0
	for step := 0; step < nSteps; step++ {
		// control steps
		switch x := r.Intn(10); {
		case x == 0:
			i := r.Intn(nMeta)
			id := uids[i]
			if err := w.AddPunchAttempt(id, metas[i].PM()); err != nil {
				vfC20V(k, "realm:add-refused", map[string]any{"case_id": caseID}, "AddPunchAttempt refused well-formed metadata: %v", err)
			}
			reg[id] = metas[i]
			hist = append(hist, "add:"+id)
			k.Count("ev_add", 1)
		case x == 1:
			i := r.Intn(nMeta)
			id := uids[i]
			w.RemovePunchAttempt(id)
			delete(reg, id)
			hist = append(hist, "remove:"+id)
			k.Count("ev_remove", 1)
		}
		// which socket sends: runs from one sender, then a switch (mostly to the same IP, other port)
		if r.Intn(3) == 0 {
			cur = r.Intn(len(senders))
		}
		s := senders[cur]
		seq := step + 1
		var data []byte
		kind := ""
		switch y := r.Intn(100); {
		case y < 55:
			kind = "quic"
			data = vfC20QUICLike(r, seq)
			data[1] = byte(cur) // tag: sender index next to the packet tag at the end
		case y < 70 && nMeta > 0:
			kind = "punch"
			data = vfC20PunchValid(r, seq, metas[r.Intn(nMeta)]) // registered or not: the model decides
		case y < 80:
			kd := []string{"flip-header", "bad-magic", "bad-type", "nonce-bit", "key-bit"}[r.Intn(5)]
			kind = "near-" + kd
			data = vfC20NearMiss(r, seq, metas[r.Intn(nMeta)], kd)
		case y < 90:
			kd := []string{"ok-xor4", "ok-xor6", "ok-mapped4"}[r.Intn(3)]
			kind = "stun-" + kd
			data, _, _ = vfC20STUN(r, seq, kd)
		default:
			kd := []string{"request", "error-response", "indication", "bad-cookie", "topbits", "success-no-mapped"}[r.Intn(6)]
			kind = "stun-" + kd
			data, _, _ = vfC20STUN(r, seq, kd)
		}
		if len(data) == 0 {
			data = []byte{0x40, byte(cur)}
		}
		hist = append(hist, fmt.Sprintf("pkt#%d:%s:%dB:sender%d(%v)", seq, kind, len(data), cur, s.self))
		rep := func() map[string]any {
			tail := hist
			if len(tail) > 16 {
				tail = tail[len(tail)-16:]
			}
			regs := map[string]string{}
			for id, m := range reg {
				regs[id] = m.String()
			}
			return map[string]any{"case_id": caseID, "layout": map[bool]string{true: "dual-stack [::]", false: "udp4 127.0.0.1"}[dual], "step": step,
				"kind": kind, "hex": vfHex(data), "sender": s.self.String(), "registered": regs, "history_tail": tail}
		}
		if _, err := s.c.WriteToUDP(data, s.to); err != nil {
			t.Fatalf("vfC20: loopback send failed: %v", err)
		}
		k.Count("ev_packets", 1)
		// wait until the wrapper has accounted for this datagram
		var got *vfC20UDPGot
		var pev *PunchPacketEvent
		var sev *STUNPacketEvent
		wd := time.NewTimer(20 * time.Second)
		select {
		case g := <-gotCh:
			got = &g
		case e := <-w.Events():
			pev = &e
		case e := <-w.STUNEvents():
			sev = &e
		case <-wd.C:
			k.Inconclusive(fmt.Sprintf("%s step %d: datagram not accounted for within 20 s (watchdog)", caseID, step))
			return true
		}
		wd.Stop()
		var valid []string
		for id, m := range reg {
			if _, _, ok := vfC20RefDecode(data, m); ok {
				valid = append(valid, id)
			}
		}
		stunOK, stunTop := vfC20STUNClass(data)
		switch {
		case got != nil && got.err != nil:
			t.Fatalf("vfC20: ReadFrom on the loopback socket failed: %v", got.err)
		case got != nil:
			sawPass++
			k.Count("ev_passed", 1)
			if !bytes.Equal(got.data, data) {
				vfC20V(k, "realm:passthrough-bytes-differ", rep(), "datagram #%d (%s) reached the reader altered (%d bytes returned, %d sent)", seq, kind, len(got.data), len(data))
			}
			if !got.apOK || got.ap != s.self {
				vfC20V(k, "realm:passthrough-addr-differs", rep(), "datagram #%d (%s) was sent by the socket bound to %v but ReadFrom returned it with source %q", seq, kind, s.self, got.addr)
			}
			if len(valid) > 0 && !stunOK {
				vfC20V(k, "realm:registered-punch-not-diverted", rep(), "datagram #%d is a valid punch packet of registered attempt(s) %v but was handed to the reader", seq, valid)
			}
		case pev != nil:
			sawDiv++
			k.Count("ev_diverted", 1)
			k.Count("ev_punch_events", 1)
			m, isReg := reg[pev.AttemptID]
			_, _, rok := vfC20RefDecode(data, m)
			if !isReg || !rok {
				vfC20V(k, "realm:diverted-unjustified", rep(), "datagram #%d (%s) was diverted as a punch packet of attempt %q, which is not a registered attempt it is valid under (valid under %v)", seq, kind, pev.AttemptID, valid)
			} else if pev.From != s.self {
				vfC20V(k, "realm:event-wrong-fields", rep(), "punch event for datagram #%d names source %v, the sender is %v", seq, pev.From, s.self)
			}
		case sev != nil:
			sawDiv++
			k.Count("ev_diverted", 1)
			k.Count("ev_stun_events", 1)
			if !stunOK {
				key := "realm:diverted-unjustified"
				if stunTop {
					key = "realm:diverted-stun-type-topbits"
				}
				vfC20V(k, key, rep(), "datagram #%d (%s) was diverted as a STUN binding response, which it is not", seq, kind)
			}
		}
	}
	if sawPass > 0 && sawDiv > 0 {
		k.Nontrivial(fmt.Sprintf("%s/%d/%d", caseID, sawPass, sawDiv))
	}
	return true
}

func TestVerifC20UDPSocket(t *testing.T) {
	k := vfNewKit(t, "C20", "udp-socket")
	defer k.Finish()
	n := k.N(60, 1200)
	for i := 0; i < n; i++ {
		caseID := fmt.Sprintf("udp-%d", i)
		if rc := k.ReplayCase(); rc != "" && rc != caseID {
			continue
		}
		r := k.Rand(caseID)
		dual := i%2 == 1
		if vfC20UDPCase(t, k, caseID, r, dual) {
			k.Eval()
			k.Count(map[bool]string{true: "udp_cases_dual_stack", false: "udp_cases_v4"}[dual], 1)
		}
		if i == 0 {
			k.Sample(map[string]any{"case": caseID, "note": "real loopback sockets, lock-step send/account; see rule"})
		}
	}
}
