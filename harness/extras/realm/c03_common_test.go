//go:build verif

// C03 — shared driver and input generators. One copy per target package
// (harness/<module>/<pkg>/c03_common_test.go), produced from
// harness/common/c03_common_test.go.tmpl by harness/common/c03_sync.py.
// EDIT THE TEMPLATE, then run the sync script.

package realm

import (
	"bytes"
	"crypto/aes"
	"crypto/cipher"
	"crypto/hkdf"
	"crypto/sha256"
	"encoding/binary"
	"encoding/hex"
	"encoding/json"
	"flag"
	"fmt"
	"math/rand"
	"os"
	"path/filepath"
	"runtime/debug"
	"sort"
	"strconv"
	"strings"
	"sync"
	"testing"
	"time"
)

// vfC03Run drives the entry points of one harness part.
//
//   - every input is appended to $VERIF_OUT/inputs-<part>.log (one write(2) per line, hex)
//     BEFORE the code under test sees it, so a process-fatal panic in another goroutine or a
//     runtime throw still leaves the witness as the last line of the file;
//   - the code under test gets a fresh copy of the input whose capacity equals its length;
//   - a panic in the calling goroutine becomes a violation with the stable key "<entry>-panic".
type vfC03Run struct {
	k *vfKit

	mu      sync.Mutex
	f       *os.File
	lines   int
	seq     int64
	perKey  map[string]int
	entries map[string]func(b []byte)

	stopped     bool // a panic was recorded in this part
	replayEntry string
	replayIn    []byte
	replaySeq   string
}

const (
	vfC03LogBatch   = 2000 // stateless entries: the input log is cut back after this many lines
	vfC03MaxPerKey  = 4    // written-out violations per key (service-stops); a part stops at its first panic
	vfC03MaxCaseHex = 30000
)

func vfC03New(k *vfKit) *vfC03Run {
	r := &vfC03Run{k: k, perKey: map[string]int{}, entries: map[string]func([]byte){}}
	f, err := os.OpenFile(filepath.Join(k.Out, "inputs-"+k.Name+".log"), os.O_CREATE|os.O_WRONLY|os.O_TRUNC, 0o644)
	if err != nil {
		k.t.Fatalf("verif C03: cannot open the input log: %v", err)
	}
	r.f = f
	if rc := k.ReplayCase(); rc != "" {
		if strings.HasPrefix(rc, "seq|") {
			r.replaySeq = rc
		} else if i := strings.IndexByte(rc, '|'); i > 0 {
			if b, err := hex.DecodeString(rc[i+1:]); err == nil {
				r.replayEntry, r.replayIn = rc[:i], b
			}
		}
		if r.replaySeq == "" && r.replayEntry == "" {
			r.replayEntry = "\x00none" // unknown selector: run nothing rather than everything
		}
	}
	return r
}

func (r *vfC03Run) Close() {
	r.mu.Lock()
	defer r.mu.Unlock()
	if r.f != nil {
		_ = r.f.Close()
		r.f = nil
	}
}

// Entry registers a stateless entry point (decoder) under its stable name.
func (r *vfC03Run) Entry(name string, f func(b []byte)) { r.entries[name] = f }

// Replay handles `./check C03 --replay f` for stateless entries: when the replay case names an
// entry of this part, exactly that input is executed. Returns true when the part must not
// generate its normal workload.
func (r *vfC03Run) Replay() bool {
	if r.k.ReplayCase() == "" {
		return false
	}
	if f, ok := r.entries[r.replayEntry]; ok {
		r.do(r.replayEntry, r.replayIn, f)
		return true
	}
	// a sequence replay is handled by the part that owns it (SkipSeq); every other part runs nothing
	return !strings.HasPrefix(r.replaySeq, "seq|"+r.k.Name+"|")
}

// SkipSeq tells a stateful part whether sequence `id` is to be skipped (replay of another one).
func (r *vfC03Run) SkipSeq(id string) bool {
	if r.k.ReplayCase() == "" {
		return false
	}
	return r.replaySeq != "seq|"+r.k.Name+"|"+id
}

func (r *vfC03Run) SeqID(id string) string { return "seq|" + r.k.Name + "|" + id }

// NewObject cuts the input log: what follows belongs to a new stateful object.
func (r *vfC03Run) NewObject(note string) {
	r.mu.Lock()
	defer r.mu.Unlock()
	if r.f == nil {
		return
	}
	_ = r.f.Truncate(0)
	_, _ = r.f.Seek(0, 0)
	r.lines = 0
	_, _ = r.f.Write([]byte("# new object: " + note + "\n"))
}

// Log writes one input line (used directly by parts that hand the input to another goroutine).
func (r *vfC03Run) Log(entry string, in []byte, stateless bool) {
	r.mu.Lock()
	defer r.mu.Unlock()
	if r.f == nil {
		return
	}
	if stateless && r.lines >= vfC03LogBatch {
		_ = r.f.Truncate(0)
		_, _ = r.f.Seek(0, 0)
		r.lines = 0
	}
	r.seq++
	r.lines++
	line := make([]byte, 0, len(entry)+2*len(in)+24)
	line = strconv.AppendInt(line, r.seq, 10)
	line = append(line, ' ')
	line = append(line, entry...)
	line = append(line, ' ')
	line = hex.AppendEncode(line, in)
	line = append(line, '\n')
	_, _ = r.f.Write(line) // os.File is unbuffered: the line is with the kernel when this returns
}

func vfC03CaseID(entry string, in []byte) string {
	if len(in) > vfC03MaxCaseHex {
		return ""
	}
	return entry + "|" + hex.EncodeToString(in)
}

// Do feeds one input to a registered stateless entry.
func (r *vfC03Run) Do(entry string, in []byte) bool {
	f, ok := r.entries[entry]
	if !ok {
		r.k.t.Fatalf("verif C03: entry %q not registered", entry)
	}
	return r.do(entry, in, f)
}

// Dead reports that this part has recorded a panic. The verdict is settled then, and the objects the
// part works on may be left inconsistent by the unwound call (e.g. a mutex that was never
// released), so nothing more is fed: further inputs are only counted. This also keeps a failing
// run short (a missing limit may turn later inputs into gigabyte allocations).
func (r *vfC03Run) Dead(entry string) bool {
	r.mu.Lock()
	defer r.mu.Unlock()
	return r.stopped
}

func (r *vfC03Run) do(entry string, in []byte, f func(b []byte)) (panicked bool) {
	if r.Dead(entry) {
		r.k.Count("skipped_after_panics:"+entry, 1)
		return true
	}
	r.Log(entry, in, true)
	return r.guard(entry, vfC03CaseID(entry, in), in, nil, f)
}

// DoObj feeds one input to a stateful object (the log is not cut; seqID names the sequence for replay).
func (r *vfC03Run) DoObj(entry, seqID string, in []byte, f func(b []byte)) (panicked bool) {
	if r.Dead(entry) {
		r.k.Count("skipped_after_panics:"+entry, 1)
		return true
	}
	r.Log(entry, in, false)
	return r.guard(entry, seqID, in, nil, f)
}

func (r *vfC03Run) guard(entry, caseID string, in []byte, extra map[string]any, f func(b []byte)) (panicked bool) {
	k := r.k
	k.Eval()
	k.Count("ev_inputs", 1)
	k.Count("in:"+entry, 1)
	if len(in) <= 4096 {
		k.Nontrivial(entry + "|" + string(in))
	} else {
		k.Nontrivial(entry + "|" + strconv.Itoa(len(in)) + "|" + string(in[:2048]) + string(in[len(in)-2048:]))
	}
	b := vfExact(in)
	defer func() {
		if p := recover(); p != nil {
			panicked = true
			r.Panicked(entry, caseID, in, extra, p, string(debug.Stack()))
		}
	}()
	f(b)
	return false
}

// Panicked records a recovered panic as a violation "<entry>-panic".
func (r *vfC03Run) Panicked(entry, caseID string, in []byte, extra map[string]any, p any, stack string) {
	key := entry + "-panic"
	r.k.Count("panics:"+entry, 1)
	r.mu.Lock()
	r.perKey[key]++
	n := r.perKey[key]
	r.stopped = true
	r.mu.Unlock()
	if n > vfC03MaxPerKey {
		return
	}
	doc := map[string]any{
		"case_id": caseID, "entry": entry, "input_hex": hex.EncodeToString(in), "input_len": len(in),
		"cap_equals_len": true, "panic": fmt.Sprint(p), "stack": stack,
	}
	for kk, v := range extra {
		doc[kk] = v
	}
	r.k.Violation(key, doc, "%s panicked on a %d-byte input (cap==len) %s: %v", entry, len(in), vfHex(in), p)
}

// ServiceStopped records that, after hostile input, a following well-formed input was not
// processed correctly by the same object ("service continues" part of the property).
func (r *vfC03Run) ServiceStopped(entry, caseID string, witness any, format string, args ...any) {
	key := entry + "-service-stops"
	r.mu.Lock()
	r.perKey[key]++
	n := r.perKey[key]
	r.mu.Unlock()
	r.k.Count("service_stops:"+entry, 1)
	if n > vfC03MaxPerKey {
		return
	}
	r.k.Violation(key, map[string]any{"case_id": caseID, "entry": entry, "witness": witness}, format, args...)
}

// Canary runs a well-formed round through an entry under the same guard; ok=false -> violation.
func (r *vfC03Run) Canary(entry, caseID string, witness any, f func() error) {
	if r.Dead(entry) {
		return
	}
	r.k.Count("ev_canary", 1)
	defer func() {
		if p := recover(); p != nil {
			r.Panicked(entry, caseID, nil, map[string]any{"during": "well-formed follow-up input", "witness": witness}, p, string(debug.Stack()))
		}
	}()
	if err := f(); err != nil {
		r.ServiceStopped(entry, caseID, witness, "%s: well-formed input after hostile input not processed correctly: %v", entry, err)
		return
	}
	r.k.Count("ev_canary_ok", 1)
}

// ---------------------------------------------------------------------------- generators

// vfC03Varint encodes v as a QUIC varint of the given width (1,2,4,8); v is reduced to fit.
func vfC03Varint(v uint64, width int) []byte {
	switch width {
	case 1:
		return []byte{byte(v & 0x3f)}
	case 2:
		v &= 0x3fff
		return []byte{0x40 | byte(v>>8), byte(v)}
	case 4:
		v &= 0x3fffffff
		return []byte{0x80 | byte(v>>24), byte(v >> 16), byte(v >> 8), byte(v)}
	default:
		v &= 0x3fffffffffffffff
		return []byte{0xc0 | byte(v>>56), byte(v >> 48), byte(v >> 40), byte(v >> 32), byte(v >> 24), byte(v >> 16), byte(v >> 8), byte(v)}
	}
}

// vfC03VarintMin encodes v with the smallest width.
func vfC03VarintMin(v uint64) []byte {
	switch {
	case v <= 63:
		return vfC03Varint(v, 1)
	case v <= 16383:
		return vfC03Varint(v, 2)
	case v <= 1073741823:
		return vfC03Varint(v, 4)
	}
	return vfC03Varint(v, 8)
}

func vfC03Cat(parts ...[]byte) []byte {
	var out []byte
	for _, p := range parts {
		out = append(out, p...)
	}
	return out
}

// vfC03LenValues: 0, 1, width limits, the protocol's limits +-1, maxima.
func vfC03LenValues(limits ...uint64) []uint64 {
	set := map[uint64]bool{0: true, 1: true, 2: true, 62: true, 63: true, 64: true, 65: true, 255: true, 256: true,
		16383: true, 16384: true, 65535: true, 65536: true, 1<<30 - 1: true, 1 << 30: true, 1<<31 - 1: true, 1 << 31: true,
		1<<32 - 1: true, 1 << 32: true, 1<<62 - 1: true}
	for _, l := range limits {
		set[l] = true
		set[l+1] = true
		if l > 0 {
			set[l-1] = true
		}
	}
	out := make([]uint64, 0, len(set))
	for v := range set {
		out = append(out, v)
	}
	// absurd values first (an allocation of that size fails at once), then ascending
	sort.Slice(out, func(i, j int) bool {
		ai, aj := out[i] >= 1<<48, out[j] >= 1<<48
		if ai != aj {
			return ai
		}
		return out[i] < out[j]
	})
	return out
}

// vfC03Field marks a length/count field inside a valid seed.
type vfC03Field struct {
	Off, Len int
	Kind     string // "varint" | "u8" | "be16" | "be32"
}

func vfC03Fill(r *rand.Rand, kind int, n int) []byte {
	b := make([]byte, n)
	switch kind % 4 {
	case 0: // zeros
	case 1:
		for i := range b {
			b[i] = 0xff
		}
	case 2:
		r.Read(b)
	case 3:
		for i := range b {
			b[i] = byte(i + 1)
		}
	}
	return b
}

// vfC03Prefixes emits, for every head and every fill pattern, ALL lengths 0..maxLen of head||fill.
func vfC03Prefixes(r *rand.Rand, heads [][]byte, maxLen int, emit func([]byte)) {
	for _, h := range heads {
		for kind := 0; kind < 4; kind++ {
			full := append(append([]byte(nil), h...), vfC03Fill(r, kind, maxLen+1)...)
			for l := 0; l <= maxLen; l++ {
				emit(full[:l])
			}
		}
	}
}

// vfC03Mutations emits hostile variants of a valid seed: truncation at every offset, bit flips,
// byte overwrites, every marked length field set to 0/1/max/limit+-1 in every encoding width
// (also with the tail cut), inserted/removed/overwritten ranges.
func vfC03Mutations(r *rand.Rand, seed []byte, fields []vfC03Field, lens []uint64, nRandom int, emit func([]byte)) {
	n := len(seed)
	// truncations
	for cut := 0; cut <= n; cut++ {
		if cut > 160 && cut < n-32 && cut%17 != 0 {
			continue
		}
		emit(seed[:cut])
	}
	// bit flips
	nb := n
	if nb > 48 {
		nb = 48
	}
	for i := 0; i < nb; i++ {
		for bit := 0; bit < 8; bit++ {
			m := append([]byte(nil), seed...)
			m[i] ^= 1 << bit
			emit(m)
		}
	}
	// byte overwrites
	nb = n
	if nb > 32 {
		nb = 32
	}
	for i := 0; i < nb; i++ {
		for _, v := range []byte{0x00, 0x01, 0x7f, 0x80, 0xff} {
			if seed[i] == v {
				continue
			}
			m := append([]byte(nil), seed...)
			m[i] = v
			emit(m)
		}
	}
	// length fields
	for _, fd := range fields {
		if fd.Off+fd.Len > n {
			continue
		}
		head, tail := seed[:fd.Off], seed[fd.Off+fd.Len:]
		for _, v := range lens {
			var encs [][]byte
			switch fd.Kind {
			case "varint":
				for _, w := range []int{8, 4, 2, 1} {
					encs = append(encs, vfC03Varint(v, w))
				}
			case "u8":
				encs = append(encs, []byte{byte(v)})
			case "be16":
				encs = append(encs, []byte{byte(v >> 8), byte(v)})
			case "be32":
				var b [4]byte
				binary.BigEndian.PutUint32(b[:], uint32(v))
				encs = append(encs, b[:])
			}
			for _, e := range encs {
				m := vfC03Cat(head, e, tail)
				emit(m)
				// the announced length with a shorter/longer body
				if len(tail) > 0 {
					emit(vfC03Cat(head, e, tail[:r.Intn(len(tail))]))
				}
				if v > 0 && v <= 8192 {
					emit(vfC03Cat(head, e, vfC03Fill(r, 2, int(v)-1)))
					emit(vfC03Cat(head, e, vfC03Fill(r, 2, int(v))))
					emit(vfC03Cat(head, e, vfC03Fill(r, 2, int(v)+1)))
				}
				// truncated inside the (possibly wider) length field itself
				for c := 1; c < len(e); c++ {
					emit(vfC03Cat(head, e[:c]))
				}
			}
		}
	}
	// random structural damage
	for i := 0; i < nRandom; i++ {
		m := append([]byte(nil), seed...)
		switch r.Intn(5) {
		case 0: // several bit flips
			for j := 0; j < 1+r.Intn(4) && len(m) > 0; j++ {
				m[r.Intn(len(m))] ^= 1 << r.Intn(8)
			}
		case 1: // overwrite a range with random bytes
			if len(m) > 0 {
				a := r.Intn(len(m))
				b := a + r.Intn(len(m)-a+1)
				r.Read(m[a:b])
			}
		case 2: // delete a range
			if len(m) > 0 {
				a := r.Intn(len(m))
				b := a + r.Intn(len(m)-a+1)
				m = append(m[:a], m[b:]...)
			}
		case 3: // insert random bytes
			a := r.Intn(len(m) + 1)
			ins := vfC03Fill(r, 2, 1+r.Intn(16))
			m = vfC03Cat(m[:a], ins, m[a:])
		case 4: // duplicate a range
			if len(m) > 0 {
				a := r.Intn(len(m))
				b := a + r.Intn(len(m)-a+1)
				m = vfC03Cat(m[:b], m[a:b], m[b:])
			}
		}
		emit(m)
	}
}

// vfC03Random emits n random byte strings: every length 0..64 in turn, now and then a long one.
func vfC03Random(r *rand.Rand, n int, maxLong int, emit func([]byte)) {
	for i := 0; i < n; i++ {
		l := i % 65
		if maxLong > 64 && i%23 == 22 {
			l = 65 + r.Intn(maxLong-64)
		}
		b := make([]byte, l)
		r.Read(b)
		emit(b)
	}
}

// ---------------------------------------------------------------------------- aggregate workloads

// vfC03FragSet describes one COMPLETE, well-formed set of UDP message fragments whose danger is in
// the aggregate: every fragment is small and valid, the sum of the payloads is what is hostile.
type vfC03FragSet struct {
	Label string
	Sizes []int // payload size per FragID (len = fragment count, 2..255)
	Order []int // arrival order of FragIDs, may contain duplicates; every FragID occurs at least once
	Total int
}

func vfC03SplitTotal(rng *rand.Rand, total, count int, random bool) []int {
	sizes := make([]int, count)
	if !random {
		for i := range sizes {
			sizes[i] = total / count
		}
		sizes[count-1] += total - (total/count)*count
		return sizes
	}
	for i := range sizes {
		sizes[i] = 1
	}
	rest := total - count
	for rest > 0 {
		i := rng.Intn(count)
		add := 1 + rng.Intn(1+rest/2)
		if sizes[i]+add > 1400 {
			add = 1400 - sizes[i]
		}
		if add <= 0 {
			// this slot is full; look for another (there is room: total <= count*1400)
			for j := range sizes {
				if sizes[j] < 1400 {
					i, add = j, 1
					break
				}
			}
			if add <= 0 {
				break
			}
		}
		sizes[i] += add
		rest -= add
	}
	return sizes
}

// vfC03AggregateSets: totals around the 4096-byte UDP buffer, 8 KiB, 64 KiB, 255 x 1200/1400, with
// 2..255 fragments of 1..1400 bytes, each arriving in order, reversed and shuffled with duplicates,
// plus nRandom random (count, sizes) points.
func vfC03AggregateSets(rng *rand.Rand, nRandom int) []vfC03FragSet {
	type tc struct{ total, count int }
	fixed := []tc{{4095, 3}, {4096, 3}, {4097, 3}, {4095, 4}, {4096, 4}, {4097, 4}, {4097, 255}, {4096, 255}, {5000, 5}, {2800, 2}, {2801, 3},
		{8192, 6}, {8191, 7}, {8193, 8}, {16384, 12}, {65535, 47}, {65536, 47}, {65537, 48}, {65536, 255}, {255, 255}, {510, 255},
		{255 * 1200, 255}, {255 * 1400, 255}, {254 * 1400, 254}, {100000, 72}}
	var sets []vfC03FragSet
	add := func(label string, sizes []int) {
		n, total := len(sizes), 0
		for _, s := range sizes {
			total += s
		}
		fwd, rev := make([]int, n), make([]int, n)
		for i := range fwd {
			fwd[i], rev[i] = i, n-1-i
		}
		shuf := rng.Perm(n)
		for d := 0; d < 1+n/8; d++ { // duplicates
			pos := rng.Intn(len(shuf) + 1)
			shuf = append(shuf[:pos], append([]int{rng.Intn(n)}, shuf[pos:]...)...)
		}
		for oi, o := range [][]int{fwd, rev, shuf} {
			sets = append(sets, vfC03FragSet{Label: fmt.Sprintf("%s/%s", label, []string{"in-order", "reversed", "shuffled+dups"}[oi]), Sizes: sizes, Order: o, Total: total})
		}
	}
	for _, c := range fixed {
		add(fmt.Sprintf("total=%d,count=%d,even", c.total, c.count), vfC03SplitTotal(rng, c.total, c.count, false))
		if c.total <= c.count*1400 && c.total > c.count {
			add(fmt.Sprintf("total=%d,count=%d,uneven", c.total, c.count), vfC03SplitTotal(rng, c.total, c.count, true))
		}
	}
	for i := 0; i < nRandom; i++ {
		count := 2 + rng.Intn(254)
		if rng.Intn(2) == 0 {
			count = 2 + rng.Intn(10)
		}
		sizes := make([]int, count)
		big := rng.Intn(3) != 0
		for j := range sizes {
			if big {
				sizes[j] = 1 + rng.Intn(1400)
			} else {
				sizes[j] = 1 + rng.Intn(40)
			}
		}
		add(fmt.Sprintf("random-%d,count=%d", i, count), sizes)
	}
	return sets
}

// vfC03SetPayloads: the payload of each fragment (position-coded so that any mixing shows) and their concatenation.
func vfC03SetPayloads(set vfC03FragSet, tag uint32) ([][]byte, []byte) {
	parts := make([][]byte, len(set.Sizes))
	whole := make([]byte, 0, set.Total)
	off := 0
	for i, n := range set.Sizes {
		p := make([]byte, n)
		for j := range p {
			v := uint32(off+j)*2654435761 ^ tag
			p[j] = byte(v >> 11)
		}
		parts[i] = p
		whole = append(whole, p...)
		off += n
	}
	return parts, whole
}

// ---------------------------------------------------------------------------- scripted readers

// vfC03Reader hands out a byte string in chunks (mode 0: everything at once, 1: one byte per
// Read, 2: random chunk sizes, 3: the final bytes together with io.EOF-like error). It has no
// ReadByte method, like a QUIC stream. After the data it returns endErr.
type vfC03Reader struct {
	data   []byte
	off    int
	mode   int
	state  uint64 // chunk-size generator for mode 2 (xorshift; 0 is replaced by a constant)
	endErr error
	reads  int
}

func (s *vfC03Reader) next(n int) int {
	if s.state == 0 {
		s.state = 0x9e3779b97f4a7c15 ^ uint64(len(s.data))
	}
	s.state ^= s.state << 13
	s.state ^= s.state >> 7
	s.state ^= s.state << 17
	return int(s.state % uint64(n))
}

func (s *vfC03Reader) Read(p []byte) (int, error) {
	s.reads++
	if len(p) == 0 {
		return 0, nil
	}
	rest := len(s.data) - s.off
	if rest == 0 {
		return 0, s.endErr
	}
	n := rest
	switch s.mode {
	case 1:
		n = 1
	case 2:
		n = 1 + s.next(rest)
		if n > 7 && s.next(2) == 0 {
			n = 1 + s.next(7)
		}
	}
	if n > len(p) {
		n = len(p)
	}
	copy(p, s.data[s.off:s.off+n])
	s.off += n
	if s.mode == 3 && s.off == len(s.data) {
		return n, s.endErr
	}
	return n, nil
}

// ---------------------------------------------------------------------------- native fuzzing as a workload generator (thorough tier)

// The fuzz targets are run by separate jobs with -fuzz=^Name$ -fuzztime=<N>x. The coordinator
// process and its workers all execute the target function; vfC03FuzzBegin moves every one of
// them into $VERIF_OUT so that the engine's crasher files (testdata/fuzz/...) land there and
// never in the repository. Recovered panics are appended to fuzzviol-<part>.jsonl by the
// workers; the coordinator turns them into the part's result file when fuzzing ends.
type vfC03Fuzz struct {
	f      *testing.F
	part   string // kit name of this fuzz part
	main   string // regular part that can replay "entry|hex" cases
	out    string
	worker bool
	active bool // -test.fuzz given
	start  time.Time
	mu     sync.Mutex
	execs  int64
	viol   map[string]int
}

func vfC03FuzzBegin(f *testing.F, part, mainPart string) *vfC03Fuzz {
	z := &vfC03Fuzz{f: f, part: part, main: mainPart, out: vfEnv("VERIF_OUT", os.TempDir()), start: time.Now(), viol: map[string]int{}}
	if fl := flag.Lookup("test.fuzzworker"); fl != nil && fl.Value.String() == "true" {
		z.worker = true
	}
	if fl := flag.Lookup("test.fuzz"); fl != nil && fl.Value.String() != "" {
		z.active = true
	}
	if z.active {
		_ = os.MkdirAll(z.out, 0o755)
		if err := os.Chdir(z.out); err != nil {
			f.Fatalf("verif C03: cannot leave the repository directory: %v", err)
		}
	}
	return z
}

func (z *vfC03Fuzz) appendLine(v map[string]any) {
	b, _ := json.Marshal(v)
	fh, err := os.OpenFile(filepath.Join(z.out, "fuzzviol-"+z.part+".jsonl"), os.O_CREATE|os.O_WRONLY|os.O_APPEND, 0o644)
	if err != nil {
		return
	}
	_, _ = fh.Write(append(b, '\n'))
	_ = fh.Close()
}

// Exec runs one generated input (copy with cap==len) through an entry point.
func (z *vfC03Fuzz) Exec(entry string, in []byte, fn func(b []byte)) {
	z.mu.Lock()
	z.execs++
	if z.execs%20000 == 0 {
		z.mu.Unlock()
		z.appendLine(map[string]any{"execs": 20000})
		z.mu.Lock()
	}
	z.mu.Unlock()
	b := vfExact(in)
	defer func() {
		if p := recover(); p != nil {
			z.mu.Lock()
			z.viol[entry]++
			n := z.viol[entry]
			z.mu.Unlock()
			if n <= 3 {
				z.appendLine(map[string]any{"entry": entry, "input_hex": hex.EncodeToString(in), "panic": fmt.Sprint(p), "stack": string(debug.Stack())})
			}
		}
	}()
	fn(b)
}

// End is deferred by the fuzz target. Workers flush their counters; the coordinator writes
// result-<part>.json in the kit's format.
func (z *vfC03Fuzz) End() {
	if !z.active {
		return
	}
	z.mu.Lock()
	rest := z.execs % 20000
	z.mu.Unlock()
	if z.worker {
		if rest > 0 {
			z.appendLine(map[string]any{"execs": rest})
		}
		return
	}
	seed, _ := strconv.ParseInt(vfEnv("VERIF_SEED", "1"), 10, 64)
	tier := vfEnv("VERIF_TIER", "quick")
	var execs int64
	var viols []map[string]any
	seen := map[string]int{}
	distinct := map[string]bool{}
	if data, err := os.ReadFile(filepath.Join(z.out, "fuzzviol-"+z.part+".jsonl")); err == nil {
		for _, line := range bytes.Split(data, []byte("\n")) {
			var v map[string]any
			if json.Unmarshal(line, &v) != nil {
				continue
			}
			if n, ok := v["execs"].(float64); ok {
				execs += int64(n)
				continue
			}
			entry, _ := v["entry"].(string)
			hx, _ := v["input_hex"].(string)
			distinct[entry+"|"+hx] = true
			key := entry + "-panic"
			seen[key]++
			if seen[key] > vfC03MaxPerKey {
				continue
			}
			path := filepath.Join(z.out, fmt.Sprintf("replay-%s-%03d.json", z.part, len(viols)))
			detail := fmt.Sprintf("%s panicked on fuzz-generated input (cap==len) %s: %v", entry, hx, v["panic"])
			doc := map[string]any{"property": "C03", "harness": z.main, "found_by": z.part, "seed": seed, "tier": tier, "key": key, "detail": detail,
				"case": map[string]any{"case_id": entry + "|" + hx, "entry": entry, "input_hex": hx, "panic": v["panic"], "stack": v["stack"]}}
			b, _ := json.MarshalIndent(doc, "", " ")
			_ = os.WriteFile(path, b, 0o644)
			viols = append(viols, map[string]any{"key": key, "detail": detail, "replay": path})
		}
	}
	// a worker that died (runtime throw, fatal error) is reported by the engine: the target has failed
	// and the crasher is in ./testdata/fuzz/<target>/ (we are in $VERIF_OUT)
	if z.f.Failed() {
		crashers, _ := filepath.Glob(filepath.Join(z.out, "testdata", "fuzz", "*", "*"))
		path := filepath.Join(z.out, fmt.Sprintf("replay-%s-%03d.json", z.part, len(viols)))
		detail := fmt.Sprintf("fuzz engine reported a failing input for %s (worker process died or test failed); crasher files: %v", z.part, crashers)
		var contents []string
		for _, c := range crashers {
			if d, err := os.ReadFile(c); err == nil && len(d) < 200000 {
				contents = append(contents, string(d))
			}
		}
		doc := map[string]any{"property": "C03", "harness": z.part, "seed": seed, "tier": tier, "key": "fuzz:" + z.part + "-worker-died", "detail": detail,
			"case": map[string]any{"crashers": crashers, "contents": contents}}
		b, _ := json.MarshalIndent(doc, "", " ")
		_ = os.WriteFile(path, b, 0o644)
		viols = append(viols, map[string]any{"key": "fuzz:" + z.part + "-worker-died", "detail": detail, "replay": path})
	}
	if viols == nil {
		viols = []map[string]any{}
	}
	res := map[string]any{
		"property": "C03", "harness": z.part, "tier": tier, "seed": seed,
		"evaluations": execs, "distinct_nontrivial": len(distinct), // inputs are engine-generated; only failing ones are kept
		"samples":    []any{},
		"counters":   map[string]int64{"ev_fuzz_execs": execs},
		"violations": viols, "inconclusive": []string{},
		"wall_s": time.Since(z.start).Seconds(), "complete": true,
	}
	b, _ := json.MarshalIndent(res, "", " ")
	tmp := filepath.Join(z.out, "result-"+z.part+".json.tmp")
	if err := os.WriteFile(tmp, b, 0o644); err == nil {
		_ = os.Rename(tmp, filepath.Join(z.out, "result-"+z.part+".json"))
	}
}

// ---------------------------------------------------------------------------- QUIC Initial packets (reference sealer, RFC 9001 section 5 / RFC 9369)

// Written from the RFCs, not from the sniffer: builds a client Initial packet protected with the
// keys derived from the destination connection id, so that hostile *plaintext* (CRYPTO frames,
// ClientHello bytes) reaches the code behind the sniffer's decryption.

const vfC03QUICv2 uint32 = 0x6b3343cf

type vfC03Initial struct {
	Version   uint32
	DCID      []byte
	SCID      []byte
	Token     []byte
	PN        uint32
	PNLen     int    // 1..4
	Frames    []byte // plaintext payload (frames)
	LengthAdj int    // added to the Length field (0 = correct)
	FirstByte byte   // 0 = standard (long header, fixed bit, Initial type)
}

func vfC03HKDFLabel(secret []byte, label string, n int) []byte {
	full := "tls13 " + label
	info := []byte{byte(n >> 8), byte(n), byte(len(full))}
	info = append(info, full...)
	info = append(info, 0)
	out, err := hkdf.Expand(sha256.New, secret, string(info), n)
	if err != nil {
		panic("harness: hkdf: " + err.Error())
	}
	return out
}

func vfC03SealInitial(p vfC03Initial) []byte {
	saltV1 := []byte{0x38, 0x76, 0x2c, 0xf7, 0xf5, 0x59, 0x34, 0xb3, 0x4d, 0x17, 0x9a, 0xe6, 0xa4, 0xc8, 0x0c, 0xad, 0xcc, 0xbb, 0x7f, 0x0a}
	saltV2 := []byte{0x0d, 0xed, 0xe3, 0xde, 0xf7, 0x00, 0xa6, 0xdb, 0x81, 0x93, 0x81, 0xbe, 0x6e, 0x26, 0x9d, 0xcb, 0xf9, 0xbd, 0x2e, 0xd9}
	salt, lk, liv, lhp, typ := saltV1, "quic key", "quic iv", "quic hp", byte(0)
	if p.Version == vfC03QUICv2 {
		salt, lk, liv, lhp, typ = saltV2, "quicv2 key", "quicv2 iv", "quicv2 hp", 1
	}
	initial, err := hkdf.Extract(sha256.New, p.DCID, salt)
	if err != nil {
		panic("harness: hkdf: " + err.Error())
	}
	client := vfC03HKDFLabel(initial, "client in", 32)
	key, iv, hp := vfC03HKDFLabel(client, lk, 16), vfC03HKDFLabel(client, liv, 12), vfC03HKDFLabel(client, lhp, 16)
	pnLen := p.PNLen
	if pnLen < 1 || pnLen > 4 {
		pnLen = 1
	}
	frames := append([]byte(nil), p.Frames...)
	for len(frames) < 4 { // enough ciphertext for the header-protection sample
		frames = append(frames, 0)
	}
	first := p.FirstByte
	if first == 0 {
		first = 0xc0 | typ<<4
	}
	first = first&0xfc | byte(pnLen-1)
	hdr := []byte{first, byte(p.Version >> 24), byte(p.Version >> 16), byte(p.Version >> 8), byte(p.Version)}
	hdr = append(hdr, byte(len(p.DCID)))
	hdr = append(hdr, p.DCID...)
	hdr = append(hdr, byte(len(p.SCID)))
	hdr = append(hdr, p.SCID...)
	hdr = append(hdr, vfC03VarintMin(uint64(len(p.Token)))...)
	hdr = append(hdr, p.Token...)
	if l := uint64(pnLen + len(frames) + 16 + p.LengthAdj); l <= 16383 {
		hdr = append(hdr, vfC03Varint(l, 2)...)
	} else {
		hdr = append(hdr, vfC03Varint(l, 4)...)
	}
	pnOff := len(hdr)
	for i := pnLen - 1; i >= 0; i-- {
		hdr = append(hdr, byte(p.PN>>(8*i)))
	}
	blk, _ := aes.NewCipher(key)
	aead, _ := cipher.NewGCM(blk)
	nonce := append([]byte(nil), iv...)
	for i := 0; i < 4; i++ {
		nonce[len(nonce)-1-i] ^= byte(p.PN >> (8 * i))
	}
	pkt := aead.Seal(append([]byte(nil), hdr...), nonce, frames, hdr)
	hpb, _ := aes.NewCipher(hp)
	mask := make([]byte, 16)
	hpb.Encrypt(mask, pkt[pnOff+4:pnOff+20])
	pkt[0] ^= mask[0] & 0x0f
	for i := 0; i < pnLen; i++ {
		pkt[pnOff+i] ^= mask[1+i]
	}
	return pkt
}

// vfC03CryptoFrame: one CRYPTO frame with chosen varint widths (0 = minimal).
func vfC03CryptoFrame(offset, length uint64, data []byte, width int) []byte {
	enc := func(v uint64) []byte {
		if width == 0 {
			return vfC03VarintMin(v)
		}
		return vfC03Varint(v, width)
	}
	return vfC03Cat([]byte{0x06}, enc(offset), enc(length), data)
}

// vfC03ClientHello: a minimal TLS 1.3 ClientHello handshake message carrying the given SNI.
func vfC03ClientHello(sni string) []byte { return vfC03ClientHelloPad(sni, 0) }

// vfC03ClientHelloPad: the same with a padding extension (type 21) of `pad` bytes, to make the
// handshake message span many CRYPTO frames / datagram-sized pieces.
func vfC03ClientHelloPad(sni string, pad int) []byte {
	var ext []byte
	if pad > 0 {
		ext = vfC03Cat(ext, []byte{0x00, 0x15, byte(pad >> 8), byte(pad)}, make([]byte, pad))
	}
	if sni != "" {
		name := []byte(sni)
		sn := vfC03Cat([]byte{byte((len(name) + 3) >> 8), byte(len(name) + 3), 0x00, byte(len(name) >> 8), byte(len(name))}, name)
		ext = vfC03Cat(ext, []byte{0x00, 0x00, byte(len(sn) >> 8), byte(len(sn))}, sn)
	}
	ext = vfC03Cat(ext, []byte{0x00, 0x2b, 0x00, 0x03, 0x02, 0x03, 0x04})       // supported_versions: TLS 1.3
	ext = vfC03Cat(ext, []byte{0x00, 0x0a, 0x00, 0x04, 0x00, 0x02, 0x00, 0x1d}) // supported_groups: x25519
	body := []byte{0x03, 0x03}
	for i := 0; i < 32; i++ {
		body = append(body, byte(0xa0+i))
	}
	body = vfC03Cat(body, []byte{0x00}, []byte{0x00, 0x02, 0x13, 0x01}, []byte{0x01, 0x00}, []byte{byte(len(ext) >> 8), byte(len(ext))}, ext)
	return vfC03Cat([]byte{0x01, byte(len(body) >> 16), byte(len(body) >> 8), byte(len(body))}, body)
}
