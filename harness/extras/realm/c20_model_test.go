//go:build verif

package realm

// C20 — Hole-punch demux diverts only punch/STUN packets.
//
// This file holds what the C20 harness parts share (see DESIGN.md §3 C20):
//
//   - an INDEPENDENT punch codec written from the documented wire format
//     (punch.go header comment: 8-byte salt, then SHA-256(key‖salt)-masked
//     "8-byte magic, 1-byte type, 16-byte nonce, 0..1024 padding bytes");
//   - a deliberately LENIENT STUN classifier, used only in the direction
//     "diverted ⇒ looks like a binding success response";
//   - hand-written STUN message builder (no pion code involved) and the packet
//     generators (QUIC-like, random, punch, near-miss punch, STUN family);
//   - the logical clock and small helpers.
//
// Parts: c20_codec_test.go (punch-codec), c20_seq_test.go (demux-seq),
// c20_conc_test.go (demux-conc, histories for the offline porcupine checker),
// c20_server_test.go (server-punch).

import (
	"bytes"
	"crypto/sha256"
	"encoding/binary"
	"encoding/hex"
	"errors"
	"fmt"
	"math/rand"
	"net"
	"net/netip"
	"runtime"
	"strconv"
	"strings"
	"sync"
	"sync/atomic"
	"unicode"
)

// ----------------------------------------------------------------------------- reference punch codec

const (
	vfC20SaltLen   = 8
	vfC20HeaderLen = 8 + 1 + 16 // magic, type, nonce
	vfC20MinWire   = vfC20SaltLen + vfC20HeaderLen
	vfC20MaxPad    = 1024
	vfC20MaxWire   = vfC20MinWire + vfC20MaxPad
)

var vfC20Magic = []byte{'H', 'Y', 'R', 'L', 'M', 'v', '1', 0}

// vfC20Meta is the binary form of a punch attempt's metadata.
type vfC20Meta struct {
	Nonce [16]byte
	Key   [32]byte
	Upper bool // render the hex strings in upper case (hex decoding is case-insensitive)
}

func (m vfC20Meta) PM() PunchMetadata {
	n, k := hex.EncodeToString(m.Nonce[:]), hex.EncodeToString(m.Key[:])
	if m.Upper {
		n, k = strings.ToUpper(n), strings.ToUpper(k)
	}
	return PunchMetadata{Nonce: n, Obfs: k}
}

func (m vfC20Meta) String() string {
	return hex.EncodeToString(m.Nonce[:]) + "/" + hex.EncodeToString(m.Key[:])
}

func (m vfC20Meta) Same(o vfC20Meta) bool { return m.Nonce == o.Nonce && m.Key == o.Key }

func vfC20RandMeta(r *rand.Rand) vfC20Meta {
	var m vfC20Meta
	r.Read(m.Nonce[:])
	r.Read(m.Key[:])
	return m
}

// vfC20Keystream: the mask is SHA-256 over key then salt, repeated every 32 bytes.
func vfC20Keystream(key [32]byte, salt []byte, n int) []byte {
	in := make([]byte, 0, 40)
	in = append(in, key[:]...)
	in = append(in, salt...)
	d := sha256.Sum256(in)
	ks := make([]byte, n)
	for i := range ks {
		ks[i] = d[i&31]
	}
	return ks
}

// vfC20RefEncode builds a wire packet from explicit fields. magic/typ/nonce are
// free so that near-miss packets can be built with the same routine.
func vfC20RefEncode(key [32]byte, salt [8]byte, magic []byte, typ byte, nonce [16]byte, pad []byte) []byte {
	plain := make([]byte, 0, vfC20HeaderLen+len(pad))
	plain = append(plain, magic...)
	plain = append(plain, typ)
	plain = append(plain, nonce[:]...)
	plain = append(plain, pad...)
	ks := vfC20Keystream(key, salt[:], len(plain))
	out := make([]byte, 0, vfC20SaltLen+len(plain))
	out = append(out, salt[:]...)
	for i := range plain {
		out = append(out, plain[i]^ks[i])
	}
	return out
}

func vfC20RefEncodeValid(m vfC20Meta, typ byte, salt [8]byte, pad []byte) []byte {
	return vfC20RefEncode(m.Key, salt, vfC20Magic, typ, m.Nonce, pad)
}

// vfC20RefDecode decides, from the documented format alone, whether pkt is a
// punch packet of the attempt with metadata m.
func vfC20RefDecode(pkt []byte, m vfC20Meta) (typ byte, pad int, ok bool) {
	if len(pkt) < vfC20MinWire || len(pkt) > vfC20MaxWire {
		return 0, 0, false
	}
	ks := vfC20Keystream(m.Key, pkt[:vfC20SaltLen], vfC20HeaderLen)
	var hdr [vfC20HeaderLen]byte
	for i := range hdr {
		hdr[i] = pkt[vfC20SaltLen+i] ^ ks[i]
	}
	for i, c := range vfC20Magic {
		if hdr[i] != c {
			return 0, 0, false
		}
	}
	t := hdr[8]
	if t != 0x01 && t != 0x02 {
		return 0, 0, false
	}
	for i := 0; i < 16; i++ {
		if hdr[9+i] != m.Nonce[i] {
			return 0, 0, false
		}
	}
	return t, len(pkt) - vfC20MinWire, true
}

// ----------------------------------------------------------------------------- lenient STUN classifier

const vfC20Cookie = 0x2112A442

// vfC20STUNClass classifies p leniently.
//
//	ok:      header present, cookie, message type exactly 0x0101 (Binding success
//	         response), declared length does not exceed the datagram, and a
//	         MAPPED-ADDRESS (0x0001) or XOR-MAPPED-ADDRESS (0x0020, or its
//	         pre-RFC code point 0x8020) attribute is found by a TLV walk.
//	topbits: the same would hold if the two most significant bits of the first
//	         byte were ignored (RFC 8489 §5: they MUST be zero in every STUN
//	         message; that is how STUN is told apart from QUIC on one socket).
func vfC20STUNClass(p []byte) (ok bool, topbits bool) {
	if len(p) < 20 {
		return false, false
	}
	if binary.BigEndian.Uint32(p[4:8]) != vfC20Cookie {
		return false, false
	}
	typ := binary.BigEndian.Uint16(p[0:2])
	if typ&0x3fff != 0x0101 {
		return false, false
	}
	decl := int(binary.BigEndian.Uint16(p[2:4]))
	if 20+decl > len(p) {
		return false, false
	}
	body := p[20 : 20+decl]
	found := false
	for off := 0; off+4 <= len(body); {
		at := binary.BigEndian.Uint16(body[off : off+2])
		al := int(binary.BigEndian.Uint16(body[off+2 : off+4]))
		if off+4+al > len(body) {
			break
		}
		if at == 0x0001 || at == 0x0020 || at == 0x8020 {
			found = true
			break
		}
		off += 4 + (al+3)&^3
	}
	if !found {
		return false, false
	}
	if typ == 0x0101 {
		return true, true
	}
	return false, true
}

// ----------------------------------------------------------------------------- STUN builder (hand-written)

type vfC20Attr struct {
	Type  uint16
	Value []byte
}

func vfC20BuildSTUN(typ uint16, cookie uint32, txid [12]byte, attrs []vfC20Attr) []byte {
	var body []byte
	for _, a := range attrs {
		var h [4]byte
		binary.BigEndian.PutUint16(h[0:2], a.Type)
		binary.BigEndian.PutUint16(h[2:4], uint16(len(a.Value)))
		body = append(body, h[:]...)
		body = append(body, a.Value...)
		for len(body)%4 != 0 {
			body = append(body, 0)
		}
	}
	out := make([]byte, 20, 20+len(body))
	binary.BigEndian.PutUint16(out[0:2], typ)
	binary.BigEndian.PutUint16(out[2:4], uint16(len(body)))
	binary.BigEndian.PutUint32(out[4:8], cookie)
	copy(out[8:20], txid[:])
	return append(out, body...)
}

func vfC20AttrXorMapped(code uint16, ap netip.AddrPort, txid [12]byte) vfC20Attr {
	var x [16]byte
	binary.BigEndian.PutUint32(x[0:4], vfC20Cookie)
	copy(x[4:], txid[:])
	ip := ap.Addr().AsSlice()
	v := make([]byte, 4+len(ip))
	v[1] = 0x01
	if len(ip) == 16 {
		v[1] = 0x02
	}
	binary.BigEndian.PutUint16(v[2:4], ap.Port()^uint16(vfC20Cookie>>16))
	for i := range ip {
		v[4+i] = ip[i] ^ x[i]
	}
	return vfC20Attr{Type: code, Value: v}
}

func vfC20AttrMapped(ap netip.AddrPort) vfC20Attr {
	ip := ap.Addr().AsSlice()
	v := make([]byte, 4+len(ip))
	v[1] = 0x01
	if len(ip) == 16 {
		v[1] = 0x02
	}
	binary.BigEndian.PutUint16(v[2:4], ap.Port())
	copy(v[4:], ip)
	return vfC20Attr{Type: 0x0001, Value: v}
}

// ----------------------------------------------------------------------------- packets

// vfC20Pkt is one scripted inbound datagram with everything the oracles need to
// explain what happened to it.
type vfC20Pkt struct {
	Seq   int
	Kind  string // generator class, e.g. "quic", "punch-valid", "punch-flip", "stun-request"
	Data  []byte
	From  net.Addr
	Owner int // index of the metadata the packet was derived from, -1 if none
	// for well-formed STUN binding responses built by the generator:
	StunAddr netip.AddrPort
	StunTx   [12]byte
}

// vfC20Addr is a net.Addr that is not a *net.UDPAddr.
type vfC20Addr struct{ s string }

func (a vfC20Addr) Network() string { return "vf" }
func (a vfC20Addr) String() string  { return a.s }

// vfC20SeqAddr returns a unique, well-formed IPv4 UDP source address for packet seq.
func vfC20SeqAddr(seq int) *net.UDPAddr {
	return &net.UDPAddr{IP: net.IPv4(10, byte(seq>>16), byte(seq>>8), byte(seq)).To4(), Port: 20000 + seq%40000}
}

// vfC20AddrUsable reports whether a source address names a UDP endpoint (IP and
// non-zero port) and returns it. A punch packet from an unusable source cannot be
// attributed to a peer; the demux may let it through.
func vfC20AddrUsable(a net.Addr) (netip.AddrPort, bool) {
	u, ok := a.(*net.UDPAddr)
	if !ok || u == nil {
		return netip.AddrPort{}, false
	}
	ip, ok := netip.AddrFromSlice(u.IP)
	if !ok || u.Port < 1 || u.Port > 65535 {
		return netip.AddrPort{}, false
	}
	return netip.AddrPortFrom(ip.Unmap(), uint16(u.Port)), true
}

func vfC20SameAddr(a, b net.Addr) bool {
	if a == nil || b == nil {
		return a == nil && b == nil
	}
	return a.Network() == b.Network() && a.String() == b.String()
}

func vfC20OddAddr(r *rand.Rand, seq int) net.Addr {
	switch r.Intn(6) {
	case 0: // 16-byte v4-mapped
		return &net.UDPAddr{IP: net.IPv4(10, byte(seq>>16), byte(seq>>8), byte(seq)), Port: 20000 + seq%40000}
	case 1: // IPv6
		ip := make(net.IP, 16)
		ip[0], ip[1] = 0x20, 0x01
		binary.BigEndian.PutUint32(ip[12:], uint32(seq))
		return &net.UDPAddr{IP: ip, Port: 20000 + seq%40000}
	case 2: // port 0
		return &net.UDPAddr{IP: net.IPv4(10, 9, byte(seq>>8), byte(seq)).To4(), Port: 0}
	case 3: // no IP
		return &net.UDPAddr{Port: 20000 + seq%40000}
	case 4: // not a UDP address at all
		return vfC20Addr{s: fmt.Sprintf("odd-%d", seq)}
	default: // IPv6 with zone
		ip := make(net.IP, 16)
		ip[0], ip[1] = 0xfe, 0x80
		binary.BigEndian.PutUint32(ip[12:], uint32(seq))
		return &net.UDPAddr{IP: ip, Port: 20000 + seq%40000, Zone: "eth0"}
	}
}

func vfC20Tag(seq int) [8]byte {
	var t [8]byte
	t[0], t[1] = 0xC2, 0x0A
	binary.BigEndian.PutUint32(t[2:6], uint32(seq))
	t[6], t[7] = 0x5A, byte(seq*7)
	return t
}

func vfC20RandBytes(r *rand.Rand, n int) []byte {
	b := make([]byte, n)
	r.Read(b)
	return b
}

// vfC20PadLen draws a padding length with weight on the edges of the window.
func vfC20PadLen(r *rand.Rand) int {
	switch r.Intn(8) {
	case 0:
		return 0
	case 1:
		return vfC20MaxPad
	case 2:
		return 1 + r.Intn(3)
	case 3:
		return vfC20MaxPad - 1 - r.Intn(3)
	default:
		return r.Intn(vfC20MaxPad + 1)
	}
}

// vfC20QUICLike: short- or long-header look-alike carrying the packet's tag.
func vfC20QUICLike(r *rand.Rand, seq int) []byte {
	n := 21 + r.Intn(1400)
	switch r.Intn(6) {
	case 0:
		n = vfC20MinWire - 1 + r.Intn(3)
	case 1:
		n = vfC20MaxWire - 1 + r.Intn(3)
	}
	b := vfC20RandBytes(r, n)
	if r.Intn(3) == 0 {
		b[0] = 0xC0 | byte(r.Intn(0x40))
		copy(b[1:5], []byte{0, 0, 0, 1})
		b[5] = 8
	} else {
		b[0] = 0x40 | byte(r.Intn(0x40))
	}
	t := vfC20Tag(seq)
	copy(b[len(b)-8:], t[:])
	return b
}

// vfC20PunchValid encodes a valid punch packet under m whose salt is the packet tag.
func vfC20PunchValid(r *rand.Rand, seq int, m vfC20Meta) []byte {
	typ := byte(1 + r.Intn(2))
	return vfC20RefEncodeValid(m, typ, vfC20Tag(seq), vfC20RandBytes(r, vfC20PadLen(r)))
}

// vfC20NearMissKinds lists the near-miss constructions; each takes a metadata the
// packet is "almost" valid for.
var vfC20NearMissKinds = []string{
	"flip-header", "flip-salt", "flip-pad", "trunc-1", "trunc-below-min", "trunc-to-min", "extend-1", "extend-over-max",
	"bad-magic", "bad-type", "nonce-bit", "key-bit", "mask-salt-first", "no-mask", "mask-no-salt",
}

func vfC20NearMiss(r *rand.Rand, seq int, m vfC20Meta, kind string) []byte {
	salt := vfC20Tag(seq)
	typ := byte(1 + r.Intn(2))
	pad := vfC20RandBytes(r, vfC20PadLen(r))
	base := vfC20RefEncodeValid(m, typ, salt, pad)
	switch kind {
	case "flip-header":
		bit := r.Intn(vfC20HeaderLen * 8)
		base[vfC20SaltLen+bit/8] ^= 1 << (bit % 8)
	case "flip-salt":
		bit := r.Intn(vfC20SaltLen * 8)
		base[bit/8] ^= 1 << (bit % 8)
	case "flip-pad": // stays a valid packet when there is padding
		if len(pad) == 0 {
			base = vfC20RefEncodeValid(m, typ, salt, []byte{0x55})
		}
		bit := r.Intn((len(base) - vfC20MinWire) * 8)
		base[vfC20MinWire+bit/8] ^= 1 << (bit % 8)
	case "trunc-1":
		base = base[:len(base)-1]
	case "trunc-below-min":
		base = base[:vfC20MinWire-1-r.Intn(4)]
	case "trunc-to-min":
		base = base[:vfC20MinWire]
	case "extend-1":
		base = append(base, byte(r.Intn(256)))
	case "extend-over-max":
		base = vfC20RefEncodeValid(m, typ, salt, vfC20RandBytes(r, vfC20MaxPad+1+r.Intn(3)))
	case "bad-magic":
		mg := append([]byte(nil), vfC20Magic...)
		i := r.Intn(8)
		switch r.Intn(3) {
		case 0:
			mg[i] ^= 1 << r.Intn(8)
		case 1:
			mg[i] ^= 0x20 // letter case
		default:
			mg[7] = '2' // "HYRLMv12"
		}
		base = vfC20RefEncode(m.Key, salt, mg, typ, m.Nonce, pad)
	case "bad-type":
		ts := []byte{0x00, 0x03, 0x04, 0x10, 0x11, 0x12, 0x81, 0x82, 0xff, 0x21, 0x41}
		base = vfC20RefEncode(m.Key, salt, vfC20Magic, ts[r.Intn(len(ts))], m.Nonce, pad)
	case "nonce-bit":
		n := m.Nonce
		n[r.Intn(16)] ^= 1 << r.Intn(8)
		base = vfC20RefEncode(m.Key, salt, vfC20Magic, typ, n, pad)
	case "key-bit":
		k := m.Key
		k[r.Intn(32)] ^= 1 << r.Intn(8)
		base = vfC20RefEncode(k, salt, vfC20Magic, typ, m.Nonce, pad)
	case "mask-salt-first": // SHA-256(salt‖key) instead of SHA-256(key‖salt)
		plain := append(append(append([]byte(nil), vfC20Magic...), typ), m.Nonce[:]...)
		plain = append(plain, pad...)
		d := sha256.Sum256(append(append([]byte(nil), salt[:]...), m.Key[:]...))
		base = append([]byte(nil), salt[:]...)
		for i := range plain {
			base = append(base, plain[i]^d[i&31])
		}
	case "no-mask":
		base = append([]byte(nil), salt[:]...)
		base = append(base, vfC20Magic...)
		base = append(base, typ)
		base = append(base, m.Nonce[:]...)
		base = append(base, pad...)
	case "mask-no-salt":
		plain := append(append(append([]byte(nil), vfC20Magic...), typ), m.Nonce[:]...)
		plain = append(plain, pad...)
		d := sha256.Sum256(m.Key[:])
		base = append([]byte(nil), salt[:]...)
		for i := range plain {
			base = append(base, plain[i]^d[i&31])
		}
	default:
		panic("vfC20NearMiss: unknown kind " + kind)
	}
	return base
}

var vfC20STUNKinds = []string{
	"ok-xor4", "ok-xor6", "ok-mapped4", "ok-legacy-xor", "ok-extra-attrs", "ok-trailing",
	"request", "error-response", "indication", "other-method-success", "success-no-mapped",
	"bad-cookie", "length-too-long", "header-only", "topbits", "flip", "short",
}

// vfC20STUN builds a member of the STUN family. For the "ok-*" kinds it also
// returns the mapped address that was encoded.
func vfC20STUN(r *rand.Rand, seq int, kind string) (data []byte, mapped netip.AddrPort, tx [12]byte) {
	t := vfC20Tag(seq)
	copy(tx[:8], t[:])
	r.Read(tx[8:])
	a4 := netip.AddrPortFrom(netip.AddrFrom4([4]byte{198, 51, byte(seq >> 8), byte(seq)}), uint16(1024+seq%60000))
	var ip6 [16]byte
	ip6[0], ip6[1] = 0x20, 0x01
	binary.BigEndian.PutUint32(ip6[12:], uint32(seq))
	a6 := netip.AddrPortFrom(netip.AddrFrom16(ip6), uint16(1024+seq%60000))
	soft := vfC20Attr{Type: 0x8022, Value: []byte("vf-stun")}
	switch kind {
	case "ok-xor4":
		return vfC20BuildSTUN(0x0101, vfC20Cookie, tx, []vfC20Attr{vfC20AttrXorMapped(0x0020, a4, tx)}), a4, tx
	case "ok-xor6":
		return vfC20BuildSTUN(0x0101, vfC20Cookie, tx, []vfC20Attr{vfC20AttrXorMapped(0x0020, a6, tx)}), a6, tx
	case "ok-mapped4":
		return vfC20BuildSTUN(0x0101, vfC20Cookie, tx, []vfC20Attr{vfC20AttrMapped(a4)}), a4, tx
	case "ok-legacy-xor":
		return vfC20BuildSTUN(0x0101, vfC20Cookie, tx, []vfC20Attr{vfC20AttrXorMapped(0x8020, a4, tx)}), a4, tx
	case "ok-extra-attrs":
		return vfC20BuildSTUN(0x0101, vfC20Cookie, tx, []vfC20Attr{soft, vfC20AttrXorMapped(0x0020, a4, tx), {Type: 0x8028, Value: []byte{1, 2, 3, 4}}}), a4, tx
	case "ok-trailing":
		b := vfC20BuildSTUN(0x0101, vfC20Cookie, tx, []vfC20Attr{vfC20AttrXorMapped(0x0020, a4, tx)})
		return append(b, vfC20RandBytes(r, 1+r.Intn(8))...), a4, tx
	case "request":
		if r.Intn(2) == 0 {
			return vfC20BuildSTUN(0x0001, vfC20Cookie, tx, nil), netip.AddrPort{}, tx
		}
		// a request that even carries a mapped address must not be taken for a response
		return vfC20BuildSTUN(0x0001, vfC20Cookie, tx, []vfC20Attr{vfC20AttrXorMapped(0x0020, a4, tx)}), netip.AddrPort{}, tx
	case "error-response":
		ec := vfC20Attr{Type: 0x0009, Value: append([]byte{0, 0, 4, 0}, []byte("Bad Request")...)}
		as := []vfC20Attr{ec}
		if r.Intn(2) == 0 {
			as = append(as, vfC20AttrXorMapped(0x0020, a4, tx))
		}
		return vfC20BuildSTUN(0x0111, vfC20Cookie, tx, as), netip.AddrPort{}, tx
	case "indication":
		return vfC20BuildSTUN(0x0011, vfC20Cookie, tx, []vfC20Attr{vfC20AttrXorMapped(0x0020, a4, tx)}), netip.AddrPort{}, tx
	case "other-method-success":
		ms := []uint16{0x0103, 0x0104, 0x0108, 0x0109, 0x0102}
		return vfC20BuildSTUN(ms[r.Intn(len(ms))], vfC20Cookie, tx, []vfC20Attr{vfC20AttrXorMapped(0x0020, a4, tx)}), netip.AddrPort{}, tx
	case "success-no-mapped":
		return vfC20BuildSTUN(0x0101, vfC20Cookie, tx, []vfC20Attr{soft}), netip.AddrPort{}, tx
	case "bad-cookie":
		return vfC20BuildSTUN(0x0101, vfC20Cookie^(1<<uint(r.Intn(32))), tx, []vfC20Attr{vfC20AttrXorMapped(0x0020, a4, tx)}), netip.AddrPort{}, tx
	case "length-too-long":
		b := vfC20BuildSTUN(0x0101, vfC20Cookie, tx, []vfC20Attr{vfC20AttrXorMapped(0x0020, a4, tx)})
		binary.BigEndian.PutUint16(b[2:4], uint16(len(b)-20+4+4*r.Intn(3)))
		return b, netip.AddrPort{}, tx
	case "header-only":
		return vfC20BuildSTUN(0x0101, vfC20Cookie, tx, nil), netip.AddrPort{}, tx
	case "topbits":
		// first byte 0x41 / 0x81 / 0xC1: a QUIC-range first byte in front of a binding success body
		b := vfC20BuildSTUN(0x0101, vfC20Cookie, tx, []vfC20Attr{vfC20AttrXorMapped(0x0020, a4, tx)})
		b[0] |= byte(1+r.Intn(3)) << 6
		return b, netip.AddrPort{}, tx
	case "flip":
		b := vfC20BuildSTUN(0x0101, vfC20Cookie, tx, []vfC20Attr{vfC20AttrXorMapped(0x0020, a4, tx)})
		bit := r.Intn(8 * 8) // type, length, cookie
		b[bit/8] ^= 1 << (bit % 8)
		return b, netip.AddrPort{}, tx
	case "short":
		b := vfC20BuildSTUN(0x0101, vfC20Cookie, tx, []vfC20Attr{vfC20AttrXorMapped(0x0020, a4, tx)})
		return b[:8+r.Intn(12)], netip.AddrPort{}, tx
	}
	panic("vfC20STUN: unknown kind " + kind)
}

// ----------------------------------------------------------------------------- shared small things

var vfC20ErrDrained = errors.New("vfC20: script drained")

func vfC20min(a, b int) int {
	if a < b {
		return a
	}
	return b
}

func vfC20max(a, b int) int {
	if a > b {
		return a
	}
	return b
}

// vfC20UDPAddr is the *net.UDPAddr form of an AddrPort (own helper: the API-only harness
// files do not use unexported functions of the package).
func vfC20UDPAddr(ap netip.AddrPort) *net.UDPAddr {
	return &net.UDPAddr{IP: net.IP(ap.Addr().AsSlice()), Port: int(ap.Port())}
}

// vfC20Census is the optional WHITE-BOX registry probe. It is nil in every job except
// "census": only c20_whitebox_test.go (listed in that job alone) touches unexported state
// of PunchPacketConn / ServerPuncher and installs it. All other C20 harness files use the
// exported API only, so a change of the registry's representation cannot take the
// behavioural oracles down with it.
var vfC20Census *vfC20CensusFuncs

type vfC20CensusFuncs struct {
	Conn   func(w *PunchPacketConn, id string) (PunchMetadata, bool) // registry entry of id, read under the conn's own lock
	Server func(sp *ServerPuncher, id string) bool                   // ServerPuncher's attempt table has id
}

// vfC20AttemptID draws an attempt id from mixed alphabets. Attempt ids are opaque strings
// to the API (the server passes the rendezvous nonce verbatim), so nothing may depend on
// their spelling: lower/upper/mixed-case hex (nonce-like), non-hex printable text with
// blanks and non-ASCII, long ids, plain tags. uniq makes ids of one case pairwise distinct
// (case-sensitively); maxLong bounds the long form.
func vfC20AttemptID(r *rand.Rand, uniq string, maxLong int) string {
	h := sha256.Sum256([]byte("vfC20-id/" + uniq))
	hx := hex.EncodeToString(h[:16])
	mixed := func(s string) string {
		b := []byte(s)
		for i := range b {
			if r.Intn(2) == 0 {
				b[i] = byte(unicode.ToUpper(rune(b[i])))
			}
		}
		return string(b)
	}
	switch r.Intn(9) {
	case 0:
		return hx // 32 lower-case hex digits, like a nonce
	case 1:
		return strings.ToUpper(hx) // the same in upper case
	case 2:
		return mixed(hx)
	case 3:
		return "Attempt #" + uniq + " /\u00c4\u00d6 caf\u00e9\t(" + strings.ToUpper(hx[:6]) + ")"
	case 4:
		return strings.Repeat("Ab", 1+r.Intn(maxLong/2)) + "-" + uniq
	case 5:
		return uniq
	case 6:
		return strings.ToUpper(uniq)
	case 7:
		return mixed(uniq) + "." + strings.ToUpper(hx[:8])
	default:
		return "ID_" + mixed(hx[:12]) + "_" + uniq
	}
}

// vfC20SwapCase returns s with the case of every ASCII letter flipped (an id that differs
// from s only in case; equal to s if s has no letters).
func vfC20SwapCase(s string) string {
	b := []byte(s)
	for i, c := range b {
		switch {
		case c >= 'a' && c <= 'z':
			b[i] = c - 32
		case c >= 'A' && c <= 'Z':
			b[i] = c + 32
		}
	}
	return string(b)
}

// ----------------------------------------------------------------------------- violation throttle

var (
	vfC20VMu   sync.Mutex
	vfC20VSeen = map[string]int{}
)

// vfC20V records a violation, but at most 4 per (part, key): the kit keeps 40 violations
// per part, and one flooding key must not crowd out the others. Suppressed ones are counted.
func vfC20V(k *vfKit, key string, replay any, format string, args ...any) {
	vfC20VMu.Lock()
	vfC20VSeen[k.Name+"|"+key]++
	n := vfC20VSeen[k.Name+"|"+key]
	vfC20VMu.Unlock()
	if n > 4 {
		k.Count("more_violations_"+key, 1)
		return
	}
	k.Violation(key, replay, format, args...)
}

// ----------------------------------------------------------------------------- clock, goroutine id

// vfC20Clock is the single monotonic logical counter every recorded call/return is stamped from.
type vfC20Clock struct{ v atomic.Int64 }

func (c *vfC20Clock) Stamp() int64 { return c.v.Add(1) }

// vfC20GoID returns the current goroutine's id (the fake inner conn uses it to
// tell which reader's ReadFrom loop came back for another packet).
func vfC20GoID() uint64 {
	var b [64]byte
	n := runtime.Stack(b[:], false)
	s := bytes.TrimPrefix(b[:n], []byte("goroutine "))
	if i := bytes.IndexByte(s, ' '); i > 0 {
		id, _ := strconv.ParseUint(string(s[:i]), 10, 64)
		return id
	}
	return 0
}

func vfC20PktBrief(p *vfC20Pkt) map[string]any {
	from := "<nil>"
	if p.From != nil {
		from = p.From.Network() + ":" + p.From.String()
	}
	return map[string]any{"seq": p.Seq, "kind": p.Kind, "len": len(p.Data), "from": from, "hex": hex.EncodeToString(p.Data), "owner": p.Owner}
}
