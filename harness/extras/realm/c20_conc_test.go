//go:build verif

package realm

// C20 part "demux-conc": AddPunchAttempt / RemovePunchAttempt from writer goroutines
// while reader goroutines sit in PunchPacketConn.ReadFrom (run under -race).
//
// One "world" = one PunchPacketConn over a channel-fed fake inner conn, A attempts with
// fixed, pairwise unrelated metadata, W writers, R readers, one injector, one event
// collector. Attempts 0..A-2 are each owned by one writer (their Add/Remove calls are
// sequential); the last attempt is toggled by ALL writers (overlapping writes).
// Every call is stamped call/return from one atomic logical counter:
//
//   add/remove:  [stamp before the call, stamp after it returned]
//   read of attempt X (= fate of one valid punch packet of X from a unique source):
//                call   = stamp taken by the fake inner conn right before it returns the
//                         packet to the wrapper (the wrapper cannot have looked at the
//                         registry for this packet earlier);
//                return = for "diverted": stamp at the entry of the NEXT inner ReadFrom on
//                         the same goroutine (the wrapper came back, so it had decided);
//                         for "passed": stamp after the wrapper's ReadFrom returned it.
//
// In-harness oracles: every packet that is neither a punch packet of some attempt nor a
// STUN response is returned exactly once, byte-identical, with its source, to the reader
// that pulled it; nothing else is returned; for single-owner attempts the outcome of a
// read must be the registry state after one of the writes that could have taken effect
// by then (key realm:divert-after-remove = "a read that started after RemovePunchAttempt
// returned diverted a packet of that attempt"); collected events name a diverted packet
// (by its unique source) of the right attempt, at most once.
// Offline oracle: the full per-attempt histories (c20-history.jsonl) are checked for
// linearizability as a boolean register by checkers/cmd/c20lin (porcupine).
//
// No clocks are involved; writers are paced by the count of packets handed over.

import (
	"bytes"
	"encoding/json"
	"fmt"
	"math/rand"
	"net"
	"os"
	"path/filepath"
	"runtime"
	"sort"
	"sync"
	"sync/atomic"
	"testing"
	"time"
)

type vfC20HistRec struct {
	World   string `json:"world"`
	Attempt string `json:"attempt"`
	Client  int    `json:"client"`
	Op      string `json:"op"` // add | remove | read
	Val     bool   `json:"val"`
	Call    int64  `json:"call"`
	Ret     int64  `json:"ret"`
	Pkt     int    `json:"pkt,omitempty"`
	Multi   bool   `json:"multi_writer,omitempty"`
}

type vfC20ReadRec struct {
	pkt      *vfC20Pkt
	client   int
	call     int64
	ret      int64
	diverted bool
	done     bool
}

type vfC20ReaderState struct {
	client  int
	pending *vfC20ReadRec
	reads   []*vfC20ReadRec
}

type vfC20ConcInner struct {
	k         *vfKit
	clock     *vfC20Clock
	ch        chan *vfC20Pkt
	delivered atomic.Int64
	mu        sync.Mutex
	readers   map[uint64]*vfC20ReaderState
	nextCli   int
	yield     uint32 // Gosched once every n hand-overs (0 = never)
}

func (c *vfC20ConcInner) state() *vfC20ReaderState {
	g := vfC20GoID()
	c.mu.Lock()
	defer c.mu.Unlock()
	st := c.readers[g]
	if st == nil {
		st = &vfC20ReaderState{client: c.nextCli}
		c.nextCli++
		c.readers[g] = st
	}
	return st
}

func (c *vfC20ConcInner) ReadFrom(p []byte) (int, net.Addr, error) {
	st := c.state()
	if st.pending != nil {
		// the wrapper came back on this goroutine without returning the previous packet
		st.pending.ret = c.clock.Stamp()
		st.pending.diverted, st.pending.done = true, true
		st.pending = nil
	}
	pkt, ok := <-c.ch
	if !ok {
		return 0, nil, vfC20ErrDrained
	}
	if len(p) < len(pkt.Data) {
		panic("vfC20: reader buffer too small")
	}
	n := copy(p, pkt.Data)
	rec := &vfC20ReadRec{pkt: pkt, client: st.client}
	st.reads = append(st.reads, rec)
	st.pending = rec
	d := c.delivered.Add(1)
	rec.call = c.clock.Stamp() // logged before the value goes back to the code under test
	if c.yield != 0 && uint32(d)%c.yield == 0 {
		runtime.Gosched()
	}
	return n, pkt.From, nil
}

func (c *vfC20ConcInner) WriteTo(p []byte, addr net.Addr) (int, error) { return len(p), nil }
func (c *vfC20ConcInner) Close() error                                 { return nil }
func (c *vfC20ConcInner) LocalAddr() net.Addr {
	return &net.UDPAddr{IP: net.IPv4(127, 0, 0, 1).To4(), Port: 4433}
}
func (c *vfC20ConcInner) SetDeadline(time.Time) error      { return nil }
func (c *vfC20ConcInner) SetReadDeadline(time.Time) error  { return nil }
func (c *vfC20ConcInner) SetWriteDeadline(time.Time) error { return nil }

type vfC20WriteRec struct {
	client int
	add    bool
	call   int64
	ret    int64
}

func TestVerifC20DemuxConc(t *testing.T) {
	k := vfNewKit(t, "C20", "demux-conc")
	defer k.Finish()
	histPath := filepath.Join(k.Out, "c20-history.jsonl")
	hf, err := os.Create(histPath)
	if err != nil {
		t.Fatalf("create history: %v", err)
	}
	defer hf.Close()
	henc := json.NewEncoder(hf)

	nWorlds := k.N(24, 400)
	for wi := 0; wi < nWorlds; wi++ {
		world := fmt.Sprintf("conc-%d", wi)
		if rc := k.ReplayCase(); rc != "" && rc != world {
			continue
		}
		k.Eval()
		r := k.Rand(world)
		nAtt := 3 + r.Intn(6)
		nWriters := 2 + r.Intn(2)
		nReaders := 1 + r.Intn(3)
		nPkts := k.N(1500, 3000)
		opsPerWriter := 30 + r.Intn(50)

		metas := make([]vfC20Meta, nAtt)
		ids := make([]string, nAtt)
		for i := range metas {
			metas[i] = vfC20RandMeta(r)
			ids[i] = vfC20AttemptID(r, fmt.Sprintf("w%d-a%d", wi, i), 200)
		}
		multi := nAtt - 1 // toggled by every writer
		// packets
		pkts := make([]*vfC20Pkt, nPkts)
		for i := range pkts {
			seq := i + 1
			p := &vfC20Pkt{Seq: seq, Owner: -1, From: vfC20SeqAddr(seq)}
			x := r.Intn(100)
			switch {
			case x < 55:
				p.Owner = r.Intn(nAtt)
				if r.Intn(3) == 0 {
					p.Owner = multi
				}
				p.Kind, p.Data = "punch", vfC20PunchValid(r, seq, metas[p.Owner])
			case x < 75:
				p.Kind, p.Data = "quic", vfC20QUICLike(r, seq)
			case x < 90:
				kinds := []string{"flip-header", "flip-salt", "bad-magic", "bad-type", "nonce-bit", "key-bit", "trunc-below-min", "extend-over-max"}
				kd := kinds[r.Intn(len(kinds))]
				p.Kind, p.Data = "near-"+kd, vfC20NearMiss(r, seq, metas[r.Intn(nAtt)], kd)
			case x < 95:
				kinds := []string{"request", "error-response", "indication", "bad-cookie", "success-no-mapped"}
				kd := kinds[r.Intn(len(kinds))]
				p.Kind = "stun-" + kd
				p.Data, _, _ = vfC20STUN(r, seq, kd)
			default:
				p.Kind = "stun-ok-xor4"
				p.Data, p.StunAddr, p.StunTx = vfC20STUN(r, seq, "ok-xor4")
			}
			pkts[i] = p
		}
		// static classification by the reference decoder (metadata never changes in a world)
		owner := make([]int, nPkts) // attempt index the packet is valid under, -1 none
		for i, p := range pkts {
			owner[i] = -1
			for a := range metas {
				if _, _, ok := vfC20RefDecode(p.Data, metas[a]); ok {
					if owner[i] >= 0 {
						t.Fatalf("vfC20: packet valid under two unrelated metadata")
					}
					owner[i] = a
				}
			}
			if (p.Kind == "punch") != (owner[i] >= 0) || (owner[i] >= 0 && owner[i] != p.Owner) {
				t.Fatalf("vfC20: generator/reference disagreement on packet %d (%s)", p.Seq, p.Kind)
			}
		}

		clock := &vfC20Clock{}
		in := &vfC20ConcInner{k: k, clock: clock, ch: make(chan *vfC20Pkt, 1+r.Intn(32)), readers: map[uint64]*vfC20ReaderState{},
			yield: uint32(r.Intn(4))}
		w, err := NewPunchPacketConn(in, 4+r.Intn(64))
		if err != nil {
			t.Fatalf("NewPunchPacketConn: %v", err)
		}

		// writer plans: (attempt, add?) sequences; owner writer of attempt a is a % nWriters
		type wop struct {
			att int
			add bool
		}
		plans := make([][]wop, nWriters)
		for wr := range plans {
			var mine []int
			for a := 0; a < multi; a++ {
				if a%nWriters == wr {
					mine = append(mine, a)
				}
			}
			mine = append(mine, multi)
			on := map[int]bool{}
			for j := 0; j < opsPerWriter; j++ {
				a := mine[r.Intn(len(mine))]
				add := !on[a]
				if r.Intn(8) == 0 {
					add = !add // idempotent re-add / remove of an absent attempt
				}
				on[a] = add
				plans[wr] = append(plans[wr], wop{a, add})
			}
		}

		var wg sync.WaitGroup
		writes := make([][]vfC20WriteRec, nAtt)
		var wmu sync.Mutex
		for wr := 0; wr < nWriters; wr++ {
			wg.Add(1)
			go func(wr int) {
				defer wg.Done()
				client := 100 + wr
				for j, op := range plans[wr] {
					// pace by packets handed over so that writes are spread over the whole run
					thr := int64(j) * int64(nPkts) / int64(len(plans[wr])+1)
					for in.delivered.Load() < thr {
						runtime.Gosched()
					}
					call := clock.Stamp()
					if op.add {
						if err := w.AddPunchAttempt(ids[op.att], metas[op.att].PM()); err != nil {
							vfC20V(k, "realm:add-refused", map[string]any{"case_id": world, "id": ids[op.att]}, "AddPunchAttempt refused well-formed metadata: %v", err)
						}
					} else {
						w.RemovePunchAttempt(ids[op.att])
					}
					ret := clock.Stamp()
					wmu.Lock()
					writes[op.att] = append(writes[op.att], vfC20WriteRec{client: client, add: op.add, call: call, ret: ret})
					wmu.Unlock()
				}
			}(wr)
		}

		// event collector
		stopCollect := make(chan struct{})
		var pevs []PunchPacketEvent
		var sevs []STUNPacketEvent
		var cwg sync.WaitGroup
		cwg.Add(1)
		go func() {
			defer cwg.Done()
			for {
				select {
				case e := <-w.Events():
					pevs = append(pevs, e)
				case e := <-w.STUNEvents():
					sevs = append(sevs, e)
				case <-stopCollect:
					for {
						select {
						case e := <-w.Events():
							pevs = append(pevs, e)
						case e := <-w.STUNEvents():
							sevs = append(sevs, e)
						default:
							return
						}
					}
				}
			}
		}()

		// readers
		type passRec struct {
			rec  *vfC20ReadRec
			data []byte
			addr net.Addr
		}
		var rwg sync.WaitGroup
		var vmu sync.Mutex
		for rd := 0; rd < nReaders; rd++ {
			rwg.Add(1)
			go func(rd int) {
				defer rwg.Done()
				st := in.state() // registers this goroutine
				buf := make([]byte, 2048)
				for {
					n, addr, err := w.ReadFrom(buf)
					now := clock.Stamp()
					rec := st.pending
					if err != nil {
						if rec != nil { // cannot happen with this fake: error only when nothing was handed over
							rec.ret, rec.diverted, rec.done = now, true, true
							st.pending = nil
						}
						return
					}
					if rec == nil {
						vmu.Lock()
						vfC20V(k, "realm:returned-without-delivery", map[string]any{"case_id": world, "returned_hex": vfHex(buf[:n])},
							"ReadFrom returned %d bytes although no injected packet was pending on this reader", n)
						vmu.Unlock()
						continue
					}
					rec.ret, rec.diverted, rec.done = now, false, true
					st.pending = nil
					if n != len(rec.pkt.Data) || !bytes.Equal(buf[:n], rec.pkt.Data) {
						vfC20V(k, "realm:passthrough-bytes-differ", map[string]any{"case_id": world, "packet": vfC20PktBrief(rec.pkt), "returned_hex": vfHex(buf[:vfC20min(vfC20max(n, 0), len(buf))])},
							"packet #%d (%s) reached the reader altered (%d bytes returned, %d injected)", rec.pkt.Seq, rec.pkt.Kind, n, len(rec.pkt.Data))
					}
					if !vfC20SameAddr(addr, rec.pkt.From) {
						vfC20V(k, "realm:passthrough-addr-differs", map[string]any{"case_id": world, "packet": vfC20PktBrief(rec.pkt), "returned_addr": fmt.Sprint(addr)},
							"packet #%d returned with source %v, injected with %v", rec.pkt.Seq, addr, rec.pkt.From)
					}
				}
			}(rd)
		}

		// injector
		for _, p := range pkts {
			in.ch <- p
		}
		close(in.ch)
		rwg.Wait()
		wg.Wait()
		close(stopCollect)
		cwg.Wait()

		// ---- evaluation of the world
		fate := make(map[int]*vfC20ReadRec, nPkts) // seq -> read record
		dups := 0
		for _, st := range in.readers {
			last := 0
			for _, rec := range st.reads {
				if rec.pkt.Seq < last {
					t.Fatalf("vfC20: harness self-check failed: per-reader hand-over order broken")
				}
				last = rec.pkt.Seq
				if fate[rec.pkt.Seq] != nil {
					dups++
				}
				fate[rec.pkt.Seq] = rec
			}
		}
		if dups > 0 || len(fate) != nPkts {
			t.Fatalf("vfC20: harness self-check failed: %d packets accounted for out of %d, %d duplicates", len(fate), nPkts, dups)
		}
		var nDiv, nPass, nUndone int
		reads := make([][]*vfC20ReadRec, nAtt)
		for i, p := range pkts {
			rec := fate[p.Seq]
			if !rec.done {
				nUndone++
				continue
			}
			k.Count("ev_packets", 1)
			if rec.diverted {
				nDiv++
			} else {
				nPass++
			}
			if owner[i] >= 0 {
				reads[owner[i]] = append(reads[owner[i]], rec)
				continue
			}
			stunOK, stunTop := vfC20STUNClass(p.Data)
			if rec.diverted && !stunOK {
				key := "realm:diverted-unjustified"
				if stunTop {
					key = "realm:diverted-stun-type-topbits"
				}
				vfC20V(k, key, map[string]any{"case_id": world, "packet": vfC20PktBrief(p)},
					"packet #%d (%s, %d bytes) was withheld from the reader although it is neither a STUN binding success response nor a punch packet of any attempt of this world",
					p.Seq, p.Kind, len(p.Data))
			}
			if rec.diverted && stunOK {
				k.Count("ev_diverted_stun", 1)
			}
		}
		if nUndone > 0 {
			k.Inconclusive(fmt.Sprintf("%s: %d packets without a decided fate", world, nUndone))
		}
		k.Count("ev_diverted", int64(nDiv))
		k.Count("ev_passed", int64(nPass))

		// per-attempt histories
		var nOverlap int
		for a := 0; a < nAtt; a++ {
			ws := writes[a]
			sort.Slice(ws, func(i, j int) bool { return ws[i].call < ws[j].call })
			for _, x := range ws {
				op := "remove"
				if x.add {
					op = "add"
				}
				_ = henc.Encode(vfC20HistRec{World: world, Attempt: ids[a], Client: x.client, Op: op, Val: x.add, Call: x.call, Ret: x.ret, Multi: a == multi})
				k.Count("ev_writes", 1)
			}
			for _, rd := range reads[a] {
				_ = henc.Encode(vfC20HistRec{World: world, Attempt: ids[a], Client: rd.client, Op: "read", Val: rd.diverted, Call: rd.call, Ret: rd.ret, Pkt: rd.pkt.Seq, Multi: a == multi})
				k.Count("ev_reads_of_attempts", 1)
				if rd.diverted {
					k.Count("ev_diverted_punch", 1)
				}
			}
			if a == multi {
				continue
			}
			// single-owner attempt: writes are sequential. Exact admissible set per read.
			for i := 1; i < len(ws); i++ {
				if ws[i].call < ws[i-1].ret {
					t.Fatalf("vfC20: single-owner writes overlap")
				}
			}
			for _, rd := range reads[a] {
				// i0 = last write that returned before the read started (-1: none)
				// i1 = last write that was called before the read's outcome was known
				i0, i1 := -1, -1
				for i, x := range ws {
					if x.ret < rd.call {
						i0 = i
					}
					if x.call < rd.ret {
						i1 = i
					}
				}
				okv := false
				for i := i0; i <= i1; i++ {
					st := false
					if i >= 0 {
						st = ws[i].add
					}
					if st == rd.diverted {
						okv = true
					}
				}
				if i1 > i0 {
					nOverlap++
				}
				if okv {
					continue
				}
				hist := []map[string]any{}
				for i := vfC20max(i0-1, 0); i <= i1+1 && i < len(ws); i++ {
					hist = append(hist, map[string]any{"op": map[bool]string{true: "add", false: "remove"}[ws[i].add], "call": ws[i].call, "ret": ws[i].ret})
				}
				rep := map[string]any{"case_id": world, "attempt": ids[a], "packet": vfC20PktBrief(rd.pkt),
					"read": map[string]any{"call": rd.call, "ret": rd.ret, "diverted": rd.diverted, "reader": rd.client}, "writes_around": hist}
				if rd.diverted {
					vfC20V(k, "realm:divert-after-remove", rep,
						"attempt %s: a read that started (stamp %d) after the last RemovePunchAttempt returned — with no AddPunchAttempt begun before the read ended (stamp %d) — still diverted punch packet #%d of that attempt",
						ids[a], rd.call, rd.ret, rd.pkt.Seq)
				} else {
					vfC20V(k, "realm:registered-punch-not-diverted", rep,
						"attempt %s was registered during the whole read [%d,%d] (AddPunchAttempt returned before, no RemovePunchAttempt begun) but its punch packet #%d was handed to the reader",
						ids[a], rd.call, rd.ret, rd.pkt.Seq)
				}
			}
		}
		k.Count("ev_reads_overlapping_writes", int64(nOverlap))

		// events: each names one diverted packet (unique source) of the named attempt, at most once
		bySrc := map[string]int{}
		for i, p := range pkts {
			if ap, ok := vfC20AddrUsable(p.From); ok {
				bySrc[ap.String()] = i
			}
		}
		seenEv := map[int]bool{}
		for _, e := range pevs {
			k.Count("ev_punch_events", 1)
			i, ok := bySrc[e.From.String()]
			rep := map[string]any{"case_id": world, "event": fmt.Sprintf("%+v", e)}
			if !ok {
				vfC20V(k, "realm:event-unknown-source", rep, "punch event from %v: no packet was injected from that source", e.From)
				continue
			}
			p := pkts[i]
			rec := fate[p.Seq]
			rt, rp, _ := byte(0), 0, false
			if owner[i] >= 0 {
				rt, rp, _ = vfC20RefDecode(p.Data, metas[owner[i]])
			}
			switch {
			case owner[i] < 0 || ids[owner[i]] != e.AttemptID:
				vfC20V(k, "realm:event-wrong-attempt", rep, "punch event names attempt %q for packet #%d (%s) which is not a packet of that attempt", e.AttemptID, p.Seq, p.Kind)
			case !rec.done || !rec.diverted:
				vfC20V(k, "realm:event-for-passed-packet", rep, "punch event for packet #%d which was handed to the reader", p.Seq)
			case seenEv[p.Seq]:
				vfC20V(k, "realm:event-count", rep, "two punch events for packet #%d", p.Seq)
			case byte(e.Packet.Type) != rt || e.Packet.PaddingLength != rp:
				vfC20V(k, "realm:event-wrong-fields", rep, "punch event for packet #%d: type %#x pad %d, reference type %#x pad %d", p.Seq, byte(e.Packet.Type), e.Packet.PaddingLength, rt, rp)
			}
			seenEv[p.Seq] = true
		}
		k.Count("ev_stun_events", int64(len(sevs)))

		if nDiv > 0 && nPass > 0 && nOverlap > 0 {
			k.Nontrivial(fmt.Sprintf("%s/%d/%d/%d", world, nDiv, nPass, nOverlap))
		}
		if wi < 2 {
			k.Sample(map[string]any{"world": world, "attempts": nAtt, "writers": nWriters, "readers": nReaders, "packets": nPkts,
				"writes_per_writer": opsPerWriter, "diverted": nDiv, "passed": nPass, "reads_overlapping_a_write": nOverlap, "punch_events_collected": len(pevs)})
		}
	}
}

// ----------------------------------------------------------------------------- hammer
//
// Part "demux-hammer": many goroutines register and remove DIFFERENT attempt ids at the
// same time, on top of a ballast of long-lived attempts (a large registry makes whatever a
// registration does to the set take longer, which widens any window in which a concurrent
// removal could be lost). Every id is used for exactly one AddPunchAttempt and one
// RemovePunchAttempt, by one goroutine, and is never registered again. Therefore:
//
//   any punch packet of attempt Y handed to the wrapper AFTER RemovePunchAttempt(Y) returned
//   must reach the reader — whatever else is going on. A diverted one is a definitive
//   "divert after remove" (key realm:divert-after-remove), e.g. a removal overwritten by a
//   concurrent registration of another id.
//
// Packets of Y are injected right after the removal returned (still in the storm) and once
// more in a final sweep after all goroutines are done ("back for good"). Histories
// (add, remove, reads) also go to c20-history-hammer.jsonl for the porcupine checker.

func TestVerifC20DemuxHammer(t *testing.T) {
	k := vfNewKit(t, "C20", "demux-hammer")
	defer k.Finish()
	hf, err := os.Create(filepath.Join(k.Out, "c20-history-hammer.jsonl"))
	if err != nil {
		t.Fatalf("create history: %v", err)
	}
	defer hf.Close()
	henc := json.NewEncoder(hf)

	nWorlds := k.N(8, 120)
	for wi := 0; wi < nWorlds; wi++ {
		world := fmt.Sprintf("hammer-%d", wi)
		if rc := k.ReplayCase(); rc != "" && rc != world {
			continue
		}
		k.Eval()
		r := k.Rand(world)
		nThreads := 6 + r.Intn(11) // 6..16 goroutines adding/removing
		nRounds := k.N(120, 200)
		nBallast := 16 << uint(r.Intn(4)) // 16, 32, 64, 128 long-lived attempts
		nReaders := 1 + r.Intn(3)
		injectEvery := 1 + r.Intn(3)

		clock := &vfC20Clock{}
		in := &vfC20ConcInner{k: k, clock: clock, ch: make(chan *vfC20Pkt, 512), readers: map[uint64]*vfC20ReaderState{}, yield: uint32(r.Intn(3))}
		w, err := NewPunchPacketConn(in, 8)
		if err != nil {
			t.Fatalf("NewPunchPacketConn: %v", err)
		}
		for b := 0; b < nBallast; b++ {
			if err := w.AddPunchAttempt(vfC20AttemptID(r, fmt.Sprintf("%s-ballast-%d", world, b), 100), vfC20RandMeta(r).PM()); err != nil {
				t.Fatalf("ballast: %v", err)
			}
		}
		type hid struct {
			id      string
			meta    vfC20Meta
			client  int
			addCall int64
			addRet  int64
			remCall int64
			remRet  int64
			pkts    []*vfC20Pkt
		}
		all := make([][]*hid, nThreads)
		var seqCtr atomic.Int64
		mkPkt := func(rr *rand.Rand, h *hid, kind string) *vfC20Pkt {
			seq := int(seqCtr.Add(1))
			var pad [64]byte
			rr.Read(pad[:])
			p := &vfC20Pkt{Seq: seq, Kind: kind, Owner: -1, From: vfC20SeqAddr(seq),
				Data: vfC20RefEncodeValid(h.meta, byte(1+rr.Intn(2)), vfC20Tag(seq), pad[:rr.Intn(65)])}
			h.pkts = append(h.pkts, p)
			return p
		}
		// readers and event drain (events are not examined here; keep the channels from filling)
		var rwg sync.WaitGroup
		stopDrain := make(chan struct{})
		var dwg sync.WaitGroup
		dwg.Add(1)
		go func() {
			defer dwg.Done()
			for {
				select {
				case <-w.Events():
				case <-w.STUNEvents():
				case <-stopDrain:
					return
				}
			}
		}()
		for rd := 0; rd < nReaders; rd++ {
			rwg.Add(1)
			go func() {
				defer rwg.Done()
				st := in.state()
				buf := make([]byte, 2048)
				for {
					n, addr, err := w.ReadFrom(buf)
					now := clock.Stamp()
					rec := st.pending
					if err != nil {
						return
					}
					if rec == nil {
						vfC20V(k, "realm:returned-without-delivery", map[string]any{"case_id": world}, "ReadFrom returned %d bytes although no injected packet was pending on this reader", n)
						continue
					}
					rec.ret, rec.diverted, rec.done = now, false, true
					st.pending = nil
					if n != len(rec.pkt.Data) || !bytes.Equal(buf[:n], rec.pkt.Data) || !vfC20SameAddr(addr, rec.pkt.From) {
						vfC20V(k, "realm:passthrough-bytes-differ", map[string]any{"case_id": world, "packet": vfC20PktBrief(rec.pkt)},
							"packet #%d reached the reader altered or with source %v (injected from %v)", rec.pkt.Seq, addr, rec.pkt.From)
					}
				}
			}()
		}
		// the storm
		var start sync.WaitGroup
		start.Add(1)
		var twg sync.WaitGroup
		for th := 0; th < nThreads; th++ {
			tr := k.Rand(fmt.Sprintf("%s/t%d", world, th))
			all[th] = make([]*hid, 0, nRounds)
			twg.Add(1)
			go func(th int) {
				defer twg.Done()
				start.Wait()
				for rd := 0; rd < nRounds; rd++ {
					h := &hid{id: vfC20AttemptID(tr, fmt.Sprintf("%s-t%d-r%d", world, th, rd), 100), meta: vfC20RandMeta(tr), client: 100 + th}
					all[th] = append(all[th], h)
					pm := h.meta.PM()
					h.addCall = clock.Stamp()
					if err := w.AddPunchAttempt(h.id, pm); err != nil {
						vfC20V(k, "realm:add-refused", map[string]any{"case_id": world, "id": h.id}, "AddPunchAttempt refused well-formed metadata: %v", err)
					}
					h.addRet = clock.Stamp()
					if tr.Intn(4) == 0 {
						runtime.Gosched()
					}
					h.remCall = clock.Stamp()
					w.RemovePunchAttempt(h.id)
					h.remRet = clock.Stamp()
					if rd%injectEvery == 0 {
						in.ch <- mkPkt(tr, h, "punch-after-remove") // handed over after the removal returned
					}
				}
			}(th)
		}
		start.Done()
		twg.Wait()
		// final sweep: every id was removed long ago
		for th := range all {
			for _, h := range all[th] {
				in.ch <- mkPkt(r, h, "punch-final-sweep")
			}
		}
		close(in.ch)
		rwg.Wait()
		close(stopDrain)
		dwg.Wait()

		fate := map[int]*vfC20ReadRec{}
		for _, st := range in.readers {
			for _, rec := range st.reads {
				fate[rec.pkt.Seq] = rec
			}
		}
		nDivert, nPass := 0, 0
		for th := range all {
			for _, h := range all[th] {
				k.Count("ev_writes", 2)
				_ = henc.Encode(vfC20HistRec{World: world, Attempt: h.id, Client: h.client, Op: "add", Val: true, Call: h.addCall, Ret: h.addRet})
				_ = henc.Encode(vfC20HistRec{World: world, Attempt: h.id, Client: h.client, Op: "remove", Val: false, Call: h.remCall, Ret: h.remRet})
				for _, p := range h.pkts {
					rec := fate[p.Seq]
					if rec == nil || !rec.done {
						t.Fatalf("vfC20: hammer packet %d has no fate", p.Seq)
					}
					if rec.call < h.remRet {
						t.Fatalf("vfC20: harness self-check: packet handed over before the removal returned")
					}
					k.Count("ev_packets", 1)
					_ = henc.Encode(vfC20HistRec{World: world, Attempt: h.id, Client: rec.client, Op: "read", Val: rec.diverted, Call: rec.call, Ret: rec.ret, Pkt: p.Seq})
					if !rec.diverted {
						nPass++
						continue
					}
					nDivert++
					vfC20V(k, "realm:divert-after-remove", map[string]any{"case_id": world, "attempt": h.id, "packet": vfC20PktBrief(p),
						"add": []int64{h.addCall, h.addRet}, "remove": []int64{h.remCall, h.remRet}, "read": []int64{rec.call, rec.ret},
						"threads": nThreads, "ballast": nBallast},
						"attempt %s: AddPunchAttempt [%d,%d], RemovePunchAttempt [%d,%d] (returned), never registered again; its punch packet #%d (%s) handed over at stamp %d was still diverted — the removal was lost (%d goroutines registering/removing other ids, %d long-lived attempts)",
						h.id, h.addCall, h.addRet, h.remCall, h.remRet, p.Seq, p.Kind, rec.call, nThreads, nBallast)
				}
			}
		}
		k.Count("ev_passed", int64(nPass))
		k.Count("ev_diverted", int64(nDivert))
		k.Count("ev_hammer_ids", int64(nThreads*nRounds))
		k.Nontrivial(fmt.Sprintf("%s/%d/%d/%d", world, nThreads, nRounds, nBallast))
		if wi < 2 {
			k.Sample(map[string]any{"world": world, "goroutines": nThreads, "ids_each": nRounds, "ballast_attempts": nBallast, "readers": nReaders,
				"packets_after_remove": nPass + nDivert, "diverted_after_remove": nDivert})
		}
	}
}
