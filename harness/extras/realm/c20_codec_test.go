//go:build verif

package realm

// C20 part "punch-codec": EncodePunchPacket / DecodePunchPacket against the
// independent codec of c20_model_test.go.
//
//   grid:   for each metadata M (random, all-zero, all-ff, upper-case hex) and EVERY
//           padding length 0..1024 × both types, a packet built by the reference
//           encoder must decode under M with exactly that type and padding, and
//           under none of M' (nonce one bit off / key one bit off / both / unrelated /
//           nonce of another attempt with this key / key of another attempt with this nonce).
//   near:   near-miss packets (bit flips over every header and salt bit, truncations,
//           extensions, wrong magic/type/nonce/key, wrong mask construction): the
//           verdict of DecodePunchPacket must equal the reference verdict under M and
//           every M'. In particular a bit-flipped packet decodes only if it is still
//           valid under the independent decoder. DecodePunchPacket must not modify
//           its input (the same buffer is handed to QUIC afterwards).
//   real:   packets from the real EncodePunchPacket decode under the reference
//           decoder with the encoding metadata only; padding lengths observed are counted.

import (
	"bytes"
	"fmt"
	"testing"
)

type vfC20CodecCase struct {
	CaseID string `json:"case_id"`
	Meta   string `json:"meta"`
	Under  string `json:"decode_under"`
	Rel    string `json:"relation"`
	Kind   string `json:"kind"`
	Type   int    `json:"type"`
	Pad    int    `json:"pad"`
	Hex    string `json:"packet_hex"`
}

// vfC20Others returns the metadata a packet of m must NOT decode under.
func vfC20Others(m, other vfC20Meta, i int) map[string]vfC20Meta {
	n1, k1, nk := m, m, m
	n1.Nonce[i%16] ^= 1 << (i % 8)
	k1.Key[i%32] ^= 1 << ((i / 3) % 8)
	nk.Nonce[(i+5)%16] ^= 0x80 >> (i % 8)
	nk.Key[(i+11)%32] ^= 1 << (i % 8)
	on, ok := m, m
	on.Nonce = other.Nonce // other attempt's nonce, this key
	ok.Key = other.Key     // this nonce, other attempt's key
	return map[string]vfC20Meta{"nonce-1bit": n1, "key-1bit": k1, "both-1bit": nk, "unrelated": other, "other-nonce": on, "other-key": ok}
}

// vfC20DecodeBoth runs the real decoder and the reference decoder and compares.
// Returns true if the real decoder accepted.
func vfC20DecodeBoth(k *vfKit, c vfC20CodecCase, pkt []byte, under vfC20Meta) bool {
	orig := append([]byte(nil), pkt...)
	in := vfExact(pkt)
	var got PunchPacket
	var err error
	c.Under = under.String()
	c.Hex = vfHex(orig)
	if k.Guard("realm:DecodePunchPacket-panic", c, func() { got, err = DecodePunchPacket(in, under.PM()) }) {
		return false
	}
	k.Count("ev_decode_calls", 1)
	if !bytes.Equal(in, orig) {
		vfC20V(k, "realm:decode-mutates-input", c, "DecodePunchPacket changed the bytes of the packet it was given (%s, relation %s)", c.Kind, c.Rel)
	}
	rt, rp, rok := vfC20RefDecode(orig, under)
	switch {
	case err == nil && !rok:
		vfC20V(k, "realm:decode-accepts-invalid", c,
			"packet (%s, type %#x, pad %d, %d bytes) decodes under metadata %q (%s) although it is not a valid punch packet of that metadata",
			c.Kind, c.Type, c.Pad, len(orig), c.Rel, under)
	case err != nil && rok:
		vfC20V(k, "realm:decode-rejects-valid", c,
			"valid punch packet (%s, type %#x, pad %d, %d bytes) rejected under its own metadata: %v", c.Kind, rt, rp, len(orig), err)
	case err == nil && rok:
		k.Count("ev_decode_accept", 1)
		if byte(got.Type) != rt || got.PaddingLength != rp {
			vfC20V(k, "realm:decode-wrong-fields", c, "decoded type %#x pad %d, reference type %#x pad %d", byte(got.Type), got.PaddingLength, rt, rp)
		}
	default:
		k.Count("ev_decode_reject", 1)
	}
	return err == nil
}

func TestVerifC20Codec(t *testing.T) {
	k := vfNewKit(t, "C20", "punch-codec")
	defer k.Finish()
	r := k.Rand("metas")

	metas := []vfC20Meta{vfC20RandMeta(r), vfC20RandMeta(r)}
	var zero, ff vfC20Meta
	for i := range ff.Nonce {
		ff.Nonce[i] = 0xff
	}
	for i := range ff.Key {
		ff.Key[i] = 0xff
	}
	up := vfC20RandMeta(r)
	up.Upper = true
	metas = append(metas, zero, ff, up)
	for i := 0; i < k.N(0, 6); i++ {
		metas = append(metas, vfC20RandMeta(r))
	}
	nearEvery := k.N(8, 1) // near-miss suite on every n-th padding length (rotating with the metadata index)

	seq := 0
	for mi, m := range metas {
		other := metas[(mi+1)%len(metas)]
		for pad := 0; pad <= vfC20MaxPad; pad++ {
			for typ := byte(1); typ <= 2; typ++ {
				seq++
				caseID := fmt.Sprintf("grid-m%d-p%d-t%d", mi, pad, typ)
				if rc := k.ReplayCase(); rc != "" && rc != caseID {
					continue
				}
				k.Eval()
				cr := k.Rand(caseID)
				c := vfC20CodecCase{CaseID: caseID, Meta: m.String(), Kind: "valid", Type: int(typ), Pad: pad, Rel: "own"}
				pkt := vfC20RefEncodeValid(m, typ, vfC20Tag(seq), vfC20RandBytes(cr, pad))
				if vfC20DecodeBoth(k, c, pkt, m) {
					k.Nontrivial(fmt.Sprintf("own/%d/%d/%d", mi, pad, typ))
				}
				others := vfC20Others(m, other, seq)
				for rel, o := range others {
					c.Rel = rel
					vfC20DecodeBoth(k, c, pkt, o)
				}
				if (pad+mi)%nearEvery != 0 && pad != 0 && pad != vfC20MaxPad {
					continue
				}
				// near-miss suite around this (metadata, padding, type)
				for ki, kind := range vfC20NearMissKinds {
					reps := 1
					if kind == "flip-header" || kind == "flip-salt" || kind == "bad-magic" || kind == "bad-type" {
						reps = 3
					}
					for rep := 0; rep < reps; rep++ {
						nm := vfC20NearMiss(cr, seq, m, kind)
						nc := vfC20CodecCase{CaseID: caseID, Meta: m.String(), Kind: kind, Type: -1, Pad: len(nm) - vfC20MinWire, Rel: "own"}
						k.Count("ev_nearmiss", 1)
						if !vfC20DecodeBoth(k, nc, nm, m) {
							k.Nontrivial(fmt.Sprintf("near/%s/%d/%d/%d/%d", kind, mi, pad, typ, rep))
						}
						// and under one rotating other metadata
						rels := []string{"nonce-1bit", "key-1bit", "both-1bit", "unrelated", "other-nonce", "other-key"}
						rel := rels[(seq+ki+rep)%len(rels)]
						nc.Rel = rel
						vfC20DecodeBoth(k, nc, nm, others[rel])
					}
				}
			}
		}
	}

	// systematic single-bit flips: every bit of salt+header of one packet per (metadata, type)
	for mi, m := range metas {
		for typ := byte(1); typ <= 2; typ++ {
			caseID := fmt.Sprintf("bits-m%d-t%d", mi, typ)
			if rc := k.ReplayCase(); rc != "" && rc != caseID {
				continue
			}
			cr := k.Rand(caseID)
			seq++
			pad := cr.Intn(64)
			base := vfC20RefEncodeValid(m, typ, vfC20Tag(seq), vfC20RandBytes(cr, pad))
			for bit := 0; bit < len(base)*8; bit++ {
				k.Eval()
				p := append([]byte(nil), base...)
				p[bit/8] ^= 1 << (bit % 8)
				c := vfC20CodecCase{CaseID: caseID, Meta: m.String(), Kind: fmt.Sprintf("flip-bit-%d", bit), Type: int(typ), Pad: pad, Rel: "own"}
				acc := vfC20DecodeBoth(k, c, p, m)
				if bit < vfC20MinWire*8 && !acc {
					k.Nontrivial(fmt.Sprintf("bit/%d/%d/%d", mi, typ, bit))
				}
				k.Count("ev_bitflips", 1)
			}
			// every truncation and a few extensions of the same packet
			for n := 0; n <= len(base)+2; n++ {
				var p []byte
				if n <= len(base) {
					p = append([]byte(nil), base[:n]...)
				} else {
					p = append(append([]byte(nil), base...), vfC20RandBytes(cr, n-len(base))...)
				}
				c := vfC20CodecCase{CaseID: caseID, Meta: m.String(), Kind: fmt.Sprintf("resize-%d", n), Type: int(typ), Pad: pad, Rel: "own"}
				vfC20DecodeBoth(k, c, p, m)
				k.Count("ev_resizes", 1)
			}
		}
	}

	// the real encoder against the reference decoder
	padsSeen := map[int]bool{}
	nReal := k.N(2500, 60000)
	for i := 0; i < nReal; i++ {
		caseID := fmt.Sprintf("real-%d", i)
		if rc := k.ReplayCase(); rc != "" && rc != caseID {
			continue
		}
		k.Eval()
		m := metas[i%len(metas)]
		other := metas[(i+1)%len(metas)]
		typ := PunchPacketType(1 + i%2)
		var pkt []byte
		var err error
		c := vfC20CodecCase{CaseID: caseID, Meta: m.String(), Kind: "real-encoder", Type: int(typ), Rel: "own"}
		if k.Guard("realm:EncodePunchPacket-panic", c, func() { pkt, err = EncodePunchPacket(typ, m.PM()) }) {
			continue
		}
		if err != nil {
			vfC20V(k, "realm:encode-fails", c, "EncodePunchPacket(%#x) failed for well-formed metadata: %v", byte(typ), err)
			continue
		}
		k.Count("ev_real_encodes", 1)
		c.Hex = vfHex(pkt)
		rt, rp, rok := vfC20RefDecode(pkt, m)
		if !rok {
			vfC20V(k, "realm:encode-not-wire-format", c, "EncodePunchPacket output (%d bytes) is not a punch packet of its metadata by the documented format", len(pkt))
			continue
		}
		c.Pad = rp
		if rt != byte(typ) {
			vfC20V(k, "realm:encode-wrong-type", c, "encoded type %#x, asked for %#x", rt, byte(typ))
		}
		padsSeen[rp] = true
		k.Nontrivial(fmt.Sprintf("real/%x", pkt[:8]))
		vfC20DecodeBoth(k, c, pkt, m)
		for rel, o := range vfC20Others(m, other, i) {
			if (i+len(rel))%3 != 0 {
				continue
			}
			c.Rel = rel
			vfC20DecodeBoth(k, c, pkt, o)
		}
	}
	k.Count("real_encoder_distinct_paddings", int64(len(padsSeen)))

	// malformed metadata is refused everywhere (no packet may ever match it)
	good := metas[0].PM()
	bad := []PunchMetadata{
		{Nonce: "", Obfs: good.Obfs}, {Nonce: good.Nonce, Obfs: ""},
		{Nonce: good.Nonce[:30], Obfs: good.Obfs}, {Nonce: good.Nonce + "00", Obfs: good.Obfs},
		{Nonce: good.Nonce, Obfs: good.Obfs[:62]}, {Nonce: good.Nonce, Obfs: good.Obfs + "00"},
		{Nonce: "zz" + good.Nonce[2:], Obfs: good.Obfs}, {Nonce: good.Nonce, Obfs: "g" + good.Obfs[1:]},
		{Nonce: good.Obfs, Obfs: good.Nonce},
	}
	pkt := vfC20RefEncodeValid(metas[0], 1, vfC20Tag(1), nil)
	for i, bm := range bad {
		k.Eval()
		c := map[string]any{"case_id": fmt.Sprintf("badmeta-%d", i), "meta": bm}
		if _, err := DecodePunchPacket(pkt, bm); err == nil {
			vfC20V(k, "realm:decode-accepts-bad-metadata", c, "DecodePunchPacket accepted a packet under malformed metadata %+v", bm)
		}
		if _, err := EncodePunchPacket(PunchPacketHello, bm); err == nil {
			vfC20V(k, "realm:encode-accepts-bad-metadata", c, "EncodePunchPacket accepted malformed metadata %+v", bm)
		}
		k.Count("ev_badmeta", 1)
	}
	k.Sample(map[string]any{"metas": len(metas), "paddings": "0..1024 each x types {1,2}", "near_miss_kinds": vfC20NearMissKinds,
		"real_encoder_calls": nReal, "real_encoder_distinct_paddings": len(padsSeen)})
}
