//go:build verif

package realm

// C20 part "server-punch": the server-side life cycle of an attempt
// (server_punch.go: addAttempt -> Respond -> deferred removeAttempt, event routing by
// attempt id), on virtual time inside a testing/synctest bubble.
//
// One case: PunchPacketConn over a channel-fed fake inner conn, a ServerPuncher, a pump
// goroutine that plays QUIC (reads the wrapper and records what it gets), and two
// concurrent Respond calls for attempts X and Y with unrelated metadata.
// Script per attempt: its peer sends hello / ack at a chosen instant, or nothing (timeout),
// or the caller cancels. In most cases a second Respond with the SAME attempt id but OTHER
// metadata is issued while the first is running (it must be refused and must change
// nothing: packets of the refused metadata always reach the reader, the running attempt
// keeps its own metadata in the registry and is still completed by its own peer's packet
// only). Every case also issues one Respond that the code must REFUSE (or end at once):
// no / invalid / family-mismatched peer addresses, forced family the peer has no address
// of, negative timeout, negative interval, malformed metadata, empty id, context already
// cancelled. After it returned: the registry has no entry for that id, punch packets
// under that metadata reach the reader, and a later Respond with the same id is served
// normally (not "duplicate") and unregisters when it ends. Noise packets (QUIC-like, near-miss punch of X, punch of a foreign
// attempt) are injected throughout.
//
// Oracles:
//   * a punch packet of X sent BEFORE Respond(X) started and AFTER it returned reaches the
//     pump byte-identical (the attempt is not / no longer registered); after Respond
//     returned, the registry has no entry for it;
//   * noise packets always reach the pump byte-identical, in injection order;
//   * Respond(X) returns at the virtual instant its peer's packet was injected, with that
//     packet's source and type — never with a packet of Y or of a foreign attempt; on hello
//     an ack (reference-valid, type 2, X's metadata) is written to that source;
//     without a packet it returns ErrPunchTimeout exactly at the timeout, on cancel
//     context.Canceled at the cancel instant;
//   * everything Respond writes is a reference-valid punch packet of its own metadata.

import (
	"bytes"
	"context"
	"errors"
	"fmt"
	"math/rand"
	"net"
	"net/netip"
	"sync"
	"testing"
	"testing/synctest"
	"time"
)

type vfC20Sent struct {
	At   time.Duration
	To   string
	Data []byte
}

type vfC20BubbleInner struct {
	ch    chan *vfC20Pkt
	start time.Time
	mu    sync.Mutex
	sent  []vfC20Sent
}

func (c *vfC20BubbleInner) ReadFrom(p []byte) (int, net.Addr, error) {
	pkt, ok := <-c.ch
	if !ok {
		return 0, nil, vfC20ErrDrained
	}
	return copy(p, pkt.Data), pkt.From, nil
}

func (c *vfC20BubbleInner) WriteTo(p []byte, addr net.Addr) (int, error) {
	c.mu.Lock()
	c.sent = append(c.sent, vfC20Sent{At: time.Since(c.start), To: addr.String(), Data: append([]byte(nil), p...)})
	c.mu.Unlock()
	return len(p), nil
}
func (c *vfC20BubbleInner) Close() error { return nil }
func (c *vfC20BubbleInner) LocalAddr() net.Addr {
	return &net.UDPAddr{IP: net.IPv4(127, 0, 0, 1).To4(), Port: 4433}
}
func (c *vfC20BubbleInner) SetDeadline(time.Time) error      { return nil }
func (c *vfC20BubbleInner) SetReadDeadline(time.Time) error  { return nil }
func (c *vfC20BubbleInner) SetWriteDeadline(time.Time) error { return nil }

type vfC20RespondPlan struct {
	ID      string        `json:"id"`
	Mode    string        `json:"mode"` // hello | ack | timeout | cancel
	StartAt time.Duration `json:"start_at"`
	At      time.Duration `json:"at"` // offset of the peer packet / cancel from StartAt
	Timeout time.Duration `json:"timeout"`
	Every   time.Duration `json:"interval"`
	Peer    string        `json:"peer"`
}

type vfC20RespondOut struct {
	res  PunchResult
	err  error
	at   time.Duration
	done bool
}

func vfC20ServerCase(t *testing.T, k *vfKit, caseID string, r *rand.Rand) {
	start := time.Now()
	in := &vfC20BubbleInner{ch: make(chan *vfC20Pkt, 256), start: start}
	w, err := NewPunchPacketConn(in, 1+r.Intn(16))
	if err != nil {
		t.Fatalf("NewPunchPacketConn: %v", err)
	}
	ctx, cancelAll := context.WithCancel(context.Background())
	sp, err := NewServerPuncher(ctx, w)
	if err != nil {
		t.Fatalf("NewServerPuncher: %v", err)
	}
	// pump = QUIC's read loop
	type got struct {
		data []byte
		addr net.Addr
	}
	var gmu sync.Mutex
	var gots []got
	var pumpDone sync.WaitGroup
	pumpDone.Add(1)
	go func() {
		defer pumpDone.Done()
		buf := make([]byte, 2048)
		for {
			n, addr, err := w.ReadFrom(buf)
			if err != nil {
				return
			}
			gmu.Lock()
			gots = append(gots, got{append([]byte(nil), buf[:n]...), addr})
			gmu.Unlock()
		}
	}()

	metas := []vfC20Meta{vfC20RandMeta(r), vfC20RandMeta(r)}
	foreign := vfC20RandMeta(r)
	modes := []string{"hello", "ack", "timeout", "cancel"}
	plans := make([]vfC20RespondPlan, 2)
	peers := make([]netip.AddrPort, 2)
	for i := range plans {
		to := time.Duration(200+r.Intn(2800)) * time.Millisecond
		plans[i] = vfC20RespondPlan{
			ID: vfC20AttemptID(r, fmt.Sprintf("%s-att%d", caseID, i), 4096), Mode: modes[r.Intn(len(modes))],
			StartAt: time.Duration(1+r.Intn(300)) * time.Millisecond,
			Timeout: to, Every: time.Duration(10+r.Intn(490)) * time.Millisecond,
			At: time.Duration(1+r.Intn(int(to/time.Millisecond)-1)) * time.Millisecond,
		}
		peers[i] = netip.AddrPortFrom(netip.AddrFrom4([4]byte{203, 0, 113, byte(10 + i)}), uint16(30000+r.Intn(1000)))
		plans[i].Peer = peers[i].String()
	}
	if sw := vfC20SwapCase(plans[0].ID); sw != plans[0].ID && r.Intn(4) == 0 {
		plans[1].ID = sw // two attempts whose ids differ only in case run side by side
	}
	rep := map[string]any{"case_id": caseID, "plans": plans}
	local := []netip.AddrPort{netip.MustParseAddrPort("127.0.0.1:4433")}

	// timeline of injections: (at, packet, mustPass)
	type inj struct {
		at       time.Duration
		pkt      *vfC20Pkt
		mustPass bool
		forAtt   int
	}
	var tl []inj
	seq := 0
	mk := func(kind string, data []byte, from net.Addr) *vfC20Pkt {
		seq++
		if from == nil {
			from = vfC20SeqAddr(seq)
		}
		return &vfC20Pkt{Seq: seq, Kind: kind, Data: data, From: from, Owner: -1}
	}
	for i, pl := range plans {
		m := metas[i]
		// before Respond starts: not registered yet -> must pass
		seq++
		tl = append(tl, inj{pl.StartAt - time.Millisecond, mk("punch-before-start", vfC20PunchValid(r, seq, m), nil), true, i})
		end := pl.StartAt + pl.Timeout
		if pl.Mode != "timeout" {
			end = pl.StartAt + pl.At
		}
		if pl.Mode == "hello" || pl.Mode == "ack" {
			typ := byte(1)
			if pl.Mode == "ack" {
				typ = 2
			}
			seq++
			data := vfC20RefEncodeValid(m, typ, vfC20Tag(seq), vfC20RandBytes(r, vfC20PadLen(r)))
			tl = append(tl, inj{pl.StartAt + pl.At, mk("punch-peer-"+pl.Mode, data, vfC20UDPAddr(peers[i])), false, i})
		}
		// after Respond returned: removed -> must pass
		seq++
		tl = append(tl, inj{end + time.Duration(1+r.Intn(50))*time.Millisecond, mk("punch-after-return", vfC20PunchValid(r, seq, m), nil), true, i})
		// noise while it runs
		for j := 0; j < 3+r.Intn(5); j++ {
			at := pl.StartAt + time.Duration(r.Intn(int(end-pl.StartAt)/int(time.Millisecond)+1))*time.Millisecond
			seq++
			switch r.Intn(3) {
			case 0:
				tl = append(tl, inj{at, mk("quic", vfC20QUICLike(r, seq), nil), true, -1})
			case 1:
				kd := []string{"flip-header", "bad-magic", "bad-type", "nonce-bit", "key-bit", "flip-salt"}[r.Intn(6)]
				tl = append(tl, inj{at, mk("near-"+kd, vfC20NearMiss(r, seq, m, kd), nil), true, -1})
			default:
				tl = append(tl, inj{at, mk("punch-foreign", vfC20PunchValid(r, seq, foreign), nil), true, -1})
			}
		}
	}
	// a Respond call that must be refused (or end at once), then a valid one with the same id
	refKinds := []string{"no-peers", "invalid-peers", "family-mismatch", "forced-family-mismatch", "neg-timeout", "neg-interval", "bad-metadata", "empty-id", "cancelled-ctx"}
	refKind := refKinds[r.Intn(len(refKinds))]
	refID := vfC20AttemptID(r, caseID+"-ref", 4096)
	refMeta := vfC20RandMeta(r)
	refPeer := netip.AddrPortFrom(netip.AddrFrom4([4]byte{203, 0, 113, 77}), uint16(31000+r.Intn(1000)))
	refAt := time.Duration(1+r.Intn(400)) * time.Millisecond
	ref2At := refAt + time.Duration(60+r.Intn(140))*time.Millisecond
	ref2Timeout := time.Duration(20+r.Intn(180)) * time.Millisecond
	ref2Hello := time.Duration(0)
	if r.Intn(2) == 0 {
		ref2Hello = time.Duration(1+r.Intn(int(ref2Timeout/time.Millisecond)-1)) * time.Millisecond
	}
	ref2End := ref2At + ref2Timeout
	if ref2Hello > 0 {
		ref2End = ref2At + ref2Hello
	}
	rep["refused"] = map[string]any{"id": refID, "kind": refKind, "at": refAt, "metadata": refMeta.String(), "peer": refPeer.String(),
		"second_respond_at": ref2At, "second_timeout": ref2Timeout, "second_hello_at": ref2Hello}
	for j := 0; j < 2+r.Intn(2); j++ { // after the refusal, before the second Respond
		seq++
		var from net.Addr
		if j == 0 {
			from = vfC20UDPAddr(refPeer)
		}
		at := refAt + time.Duration(1+r.Intn(50))*time.Millisecond
		tl = append(tl, inj{at, mk("punch-after-refused-respond", vfC20PunchValid(r, seq, refMeta), from), true, -1})
	}
	if ref2Hello > 0 {
		seq++
		tl = append(tl, inj{ref2At + ref2Hello, mk("punch-peer-hello-ref2", vfC20RefEncodeValid(refMeta, 1, vfC20Tag(seq), vfC20RandBytes(r, vfC20PadLen(r))), vfC20UDPAddr(refPeer)), false, -1})
	}
	seq++
	tl = append(tl, inj{ref2End + time.Duration(1+r.Intn(30))*time.Millisecond, mk("punch-after-return", vfC20PunchValid(r, seq, refMeta), nil), true, -1})

	// duplicate-id Respond with other metadata while attempt dupOf is running
	dupOf, dupMeta := -1, vfC20RandMeta(r)
	var dupAt time.Duration // absolute
	if r.Intn(10) < 8 {
		i := r.Intn(2)
		pl := plans[i]
		window := pl.Timeout
		if pl.Mode != "timeout" {
			window = pl.At
		}
		if window >= 2*time.Millisecond {
			dupOf = i
			dupAt = pl.StartAt + time.Duration(1+r.Intn(int(window/time.Millisecond)-1))*time.Millisecond
			end := pl.StartAt + window
			// packets under the refused metadata: while the attempt still runs, and after it ended
			for j := 0; j < 2+r.Intn(3); j++ {
				at := dupAt + time.Duration(r.Intn(int((end-dupAt)/time.Millisecond)+1))*time.Millisecond
				if j == 0 {
					at = end + time.Duration(1+r.Intn(20))*time.Millisecond
				}
				seq++
				var from net.Addr
				if r.Intn(2) == 0 {
					from = vfC20UDPAddr(peers[i]) // even from the running attempt's own peer
				}
				typ := byte(1 + r.Intn(2))
				data := vfC20RefEncodeValid(dupMeta, typ, vfC20Tag(seq), vfC20RandBytes(r, vfC20PadLen(r)))
				tl = append(tl, inj{at, mk("punch-refused-duplicate", data, from), true, -1})
			}
			rep["duplicate"] = map[string]any{"of": pl.ID, "at": dupAt, "metadata": dupMeta.String()}
		}
	}
	// stable order by time (ties keep construction order)
	for i := 1; i < len(tl); i++ {
		for j := i; j > 0 && tl[j].at < tl[j-1].at; j-- {
			tl[j], tl[j-1] = tl[j-1], tl[j]
		}
	}

	outs := make([]*vfC20RespondOut, 2)
	for i := range plans {
		outs[i] = &vfC20RespondOut{}
		pl := plans[i]
		go func(i int) {
			time.Sleep(pl.StartAt)
			cctx, cancel := context.WithCancel(ctx)
			defer cancel()
			if pl.Mode == "cancel" {
				time.AfterFunc(pl.At, cancel)
			}
			res, err := sp.Respond(cctx, pl.ID, local, []netip.AddrPort{peers[i]}, metas[i].PM(), PunchConfig{Timeout: pl.Timeout, Interval: pl.Every})
			o := outs[i]
			o.res, o.err, o.at, o.done = res, err, time.Since(start), true
		}(i)
	}

	type dupOutT struct {
		err       error
		at        time.Duration
		done      bool
		regAfter  PunchMetadata
		regExists bool
		census    bool
	}
	type refOutT struct {
		res       PunchResult
		err       error
		at        time.Duration
		done      bool
		regExists bool
		spExists  bool
	}
	refOut, ref2Out := &refOutT{}, &refOutT{}
	go func() {
		time.Sleep(refAt)
		id, meta, peersArg, cfg, cctx := refID, refMeta.PM(), []netip.AddrPort{refPeer}, PunchConfig{Timeout: 500 * time.Millisecond, Interval: 50 * time.Millisecond}, ctx
		switch refKind {
		case "no-peers":
			peersArg = nil
		case "invalid-peers":
			peersArg = []netip.AddrPort{{}, netip.AddrPortFrom(refPeer.Addr(), 0)}
		case "family-mismatch": // peer advertised only IPv6, the socket is bound to an IPv4 address
			peersArg = []netip.AddrPort{netip.MustParseAddrPort("[2001:db8::77]:31000")}
		case "forced-family-mismatch":
			cfg.Family = AddrFamilyIPv6
		case "neg-timeout":
			cfg.Timeout = -time.Millisecond
		case "neg-interval":
			cfg.Interval = -time.Millisecond
		case "bad-metadata":
			meta.Nonce = meta.Nonce[:30]
		case "empty-id":
			id = ""
		case "cancelled-ctx":
			c2, cancel := context.WithCancel(ctx)
			cancel()
			cctx = c2
		}
		res, err := sp.Respond(cctx, id, local, peersArg, meta, cfg)
		refOut.res, refOut.err, refOut.at, refOut.done = res, err, time.Since(start), true
		if c := vfC20Census; c != nil {
			_, refOut.regExists = c.Conn(w, refID)
			if _, e := c.Conn(w, ""); e {
				refOut.regExists = true
			}
			refOut.spExists = c.Server(sp, refID)
			k.Count("ev_census_checks", 2)
		}
	}()
	go func() {
		time.Sleep(ref2At)
		res, err := sp.Respond(ctx, refID, local, []netip.AddrPort{refPeer}, refMeta.PM(), PunchConfig{Timeout: ref2Timeout, Interval: 25 * time.Millisecond})
		ref2Out.res, ref2Out.err, ref2Out.at, ref2Out.done = res, err, time.Since(start), true
		if c := vfC20Census; c != nil {
			_, ref2Out.regExists = c.Conn(w, refID)
			k.Count("ev_census_checks", 1)
		}
	}()

	dupOut := &dupOutT{}
	if dupOf >= 0 {
		go func() {
			time.Sleep(dupAt)
			pl := plans[dupOf]
			_, err := sp.Respond(ctx, pl.ID, local, []netip.AddrPort{peers[dupOf]}, dupMeta.PM(), PunchConfig{Timeout: pl.Timeout, Interval: pl.Every})
			dupOut.err, dupOut.at, dupOut.done = err, time.Since(start), true
			if c := vfC20Census; c != nil {
				dupOut.regAfter, dupOut.regExists = c.Conn(w, pl.ID)
				dupOut.census = true
				k.Count("ev_census_checks", 1)
			}
		}()
	}

	var expectPass []*vfC20Pkt
	for _, x := range tl {
		if d := x.at - time.Since(start); d > 0 {
			time.Sleep(d)
		}
		synctest.Wait() // everything scheduled for this instant (Respond start/return) has happened
		in.ch <- x.pkt
		k.Count("ev_packets", 1)
		if x.mustPass {
			expectPass = append(expectPass, x.pkt)
		}
		synctest.Wait()
	}
	time.Sleep(5 * time.Second) // virtual: past every timeout
	synctest.Wait()

	// ---- verdicts
	for i, pl := range plans {
		o := outs[i]
		if !o.done {
			vfC20V(k, "realm:respond-never-returns", rep, "Respond(%s, mode %s) had not returned 5 s (virtual) after its timeout", pl.ID, pl.Mode)
			continue
		}
		k.Count("ev_responds", 1)
		rel := o.at - pl.StartAt
		switch pl.Mode {
		case "hello", "ack":
			wantType := PunchPacketHello
			if pl.Mode == "ack" {
				wantType = PunchPacketAck
			}
			switch {
			case o.err != nil:
				vfC20V(k, "realm:respond-missed-packet", rep, "Respond(%s): peer sent a valid %s at +%v (timeout %v) but Respond returned %v at +%v", pl.ID, pl.Mode, pl.At, pl.Timeout, o.err, rel)
			case o.res.PeerAddr != peers[i] || o.res.Packet.Type != wantType:
				vfC20V(k, "realm:respond-wrong-packet", rep, "Respond(%s) returned peer %v type %#x; its own peer %v sent type %#x (cross-attempt routing?)", pl.ID, o.res.PeerAddr, byte(o.res.Packet.Type), peers[i], byte(wantType))
			case rel != pl.At:
				vfC20V(k, "realm:respond-late", rep, "Respond(%s) returned at +%v, the peer's packet was injected at +%v", pl.ID, rel, pl.At)
			default:
				k.Count("ev_respond_success", 1)
			}
			if pl.Mode == "hello" && o.err == nil {
				acked := false
				in.mu.Lock()
				for _, s := range in.sent {
					if s.To == peers[i].String() && s.At == o.at {
						if typ, _, ok := vfC20RefDecode(s.Data, metas[i]); ok && typ == 2 {
							acked = true
						}
					}
				}
				in.mu.Unlock()
				if !acked {
					vfC20V(k, "realm:respond-no-ack", rep, "Respond(%s) saw a hello from %v but wrote no ack to it", pl.ID, peers[i])
				}
			}
		case "timeout":
			if !errors.Is(o.err, ErrPunchTimeout) || rel != pl.Timeout {
				vfC20V(k, "realm:respond-timeout", rep, "Respond(%s) without any packet of its attempt returned (%+v, %v) at +%v; want ErrPunchTimeout at +%v", pl.ID, o.res, o.err, rel, pl.Timeout)
			} else {
				k.Count("ev_respond_timeout", 1)
			}
		case "cancel":
			if !errors.Is(o.err, context.Canceled) || rel != pl.At {
				vfC20V(k, "realm:respond-cancel", rep, "Respond(%s) cancelled at +%v returned (%+v, %v) at +%v", pl.ID, pl.At, o.res, o.err, rel)
			} else {
				k.Count("ev_respond_cancel", 1)
			}
		}
		still := false
		if c := vfC20Census; c != nil {
			_, still = c.Conn(w, pl.ID)
			k.Count("ev_census_checks", 1)
		}
		if still {
			vfC20V(k, "realm:attempt-left-registered", rep, "attempt %s is still in the registry after Respond returned", pl.ID)
		}
	}
	k.Count("ev_refused_responds", 1)
	k.Count("refused_kind_"+refKind, 1)
	switch {
	case !refOut.done:
		vfC20V(k, "realm:refused-respond-hangs", rep, "Respond(%s) of kind %s had not returned at the end of the case", refID, refKind)
	case refOut.err == nil || refOut.at != refAt || (refKind == "cancelled-ctx" && !errors.Is(refOut.err, context.Canceled)):
		vfC20V(k, "realm:respond-not-refused", rep, "Respond(%s) of kind %s returned (%+v, %v) at %v, issued at %v; want an immediate error", refID, refKind, refOut.res, refOut.err, refOut.at, refAt)
	default:
		k.Count("ev_refused_ok", 1)
		if refOut.regExists || refOut.spExists {
			vfC20V(k, "realm:attempt-left-registered", rep,
				"Respond(%s) was refused (%s: %v) but the attempt is still registered afterwards (PunchPacketConn registry: %v, ServerPuncher: %v)", refID, refKind, refOut.err, refOut.regExists, refOut.spExists)
		}
	}
	switch {
	case !ref2Out.done:
		vfC20V(k, "realm:respond-never-returns", rep, "second Respond(%s) had not returned at the end of the case", refID)
	case ref2Hello > 0 && (ref2Out.err != nil || ref2Out.res.PeerAddr != refPeer || ref2Out.res.Packet.Type != PunchPacketHello || ref2Out.at != ref2At+ref2Hello):
		vfC20V(k, "realm:respond-after-refusal", rep, "Respond(%s) issued after the refused one (%s) returned (%+v, %v) at %v; want its peer's hello at %v (an id whose Respond was refused is not in use)", refID, refKind, ref2Out.res, ref2Out.err, ref2Out.at, ref2At+ref2Hello)
	case ref2Hello == 0 && (!errors.Is(ref2Out.err, ErrPunchTimeout) || ref2Out.at != ref2At+ref2Timeout):
		vfC20V(k, "realm:respond-after-refusal", rep, "Respond(%s) issued after the refused one (%s) returned (%+v, %v) at %v; want ErrPunchTimeout at %v (an id whose Respond was refused is not in use)", refID, refKind, ref2Out.res, ref2Out.err, ref2Out.at, ref2At+ref2Timeout)
	case ref2Out.regExists:
		vfC20V(k, "realm:attempt-left-registered", rep, "attempt %s is still in the registry after its second Respond returned", refID)
	default:
		k.Count("ev_respond_after_refusal_ok", 1)
	}
	if dupOf >= 0 {
		pl := plans[dupOf]
		k.Count("ev_duplicate_responds", 1)
		switch {
		case !dupOut.done:
			vfC20V(k, "realm:duplicate-respond-hangs", rep, "Respond(%s) with other metadata, issued while the attempt was running, had not returned at the end of the case", pl.ID)
		case dupOut.err == nil || !errors.Is(dupOut.err, ErrInvalidPunchAttempt) || dupOut.at != dupAt:
			vfC20V(k, "realm:duplicate-respond-not-refused", rep, "Respond(%s) with other metadata while the attempt was running returned %v at %v (issued at %v); want an immediate ErrInvalidPunchAttempt", pl.ID, dupOut.err, dupOut.at, dupAt)
		default:
			k.Count("ev_duplicate_refused", 1)
			if dupOut.census && (!dupOut.regExists || dupOut.regAfter != metas[dupOf].PM()) {
				vfC20V(k, "realm:refused-duplicate-changed-registry", rep,
					"after the duplicate Respond(%s) was refused the demux holds (registered=%v) nonce=%s obfs=%s for that id; the running attempt's metadata is %s — a refused call never became a registered attempt",
					pl.ID, dupOut.regExists, dupOut.regAfter.Nonce, dupOut.regAfter.Obfs, metas[dupOf])
			}
		}
	}
	// every write is a valid punch packet of one of the two attempts, to that attempt's peer
	in.mu.Lock()
	for _, s := range in.sent {
		k.Count("ev_sent", 1)
		okAny := false
		for i := range metas {
			if _, _, ok := vfC20RefDecode(s.Data, metas[i]); ok && s.To == peers[i].String() {
				okAny = true
			}
		}
		if _, _, ok := vfC20RefDecode(s.Data, refMeta); ok && s.To == refPeer.String() {
			okAny = true
		}
		if !okAny {
			vfC20V(k, "realm:respond-writes-garbage", map[string]any{"case_id": caseID, "to": s.To, "hex": vfHex(s.Data)}, "Respond wrote %d bytes to %s that are not a punch packet of the attempt whose peer that is", len(s.Data), s.To)
			break
		}
	}
	in.mu.Unlock()
	// pump got exactly the must-pass packets, in order, unaltered
	gmu.Lock()
	gi := 0
	for _, p := range expectPass {
		if gi < len(gots) && bytes.Equal(gots[gi].data, p.Data) && vfC20SameAddr(gots[gi].addr, p.From) {
			gi++
			k.Count("ev_passed", 1)
			continue
		}
		what := "was not handed to the reader (or out of order / altered)"
		key := "realm:diverted-unjustified"
		if p.Kind == "punch-after-return" {
			key = "realm:divert-after-remove"
			what = "was sent after Respond had returned (attempt removed) and did not reach the reader"
		}
		if p.Kind == "punch-after-refused-respond" {
			key = "realm:diverted-after-refused-respond"
			what = "is a punch packet under the metadata of a Respond call that had been REFUSED (" + refKind + ") and did not reach the reader"
		}
		if p.Kind == "punch-refused-duplicate" {
			key = "realm:diverted-under-refused-metadata"
			what = "is a punch packet under the metadata of a Respond call that was REFUSED as a duplicate (never a registered attempt) and did not reach the reader"
		}
		vfC20V(k, key, map[string]any{"case_id": caseID, "plans": plans, "duplicate": rep["duplicate"], "refused": rep["refused"], "packet": vfC20PktBrief(p)}, "packet #%d (%s) %s", p.Seq, p.Kind, what)
		break
	}
	if gi == len(expectPass) && len(gots) > gi {
		vfC20V(k, "realm:registered-punch-not-diverted", map[string]any{"case_id": caseID, "plans": plans, "duplicate": rep["duplicate"], "returned_hex": vfHex(gots[gi].data)},
			"the reader received %d packets, only %d were expected to pass (a peer's punch packet of a running attempt reached the reader)", len(gots), len(expectPass))
	}
	gmu.Unlock()
	k.Nontrivial(fmt.Sprintf("%s/%s/%s/%s", caseID, plans[0].Mode, plans[1].Mode, refKind))

	cancelAll()
	close(in.ch)
	pumpDone.Wait()
	synctest.Wait()
}

func vfC20RunServerPunch(t *testing.T, part string) {
	k := vfNewKit(t, "C20", part)
	defer k.Finish()
	n := k.N(120, 2500)
	for i := 0; i < n; i++ {
		caseID := fmt.Sprintf("srv-%d", i)
		if rc := k.ReplayCase(); rc != "" && rc != caseID {
			continue
		}
		k.Eval()
		r := k.Rand(caseID)
		synctest.Test(t, func(t *testing.T) { vfC20ServerCase(t, k, caseID, r) })
		if i == 0 {
			k.Sample(map[string]any{"case": caseID, "white_box_census": vfC20Census != nil, "note": "two concurrent Respond calls, a duplicate-id Respond, a refused Respond and its successor, on virtual time; see rule"})
		}
	}
}

// TestVerifC20ServerPunch is the behavioural run (exported API only).
func TestVerifC20ServerPunch(t *testing.T) { vfC20RunServerPunch(t, "server-punch") }
