//go:build verif

package realm

// C03 — peer-controlled bytes never crash the process: STUN discovery behind the demultiplexer.
//
//   realm-demux: hostile datagrams go through the REAL PunchPacketConn.ReadFrom (a reader goroutine
//                on an in-memory PacketConn, as the QUIC transport does) BEFORE and WHILE
//                DiscoverWithDemux runs against that conn, and through plain Discover on a raw conn:
//                STUN-looking headers (magic cookie, top two bits zero or not) with truncated /
//                oversize / inconsistent length fields, bad or cut attributes, unknown address
//                families, other message types, and mutated genuine binding responses — also carrying
//                the transaction id of the pending request (a hostile STUN server knows it). What a
//                packet leaves behind (a buffered event) meets the next discovery run.
//                Every case is a testing/synctest bubble of its own: the short discovery timeout
//                runs out in virtual time, and "the reader has digested the packet" is
//                synctest.Wait(), not a sleep. Any panic in the Discover caller is recorded under
//                "<entry>-panic"; a panic in the reader goroutine kills the child (crash key; the
//                packet is in inputs-realm-demux.log). Afterwards a clean discovery on the same
//                conn must return exactly the address the well-behaved server reports.

import (
	"context"
	"math/rand"
	"net"
	"net/netip"
	"runtime/debug"
	"sync"
	"testing"
	"testing/synctest"
	"time"

	"github.com/pion/stun/v3"
)

// vfC03ChanConn is an in-memory net.PacketConn with blocking reads and read deadlines.
type vfC03ChanConn struct {
	in     chan vfC03RPkt
	closed chan struct{}
	once   sync.Once

	mu      sync.Mutex
	dl      time.Time
	onWrite func(p []byte, addr net.Addr)
}

func vfC03NewChanConn() *vfC03ChanConn {
	return &vfC03ChanConn{in: make(chan vfC03RPkt), closed: make(chan struct{})}
}

func (c *vfC03ChanConn) ReadFrom(p []byte) (int, net.Addr, error) {
	c.mu.Lock()
	dl := c.dl
	c.mu.Unlock()
	var expire <-chan time.Time
	if !dl.IsZero() {
		t := time.NewTimer(time.Until(dl))
		defer t.Stop()
		expire = t.C
	}
	select {
	case pk := <-c.in:
		return copy(p, pk.data), pk.from, nil
	case <-expire:
		return 0, nil, vfC03NetTimeout{}
	case <-c.closed:
		return 0, nil, net.ErrClosed
	}
}

func (c *vfC03ChanConn) WriteTo(p []byte, addr net.Addr) (int, error) {
	c.mu.Lock()
	f := c.onWrite
	c.mu.Unlock()
	if f != nil {
		f(append([]byte(nil), p...), addr)
	}
	return len(p), nil
}
func (c *vfC03ChanConn) Close() error { c.once.Do(func() { close(c.closed) }); return nil }
func (c *vfC03ChanConn) LocalAddr() net.Addr {
	return &net.UDPAddr{IP: net.IPv4(127, 0, 0, 1), Port: 4433}
}
func (c *vfC03ChanConn) SetDeadline(t time.Time) error {
	return c.SetReadDeadline(t)
}
func (c *vfC03ChanConn) SetReadDeadline(t time.Time) error {
	c.mu.Lock()
	c.dl = t
	c.mu.Unlock()
	return nil
}
func (c *vfC03ChanConn) SetWriteDeadline(t time.Time) error { return nil }
func (c *vfC03ChanConn) setOnWrite(f func(p []byte, addr net.Addr)) {
	c.mu.Lock()
	c.onWrite = f
	c.mu.Unlock()
}

// push delivers one datagram to whoever reads the conn (false: conn closed).
func (c *vfC03ChanConn) push(data []byte, from net.Addr) bool {
	select {
	case c.in <- vfC03RPkt{data, from}:
		return true
	case <-c.closed:
		return false
	}
}

type vfC03NetTimeout struct{}

func (vfC03NetTimeout) Error() string   { return "c03: i/o timeout" }
func (vfC03NetTimeout) Timeout() bool   { return true }
func (vfC03NetTimeout) Temporary() bool { return true }

type vfC03Resolver struct{}

func (vfC03Resolver) LookupIPAddr(ctx context.Context, host string) ([]net.IPAddr, error) {
	return []net.IPAddr{{IP: net.IPv4(192, 0, 2, 1)}}, nil
}

// vfC03WithTx returns the packet with the transaction id of a pending request (bytes 8..20).
func vfC03WithTx(pkt []byte, tx [stun.TransactionIDSize]byte) []byte {
	out := append([]byte(nil), pkt...)
	if len(out) >= 20 {
		copy(out[8:20], tx[:])
	}
	return out
}

// vfC03HostileSTUN: STUN-looking datagrams.
func vfC03HostileSTUN(rng *rand.Rand, seeds [][]byte, emit func([]byte)) {
	cookie := []byte{0x21, 0x12, 0xa4, 0x42}
	tx := []byte("c03-hostile!")
	types := [][]byte{{0x01, 0x01}, {0x01, 0x11}, {0x00, 0x01}, {0x00, 0x00}, {0x3f, 0xff}, {0x41, 0x01}, {0x81, 0x01}, {0xc1, 0x01}}
	lens := [][]byte{{0, 0}, {0, 1}, {0, 3}, {0, 4}, {0, 8}, {0, 12}, {0, 44}, {0x05, 0xdc}, {0xff, 0xfc}, {0xff, 0xff}}
	attrs := [][]byte{nil,
		{0x00, 0x20, 0x00, 0x08, 0x00, 0x01, 0x11, 0x2b, 0x5e, 0x12, 0xa4, 0x43}, // XOR-MAPPED-ADDRESS, complete
		{0x00, 0x20, 0x00, 0x08, 0x00, 0x01},                                     // cut inside the value
		{0x00, 0x20, 0x00, 0x08},                                                 // header only
		{0x00, 0x20, 0xff, 0xff, 0x00, 0x01, 0x11, 0x2b},                         // attribute length beyond the message
		{0x00, 0x20, 0x00, 0x00},                                                 // empty value
		{0x00, 0x20, 0x00, 0x04, 0x00, 0x01, 0x11, 0x2b},                         // too short for an address
		{0x00, 0x20, 0x00, 0x08, 0x00, 0x03, 0x11, 0x2b, 0x5e, 0x12, 0xa4, 0x43}, // unknown family
		{0x00, 0x20, 0x00, 0x08, 0x00, 0x02, 0x11, 0x2b, 0x5e, 0x12, 0xa4, 0x43}, // IPv6 family, IPv4 size
		{0x00, 0x01, 0x00, 0x08, 0x00, 0x01, 0x00, 0x00, 0xc0, 0x00, 0x02, 0x07}, // MAPPED-ADDRESS, port 0
		{0x00, 0x09, 0x00, 0x04, 0x00, 0x00, 0x04, 0x00},                         // ERROR-CODE
		{0x80, 0x28, 0x00, 0x04, 0xde, 0xad, 0xbe, 0xef},                         // FINGERPRINT (wrong)
		{0x00, 0x20, 0x00, 0x07, 0x00, 0x01, 0x11, 0x2b, 0x5e, 0x12, 0xa4},       // unpadded
	}
	for _, ty := range types {
		for _, ln := range lens {
			for _, at := range attrs {
				emit(vfC03Cat(ty, ln, cookie, tx, at))
			}
			emit(vfC03Cat(ty, ln, cookie, tx)[:19]) // one byte short of a header
			emit(vfC03Cat(ty, ln, []byte{0x21, 0x12, 0xa4, 0x43}, tx))
		}
		// the length field says exactly what follows (decodable header, hostile attributes)
		for _, at := range attrs {
			emit(vfC03Cat(ty, []byte{byte(len(at) >> 8), byte(len(at))}, cookie, tx, at))
			emit(vfC03Cat(ty, []byte{byte(len(at) >> 8), byte(len(at))}, cookie, tx, at, at))
		}
	}
	for _, s := range seeds {
		vfC03Mutations(rng, s, []vfC03Field{{2, 2, "be16"}, {20, 2, "be16"}, {22, 2, "be16"}, {25, 1, "u8"}}, []uint64{0, 1, 3, 4, 8, 12, 20, uint64(len(s)), uint64(len(s) - 20), 0xfffc, 0xffff}, 40, emit)
	}
}

func TestVerifC03RealmDemux(t *testing.T) {
	k := vfNewKit(t, "C03", "realm-demux")
	defer k.Finish()
	r := vfC03New(k)
	defer r.Close()
	const entry = "realm:PunchPacketConn.ReadFrom+DiscoverWithDemux/Discover"
	server := &net.UDPAddr{IP: net.IPv4(192, 0, 2, 1), Port: 3478}
	stranger := &net.UDPAddr{IP: net.IPv4(203, 0, 113, 99), Port: 40000}
	cfg := STUNConfig{Servers: []string{"stun.c03.verif:3478"}, Timeout: 300 * time.Millisecond, Resolver: vfC03Resolver{}}
	caseNo := 0

	// one case = one bubble
	runCase := func(b []byte) {
		caseNo++
		n := caseNo
		want := netip.AddrPortFrom(netip.AddrFrom4([4]byte{198, 51, 100, byte(n)}), uint16(1024+n%60000))
		caseID := vfC03CaseID(entry, b)
		synctest.Test(t, func(t *testing.T) {
			raw := vfC03NewChanConn()
			raw2 := vfC03NewChanConn()
			pc, err := NewPunchPacketConn(raw, 0)
			if err != nil {
				t.Fatal(err)
			}
			_ = pc.AddPunchAttempt("a1", vfC03Meta(1))
			defer func() { _ = raw.Close(); _ = raw2.Close() }() // lets the reader and any server goroutine finish
			stage := "start"
			defer func() {
				if p := recover(); p != nil {
					r.Panicked(entry, caseID, b, map[string]any{"stage": stage}, p, string(debug.Stack()))
				}
			}()
			go func() { // the QUIC transport's read loop
				buf := make([]byte, 1500)
				for {
					if _, _, err := pc.ReadFrom(buf); err != nil {
						return
					}
					k.Count("passed_to_quic", 1)
				}
			}()
			// serve: what the "STUN server" does when a binding request arrives on conn c
			serve := func(c *vfC03ChanConn, hostile, answer bool) {
				c.setOnWrite(func(p []byte, _ net.Addr) {
					var tx [stun.TransactionIDSize]byte
					if len(p) >= 20 {
						copy(tx[:], p[8:20])
					}
					go func() {
						if hostile {
							if !c.push(vfExact(vfC03WithTx(b, tx)), server) || !c.push(vfExact(b), stranger) {
								return
							}
						}
						if answer {
							c.push(vfC03STUNResponse(tx, want, n%2 == 0), server)
						}
					}()
				})
			}
			check := func(what string, addrs []netip.AddrPort, err error) {
				if err != nil || len(addrs) != 1 || addrs[0] != want {
					r.ServiceStopped(entry, caseID, map[string]any{"hostile_packet": vfHex(b), "stage": what},
						"%s after hostile STUN-looking traffic: got %v err=%v, want [%v]", what, addrs, err, want)
					return
				}
				k.Count("ev_canary_ok", 1)
			}

			// (1) hostile datagrams arrive before anybody discovers anything: what they leave behind stays
			stage = "hostile datagrams before discovery"
			if !raw.push(vfExact(b), stranger) || !raw.push(vfExact(b), server) {
				return
			}
			synctest.Wait()
			// (2) discovery while a hostile server answers with the pending transaction id
			stage = "DiscoverWithDemux, hostile replies"
			serve(raw, true, n%3 != 0) // every third case: no proper answer at all, the timeout ends it
			_, err = DiscoverWithDemux(context.Background(), pc, cfg)
			if err != nil {
				k.Count("ev_discover_errors", 1)
			}
			synctest.Wait()
			// (3) service continues: a clean discovery on the same demultiplexer
			stage = "DiscoverWithDemux, clean"
			for len(pc.stun) > 0 { // leftovers of the hostile round must not crowd the proper answer out of the 16-slot channel
				<-pc.stun
			}
			serve(raw, false, true)
			addrs, err := DiscoverWithDemux(context.Background(), pc, cfg)
			k.Count("ev_canary", 1)
			check("DiscoverWithDemux", addrs, err)
			synctest.Wait()
			// (4) plain Discover on a raw socket: hostile replies, then clean
			stage = "Discover, hostile replies"
			serve(raw2, true, n%3 != 1)
			if _, err = Discover(context.Background(), raw2, cfg); err != nil {
				k.Count("ev_discover_errors", 1)
			}
			synctest.Wait()
			stage = "Discover, clean"
			serve(raw2, false, true)
			addrs, err = Discover(context.Background(), raw2, cfg)
			k.Count("ev_canary", 1)
			check("Discover", addrs, err)
			raw.setOnWrite(nil)
			raw2.setOnWrite(nil)
			synctest.Wait()
		})
	}
	r.Entry(entry, runCase)
	if r.Replay() {
		return
	}
	rng := k.Rand("gen")
	every := k.N(6, 1) // quick: every 6th generated packet (each case is 4 discovery runs in a bubble)
	i := 0
	vfC03HostileSTUN(rng, vfC03STUNSeeds(), func(b []byte) {
		if i++; i%every != 0 {
			return
		}
		r.Do(entry, b)
	})
	vfC03Random(rng, k.N(65, 3000), 200, func(b []byte) { r.Do(entry, b) })
	k.Sample(map[string]any{"entry": entry, "cases": k.Counter("ev_inputs"), "clean_discoveries_ok": k.Counter("ev_canary_ok"),
		"example": "0101000c2112a442" + "6330332d686f7374696c6521"})
}
