//go:build verif

package realm

// C20 part "registry-census": the ONLY C20 harness file that touches unexported state.
//
// It installs the white-box probe vfC20Census (registry entry of an attempt id read under
// PunchPacketConn's own lock; ServerPuncher's attempt table under its lock) and re-runs the
// server-punch scenarios with the census checks enabled: after a refused Respond, after a
// refused duplicate and after every returned Respond the registry must hold exactly what the
// property says ("currently registered attempt"). This file is listed only in the "census"
// job; if the registry's representation changes it is this job alone that stops building
// (inconclusive), while the behavioural parts keep deciding.

import "testing"

func vfC20InstallCensus() {
	vfC20Census = &vfC20CensusFuncs{
		Conn: func(w *PunchPacketConn, id string) (PunchMetadata, bool) {
			w.mu.RLock()
			defer w.mu.RUnlock()
			m, ok := w.attempts[id]
			return m, ok
		},
		Server: func(sp *ServerPuncher, id string) bool {
			sp.mu.Lock()
			defer sp.mu.Unlock()
			_, ok := sp.attempts[id]
			return ok
		},
	}
}

func TestVerifC20Census(t *testing.T) {
	vfC20InstallCensus()
	defer func() { vfC20Census = nil }()
	vfC20RunServerPunch(t, "registry-census")
}
