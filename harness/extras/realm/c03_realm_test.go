//go:build verif

package realm

// C03 — peer-controlled bytes never crash the process: hole-punch and STUN packets.
//
//   realm-punch: DecodePunchPacket on any bytes (cap==len): all lengths 0..64 and around the length
//                window (33, 1057, 1058), mutations of packets made by EncodePunchPacket, random;
//                also hostile metadata strings (they come from the rendezvous server).
//   realm-stun:  parseSTUNBindingResponse behind stun.IsMessage exactly as decodeSTUNPacket gates it,
//                and through Discover() over a scripted socket whose "STUN server" answers first with
//                the hostile packet and then correctly: mutations of valid responses (message and
//                attribute lengths 0/1/max, truncated attributes, IPv6/unknown families), random.
//   realm-conn:  PunchPacketConn.ReadFrom over a scripted socket with registered punch attempts:
//                hostile punch-like, STUN-like and arbitrary packets in sequences. After hostile
//                input a valid punch packet must be diverted to Events with the right attempt id
//                and source, a valid STUN response to STUNEvents, and an ordinary packet returned
//                to the reader intact.

import (
	"bytes"
	"context"
	"crypto/sha256"
	"encoding/hex"
	"errors"
	"fmt"
	"math/rand"
	"net"
	"net/netip"
	"strings"
	"testing"
	"time"

	"github.com/pion/stun/v3"
)

var errVfC03Drained = errors.New("c03: no more packets (script end)")

type vfC03RPkt struct {
	data []byte
	from net.Addr
}

type vfC03RConn struct {
	q       []vfC03RPkt
	onWrite func(p []byte, addr net.Addr)
}

func (c *vfC03RConn) ReadFrom(p []byte) (int, net.Addr, error) {
	if len(c.q) == 0 {
		return 0, nil, errVfC03Drained
	}
	pk := c.q[0]
	c.q = c.q[1:]
	return copy(p, pk.data), pk.from, nil
}

func (c *vfC03RConn) WriteTo(p []byte, addr net.Addr) (int, error) {
	if c.onWrite != nil {
		c.onWrite(append([]byte(nil), p...), addr)
	}
	return len(p), nil
}
func (c *vfC03RConn) Close() error { return nil }
func (c *vfC03RConn) LocalAddr() net.Addr {
	return &net.UDPAddr{IP: net.IPv4(127, 0, 0, 1), Port: 4433}
}
func (c *vfC03RConn) SetDeadline(t time.Time) error      { return nil }
func (c *vfC03RConn) SetReadDeadline(t time.Time) error  { return nil }
func (c *vfC03RConn) SetWriteDeadline(t time.Time) error { return nil }

func vfC03Meta(n int) PunchMetadata {
	return PunchMetadata{
		Nonce: fmt.Sprintf("%032x", 0xc03000+n),
		Obfs:  fmt.Sprintf("%064x", 0xc03f00+n),
	}
}

// vfC03PunchPacket is a deterministic encoder of the punch wire format (salt and padding from the
// harness PRNG; EncodePunchPacket draws them from crypto/rand): 8-byte salt, then
// magic "HYRLMv1\x00" | type | 16-byte nonce | padding, XORed with SHA-256(obfs key | salt) repeated.
func vfC03PunchPacket(rng *rand.Rand, typ PunchPacketType, meta PunchMetadata, padding int) []byte {
	nonce, _ := hex.DecodeString(meta.Nonce)
	key, _ := hex.DecodeString(meta.Obfs)
	salt := vfC03Fill(rng, 2, 8)
	plain := vfC03Cat([]byte{'H', 'Y', 'R', 'L', 'M', 'v', '1', 0, byte(typ)}, nonce, vfC03Fill(rng, 2, padding))
	mask := sha256.Sum256(vfC03Cat(key, salt))
	for i := range plain {
		plain[i] ^= mask[i%len(mask)]
	}
	return vfC03Cat(salt, plain)
}

func vfC03STUNResponse(txID [stun.TransactionIDSize]byte, addr netip.AddrPort, xor bool, extra ...stun.Setter) []byte {
	setters := []stun.Setter{stun.BindingSuccess, stun.NewTransactionIDSetter(txID)}
	if xor {
		setters = append(setters, &stun.XORMappedAddress{IP: net.IP(addr.Addr().AsSlice()), Port: int(addr.Port())})
	} else {
		setters = append(setters, &stun.MappedAddress{IP: net.IP(addr.Addr().AsSlice()), Port: int(addr.Port())})
	}
	setters = append(setters, extra...)
	msg, err := stun.Build(setters...)
	if err != nil {
		panic("harness: stun.Build: " + err.Error())
	}
	return append([]byte(nil), msg.Raw...)
}

func TestVerifC03RealmPunch(t *testing.T) {
	k := vfNewKit(t, "C03", "realm-punch")
	defer k.Finish()
	r := vfC03New(k)
	defer r.Close()
	const entry = "realm:DecodePunchPacket"
	const entryMeta = "realm:DecodePunchPacket(hostile metadata)"
	meta := vfC03Meta(1)
	other := vfC03Meta(2)
	r.Entry(entry, func(b []byte) {
		for i, m := range []PunchMetadata{meta, other} {
			if i == 1 && len(b)%4 != 0 {
				continue // the second registered attempt: every 4th input
			}
			p, err := DecodePunchPacket(b, m)
			if err != nil {
				k.Count("ev_rejected", 1)
				continue
			}
			k.Count("ev_accepted", 1)
			if p.PaddingLength < 0 || p.PaddingLength > MaxPunchPadding {
				panic(fmt.Sprintf("accepted packet reports padding %d", p.PaddingLength))
			}
		}
	})
	valid := vfC03PunchPacket(k.Rand("valid"), PunchPacketHello, meta, 200)
	if p, err := DecodePunchPacket(vfExact(valid), meta); err != nil || p.Type != PunchPacketHello || p.PaddingLength != 200 {
		t.Fatalf("harness: the reference punch encoder disagrees with the decoder: %+v %v", p, err)
	}
	// input = "nonce|obfs" as delivered by the rendezvous server
	r.Entry(entryMeta, func(b []byte) {
		parts := strings.SplitN(string(b), "|", 2)
		m := PunchMetadata{Nonce: parts[0]}
		if len(parts) > 1 {
			m.Obfs = parts[1]
		}
		if _, err := DecodePunchPacket(vfExact(valid), m); err != nil {
			k.Count("ev_rejected", 1)
		} else {
			k.Count("ev_accepted", 1)
		}
		if _, err := EncodePunchPacket(PunchPacketAck, m); err == nil {
			k.Count("ev_meta_usable", 1)
		}
		pc, _ := NewPunchPacketConn(&vfC03RConn{}, 1)
		_ = pc.AddPunchAttempt("x", m)
	})
	if r.Replay() {
		return
	}
	rng := k.Rand("gen")
	n := 0
	emit := func(b []byte) {
		r.Do(entry, b)
		if n++; n%500 != 0 {
			return
		}
		typ := []PunchPacketType{PunchPacketHello, PunchPacketAck}[n/500%2]
		r.Canary(entry, "", map[string]any{"type": typ}, func() error {
			pkt, err := EncodePunchPacket(typ, meta)
			if err != nil {
				return err
			}
			p, err := DecodePunchPacket(vfExact(pkt), meta)
			if err != nil || p.Type != typ || p.PaddingLength != len(pkt)-punchMinWireLen {
				return fmt.Errorf("round trip of a %d-byte packet: %+v err=%v", len(pkt), p, err)
			}
			if _, err := DecodePunchPacket(vfExact(pkt), other); err == nil {
				return errors.New("packet accepted under another attempt's metadata")
			}
			return nil
		})
	}
	vfC03Prefixes(rng, [][]byte{nil, valid[:8], valid[:16], valid[:33], {0, 0, 0, 0, 0, 0, 0, 0, 'H', 'Y', 'R', 'L', 'M', 'v', '1', 0, 1}}, 64, emit)
	for _, l := range []int{punchMinWireLen - 1, punchMinWireLen, punchMinWireLen + 1, punchMaxWireLen - 1, punchMaxWireLen, punchMaxWireLen + 1, 1500, 2048, 65535} {
		for kind := 0; kind < 4; kind++ {
			emit(vfC03Fill(rng, kind, l))
		}
		if l >= punchMinWireLen {
			emit(vfC03Cat(valid[:punchMinWireLen], vfC03Fill(rng, 2, l-punchMinWireLen)))
		}
	}
	for i, pad := range []int{0, 7, 300, MaxPunchPadding} {
		seed := vfC03PunchPacket(rng, []PunchPacketType{PunchPacketHello, PunchPacketAck}[i%2], meta, pad)
		vfC03Mutations(rng, seed, nil, nil, k.N(300, 6000), emit)
	}
	vfC03Random(rng, k.N(4000, 80000), 1200, emit)
	// hostile metadata
	hexes := []string{"", "0", "00", "zz", strings.Repeat("0", 31), strings.Repeat("0", 32), strings.Repeat("0", 33), strings.Repeat("f", 64), strings.Repeat("f", 65),
		strings.Repeat("A", 32), strings.Repeat("g", 32), strings.Repeat("0", 100000), meta.Nonce, meta.Obfs, " " + meta.Nonce, meta.Nonce + "\x00", "0x" + meta.Nonce[2:]}
	for _, a := range hexes {
		for _, b := range hexes {
			r.Do(entryMeta, []byte(a+"|"+b))
		}
	}
	for i, nr := 0, k.N(500, 10000); i < nr; i++ {
		a, b := []byte(meta.Nonce), []byte(meta.Obfs)
		if rng.Intn(2) == 0 {
			a[rng.Intn(len(a))] = byte(rng.Intn(256))
		} else {
			b[rng.Intn(len(b))] = byte(rng.Intn(256))
		}
		r.Do(entryMeta, []byte(string(a)+"|"+string(b)))
	}
	k.Sample(map[string]any{"entries": []string{entry, entryMeta}, "inputs": k.Counter("ev_inputs"), "valid_packet_len": len(valid)})
}

func vfC03STUNSeeds() [][]byte {
	var tx [stun.TransactionIDSize]byte
	copy(tx[:], "c03-stun-txid")
	v4 := netip.MustParseAddrPort("203.0.113.10:4433")
	v6 := netip.MustParseAddrPort("[2001:db8::10]:4433")
	req, _ := stun.Build(stun.NewTransactionIDSetter(tx), stun.BindingRequest)
	errMsg, _ := stun.Build(stun.NewTransactionIDSetter(tx), stun.BindingError, stun.CodeBadRequest)
	return [][]byte{
		vfC03STUNResponse(tx, v4, true),
		vfC03STUNResponse(tx, v4, false),
		vfC03STUNResponse(tx, v6, true),
		vfC03STUNResponse(tx, v6, false, stun.NewSoftware("c03 stun server")),
		vfC03STUNResponse(tx, v4, true, stun.NewSoftware("c03"), stun.Fingerprint),
		append([]byte(nil), req.Raw...),
		append([]byte(nil), errMsg.Raw...),
	}
}

func TestVerifC03RealmSTUN(t *testing.T) {
	k := vfNewKit(t, "C03", "realm-stun")
	defer k.Finish()
	r := vfC03New(k)
	defer r.Close()
	const entry = "realm:parseSTUNBindingResponse"
	const entryD = "realm:Discover"
	r.Entry(entry, func(b []byte) {
		// PunchPacketConn.decodeSTUNPacket: gate, then parse
		if stun.IsMessage(b) {
			k.Count("ev_is_message", 1)
		}
		msg, addr, err := parseSTUNBindingResponse(b)
		if err != nil {
			k.Count("ev_rejected", 1)
			return
		}
		k.Count("ev_accepted", 1)
		if msg == nil || !addr.IsValid() {
			panic(fmt.Sprintf("accepted STUN response without message/address: %v %v", msg, addr))
		}
	})
	canaryNo := 0
	r.Entry(entryD, func(b []byte) {
		canaryNo++
		want := netip.AddrPortFrom(netip.AddrFrom4([4]byte{198, 51, 100, byte(canaryNo)}), uint16(1024+canaryNo%60000))
		server := &net.UDPAddr{IP: net.IPv4(192, 0, 2, 1), Port: 3478}
		conn := &vfC03RConn{}
		conn.onWrite = func(p []byte, addr net.Addr) {
			// the "server": first the hostile packet, then a correct answer to this request
			var tx [stun.TransactionIDSize]byte
			if len(p) >= 20 {
				copy(tx[:], p[8:20])
			}
			conn.q = append(conn.q, vfC03RPkt{b, server}, vfC03RPkt{vfC03STUNResponse(tx, want, canaryNo%2 == 0), server})
		}
		addrs, err := Discover(context.Background(), conn, STUNConfig{Servers: []string{"192.0.2.1:3478"}, Timeout: time.Hour})
		if err != nil || len(addrs) == 0 {
			r.ServiceStopped(entryD, vfC03CaseID(entryD, b), map[string]any{"hostile_packet": vfHex(b)}, "Discover after a hostile reply: %v %v (the correct reply that followed was lost)", addrs, err)
			return
		}
		found := false
		for _, a := range addrs {
			if a == want {
				found = true
			}
		}
		if !found {
			// the hostile packet may itself be a valid answer carrying the same transaction id only by
			// construction of the harness (it cannot know the id), so the correct address must be there
			r.ServiceStopped(entryD, vfC03CaseID(entryD, b), map[string]any{"hostile_packet": vfHex(b), "got": fmt.Sprint(addrs)}, "Discover returned %v, want %v", addrs, want)
			return
		}
		k.Count("ev_canary_ok", 1)
	})
	if r.Replay() {
		return
	}
	rng := k.Rand("gen")
	n := 0
	var txc [stun.TransactionIDSize]byte
	emit := func(b []byte) {
		r.Do(entry, b)
		if n++; n%4 == 0 {
			r.Do(entryD, b)
		}
		if n%500 != 0 {
			return
		}
		txc[0]++
		want := netip.AddrPortFrom(netip.AddrFrom4([4]byte{203, 0, 113, byte(n / 500)}), uint16(2000+n/500))
		r.Canary(entry, "", map[string]any{"mapped": want.String()}, func() error {
			msg, addr, err := parseSTUNBindingResponse(vfExact(vfC03STUNResponse(txc, want, n/500%2 == 0)))
			if err != nil || addr != want || msg.TransactionID != txc {
				return fmt.Errorf("valid binding response: addr=%v err=%v, want %v", addr, err, want)
			}
			return nil
		})
	}
	seeds := vfC03STUNSeeds()
	// (a) all lengths 0..64 behind STUN-looking heads: type x length x cookie
	var heads [][]byte
	typs := [][]byte{{0x01, 0x01}, {0x00, 0x01}, {0x01, 0x11}, {0xff, 0xff}, {0x41, 0x01}}
	if k.Quick() {
		typs = typs[:2]
	}
	for _, typ := range typs {
		for _, ln := range [][]byte{{0, 0}, {0, 4}, {0, 8}, {0, 12}, {0, 44}, {0, 3}, {0xff, 0xfc}, {0xff, 0xff}}[k.N(2, 0):] {
			heads = append(heads, vfC03Cat(typ, ln), vfC03Cat(typ, ln, []byte{0x21, 0x12, 0xa4, 0x42}))
			for _, attr := range [][]byte{{0x00, 0x20, 0x00, 0x08}, {0x00, 0x20, 0x00, 0x00}, {0x00, 0x20, 0xff, 0xff}, {0x00, 0x01, 0x00, 0x14}, {0x00, 0x20, 0x00, 0x08, 0x00, 0x02}, {0x00, 0x01, 0x00, 0x08, 0x00, 0x03}} {
				heads = append(heads, vfC03Cat(typ, ln, []byte{0x21, 0x12, 0xa4, 0x42}, []byte("c03-stun-txi"), attr))
			}
		}
	}
	vfC03Prefixes(rng, heads, 64, emit)
	// (b) mutations of valid messages: message length, first attribute type/length, address family
	for _, s := range seeds {
		fields := []vfC03Field{{2, 2, "be16"}, {20, 2, "be16"}, {22, 2, "be16"}, {25, 1, "u8"}}
		vfC03Mutations(rng, s, fields, vfC03LenValues(uint64(len(s)), uint64(len(s)-20), 8, 20), k.N(300, 6000), emit)
	}
	// (c) random, and random attribute soup behind a valid header
	vfC03Random(rng, k.N(2000, 60000), 1500, emit)
	for i, nr := 0, k.N(2000, 60000); i < nr; i++ {
		var attrs []byte
		for a := 0; a < 1+rng.Intn(5); a++ {
			typ := []uint16{0x0001, 0x0020, 0x8020, 0x0006, 0x0008, 0x8028, uint16(rng.Intn(0x10000))}[rng.Intn(7)]
			al := rng.Intn(24)
			announced := al
			if rng.Intn(4) == 0 {
				announced = []int{0, 1, 3, 4, 7, 8, 20, 0xffff}[rng.Intn(8)]
			}
			body := vfC03Fill(rng, 2, al)
			if len(body) >= 2 && rng.Intn(2) == 0 {
				body[0], body[1] = 0, byte(1+rng.Intn(3)) // family 1/2/3
			}
			attrs = vfC03Cat(attrs, []byte{byte(typ >> 8), byte(typ), byte(announced >> 8), byte(announced)}, body)
		}
		ml := len(attrs)
		if rng.Intn(5) == 0 {
			ml = rng.Intn(len(attrs) + 8)
		}
		emit(vfC03Cat([]byte{0x01, 0x01, byte(ml >> 8), byte(ml), 0x21, 0x12, 0xa4, 0x42}, []byte("c03-stun-txi"), attrs))
	}
	k.Sample(map[string]any{"entries": []string{entry, entryD}, "inputs": k.Counter("ev_inputs"), "valid_seed": vfHex(seeds[0])})
}

func vfC03UDPAddr(rng *rand.Rand, i int) *net.UDPAddr {
	switch i % 3 {
	case 0:
		return &net.UDPAddr{IP: net.IPv4(198, 51, 100, byte(i)).To4(), Port: 1 + i%65535}
	case 1:
		return &net.UDPAddr{IP: net.IPv4(198, 51, 100, byte(i)), Port: 1 + i%65535} // 16-byte form of an IPv4 address
	}
	return &net.UDPAddr{IP: net.ParseIP(fmt.Sprintf("2001:db8::%x", 1+i%0xffff)), Port: 1 + i%65535}
}

func TestVerifC03RealmConn(t *testing.T) {
	k := vfNewKit(t, "C03", "realm-conn")
	defer k.Finish()
	r := vfC03New(k)
	defer r.Close()
	const entry = "realm:PunchPacketConn.ReadFrom"
	r.Entry(entry, func(b []byte) { // one packet into a fresh demultiplexer with one registered attempt
		fake := &vfC03RConn{q: []vfC03RPkt{{b, vfC03UDPAddr(nil, 1)}}}
		pc, _ := NewPunchPacketConn(fake, 4)
		_ = pc.AddPunchAttempt("a1", vfC03Meta(1))
		_, _, _ = pc.ReadFrom(make([]byte, 1500))
	})
	if r.Replay() {
		return
	}
	seeds := vfC03STUNSeeds()
	nseq := k.N(120, 2400)
	canaryNo := 0
	for i := 0; i < nseq; i++ {
		id := fmt.Sprintf("%d", i)
		if r.SkipSeq(id) {
			continue
		}
		rng := k.Rand("seq-" + id)
		fake := &vfC03RConn{}
		pc, err := NewPunchPacketConn(fake, 0)
		if err != nil {
			t.Fatal(err)
		}
		r.NewObject("PunchPacketConn, sequence " + id)
		metas := map[string]PunchMetadata{"a1": vfC03Meta(10*i + 1), "a2": vfC03Meta(10*i + 2)}
		for aid, m := range metas {
			if err := pc.AddPunchAttempt(aid, m); err != nil {
				t.Fatal(err)
			}
		}
		removed := vfC03Meta(10*i + 3)
		_ = pc.AddPunchAttempt("gone", removed)
		pc.RemovePunchAttempt("gone")
		feed := func(pkt []byte, from net.Addr, bufLen int) ([]byte, net.Addr, error) {
			fake.q = []vfC03RPkt{{pkt, from}}
			p := make([]byte, bufLen)
			n, a, err := pc.ReadFrom(p)
			if err != nil {
				return nil, a, err
			}
			return p[:n], a, nil
		}
		drain := func() {
			for len(pc.events) > 0 {
				<-pc.events
			}
			for len(pc.stun) > 0 {
				<-pc.stun
			}
		}
		steps := 80 + rng.Intn(80)
		// aggregate: every packet valid, the NUMBER is what grows: (i%8==3) more valid punch and STUN
		// packets than the event channels hold, nobody reading them; (i%8==5) hundreds of registered attempts
		overflow := i%8 == 3
		if i%8 == 5 {
			for a := 0; a < 150; a++ {
				_ = pc.AddPunchAttempt(fmt.Sprintf("bulk-%d", a), vfC03Meta(100000+1000*i+a))
			}
		}
		panicked := false
		for s := 0; s < steps && !panicked; s++ {
			var pkt []byte
			if overflow && s < 3*defaultPunchEventBuffer {
				if s%2 == 0 {
					pkt = vfC03PunchPacket(rng, PunchPacketHello, metas["a1"], rng.Intn(MaxPunchPadding+1))
				} else {
					var tx [stun.TransactionIDSize]byte
					tx[0], tx[1] = byte(i), byte(s)
					pkt = vfC03STUNResponse(tx, netip.AddrPortFrom(netip.AddrFrom4([4]byte{192, 0, 2, byte(s)}), uint16(5000+s)), s%4 == 1)
				}
				panicked = r.DoObj(entry, r.SeqID(id), pkt, func(b []byte) {
					if _, _, err := feed(b, vfC03UDPAddr(rng, s), 1500); err == nil {
						k.Count("ev_returned_to_reader", 1)
					} else {
						k.Count("ev_absorbed", 1)
					}
				})
				k.Count("ev_aggregate_valid_unread", 1)
				continue
			}
			switch rng.Intn(10) {
			case 0, 1: // punch packet of a registered attempt, damaged
				pkt = vfC03PunchPacket(rng, PunchPacketHello, metas["a1"], rng.Intn(MaxPunchPadding+1))
				switch rng.Intn(4) {
				case 0:
					pkt = pkt[:rng.Intn(len(pkt)+1)]
				case 1:
					pkt[rng.Intn(len(pkt))] ^= 1 << rng.Intn(8)
				case 2:
					pkt = append(pkt, vfC03Fill(rng, 2, 1+rng.Intn(1200))...)
				}
			case 2: // punch packet of an attempt that was removed / never registered
				pkt = vfC03PunchPacket(rng, PunchPacketAck, []PunchMetadata{removed, vfC03Meta(999999)}[rng.Intn(2)], rng.Intn(MaxPunchPadding+1))
			case 3, 4, 5: // STUN-like
				pkt = append([]byte(nil), seeds[rng.Intn(len(seeds))]...)
				switch rng.Intn(5) {
				case 0:
					pkt = pkt[:rng.Intn(len(pkt)+1)]
				case 1:
					pkt[rng.Intn(len(pkt))] ^= 1 << rng.Intn(8)
				case 2:
					pkt[2], pkt[3] = byte(rng.Intn(256)), byte(rng.Intn(256))
				case 3:
					if len(pkt) > 23 {
						pkt[22], pkt[23] = byte(rng.Intn(256)), byte(rng.Intn(256))
					}
				}
			case 6:
				pkt = vfC03Fill(rng, rng.Intn(4), s%65)
			default:
				pkt = vfC03Fill(rng, 2, rng.Intn(1300))
			}
			from := vfC03UDPAddr(rng, rng.Intn(50))
			bufLen := []int{1500, 1500, 2048, 64, 33, 20}[rng.Intn(6)]
			panicked = r.DoObj(entry, r.SeqID(id), pkt, func(b []byte) {
				if _, _, err := feed(b, from, bufLen); err == nil {
					k.Count("ev_returned_to_reader", 1)
				} else {
					k.Count("ev_absorbed", 1)
				}
			})
			if panicked || s%10 != 9 {
				continue
			}
			// service continues
			canaryNo++
			drain()
			aid := []string{"a1", "a2"}[canaryNo%2]
			src := vfC03UDPAddr(rng, 100+canaryNo)
			r.Canary(entry, r.SeqID(id), map[string]any{"attempt": aid, "from": src.String()}, func() error {
				typ := []PunchPacketType{PunchPacketHello, PunchPacketAck}[canaryNo%2]
				pkt := vfC03PunchPacket(rng, typ, metas[aid], rng.Intn(300))
				if got, _, err := feed(vfExact(pkt), src, 1500); err == nil {
					return fmt.Errorf("a registered punch packet was returned to the reader (%d bytes)", len(got))
				}
				if len(pc.events) != 1 {
					return fmt.Errorf("registered punch packet produced %d events", len(pc.events))
				}
				ev := <-pc.events
				wantFrom, _ := addrToAddrPort(src)
				if ev.AttemptID != aid || ev.From != wantFrom || ev.Packet.Type != typ {
					return fmt.Errorf("punch event %+v, want attempt %s from %v type %v", ev, aid, wantFrom, typ)
				}
				var tx [stun.TransactionIDSize]byte
				copy(tx[:], fmt.Sprintf("c03tx%07d", canaryNo))
				mapped := netip.AddrPortFrom(netip.AddrFrom4([4]byte{203, 0, 113, byte(canaryNo)}), uint16(3000+canaryNo%60000))
				if got, _, err := feed(vfExact(vfC03STUNResponse(tx, mapped, canaryNo%3 != 0)), src, 1500); err == nil {
					return fmt.Errorf("a STUN binding response was returned to the reader (%d bytes)", len(got))
				}
				if len(pc.stun) != 1 {
					return fmt.Errorf("STUN response produced %d events", len(pc.stun))
				}
				sev := <-pc.stun
				if sev.Addr != mapped || sev.Message.TransactionID != tx {
					return fmt.Errorf("STUN event %v, want %v", sev.Addr, mapped)
				}
				plain := []byte(fmt.Sprintf("\x43c03 ordinary packet %d", canaryNo))
				got, a, err := feed(vfExact(plain), src, 1500)
				if err != nil || !bytes.Equal(got, plain) || a.String() != src.String() {
					return fmt.Errorf("ordinary packet: got %q from %v err=%v", got, a, err)
				}
				return nil
			})
		}
		if i < 2 {
			k.Sample(map[string]any{"sequence": id, "packets": steps})
		}
	}
}

// ---------------------------------------------------------------------------- thorough: native fuzzing as workload generator

func FuzzVerifC03RealmPackets(f *testing.F) {
	z := vfC03FuzzBegin(f, "fuzz-realm", "realm-conn")
	defer z.End()
	for _, s := range vfC03STUNSeeds() {
		f.Add(s)
	}
	f.Add(vfC03PunchPacket(rand.New(rand.NewSource(1)), PunchPacketHello, vfC03Meta(1), 100))
	f.Fuzz(func(t *testing.T, b []byte) {
		z.Exec("realm:PunchPacketConn.ReadFrom", b, func(b []byte) {
			fake := &vfC03RConn{q: []vfC03RPkt{{b, vfC03UDPAddr(nil, 1)}}}
			pc, _ := NewPunchPacketConn(fake, 4)
			_ = pc.AddPunchAttempt("a1", vfC03Meta(1))
			_, _, _ = pc.ReadFrom(make([]byte, 1500))
		})
	})
}
