//go:build verif

package realm

// C20 part "demux-seq": PunchPacketConn over a scripted inner conn, one goroutine.
//
// A case is a flat script of steps: add(id, meta) / remove(id) / packet(bytes, source).
// The fake inner conn executes the control steps itself, *inside* its ReadFrom, on
// the reader's goroutine, right before it hands the next packet to the wrapper —
// so the registered set changes between two packets of the same ReadFrom call, and
// at the moment a packet is handed over the model knows the registered set exactly.
// Every step is stamped (call/return) from one logical counter.
//
// Per packet the fake learns the outcome without guessing: if the wrapper calls the
// inner ReadFrom again, the previous packet was withheld (diverted); if the wrapper's
// ReadFrom returns, the last packet handed over was passed through. The event channels
// are drained at exactly those points, so events are attributed to one packet.
//
// Oracles (reference decoder / lenient STUN classifier from c20_model_test.go):
//   diverted  ⇒ lenient-STUN-binding-success  OR  reference-valid under an attempt
//               registered at that moment (and the source is a usable UDP address);
//   passed    ⇒ bytes identical, length identical, source address identical, and it is
//               the packet handed over last (order, nothing invented);
//   passed    ⇒ NOT (reference-valid under a registered attempt from a usable source)
//               [completeness, from the type's doc comment "routes registered punch
//               packets to Events" and "stops being diverted once removed"];
//   events:   a diverted packet yields exactly one event on exactly one channel
//               (channels are never full here), a passed packet none; a punch event
//               names an attempt that is registered and under which the packet is
//               reference-valid, with the packet's source, type and padding length;
//               a STUN event of a generator-built response carries the encoded mapped
//               address and transaction id.

import (
	"bytes"
	"errors"
	"fmt"
	"math/rand"
	"net"
	"sort"
	"testing"
	"time"
)

type vfC20Step struct {
	Op   string // "add" | "remove" | "pkt"
	ID   string
	Meta vfC20Meta
	Pkt  *vfC20Pkt
}

type vfC20SeqInner struct {
	k      *vfKit
	caseID string
	w      *PunchPacketConn
	clock  *vfC20Clock
	steps  []vfC20Step
	pos    int
	model  map[string]vfC20Meta // registered id -> metadata, maintained from the script
	cur    *vfC20Pkt            // handed to the wrapper, outcome not yet known
	curReg map[string]vfC20Meta // registered set when cur was handed over
	curAt  int64
	hist   []map[string]any // stamped history (tail goes into replay files)
	sawDiv int
	sawPas int
	sig    []byte
}

func (c *vfC20SeqInner) note(m map[string]any) {
	c.hist = append(c.hist, m)
}

func (c *vfC20SeqInner) replay(extra map[string]any) map[string]any {
	tail := c.hist
	if len(tail) > 24 {
		tail = tail[len(tail)-24:]
	}
	reg := map[string]string{}
	for id, m := range c.curReg {
		reg[id] = m.String()
	}
	out := map[string]any{"case_id": c.caseID, "registered_at_handover": reg, "history_tail": tail}
	if c.cur != nil {
		out["packet"] = vfC20PktBrief(c.cur)
	}
	for k, v := range extra {
		out[k] = v
	}
	return out
}

// validUnder lists the registered attempts (at hand-over time) the packet is reference-valid under.
func (c *vfC20SeqInner) validUnder(p *vfC20Pkt) []string {
	var ids []string
	for id, m := range c.curReg {
		if _, _, ok := vfC20RefDecode(p.Data, m); ok {
			ids = append(ids, id)
		}
	}
	sort.Strings(ids)
	return ids
}

// settle decides the fate of the packet handed over last. diverted=true: the wrapper
// came back for another packet (or the script ended) without returning it.
func (c *vfC20SeqInner) settle(diverted bool, got []byte, gotAddr net.Addr) {
	k := c.k
	p := c.cur
	// drain both event channels (never blocks)
	var pev []PunchPacketEvent
	var sev []STUNPacketEvent
	for more := true; more; {
		select {
		case e := <-c.w.Events():
			pev = append(pev, e)
		case e := <-c.w.STUNEvents():
			sev = append(sev, e)
		default:
			more = false
		}
	}
	if p == nil {
		if len(pev)+len(sev) > 0 {
			vfC20V(k, "realm:event-without-packet", c.replay(nil), "%d punch / %d STUN events although no packet was handed over", len(pev), len(sev))
		}
		return
	}
	now := c.clock.Stamp()
	c.note(map[string]any{"t": now, "ev": "outcome", "seq": p.Seq, "diverted": diverted, "punch_events": len(pev), "stun_events": len(sev)})
	stunOK, stunTop := vfC20STUNClass(p.Data)
	ids := c.validUnder(p)
	src, usable := vfC20AddrUsable(p.From)
	c.sig = append(c.sig, byte(len(ids)), vfC20b(diverted), vfC20b(stunOK))
	k.Count("ev_packets", 1)

	if diverted {
		c.sawDiv++
		k.Count("ev_diverted", 1)
		k.Count("diverted_kind_"+p.Kind, 1)
		punchOK := len(ids) > 0 && usable
		switch {
		case stunOK || punchOK:
			// justified
		case stunTop:
			vfC20V(k, "realm:diverted-stun-type-topbits", c.replay(nil),
				"packet #%d (%s, %d bytes, first byte %#02x) was withheld from the reader: its first two bits are not 00, so it is not a STUN message (RFC 8489 §5; QUIC packets have first byte >= 0x40), and it is not a punch packet of any registered attempt",
				p.Seq, p.Kind, len(p.Data), p.Data[0])
		default:
			why := "it is neither a STUN binding success response nor a punch packet of a registered attempt"
			if len(ids) > 0 {
				why = "its source address is not a usable UDP address and it is not a STUN binding success response"
			}
			vfC20V(k, "realm:diverted-unjustified", c.replay(nil), "packet #%d (%s, %d bytes) was withheld from the reader although %s (%d attempts registered)",
				p.Seq, p.Kind, len(p.Data), why, len(c.curReg))
		}
		// events
		if len(pev)+len(sev) != 1 {
			vfC20V(k, "realm:event-count", c.replay(nil), "diverted packet #%d (%s) produced %d punch and %d STUN events (want exactly one; channels were empty)",
				p.Seq, p.Kind, len(pev), len(sev))
		}
		for _, e := range pev {
			k.Count("ev_punch_events", 1)
			m, reg := c.curReg[e.AttemptID]
			rt, rp, rok := byte(0), 0, false
			if reg {
				rt, rp, rok = vfC20RefDecode(p.Data, m)
			}
			switch {
			case !reg:
				vfC20V(k, "realm:event-unregistered-attempt", c.replay(map[string]any{"event_attempt": e.AttemptID}),
					"punch event for packet #%d names attempt %q which is not registered", p.Seq, e.AttemptID)
			case !rok:
				vfC20V(k, "realm:event-wrong-attempt", c.replay(map[string]any{"event_attempt": e.AttemptID}),
					"punch event for packet #%d names attempt %q under whose metadata the packet is not valid (valid under %v)", p.Seq, e.AttemptID, ids)
			default:
				if byte(e.Packet.Type) != rt || e.Packet.PaddingLength != rp || !usable || e.From != src {
					vfC20V(k, "realm:event-wrong-fields", c.replay(map[string]any{"event": fmt.Sprintf("%+v", e)}),
						"punch event for packet #%d: type %#x pad %d from %v; reference type %#x pad %d from %v", p.Seq, byte(e.Packet.Type), e.Packet.PaddingLength, e.From, rt, rp, src)
				}
			}
		}
		for _, e := range sev {
			k.Count("ev_stun_events", 1)
			if p.StunAddr.IsValid() {
				if e.Addr != p.StunAddr || e.Message == nil || e.Message.TransactionID != p.StunTx {
					vfC20V(k, "realm:stun-event-wrong-fields", c.replay(map[string]any{"event_addr": e.Addr.String()}),
						"STUN event for packet #%d reports mapped address %v, the response encodes %v", p.Seq, e.Addr, p.StunAddr)
				}
			}
		}
		if stunOK {
			k.Count("ev_diverted_stun", 1)
		} else if punchOK {
			k.Count("ev_diverted_punch", 1)
		}
	} else {
		c.sawPas++
		k.Count("ev_passed", 1)
		k.Count("passed_kind_"+p.Kind, 1)
		if !bytes.Equal(got, p.Data) {
			diff := -1
			for i := 0; i < len(got) && i < len(p.Data); i++ {
				if got[i] != p.Data[i] {
					diff = i
					break
				}
			}
			vfC20V(k, "realm:passthrough-bytes-differ", c.replay(map[string]any{"returned_hex": vfHex(got)}),
				"packet #%d (%s) reached the reader altered: %d bytes returned, %d injected, first difference at offset %d", p.Seq, p.Kind, len(got), len(p.Data), diff)
		}
		if !vfC20SameAddr(gotAddr, p.From) {
			vfC20V(k, "realm:passthrough-addr-differs", c.replay(map[string]any{"returned_addr": fmt.Sprint(gotAddr)}),
				"packet #%d returned with source %v, injected with %v", p.Seq, gotAddr, p.From)
		}
		if len(ids) > 0 && usable && !stunOK {
			vfC20V(k, "realm:registered-punch-not-diverted", c.replay(map[string]any{"valid_under": ids}),
				"packet #%d (%s) is a valid punch packet of registered attempt(s) %v from %v but was handed to the reader", p.Seq, p.Kind, ids, src)
		}
		if len(pev)+len(sev) != 0 {
			vfC20V(k, "realm:event-for-passed-packet", c.replay(nil), "packet #%d was handed to the reader AND produced %d punch / %d STUN events", p.Seq, len(pev), len(sev))
		}
	}
	c.cur, c.curReg = nil, nil
}

func vfC20b(b bool) byte {
	if b {
		return 1
	}
	return 0
}

func (c *vfC20SeqInner) ReadFrom(p []byte) (int, net.Addr, error) {
	if c.cur != nil {
		c.settle(true, nil, nil)
	}
	for c.pos < len(c.steps) {
		st := c.steps[c.pos]
		c.pos++
		switch st.Op {
		case "add":
			call := c.clock.Stamp()
			err := c.w.AddPunchAttempt(st.ID, st.Meta.PM())
			ret := c.clock.Stamp()
			c.note(map[string]any{"call": call, "ret": ret, "ev": "add", "id": st.ID, "meta": st.Meta.String()})
			if err != nil {
				vfC20V(c.k, "realm:add-refused", c.replay(map[string]any{"id": st.ID}), "AddPunchAttempt(%q) refused well-formed metadata: %v", st.ID, err)
				continue
			}
			c.model[st.ID] = st.Meta
			c.k.Count("ev_add", 1)
		case "remove":
			call := c.clock.Stamp()
			c.w.RemovePunchAttempt(st.ID)
			ret := c.clock.Stamp()
			c.note(map[string]any{"call": call, "ret": ret, "ev": "remove", "id": st.ID})
			delete(c.model, st.ID)
			c.k.Count("ev_remove", 1)
		case "pkt":
			c.cur = st.Pkt
			c.curReg = make(map[string]vfC20Meta, len(c.model))
			for id, m := range c.model {
				c.curReg[id] = m
			}
			if len(p) < len(st.Pkt.Data) {
				c.k.t.Fatalf("vfC20: reader buffer %d < packet %d", len(p), len(st.Pkt.Data))
			}
			c.curAt = c.clock.Stamp()
			c.note(map[string]any{"t": c.curAt, "ev": "handover", "seq": st.Pkt.Seq, "kind": st.Pkt.Kind, "len": len(st.Pkt.Data), "registered": len(c.model)})
			n := copy(p, st.Pkt.Data)
			return n, st.Pkt.From, nil
		}
	}
	return 0, nil, vfC20ErrDrained
}

func (c *vfC20SeqInner) WriteTo(p []byte, addr net.Addr) (int, error) { return len(p), nil }
func (c *vfC20SeqInner) Close() error                                 { return nil }
func (c *vfC20SeqInner) LocalAddr() net.Addr {
	return &net.UDPAddr{IP: net.IPv4(127, 0, 0, 1).To4(), Port: 4433}
}
func (c *vfC20SeqInner) SetDeadline(time.Time) error      { return nil }
func (c *vfC20SeqInner) SetReadDeadline(time.Time) error  { return nil }
func (c *vfC20SeqInner) SetWriteDeadline(time.Time) error { return nil }

// vfC20GenScript builds one case's script.
func vfC20GenScript(r *rand.Rand, nSteps int) ([]vfC20Step, []vfC20Meta) {
	// metadata pool: some entries share a nonce or a key with another entry
	nMeta := 1 + r.Intn(16)
	metas := make([]vfC20Meta, nMeta)
	for i := range metas {
		metas[i] = vfC20RandMeta(r)
		if i > 0 {
			switch r.Intn(5) {
			case 0:
				metas[i].Nonce = metas[r.Intn(i)].Nonce
			case 1:
				metas[i].Key = metas[r.Intn(i)].Key
			}
		}
		metas[i].Upper = r.Intn(6) == 0
	}
	ids := make([]string, nMeta)
	for i := range ids {
		ids[i] = vfC20AttemptID(r, fmt.Sprintf("att-%d", i), 600)
		if i > 0 && r.Intn(6) == 0 {
			sw, fresh := vfC20SwapCase(ids[r.Intn(i)]), true
			for _, o := range ids[:i] {
				fresh = fresh && o != sw
			}
			if fresh {
				ids[i] = sw // differs from an earlier id only in case: a different attempt
			}
		}
	}
	reg := map[string]int{} // id -> metadata index currently registered (generator's own bookkeeping)
	var dead []int          // metadata indices that were registered and then removed / replaced
	regIDs := func() []string {
		out := make([]string, 0, len(reg))
		for id := range reg {
			out = append(out, id)
		}
		sort.Strings(out)
		return out
	}
	var steps []vfC20Step
	seq := 0
	// start most cases with a few registrations so that early packets meet a non-empty set
	pre := r.Intn(nMeta + 1)
	for i := 0; i < pre; i++ {
		j := r.Intn(nMeta)
		steps = append(steps, vfC20Step{Op: "add", ID: ids[j], Meta: metas[j]})
		reg[ids[j]] = j
	}
	for len(steps) < nSteps {
		x := r.Intn(100)
		switch {
		case x < 9: // add (possibly re-register an id under another attempt's metadata)
			j := r.Intn(nMeta)
			mi := j
			if r.Intn(5) == 0 {
				mi = r.Intn(nMeta)
			}
			if old, ok := reg[ids[j]]; ok && old != mi {
				dead = append(dead, old)
			}
			steps = append(steps, vfC20Step{Op: "add", ID: ids[j], Meta: metas[mi]})
			reg[ids[j]] = mi
		case x < 18: // remove (registered or not)
			j := r.Intn(nMeta)
			if r.Intn(3) > 0 && len(reg) > 0 {
				rs := regIDs()
				id := rs[r.Intn(len(rs))]
				dead = append(dead, reg[id])
				delete(reg, id)
				steps = append(steps, vfC20Step{Op: "remove", ID: id})
				// very often the very next packet is one of the attempt just removed
				if r.Intn(3) > 0 {
					seq++
					mi := dead[len(dead)-1]
					steps = append(steps, vfC20Step{Op: "pkt", Pkt: &vfC20Pkt{Seq: seq, Kind: "punch-just-removed", Owner: mi,
						Data: vfC20PunchValid(r, seq, metas[mi]), From: vfC20SeqAddr(seq)}})
				}
				continue
			}
			if old, ok := reg[ids[j]]; ok {
				dead = append(dead, old)
			}
			delete(reg, ids[j])
			steps = append(steps, vfC20Step{Op: "remove", ID: ids[j]})
		default:
			seq++
			p := &vfC20Pkt{Seq: seq, Owner: -1, From: vfC20SeqAddr(seq)}
			if r.Intn(8) == 0 {
				p.From = vfC20OddAddr(r, seq)
			}
			rs := regIDs()
			y := r.Intn(100)
			switch {
			case y < 22:
				p.Kind, p.Data = "quic", vfC20QUICLike(r, seq)
			case y < 30:
				n := []int{0, 1, 19, 20, 21, vfC20MinWire - 1, vfC20MinWire, vfC20MinWire + 1, vfC20MaxWire - 1, vfC20MaxWire, vfC20MaxWire + 1, 1200, 1452}
				p.Kind, p.Data = "random", vfC20RandBytes(r, n[r.Intn(len(n))])
			case y < 52 && len(rs) > 0:
				mi := reg[rs[r.Intn(len(rs))]]
				p.Owner = mi
				if r.Intn(4) == 0 {
					b, err := EncodePunchPacket(PunchPacketType(1+r.Intn(2)), metas[mi].PM())
					if err != nil {
						panic(err)
					}
					p.Kind, p.Data = "punch-registered-real", b
				} else {
					p.Kind, p.Data = "punch-registered", vfC20PunchValid(r, seq, metas[mi])
				}
			case y < 62 && len(dead) > 0:
				mi := dead[r.Intn(len(dead))]
				p.Owner = mi
				p.Kind, p.Data = "punch-removed", vfC20PunchValid(r, seq, metas[mi])
			case y < 68:
				// never registered, but related to a pool entry
				base := metas[r.Intn(nMeta)]
				o := vfC20RandMeta(r)
				switch r.Intn(3) {
				case 0:
					o.Nonce = base.Nonce
				case 1:
					o.Key = base.Key
				}
				p.Kind, p.Data = "punch-foreign", vfC20PunchValid(r, seq, o)
			case y < 84 && len(rs) > 0:
				mi := reg[rs[r.Intn(len(rs))]]
				p.Owner = mi
				kind := vfC20NearMissKinds[r.Intn(len(vfC20NearMissKinds))]
				p.Kind, p.Data = "near-"+kind, vfC20NearMiss(r, seq, metas[mi], kind)
			default:
				kind := vfC20STUNKinds[r.Intn(len(vfC20STUNKinds))]
				p.Kind = "stun-" + kind
				p.Data, p.StunAddr, p.StunTx = vfC20STUN(r, seq, kind)
			}
			if p.Data == nil {
				p.Kind, p.Data = "quic", vfC20QUICLike(r, seq)
			}
			steps = append(steps, vfC20Step{Op: "pkt", Pkt: p})
		}
	}
	return steps, metas
}

func TestVerifC20DemuxSeq(t *testing.T) {
	k := vfNewKit(t, "C20", "demux-seq")
	defer k.Finish()
	nCases := k.N(400, 8000)
	for i := 0; i < nCases; i++ {
		caseID := fmt.Sprintf("seq-%d", i)
		if rc := k.ReplayCase(); rc != "" && rc != caseID {
			continue
		}
		r := k.Rand(caseID)
		k.Eval()
		steps, metas := vfC20GenScript(r, 60+r.Intn(200))
		in := &vfC20SeqInner{k: k, caseID: caseID, clock: &vfC20Clock{}, steps: steps, model: map[string]vfC20Meta{}}
		bufs := []int{0, 1, 3, 16, 64}
		w, err := NewPunchPacketConn(in, bufs[r.Intn(len(bufs))])
		if err != nil {
			t.Fatalf("NewPunchPacketConn: %v", err)
		}
		in.w = w
		reads := 0
		for {
			buf := bytes.Repeat([]byte{0xEE}, 2048)
			call := in.clock.Stamp()
			var n int
			var addr net.Addr
			var rerr error
			if k.Guard("realm:ReadFrom-panic", in.replay(nil), func() { n, addr, rerr = w.ReadFrom(buf) }) {
				break
			}
			ret := in.clock.Stamp()
			reads++
			in.note(map[string]any{"call": call, "ret": ret, "ev": "ReadFrom", "n": n, "err": fmt.Sprint(rerr)})
			if rerr != nil {
				if !errors.Is(rerr, vfC20ErrDrained) {
					vfC20V(k, "realm:readfrom-error", in.replay(nil), "ReadFrom returned %v (the inner conn only ever fails with the drained marker)", rerr)
				}
				if in.cur != nil {
					// error returned while a packet was pending: it was neither returned nor will it be
					in.settle(true, nil, nil)
				}
				break
			}
			if in.cur == nil {
				vfC20V(k, "realm:returned-without-delivery", in.replay(map[string]any{"returned_hex": vfHex(buf[:n])}),
					"ReadFrom returned %d bytes although no injected packet was pending (every injected packet was already accounted for)", n)
				continue
			}
			if n < 0 || n > len(buf) {
				vfC20V(k, "realm:readfrom-bad-n", in.replay(nil), "ReadFrom returned n=%d", n)
				break
			}
			in.settle(false, buf[:n], addr)
		}
		k.Count("ev_reads", int64(reads))
		if in.sawDiv > 0 && in.sawPas > 0 {
			k.Nontrivial(fmt.Sprintf("%s/%x", caseID, in.sig))
		}
		if i < 2 {
			var sc []string
			for _, st := range steps[:vfC20min(len(steps), 40)] {
				switch st.Op {
				case "pkt":
					sc = append(sc, fmt.Sprintf("pkt#%d:%s(%dB)", st.Pkt.Seq, st.Pkt.Kind, len(st.Pkt.Data)))
				default:
					sc = append(sc, st.Op+":"+st.ID)
				}
			}
			k.Sample(map[string]any{"case": caseID, "metas": len(metas), "steps": len(steps), "script_head": sc, "diverted": in.sawDiv, "passed": in.sawPas})
		}
	}
}
