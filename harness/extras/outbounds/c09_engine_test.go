//go:build verif

package outbounds

// C09 — ACL decisions are first-match and independent of lookup history (engine layer).
//
// The same generated cases as in the rule-set layer (c09_model_test.go, a verbatim copy of
// the model in harness/extras/outbounds/acl/) go through the real aclEngine:
// NewACLEngineFromString (cache 1024) and, for small caches, outboundsToMap + acl.Compile +
// aclEngine{} exactly as the constructor wires them. Every outbound is a recording fake; the
// record travels back to the asking goroutine inside the error value the fake returns, so
// each observation names the request that caused it. Checked per request:
//   * the outbound that was asked to dial is the one of the first matching rule, or the
//     default outbound (entry named "default", else the first entry) on a miss, or nobody
//     and an error when the rule names the built-in `reject`;
//   * exactly one outbound is asked, with the method the caller used (TCP/UDP/CheckUDP);
//   * hijack rule: Host is the hijack IP, ResolveInfo carries that IP in its family and
//     nothing in the other family; no hijack: Host, Port, ResolveInfo arrive unchanged;
//   * a request whose ResolveInfo carries an error TOGETHER with one or both addresses (partial
//     resolution, documented in interface.go) is matched on the addresses it carries;
//   * the same request gives the same observation at every point of a history.
// Parts: engine-history (sequential histories, caches 1/4/1024), engine-concurrent
// (8 goroutines on one engine, under -race).

import (
	"errors"
	"fmt"
	"net"
	"runtime"
	"strings"
	"sync"
	"sync/atomic"
	"testing"

	"github.com/apernet/hysteria/extras/v2/outbounds/acl"
)

type vfC09Call struct {
	Ob     string `json:"outbound"`
	Method string `json:"method"`
	Host   string `json:"host"`
	Port   uint16 `json:"port"`
	HasRI  bool   `json:"has_resolve_info"`
	V4     net.IP `json:"v4,omitempty"`
	V6     net.IP `json:"v6,omitempty"`
	RIErr  bool   `json:"resolve_err,omitempty"`
}

type vfC09CallErr struct{ call *vfC09Call }

func (e *vfC09CallErr) Error() string { return "vfC09 fake outbound " + e.call.Ob + " was asked" }

type vfC09FakeOb struct {
	name  string
	calls *int64
}

func (f *vfC09FakeOb) record(method string, a *AddrEx) *vfC09CallErr {
	c := &vfC09Call{Ob: f.name, Method: method, Host: a.Host, Port: a.Port}
	if a.ResolveInfo != nil {
		c.HasRI = true
		c.V4 = append(net.IP(nil), a.ResolveInfo.IPv4...)
		c.V6 = append(net.IP(nil), a.ResolveInfo.IPv6...)
		c.RIErr = a.ResolveInfo.Err != nil
	}
	atomic.AddInt64(f.calls, 1)
	return &vfC09CallErr{c}
}

func (f *vfC09FakeOb) TCP(a *AddrEx) (net.Conn, error) { return nil, f.record("TCP", a) }
func (f *vfC09FakeOb) UDP(a *AddrEx) (UDPConn, error)  { return nil, f.record("UDP", a) }
func (f *vfC09FakeOb) CheckUDP(a *AddrEx) error        { return f.record("CheckUDP", a) }

var vfC09ErrResolve = errors.New("vfC09 resolver error")

type vfC09EngCase struct {
	ID      string
	Rules   []vfC09Rule
	Text    string
	Entries []OutboundEntry   // as handed to the engine (names in mixed case)
	Names   []string          // entry names as written
	Target  map[string]string // canonical outbound name -> fake that must be asked ("" = built-in reject)
	Queries []vfC09Query
	Expect  []vfC09Expect
	RIKind  []int // how the request carries "no resolved address": 0 nil, 1 empty struct, 2 struct with Err
	// PartErr: the request's ResolveInfo carries its address(es) AND Err != nil. interface.go documents
	// that state ("there could be an error but also some resolved IP addresses"): the resolver stages look
	// up A and AAAA independently and report the error of either. The addresses present are resolved
	// addresses of the host, so IP/CIDR rules apply to them exactly as without the error.
	PartErr []bool
	calls   int64
}

func vfC09NewEngCase(k *vfKit, id string, nQueries int) *vfC09EngCase {
	rg := k.Rand(id)
	c := &vfC09EngCase{ID: id, Target: map[string]string{}}
	u := vfC09NewUniverse(rg)
	// user outbounds; `direct` is always overridden so that no rule can reach the real network
	names := []string{"direct"}
	pool := []string{"ob1", "ob2", "proxy_a", "my_out", "x9"}
	for _, j := range rg.Perm(len(pool))[:1+rg.Intn(4)] {
		names = append(names, pool[j])
	}
	if rg.Intn(3) == 0 {
		names = append(names, "reject") // user-defined outbound overriding the built-in
	}
	if rg.Intn(3) == 0 {
		names = append(names, "default")
	}
	rg.Shuffle(len(names), func(a, b int) { names[a], names[b] = names[b], names[a] })
	for _, n := range names {
		written := vfC09RandCase(rg, n)
		c.Names = append(c.Names, written)
		c.Entries = append(c.Entries, OutboundEntry{Name: written, Outbound: &vfC09FakeOb{name: n, calls: &c.calls}})
		c.Target[n] = n
	}
	if _, ok := c.Target["reject"]; !ok {
		c.Target["reject"] = "" // built-in: refuses
	}
	if _, ok := c.Target["default"]; !ok {
		c.Target["default"] = names[0] // documented: the first outbound in the list
	}
	obNames := make([]string, 0, len(c.Target))
	for _, n := range names {
		obNames = append(obNames, n)
	}
	for _, n := range []string{"reject", "default"} {
		if c.Target[n] != n {
			obNames = append(obNames, n)
		}
	}
	c.Rules = vfC09GenRules(rg, u, obNames, 1+rg.Intn(12))
	c.Text = vfC09RenderFile(rg, c.Rules)
	c.Queries = vfC09DeriveQueries(rg, c.Rules, u, nQueries)
	c.Expect = make([]vfC09Expect, len(c.Queries))
	c.RIKind = make([]int, len(c.Queries))
	c.PartErr = make([]bool, len(c.Queries))
	for i := range c.Queries {
		c.Expect[i] = vfC09Expected(c.Rules, &c.Queries[i])
		c.RIKind[i] = rg.Intn(3)
		c.PartErr[i] = rg.Intn(3) == 0
	}
	return c
}

func (c *vfC09EngCase) replay(extra map[string]any) map[string]any {
	m := map[string]any{"case_id": c.ID, "rules_text": c.Text, "rules": c.Rules, "outbound_entries": c.Names, "expected_targets": c.Target}
	for k, v := range extra {
		m[k] = v
	}
	return m
}

// engine builds the engine; cache == 1024 uses the public constructor.
func (c *vfC09EngCase) engine(k *vfKit, cache int) PluggableOutbound {
	if cache == aclCacheSize {
		e, err := NewACLEngineFromString(c.Text, c.Entries, nil)
		if err != nil {
			k.Violation("engine:documented-rule-rejected", c.replay(nil), "NewACLEngineFromString rejected a documented rule file: %v", err)
			return nil
		}
		return e
	}
	trs, err := acl.ParseTextRules(c.Text)
	if err != nil {
		k.Violation("engine:documented-rule-rejected", c.replay(nil), "ParseTextRules rejected a documented rule file: %v", err)
		return nil
	}
	obMap := outboundsToMap(c.Entries)
	rs, err := acl.Compile[PluggableOutbound](trs, obMap, cache, nil)
	if err != nil {
		k.Violation("engine:documented-rule-rejected", c.replay(nil), "Compile rejected a documented rule file: %v", err)
		return nil
	}
	return &aclEngine{rs, obMap["default"]}
}

func (c *vfC09EngCase) request(qi int) *AddrEx {
	q := &c.Queries[qi]
	a := &AddrEx{Host: q.Name, Port: q.Port}
	if q.V4 != nil || q.V6 != nil {
		a.ResolveInfo = &ResolveInfo{IPv4: append(net.IP(nil), q.V4...), IPv6: append(net.IP(nil), q.V6...)}
		if c.PartErr[qi] {
			a.ResolveInfo.Err = vfC09ErrResolve
		}
	} else {
		switch c.RIKind[qi] {
		case 1:
			a.ResolveInfo = &ResolveInfo{}
		case 2:
			a.ResolveInfo = &ResolveInfo{Err: vfC09ErrResolve}
		}
	}
	return a
}

type vfC09Obs struct {
	Method   string     `json:"method"`
	Err      string     `json:"returned_error"`
	Call     *vfC09Call `json:"outbound_call,omitempty"` // nil: no fake outbound was asked
	ConnNil  bool       `json:"conn_nil"`
	Panicked bool       `json:"panicked,omitempty"`
}

// ask sends one request through the engine and returns what was observed.
func (c *vfC09EngCase) ask(eng PluggableOutbound, qi int, method string) vfC09Obs {
	a := c.request(qi)
	o := vfC09Obs{Method: method, ConnNil: true}
	var err error
	switch method {
	case "TCP":
		var conn net.Conn
		conn, err = eng.TCP(a)
		o.ConnNil = conn == nil
	case "UDP":
		var conn UDPConn
		conn, err = eng.UDP(a)
		o.ConnNil = conn == nil
	default:
		err = eng.CheckUDP(a)
	}
	if err != nil {
		o.Err = err.Error()
		var ce *vfC09CallErr
		if errors.As(err, &ce) {
			o.Call = ce.call
		}
	}
	return o
}

// okFor: is the observation what rule idx (-1 = miss) prescribes? Returns "" or the reason.
func (c *vfC09EngCase) okFor(idx int, qi int, o vfC09Obs) string {
	q := &c.Queries[qi]
	name, hij := "default", net.IP(nil)
	if idx >= 0 {
		name, hij = c.Rules[idx].Outbound, c.Rules[idx].Hijack
	}
	target := c.Target[name]
	if target == "" { // built-in reject
		if o.Call != nil {
			return fmt.Sprintf("rule names the built-in reject, but outbound %q was asked", o.Call.Ob)
		}
		if o.Err == "" {
			return "rule names the built-in reject, but the request was not refused"
		}
		return ""
	}
	if o.Call == nil {
		return fmt.Sprintf("outbound %q should have been asked, none was (returned error %q)", target, o.Err)
	}
	if o.Call.Ob != target {
		return fmt.Sprintf("outbound %q was asked, want %q", o.Call.Ob, target)
	}
	if o.Call.Method != o.Method {
		return fmt.Sprintf("outbound was asked via %s for a %s request", o.Call.Method, o.Method)
	}
	if o.Call.Port != q.Port {
		return fmt.Sprintf("port %d reached the outbound, request had %d", o.Call.Port, q.Port)
	}
	if len(hij) != 0 {
		hip := net.ParseIP(o.Call.Host)
		if hip == nil || !vfC09IPEq(hip, hij) {
			return fmt.Sprintf("hijack to %v: Host %q reached the outbound", hij, o.Call.Host)
		}
		if !o.Call.HasRI {
			return fmt.Sprintf("hijack to %v: ResolveInfo not rewritten (nil)", hij)
		}
		fam, _ := vfC09Fam(hij)
		same, other := o.Call.V4, o.Call.V6
		if fam == 6 {
			same, other = other, same
		}
		if !vfC09IPEq(same, hij) || len(other) != 0 {
			return fmt.Sprintf("hijack to %v: ResolveInfo {IPv4:%v IPv6:%v} reached the outbound", hij, o.Call.V4, o.Call.V6)
		}
		return ""
	}
	in := c.request(qi)
	if o.Call.Host != in.Host {
		return fmt.Sprintf("no hijack: Host %q reached the outbound, request had %q", o.Call.Host, in.Host)
	}
	if o.Call.HasRI != (in.ResolveInfo != nil) {
		return fmt.Sprintf("no hijack: ResolveInfo presence changed (%v -> %v)", in.ResolveInfo != nil, o.Call.HasRI)
	}
	if in.ResolveInfo != nil {
		if !vfC09HijackEq(o.Call.V4, in.ResolveInfo.IPv4) || !vfC09HijackEq(o.Call.V6, in.ResolveInfo.IPv6) || o.Call.RIErr != (in.ResolveInfo.Err != nil) {
			return fmt.Sprintf("no hijack: ResolveInfo {IPv4:%v IPv6:%v} reached the outbound, request had {IPv4:%v IPv6:%v}",
				o.Call.V4, o.Call.V6, in.ResolveInfo.IPv4, in.ResolveInfo.IPv6)
		}
	}
	return ""
}

func (c *vfC09EngCase) check(qi int, o vfC09Obs) string {
	if !o.ConnNil {
		return "a connection was returned although every outbound refuses"
	}
	e := c.Expect[qi]
	why := c.okFor(e.Rule, qi, o)
	if why != "" && e.Ambiguous && c.okFor(e.AltRule, qi, o) == "" {
		return ""
	}
	return why
}

func (c *vfC09EngCase) want(qi int) map[string]any {
	e := c.Expect[qi]
	w := map[string]any{"rule_index": e.Rule, "matching_rules": e.Matching}
	name := "default"
	if e.Rule >= 0 {
		name = c.Rules[e.Rule].Outbound
		w["rule_text"], w["hijack"] = c.Rules[e.Rule].Text, c.Rules[e.Rule].Hijack
	}
	w["outbound_name"] = name
	if t := c.Target[name]; t == "" {
		w["asked_outbound"] = "(built-in reject: nobody, error returned)"
	} else {
		w["asked_outbound"] = t
	}
	if e.Ambiguous {
		w["alt_rule_index"] = e.AltRule
	}
	return w
}

// sig: the part of an observation that must not depend on history (the method may differ).
func (o vfC09Obs) sig() string {
	if o.Call == nil {
		return "nobody/err=" + fmt.Sprint(o.Err != "")
	}
	return fmt.Sprintf("%s|%s|%d|%v|%x|%x", o.Call.Ob, strings.ToLower(o.Call.Host), o.Call.Port, o.Call.HasRI, []byte(o.Call.V4.To16()), []byte(o.Call.V6.To16()))
}

func (c *vfC09EngCase) method(q *vfC09Query, coin int) string {
	if q.Proto == vfC09TCP {
		return "TCP"
	}
	if coin%2 == 0 {
		return "UDP"
	}
	return "CheckUDP"
}

// vfC09Tally collects counters locally; flushed once per case (the kit's mutex is shared by all workers).
type vfC09Tally map[string]int64

func (t vfC09Tally) Count(name string, n int64) { t[name] += n }
func (t vfC09Tally) flush(k *vfKit) {
	for name, v := range t {
		k.Count(name, v)
	}
}

func (c *vfC09EngCase) countExpectations(k0 *vfKit) {
	k := vfC09Tally{}
	defer k.flush(k0)
	for i := range c.Queries {
		e := c.Expect[i]
		switch {
		case e.Ambiguous:
			k.Count("ev_requests_ambiguous_star", 1)
		case e.Rule >= 0:
			k0.Nontrivial(c.Text + "\x00" + c.Queries[i].Key())
			if len(c.Rules[e.Rule].Hijack) != 0 {
				k.Count("ev_requests_hijacked", 1)
			}
			if c.Target[c.Rules[e.Rule].Outbound] == "" {
				k.Count("ev_requests_builtin_reject", 1)
			}
			k.Count("ev_requests_hitting_a_rule", 1)
		default:
			k.Count("ev_requests_default_outbound", 1)
		}
		if e.Matching >= 2 {
			k.Count("ev_requests_order_decides", 1)
		}
		if q := &c.Queries[i]; c.PartErr[i] && (q.V4 != nil || q.V6 != nil) {
			k.Count("ev_requests_err_with_address", 1)
			if e.Rule >= 0 && !e.Ambiguous && (c.Rules[e.Rule].Kind == vfC09IP || c.Rules[e.Rule].Kind == vfC09CIDR) {
				k.Count("ev_requests_err_with_address_decided_by_ip_rule", 1)
			}
		}
	}
}

func vfC09EngGuarded(f func()) (panicked bool) {
	defer func() {
		if recover() != nil {
			panicked = true
		}
	}()
	f()
	return false
}

func vfC09EngEach(n int, f func(i int)) {
	workers := runtime.GOMAXPROCS(0) / 2
	if workers < 1 {
		workers = 1
	}
	if workers > 4 {
		workers = 4
	}
	var next int64 = -1
	var wg sync.WaitGroup
	for w := 0; w < workers; w++ {
		wg.Add(1)
		go func() {
			defer wg.Done()
			for {
				i := int(atomic.AddInt64(&next, 1))
				if i >= n {
					return
				}
				f(i)
			}
		}()
	}
	wg.Wait()
}

func TestVerifC09EngineHistory(t *testing.T) {
	k := vfNewKit(t, "C09", "engine-history")
	defer k.Finish()
	nSets := k.N(150, 4000)
	nQ := k.N(48, 120)
	vfC09EngEach(nSets, func(i int) {
		id := fmt.Sprintf("eng-%d", i)
		if rc := k.ReplayCase(); rc != "" && rc != id {
			return
		}
		c := vfC09NewEngCase(k, id, nQ)
		k.Eval()
		c.countExpectations(k)
		k.Count("ev_engines", 1)
		rg := k.Rand(id + "/history")
		first := make([]*vfC09Obs, len(c.Queries))
		bad := 0
		tally := vfC09Tally{}
		defer tally.flush(k)
	caches:
		for _, cs := range []int{1, 4, aclCacheSize} {
			eng := c.engine(k, cs)
			if eng == nil {
				break
			}
			hist := vfC09History(rg, len(c.Queries), len(c.Queries)/2)
			before := atomic.LoadInt64(&c.calls)
			var asked int64
			for pos, qi := range hist {
				m := c.method(&c.Queries[qi], rg.Intn(2))
				var o vfC09Obs
				mkrep := func() map[string]any {
					return c.replay(map[string]any{"query": c.Queries[qi], "request": c.request(qi), "method": m, "cache_size": cs, "history_pos": pos})
				}
				if vfC09EngGuarded(func() { o = c.ask(eng, qi, m) }) {
					k.Guard("engine:panic", mkrep(), func() { o = c.ask(eng, qi, m) })
					break caches
				}
				tally.Count("ev_engine_requests", 1)
				if o.Call != nil {
					asked++
					tally.Count("ev_outbound_calls_observed", 1)
				}
				if why := c.check(qi, o); why != "" {
					rep := mkrep()
					rep["expected"], rep["observed"], rep["history"] = c.want(qi), o, hist[:pos+1]
					k.Violation("engine:dispatch-differs-from-reference", rep, "cache=%d pos=%d %s %s: %s (reference: %v)", cs, pos, m, c.Queries[qi].Key(), why, c.want(qi))
					if bad++; bad >= 3 {
						break caches
					}
				}
				if first[qi] == nil {
					oo := o
					first[qi] = &oo
				} else {
					tally.Count("ev_repeat_compared", 1)
					if first[qi].sig() != o.sig() {
						rep := mkrep()
						rep["expected"], rep["observed"], rep["first_observed"] = c.want(qi), o, first[qi]
						k.Violation("engine:dispatch-depends-on-history", rep, "cache=%d pos=%d %s: observed %s now, %s earlier for the same request", cs, pos, c.Queries[qi].Key(), o.sig(), first[qi].sig())
						if bad++; bad >= 3 {
							break caches
						}
					}
				}
			}
			if got := atomic.LoadInt64(&c.calls) - before; got != asked {
				k.Violation("engine:outbound-call-count", c.replay(map[string]any{"cache_size": cs}),
					"fake outbounds were asked %d times while %d requests came back with an outbound's answer", got, asked)
			}
		}
		if i < 3 && len(c.Queries) > 0 {
			j := 0
			for q := range c.Queries {
				if c.Expect[q].Rule >= 0 && len(c.Rules[c.Expect[q].Rule].Hijack) != 0 {
					j = q
					break
				}
			}
			k.Sample(map[string]any{"case_id": id, "rules_text": c.Text, "outbound_entries": c.Names, "example_request": c.request(j),
				"example_expected": c.want(j), "example_observed": first[j]})
		}
	})
}

func TestVerifC09EngineConcurrent(t *testing.T) {
	k := vfNewKit(t, "C09", "engine-concurrent")
	defer k.Finish()
	nSets := k.N(16, 160)
	per := k.N(800, 2500)
	const workers = 8
	for i := 0; i < nSets; i++ {
		id := fmt.Sprintf("engcc-%d", i)
		if rc := k.ReplayCase(); rc != "" && rc != id {
			continue
		}
		c := vfC09NewEngCase(k, id, 100)
		k.Eval()
		c.countExpectations(k)
		cs := []int{1, 4, aclCacheSize, 64}[i%4]
		eng := c.engine(k, cs)
		if eng == nil || len(c.Queries) == 0 {
			continue
		}
		type bad struct {
			qi  int
			why string
			o   vfC09Obs
		}
		var mu sync.Mutex
		var bads []bad
		var asked int64
		var wg sync.WaitGroup
		start := make(chan struct{})
		for w := 0; w < workers; w++ {
			wrg := k.Rand(fmt.Sprintf("%s/w%d", id, w))
			wg.Add(1)
			go func() {
				defer wg.Done()
				<-start
				qi := wrg.Intn(len(c.Queries))
				for n := 0; n < per; n++ {
					switch wrg.Intn(3) {
					case 0:
						qi = (qi + 1) % len(c.Queries)
					case 1:
						qi = wrg.Intn(len(c.Queries))
					}
					o := c.ask(eng, qi, c.method(&c.Queries[qi], wrg.Intn(2)))
					if o.Call != nil {
						atomic.AddInt64(&asked, 1)
					}
					if why := c.check(qi, o); why != "" {
						mu.Lock()
						if len(bads) < 3 {
							bads = append(bads, bad{qi, why, o})
						}
						mu.Unlock()
					}
				}
			}()
		}
		close(start)
		wg.Wait()
		k.Count("ev_engine_requests", int64(workers*per))
		k.Count("ev_outbound_calls_observed", asked)
		k.Count("ev_concurrent_engines", 1)
		for _, b := range bads {
			k.Violation("engine:concurrent-dispatch-differs-from-reference", c.replay(map[string]any{
				"query": c.Queries[b.qi], "request": c.request(b.qi), "cache_size": cs, "expected": c.want(b.qi), "observed": b.o}),
				"cache=%d, 8 goroutines, %s: %s (reference: %v)", cs, c.Queries[b.qi].Key(), b.why, c.want(b.qi))
		}
		if got := atomic.LoadInt64(&c.calls); got != asked {
			k.Violation("engine:outbound-call-count", c.replay(map[string]any{"cache_size": cs}),
				"fake outbounds were asked %d times while %d requests came back with an outbound's answer", got, asked)
		}
	}
}
