//go:build verif

package acl

// C09 — model shared by the ACL harnesses: structured rule form, text renderer, an
// INDEPENDENT reference evaluator and the query deriver.
//
// NOTE: harness/extras/outbounds/c09_model_test.go is a verbatim copy of this file with
// only the package clause changed (the two harness parts live in different packages and
// test files cannot be imported). Keep them identical; this file uses no type of the
// package under test on purpose.
//
// The reference is written from the documented semantics, not from compile.go/matchers.go:
//   * rules are scanned in file order, the first rule whose address, protocol and port
//     all match decides (outbound, hijack address); no rule -> miss (default outbound);
//   * address kinds: exact name (no sub-domains) / `suffix:d` = d itself or anything
//     ending in ".d" / pattern with `*` = glob anchored at both ends of the whole name,
//     `*` stands for any run of characters, dots included (matchers_test.go: `*.example.com`
//     matches www.example.com but not example.com; `example*.com` matches example2.com;
//     `*大学*` spans two labels) / single IP / CIDR / `all` (or `*`);
//   * IP and CIDR patterns look at the resolved IPv4 and IPv6 of the request, family-strict,
//     where an IPv4-mapped IPv6 address (::ffff:a.b.c.d, in a rule or in either slot of the
//     request) denotes the IPv4 address a.b.c.d;
//   * protocol tcp | udp | both; port any | single | inclusive range;
//   * host names compare case-insensitively and ignoring trailing dots (also in patterns).
// Documentation is silent on whether `*` may stand for the EMPTY string; the reference is
// therefore evaluated under both readings and a query whose answer depends on the reading
// is only required to be answered consistently and with one of the two answers.

import (
	"bytes"
	"fmt"
	"math/rand"
	"net"
	"strconv"
	"strings"
)

const (
	vfC09Exact  = "exact"
	vfC09Suffix = "suffix"
	vfC09Wild   = "wildcard"
	vfC09IP     = "ip"
	vfC09CIDR   = "cidr"
	vfC09All    = "all"

	vfC09Both = 0
	vfC09TCP  = 1
	vfC09UDP  = 2
)

type vfC09Rule struct {
	Outbound string `json:"outbound"`          // canonical (lower-case) outbound name
	Kind     string `json:"kind"`              // exact|suffix|wildcard|ip|cidr|all
	Pattern  string `json:"pattern,omitempty"` // canonical pattern of a name kind (lower case, no trailing dot)
	IP       net.IP `json:"ip,omitempty"`      // ip: the address; cidr: the network address
	Bits     int    `json:"bits,omitempty"`    // cidr prefix length
	// MappedText: an IPv4 address/network written in IPv4-mapped IPv6 notation in the rule file
	// (`::ffff:a.b.c.d`, prefix length + 96). IP and Bits stay in IPv4 terms: the notation denotes
	// that IPv4 address (RFC 4291 2.5.5.2).
	MappedText bool   `json:"mapped_text,omitempty"`
	Proto      int    `json:"proto"`   // 0 both, 1 tcp, 2 udp
	PortLo     int    `json:"port_lo"` // 0 = any port
	PortHi     int    `json:"port_hi"`
	Hijack     net.IP `json:"hijack,omitempty"`
	Text       string `json:"text"` // the line as rendered into the rule file
}

type vfC09Query struct {
	Name  string `json:"name"`
	V4    net.IP `json:"v4,omitempty"`
	V6    net.IP `json:"v6,omitempty"`
	Proto int    `json:"proto"` // 1 tcp, 2 udp
	Port  uint16 `json:"port"`
}

func (q *vfC09Query) Key() string {
	return fmt.Sprintf("%q|%x|%x|%d|%d", q.Name, []byte(q.V4), []byte(q.V6), q.Proto, q.Port)
}

// ---------------------------------------------------------------- reference evaluator

func vfC09Norm(name string) string {
	b := []byte(name)
	for i, c := range b {
		if c >= 'A' && c <= 'Z' {
			b[i] = c + ('a' - 'A')
		}
	}
	n := len(b)
	for n > 0 && b[n-1] == '.' {
		n--
	}
	return string(b[:n])
}

// vfC09Glob: does pat (with `*`) cover the whole of s? Table over (pattern prefix, name prefix).
func vfC09Glob(pat, s string, emptyStar bool) bool {
	prev := make([]bool, len(s)+1)
	prev[0] = true
	for i := 0; i < len(pat); i++ {
		cur := make([]bool, len(s)+1)
		if pat[i] == '*' {
			if emptyStar {
				cur[0] = prev[0]
				for j := 1; j <= len(s); j++ {
					cur[j] = prev[j] || cur[j-1]
				}
			} else {
				for j := 1; j <= len(s); j++ {
					cur[j] = prev[j-1] || cur[j-1]
				}
			}
		} else {
			for j := 1; j <= len(s); j++ {
				cur[j] = prev[j-1] && s[j-1] == pat[i]
			}
		}
		prev = cur
	}
	return prev[len(s)]
}

// vfC09Fam returns the address family (4, 6 or 0) and the family-sized bytes.
func vfC09Fam(ip net.IP) (int, []byte) {
	switch len(ip) {
	case 4:
		return 4, ip
	case 16:
		mapped := ip[10] == 0xff && ip[11] == 0xff
		for i := 0; i < 10; i++ {
			if ip[i] != 0 {
				mapped = false
			}
		}
		if mapped {
			return 4, ip[12:]
		}
		return 6, ip
	}
	return 0, nil
}

func vfC09IPEq(a, b net.IP) bool {
	fa, ba := vfC09Fam(a)
	fb, bb := vfC09Fam(b)
	return fa != 0 && fa == fb && bytes.Equal(ba, bb)
}

func vfC09InNet(base net.IP, bits int, ip net.IP) bool {
	fb, bb := vfC09Fam(base)
	fi, bi := vfC09Fam(ip)
	if fb == 0 || fb != fi {
		return false
	}
	for k := 0; k < bits; k++ {
		if (bb[k/8]^bi[k/8])&(0x80>>uint(k%8)) != 0 {
			return false
		}
	}
	return true
}

// vfC09AddrMatches: the address part of a rule alone.
func vfC09AddrMatches(r *vfC09Rule, name string, v4, v6 net.IP, emptyStar bool) bool {
	switch r.Kind {
	case vfC09All:
		return true
	case vfC09Exact:
		return vfC09Norm(name) == r.Pattern
	case vfC09Suffix:
		n := vfC09Norm(name)
		return n == r.Pattern || strings.HasSuffix(n, "."+r.Pattern)
	case vfC09Wild:
		return vfC09Glob(r.Pattern, vfC09Norm(name), emptyStar)
	case vfC09IP:
		return vfC09IPEq(r.IP, v4) || vfC09IPEq(r.IP, v6)
	case vfC09CIDR:
		return vfC09InNet(r.IP, r.Bits, v4) || vfC09InNet(r.IP, r.Bits, v6)
	}
	return false
}

func vfC09RuleMatches(r *vfC09Rule, q *vfC09Query, emptyStar bool) bool {
	if r.Proto != vfC09Both && r.Proto != q.Proto {
		return false
	}
	if r.PortLo != 0 && !(r.PortLo <= int(q.Port) && int(q.Port) <= r.PortHi) {
		return false
	}
	return vfC09AddrMatches(r, q.Name, q.V4, q.V6, emptyStar)
}

// vfC09Ref returns the index of the deciding rule (-1 = miss) and how many rules match at all.
func vfC09Ref(rules []vfC09Rule, q *vfC09Query, emptyStar bool) (first int, matching int) {
	first = -1
	for i := range rules {
		if vfC09RuleMatches(&rules[i], q, emptyStar) {
			if first < 0 {
				first = i
			}
			matching++
		}
	}
	return
}

// vfC09Expect is what the reference demands for one query.
type vfC09Expect struct {
	Rule      int  `json:"rule"`               // deciding rule, -1 = miss (reading: `*` may be empty)
	AltRule   int  `json:"alt_rule,omitempty"` // deciding rule under the other reading (== Rule unless Ambiguous)
	Ambiguous bool `json:"ambiguous,omitempty"`
	Matching  int  `json:"matching_rules"` // rules that match at all (>=2: order decided)
}

func vfC09Expected(rules []vfC09Rule, q *vfC09Query) vfC09Expect {
	a, n := vfC09Ref(rules, q, true)
	b, _ := vfC09Ref(rules, q, false)
	e := vfC09Expect{Rule: a, AltRule: b, Matching: n}
	if a != b {
		// the two readings pick different rules; if those rules give the same (outbound, hijack)
		// the answer is still determined
		if !vfC09SameAnswer(rules, a, b) {
			e.Ambiguous = true
		}
	}
	return e
}

func vfC09SameAnswer(rules []vfC09Rule, a, b int) bool {
	if a == b {
		return true
	}
	if a < 0 || b < 0 {
		return false
	}
	return rules[a].Outbound == rules[b].Outbound && vfC09HijackEq(rules[a].Hijack, rules[b].Hijack)
}

func vfC09HijackEq(a, b net.IP) bool {
	if len(a) == 0 || len(b) == 0 {
		return len(a) == 0 && len(b) == 0
	}
	return vfC09IPEq(a, b)
}

// vfC09AnswerOK: does (outbound name, hijack) equal what rule idx prescribes ("" / nil for a miss)?
func vfC09AnswerOK(rules []vfC09Rule, idx int, outbound string, hijack net.IP) bool {
	if idx < 0 {
		return outbound == "" && len(hijack) == 0
	}
	return outbound == rules[idx].Outbound && vfC09HijackEq(rules[idx].Hijack, hijack)
}

// ---------------------------------------------------------------- generator

var vfC09Words = []string{"example", "mail", "www", "cdn", "api", "shop", "news", "a", "b", "x", "v2ex", "9gag",
	"my-site", "static", "img", "google", "apple", "fakenews", "ex", "ample"}
var vfC09TLDs = []string{"com", "net", "org", "io", "test", "co.uk", "cn"}

func vfC09Label(rg *rand.Rand) string {
	if rg.Intn(4) != 0 {
		return vfC09Words[rg.Intn(len(vfC09Words))]
	}
	const al = "abcdefghijklmnopqrstuvwxyz0123456789"
	n := 1 + rg.Intn(6)
	b := make([]byte, n)
	for i := range b {
		b[i] = al[rg.Intn(len(al))]
	}
	if n >= 3 && rg.Intn(5) == 0 {
		b[1+rg.Intn(n-2)] = '-'
	}
	return string(b)
}

// vfC09NameOK filters names outside the demanded domain: empty labels, `|`, IDN/ACE labels.
func vfC09NameOK(s string) bool {
	if s == "" || len(s) > 200 || strings.ContainsAny(s, "|*#,() \t/") {
		return false
	}
	t := strings.TrimRight(s, ".")
	if t == "" || len(s)-len(t) > 2 {
		return false
	}
	for _, l := range strings.Split(strings.ToLower(t), ".") {
		if l == "" || len(l) > 63 || strings.Contains(l, "--") || strings.HasPrefix(l, "xn") {
			return false
		}
	}
	return true
}

func vfC09Domain(rg *rand.Rand) string {
	for {
		n := 1 + rg.Intn(3)
		parts := make([]string, 0, n+1)
		for i := 0; i < n; i++ {
			parts = append(parts, vfC09Label(rg))
		}
		parts = append(parts, vfC09TLDs[rg.Intn(len(vfC09TLDs))])
		d := strings.Join(parts, ".")
		if vfC09NameOK(d) {
			return d
		}
	}
}

type vfC09Universe struct {
	Domains []string
	Nets4   []net.IP // /16-ish bases the IPv4 rules and queries cluster in
	Nets6   []net.IP
	Ports   []int
}

func vfC09RandV4(rg *rand.Rand) net.IP {
	for {
		ip := net.IP{byte(1 + rg.Intn(222)), byte(rg.Intn(256)), byte(rg.Intn(256)), byte(rg.Intn(256))}
		if ip[0] != 127 {
			return ip
		}
	}
}

func vfC09RandV6(rg *rand.Rand) net.IP {
	ip := make(net.IP, 16)
	for i := range ip {
		ip[i] = byte(rg.Intn(256))
	}
	switch rg.Intn(3) {
	case 0:
		ip[0], ip[1] = 0x20, 0x01
	case 1:
		ip[0], ip[1] = 0x26, 0x06
	default:
		ip[0] = 0xfd
	}
	if rg.Intn(2) == 0 { // long zero runs so that the text form gets compressed
		for i := 4; i < 14; i++ {
			ip[i] = 0
		}
	}
	return ip
}

func vfC09NewUniverse(rg *rand.Rand) *vfC09Universe {
	u := &vfC09Universe{}
	for i, n := 0, 2+rg.Intn(3); i < n; i++ {
		u.Domains = append(u.Domains, vfC09Domain(rg))
	}
	for i, n := 0, 1+rg.Intn(2); i < n; i++ {
		u.Nets4 = append(u.Nets4, vfC09RandV4(rg))
	}
	for i, n := 0, 1+rg.Intn(2); i < n; i++ {
		u.Nets6 = append(u.Nets6, vfC09RandV6(rg))
	}
	common := []int{1, 22, 53, 80, 443, 8080, 6881, 65535}
	for i, n := 0, 3+rg.Intn(3); i < n; i++ {
		if rg.Intn(2) == 0 {
			u.Ports = append(u.Ports, common[rg.Intn(len(common))])
		} else {
			u.Ports = append(u.Ports, 1+rg.Intn(65535))
		}
	}
	return u
}

// near returns an address close to base: same leading `keep` bits, random tail.
func vfC09Near(rg *rand.Rand, base net.IP, keep int) net.IP {
	ip := append(net.IP(nil), base...)
	for k := keep; k < len(ip)*8; k++ {
		if rg.Intn(2) == 0 {
			ip[k/8] ^= 0x80 >> uint(k%8)
		}
	}
	return ip
}

func vfC09Mask(ip net.IP, bits int) net.IP {
	out := append(net.IP(nil), ip...)
	for k := bits; k < len(out)*8; k++ {
		out[k/8] &^= 0x80 >> uint(k%8)
	}
	return out
}

func vfC09WildPattern(rg *rand.Rand, d string) string {
	labels := strings.Split(d, ".")
	first, rest := labels[0], strings.Join(labels[1:], ".")
	for tries := 0; tries < 20; tries++ {
		var p string
		switch rg.Intn(11) {
		case 9:
			// literal head and tail overlap: head ends with what the tail starts with (d itself must NOT match)
			p = first + "*" + first[len(first)-1:] + "." + rest
		case 10:
			p = first + ".*." + first + "." + rest
		case 0:
			p = "*." + d
		case 1:
			p = "*." + rest
		case 2:
			p = first + "*." + rest
		case 3:
			p = "*" + first[len(first)/2:] + "." + rest
		case 4:
			p = first + ".*"
		case 5:
			p = "*." + first + ".*"
		case 6:
			p = "*" + first + "*"
		case 7:
			p = "www.*." + labels[len(labels)-1]
		case 8:
			k := rg.Intn(len(first) + 1)
			p = first[:k] + "*" + first[k:] + "." + rest
		}
		if p != "*" && !strings.Contains(p, "**") && strings.Trim(p, "*.") != "" && !strings.HasPrefix(p, ".") {
			return p
		}
	}
	return "*." + d
}

func vfC09PickDomain(rg *rand.Rand, u *vfC09Universe) string {
	if rg.Intn(5) == 0 {
		return vfC09Domain(rg)
	}
	d := u.Domains[rg.Intn(len(u.Domains))]
	switch rg.Intn(4) {
	case 0: // a sub-domain
		if s := vfC09Label(rg) + "." + d; vfC09NameOK(s) {
			return s
		}
	case 1: // the parent, when it still has two labels
		if i := strings.IndexByte(d, '.'); i >= 0 && strings.Count(d[i+1:], ".") >= 1 {
			return d[i+1:]
		}
	}
	return d
}

// vfC09RandAddr fills the address part of r; kind "" = draw the kind too.
func vfC09RandAddr(rg *rand.Rand, u *vfC09Universe, r *vfC09Rule, kind string) {
	if kind == "" {
		switch x := rg.Intn(100); {
		case x < 20:
			kind = vfC09Exact
		case x < 40:
			kind = vfC09Suffix
		case x < 60:
			kind = vfC09Wild
		case x < 72:
			kind = vfC09IP
		case x < 90:
			kind = vfC09CIDR
		default:
			kind = vfC09All
		}
	}
	r.Kind = kind
	switch kind {
	case vfC09Exact:
		r.Pattern = vfC09PickDomain(rg, u)
	case vfC09Suffix:
		r.Pattern = vfC09PickDomain(rg, u)
		if rg.Intn(6) == 0 { // a bare TLD
			l := strings.Split(r.Pattern, ".")
			r.Pattern = l[len(l)-1]
		}
	case vfC09Wild:
		r.Pattern = vfC09WildPattern(rg, vfC09PickDomain(rg, u))
	case vfC09IP:
		if rg.Intn(3) != 0 {
			r.IP = vfC09Near(rg, u.Nets4[rg.Intn(len(u.Nets4))], 24+rg.Intn(7))
			r.MappedText = rg.Intn(8) == 0
		} else {
			r.IP = vfC09Near(rg, u.Nets6[rg.Intn(len(u.Nets6))], 120+rg.Intn(7))
		}
	case vfC09CIDR:
		if rg.Intn(3) != 0 {
			r.Bits = []int{0, 8, 16, 20, 24, 25, 27, 30, 31, 32}[rg.Intn(10)]
			r.IP = vfC09Mask(vfC09Near(rg, u.Nets4[rg.Intn(len(u.Nets4))], 20+rg.Intn(12)), r.Bits)
			r.MappedText = rg.Intn(8) == 0
		} else {
			r.Bits = []int{0, 16, 32, 44, 48, 64, 96, 112, 120, 127, 128}[rg.Intn(11)]
			r.IP = vfC09Mask(vfC09Near(rg, u.Nets6[rg.Intn(len(u.Nets6))], 100+rg.Intn(28)), r.Bits)
		}
	}
}

// vfC09RandTarget fills everything but the address: outbound, protocol, ports, hijack.
func vfC09RandTarget(rg *rand.Rand, u *vfC09Universe, obNames []string, r *vfC09Rule) {
	r.Outbound = obNames[rg.Intn(len(obNames))]
	r.Proto, r.PortLo, r.PortHi, r.Hijack = vfC09Both, 0, 0, nil
	restrict := 55
	if r.Kind == vfC09All {
		restrict = 80
	}
	if rg.Intn(100) < restrict {
		r.Proto = 1 + rg.Intn(2)
	}
	if rg.Intn(100) < restrict {
		lo := u.Ports[rg.Intn(len(u.Ports))]
		hi := lo
		switch rg.Intn(4) {
		case 0:
			hi = lo + 1
		case 1:
			hi = lo + 1 + rg.Intn(20)
		case 2:
			hi = u.Ports[rg.Intn(len(u.Ports))]
		}
		if hi < lo {
			lo, hi = hi, lo
		}
		if hi > 65535 {
			hi = 65535
		}
		r.PortLo, r.PortHi = lo, hi
	}
	if rg.Intn(4) == 0 {
		if rg.Intn(3) != 0 {
			r.Hijack = vfC09RandV4(rg)
		} else {
			r.Hijack = vfC09RandV6(rg)
		}
	}
}

func vfC09SameTarget(a, b *vfC09Rule) bool {
	return a.Outbound == b.Outbound && a.Proto == b.Proto && a.PortLo == b.PortLo && a.PortHi == b.PortHi && vfC09HijackEq(a.Hijack, b.Hijack)
}

func vfC09CopyTarget(dst, src *vfC09Rule) {
	dst.Outbound, dst.Proto, dst.PortLo, dst.PortHi = src.Outbound, src.Proto, src.PortLo, src.PortHi
	dst.Hijack = append(net.IP(nil), src.Hijack...)
}

// vfC09OrderBlock builds a run of rules made for ORDER sensitivity: one address pattern
// (exact, suffix, wildcard, IP or CIDR) occurs 2..4 times with different outbounds,
// protocols, overlapping port ranges and hijack addresses; around and between the
// occurrences sit exact-name rules for other names that share (outbound, proto/port, hijack)
// with the first or the last occurrence. Any implementation that regroups, merges, sorts or
// indexes rules must still answer as the plain file-order scan does.
func vfC09OrderBlock(rg *rand.Rand, u *vfC09Universe, obNames []string) []vfC09Rule {
	var base vfC09Rule
	kind := vfC09Exact
	if rg.Intn(5) >= 2 {
		kind = []string{vfC09Suffix, vfC09Wild, vfC09IP, vfC09CIDR}[rg.Intn(4)]
	}
	vfC09RandAddr(rg, u, &base, kind)
	reps := 2 + rg.Intn(3)
	p0 := u.Ports[rg.Intn(len(u.Ports))]
	occ := make([]vfC09Rule, reps)
	for j := range occ {
		for tries := 0; ; tries++ {
			o := base
			o.IP = append(net.IP(nil), base.IP...)
			o.Outbound = obNames[rg.Intn(len(obNames))]
			o.Proto = rg.Intn(3)
			switch rg.Intn(5) { // port sets that overlap around p0
			case 0:
				o.PortLo, o.PortHi = 0, 0
			case 1:
				o.PortLo, o.PortHi = p0, p0
			case 2:
				o.PortLo, o.PortHi = p0, p0+1+rg.Intn(10)
			case 3:
				o.PortLo, o.PortHi = p0-1-rg.Intn(10), p0
			default:
				o.PortLo, o.PortHi = p0-rg.Intn(5), p0+rg.Intn(5)
			}
			if o.PortLo != 0 || o.PortHi != 0 {
				if o.PortLo < 1 {
					o.PortLo = 1
				}
				if o.PortHi > 65535 {
					o.PortHi = 65535
				}
			}
			if rg.Intn(3) == 0 {
				o.Hijack = vfC09RandV4(rg)
				if rg.Intn(3) == 0 {
					o.Hijack = vfC09RandV6(rg)
				}
			}
			// an occurrence identical in target to its predecessor would not be observable
			if j == 0 || tries > 8 || !vfC09SameTarget(&o, &occ[j-1]) {
				occ[j] = o
				break
			}
		}
	}
	neighbour := func(t *vfC09Rule) (vfC09Rule, bool) {
		for tries := 0; tries < 8; tries++ {
			var n vfC09Rule
			vfC09RandAddr(rg, u, &n, vfC09Exact)
			if base.Kind == vfC09Exact && n.Pattern == base.Pattern {
				continue
			}
			vfC09CopyTarget(&n, t)
			return n, true
		}
		return vfC09Rule{}, false
	}
	first, last := &occ[0], &occ[reps-1]
	var out []vfC09Rule
	addNeighbours := func(max int) {
		for i, n := 0, rg.Intn(max+1); i < n; i++ {
			t := last
			switch rg.Intn(4) {
			case 0:
				t = first
			case 1:
				t = &occ[rg.Intn(reps)]
			}
			if nb, ok := neighbour(t); ok {
				out = append(out, nb)
			}
		}
	}
	addNeighbours(2) // leaders: same target as a LATER occurrence, ahead of the first one
	for j := range occ {
		out = append(out, occ[j])
		if j < reps-1 {
			addNeighbours(1)
			if rg.Intn(4) == 0 { // an unrelated exact-name rule inside the run
				var n vfC09Rule
				vfC09RandAddr(rg, u, &n, vfC09Exact)
				vfC09RandTarget(rg, u, obNames, &n)
				out = append(out, n)
			}
		}
	}
	addNeighbours(1)
	return out
}

// vfC09GenRules draws a rule list of about n rules over the given outbound names (canonical,
// lower case): either independent random rules, or (every other list) an order-sensitivity
// block embedded between random rules.
func vfC09GenRules(rg *rand.Rand, u *vfC09Universe, obNames []string, n int) []vfC09Rule {
	random := func(k int) []vfC09Rule {
		l := make([]vfC09Rule, k)
		for i := range l {
			vfC09RandAddr(rg, u, &l[i], "")
			vfC09RandTarget(rg, u, obNames, &l[i])
		}
		return l
	}
	var rules []vfC09Rule
	if rg.Intn(2) == 0 {
		rules = random(n)
	} else {
		block := vfC09OrderBlock(rg, u, obNames)
		rest := n - len(block)
		if rest < 0 {
			rest = 0
		}
		before := 0
		if rest > 0 && rg.Intn(2) == 0 {
			before = rg.Intn(rest + 1)
		}
		rules = append(rules, random(before)...)
		rules = append(rules, block...)
		rules = append(rules, random(rest-before)...)
	}
	for i := range rules {
		rules[i].Text = vfC09RenderRule(rg, &rules[i])
	}
	return rules
}

func vfC09RandCase(rg *rand.Rand, s string) string {
	if rg.Intn(4) != 0 {
		return s
	}
	b := []byte(s)
	for i, c := range b {
		if c >= 'a' && c <= 'z' && rg.Intn(2) == 0 {
			b[i] = c - ('a' - 'A')
		}
	}
	return string(b)
}

func vfC09IPText(rg *rand.Rand, ip net.IP) string {
	if len(ip) == 16 && rg.Intn(4) == 0 { // uncompressed IPv6 text
		parts := make([]string, 8)
		for i := 0; i < 8; i++ {
			parts[i] = strconv.FormatUint(uint64(ip[2*i])<<8|uint64(ip[2*i+1]), 16)
		}
		return strings.Join(parts, ":")
	}
	return ip.String()
}

// vfC09MappedText writes an IPv4 address in IPv4-mapped IPv6 notation.
func vfC09MappedText(rg *rand.Rand, ip net.IP) string {
	hi, lo := uint64(ip[0])<<8|uint64(ip[1]), uint64(ip[2])<<8|uint64(ip[3])
	switch rg.Intn(3) {
	case 0:
		return "::ffff:" + ip.String()
	case 1:
		return "::ffff:" + strconv.FormatUint(hi, 16) + ":" + strconv.FormatUint(lo, 16)
	}
	return "0:0:0:0:0:ffff:" + strconv.FormatUint(hi, 16) + ":" + strconv.FormatUint(lo, 16)
}

func vfC09Sp(rg *rand.Rand) string {
	if rg.Intn(4) == 0 {
		return strings.Repeat(" ", 1+rg.Intn(3))
	}
	return ""
}

// vfC09RenderRule writes the rule the way the ACL file format documents it:
// outbound(address[,protoPort[,hijackAddress]]).
func vfC09RenderRule(rg *rand.Rand, r *vfC09Rule) string {
	var addr string
	dot := ""
	if rg.Intn(8) == 0 {
		dot = "."
	}
	switch r.Kind {
	case vfC09Exact, vfC09Wild:
		addr = vfC09RandCase(rg, r.Pattern) + dot
	case vfC09Suffix:
		addr = "suffix:" + vfC09RandCase(rg, r.Pattern) + dot
	case vfC09IP:
		if r.MappedText && len(r.IP) == 4 {
			addr = vfC09MappedText(rg, r.IP)
		} else {
			addr = vfC09IPText(rg, r.IP)
		}
	case vfC09CIDR:
		base := r.IP
		if rg.Intn(5) == 0 { // host bits set, as in `1.1.1.1/24` of the engine's own test
			base = vfC09Near(rg, r.IP, r.Bits)
		}
		if r.MappedText && len(r.IP) == 4 {
			addr = vfC09MappedText(rg, base) + "/" + strconv.Itoa(r.Bits+96)
		} else {
			addr = vfC09IPText(rg, base) + "/" + strconv.Itoa(r.Bits)
		}
	case vfC09All:
		addr = []string{"all", "*"}[rg.Intn(2)]
	}
	proto := []string{"*", "tcp", "udp"}[r.Proto]
	if r.Proto != vfC09Both && rg.Intn(4) == 0 {
		proto = strings.ToUpper(proto)
	}
	var pp string
	switch {
	case r.PortLo == 0 && r.Proto == vfC09Both:
		pp = []string{"", "*", "*/*"}[rg.Intn(3)]
	case r.PortLo == 0:
		pp = proto
		if rg.Intn(3) == 0 {
			pp += "/*"
		}
	case r.PortLo == r.PortHi && rg.Intn(4) != 0:
		pp = proto + "/" + strconv.Itoa(r.PortLo)
	default:
		pp = proto + "/" + strconv.Itoa(r.PortLo) + "-" + strconv.Itoa(r.PortHi)
	}
	if len(r.Hijack) != 0 && pp == "" {
		pp = "*"
	}
	var sb strings.Builder
	sb.WriteString(vfC09Sp(rg))
	sb.WriteString(vfC09RandCase(rg, r.Outbound))
	if rg.Intn(8) == 0 {
		sb.WriteString(" ")
	}
	sb.WriteString("(" + addr)
	if pp != "" {
		sb.WriteString("," + vfC09Sp(rg) + pp)
		if len(r.Hijack) != 0 {
			sb.WriteString("," + vfC09Sp(rg) + vfC09IPText(rg, r.Hijack))
		}
	}
	sb.WriteString(")")
	if rg.Intn(8) == 0 {
		sb.WriteString(" # rule comment")
	}
	return sb.String()
}

// vfC09RenderFile joins the rule lines into a rule file with blank and comment lines.
func vfC09RenderFile(rg *rand.Rand, rules []vfC09Rule) string {
	var sb strings.Builder
	if rg.Intn(3) == 0 {
		sb.WriteString("# generated rule file\n\n")
	}
	for i := range rules {
		sb.WriteString(rules[i].Text)
		sb.WriteString("\n")
		switch rg.Intn(8) {
		case 0:
			sb.WriteString("\n")
		case 1:
			sb.WriteString("  # a comment line\n")
		}
	}
	return sb.String()
}

// ---------------------------------------------------------------- query derivation

type vfC09Host struct {
	Name   string
	V4, V6 net.IP
}

func vfC09Step(ip net.IP, d int) net.IP { // ip + d (d = +1 / -1), wrapping
	out := append(net.IP(nil), ip...)
	for i := len(out) - 1; i >= 0; i-- {
		if d > 0 {
			out[i]++
			if out[i] != 0 {
				break
			}
		} else {
			out[i]--
			if out[i] != 0xff {
				break
			}
		}
	}
	return out
}

func vfC09Last(base net.IP, bits int) net.IP {
	out := append(net.IP(nil), base...)
	for k := bits; k < len(out)*8; k++ {
		out[k/8] |= 0x80 >> uint(k%8)
	}
	return out
}

func vfC09SaneIP(ip net.IP) bool { // keep v4-mapped/unspecified forms out (family would be ambiguous)
	f, b := vfC09Fam(ip)
	if f == 0 {
		return false
	}
	if f == 4 {
		return len(ip) == 4
	}
	zero := true
	for _, c := range b[:12] {
		if c != 0 {
			zero = false
		}
	}
	return !zero
}

// vfC09DeriveNames: names equal to, adjacent to and just outside every name pattern.
func vfC09DeriveNames(rg *rand.Rand, rules []vfC09Rule, u *vfC09Universe) []string {
	seen := map[string]bool{}
	var out []string
	add := func(s string) {
		if vfC09NameOK(s) && !seen[s] && net.ParseIP(s) == nil {
			seen[s] = true
			out = append(out, s)
		}
	}
	swapTLD := func(p string) string {
		i := strings.LastIndexByte(p, '.')
		return p[:i+1] + "zz"
	}
	for i := range rules {
		p := rules[i].Pattern
		switch rules[i].Kind {
		case vfC09Exact, vfC09Suffix:
			add(p)
			add("x" + p)
			add("www." + p)
			add("a.b." + p)
			add(p + "x")
			add(p + ".x")
			add(swapTLD(p))
			if j := strings.IndexByte(p, '.'); j >= 0 {
				add(p[j+1:])
			}
			if len(p) > 1 {
				add(p[1:])
			}
		case vfC09Wild:
			for _, fill := range []string{"x", "www", "a.b", "", "z-9", "."} {
				inst := strings.ReplaceAll(p, "*", fill)
				add(inst)
				add("x" + inst)
				add(inst + "x")
				add("y." + inst)
				add(inst + ".y")
			}
			fills := []string{"", "q", "a.b.c", "mail"}
			var sb strings.Builder
			for _, c := range p {
				if c == '*' {
					sb.WriteString(fills[rg.Intn(len(fills))])
				} else {
					sb.WriteRune(c)
				}
			}
			add(sb.String())
			add(strings.ReplaceAll(p, "*", "")) // only decided when both readings agree
			if j := strings.IndexByte(p, '*'); j >= 0 && strings.Count(p, "*") == 1 {
				// names shorter than head+tail in which the literal head and tail overlap
				head, tail := p[:j], p[j+1:]
				for k := 1; k <= len(head) && k <= len(tail); k++ {
					if strings.HasSuffix(head, tail[:k]) {
						add(head + tail[k:])
					}
				}
			}
		}
	}
	for _, d := range u.Domains {
		add(d)
		add("www." + d)
		add("x" + d)
	}
	for i := 0; i < 4; i++ {
		add(vfC09Domain(rg))
	}
	return out
}

// vfC09DeriveIPs: addresses on and just beyond the edges of every IP/CIDR rule.
func vfC09DeriveIPs(rg *rand.Rand, rules []vfC09Rule, u *vfC09Universe) (v4, v6 []net.IP) {
	seen := map[string]bool{}
	add := func(ip net.IP) {
		if !vfC09SaneIP(ip) || seen[string(ip)] {
			return
		}
		seen[string(ip)] = true
		if len(ip) == 4 {
			v4 = append(v4, ip)
		} else {
			v6 = append(v6, ip)
		}
	}
	for i := range rules {
		r := &rules[i]
		switch r.Kind {
		case vfC09IP:
			add(r.IP)
			add(vfC09Step(r.IP, 1))
			add(vfC09Step(r.IP, -1))
		case vfC09CIDR:
			last := vfC09Last(r.IP, r.Bits)
			add(r.IP)
			add(last)
			add(vfC09Step(r.IP, -1))
			add(vfC09Step(last, 1))
			add(vfC09Near(rg, r.IP, r.Bits))
			if r.Bits > 0 { // the sibling network: last prefix bit flipped
				sib := vfC09Near(rg, r.IP, r.Bits)
				sib[(r.Bits-1)/8] ^= 0x80 >> uint((r.Bits-1)%8)
				add(sib)
			}
		}
		if len(r.Hijack) != 0 {
			add(r.Hijack) // a request for the hijack target itself
		}
	}
	for _, b := range u.Nets4 {
		add(vfC09Near(rg, b, 24))
	}
	for _, b := range u.Nets6 {
		add(vfC09Near(rg, b, 120))
	}
	add(vfC09RandV4(rg))
	add(vfC09RandV6(rg))
	return
}

func vfC09Variant(rg *rand.Rand, name string) string {
	if name == "" {
		return name
	}
	if rg.Intn(4) == 0 {
		b := []byte(name)
		for i, c := range b {
			if c >= 'a' && c <= 'z' && rg.Intn(2) == 0 {
				b[i] = c - ('a' - 'A')
			}
		}
		name = string(b)
	}
	switch rg.Intn(20) {
	case 0, 1, 2:
		name += "."
	case 3:
		name += ".."
	}
	return name
}

func vfC09IPForm(rg *rand.Rand, ip net.IP) net.IP { // IPv4 in 4-byte or 16-byte representation
	if len(ip) == 4 && rg.Intn(2) == 0 {
		return net.IPv4(ip[0], ip[1], ip[2], ip[3])
	}
	return ip
}

func vfC09MappedOK(rules []vfC09Rule) bool {
	for i := range rules {
		if rules[i].Kind == vfC09CIDR && len(rules[i].IP) == 16 && rules[i].Bits == 0 {
			return false
		}
	}
	return true
}

// vfC09DeriveQueries builds `want` distinct queries for the rule list.
func vfC09DeriveQueries(rg *rand.Rand, rules []vfC09Rule, u *vfC09Universe, want int) []vfC09Query {
	names := vfC09DeriveNames(rg, rules, u)
	ip4, ip6 := vfC09DeriveIPs(rg, rules, u)
	pick := func(l []net.IP) net.IP { return l[rg.Intn(len(l))] }
	portPool := append([]int{80, 443}, u.Ports...)
	for i := range rules {
		if rules[i].PortLo != 0 {
			portPool = append(portPool, rules[i].PortLo-1, rules[i].PortLo, rules[i].PortHi, rules[i].PortHi+1,
				(rules[i].PortLo+rules[i].PortHi)/2)
		}
	}
	// hosts covered by an address that occurs in several rules: there the ORDER of rules decides
	var hot []vfC09Host
	occurs := map[string]int{}
	akey := func(r *vfC09Rule) string { return fmt.Sprintf("%s|%s|%x|%d", r.Kind, r.Pattern, []byte(r.IP), r.Bits) }
	for i := range rules {
		occurs[akey(&rules[i])]++
	}
	for i := range rules {
		r := &rules[i]
		if occurs[akey(r)] < 2 {
			continue
		}
		occurs[akey(r)] = 0 // once per repeated address
		switch r.Kind {
		case vfC09Exact:
			hot = append(hot, vfC09Host{Name: r.Pattern})
		case vfC09Suffix:
			hot = append(hot, vfC09Host{Name: r.Pattern}, vfC09Host{Name: "www." + r.Pattern})
		case vfC09Wild:
			if n := strings.ReplaceAll(r.Pattern, "*", "x"); vfC09NameOK(n) {
				hot = append(hot, vfC09Host{Name: n})
			}
		case vfC09IP, vfC09CIDR:
			ip := r.IP
			if r.Kind == vfC09CIDR {
				ip = vfC09Near(rg, r.IP, r.Bits)
			}
			if vfC09SaneIP(ip) {
				h := vfC09Host{}
				if len(ip) == 4 {
					h.V4 = ip
				} else {
					h.V6 = ip
				}
				hot = append(hot, h)
				h.Name = names[rg.Intn(len(names))]
				hot = append(hot, h)
				if len(ip) == 4 && vfC09MappedOK(rules) {
					hot = append(hot, vfC09Host{Name: h.Name, V6: net.IPv4(ip[0], ip[1], ip[2], ip[3])})
				}
			}
		}
	}
	seen := map[string]bool{}
	var out []vfC09Query
	// An AAAA answer may be an IPv4-mapped address (::ffff:a.b.c.d): it denotes the IPv4 address and IPv4
	// rules cover it in whichever slot it sits. Only `::/0` would make its IPv6 reading matter: no such
	// queries when that rule is present.
	mappedOK := vfC09MappedOK(rules)
	for guard := 0; len(out) < want && guard < want*20; guard++ {
		var h vfC09Host
		literal := false
		switch x := rg.Intn(100); {
		case len(hot) > 0 && x < 25: // covered by a repeated address
			h = hot[rg.Intn(len(hot))]
		case x < 40: // a name nobody resolved
			h.Name = names[rg.Intn(len(names))]
		case x < 60: // a name with resolved addresses
			h.Name = names[rg.Intn(len(names))]
			if rg.Intn(4) != 0 {
				h.V4 = pick(ip4)
			}
			if h.V4 == nil || rg.Intn(2) == 0 {
				h.V6 = pick(ip6)
			}
		case x < 80: // addresses only (as in the package's own tests)
			if rg.Intn(3) != 0 {
				h.V4 = pick(ip4)
			}
			if h.V4 == nil || rg.Intn(3) == 0 {
				h.V6 = pick(ip6)
			}
		default: // an IP literal as host, resolved to itself
			literal = true
			if rg.Intn(3) != 0 {
				h.V4 = pick(ip4)
				h.Name = h.V4.String()
			} else {
				h.V6 = pick(ip6)
				h.Name = h.V6.String()
			}
		}
		if guard >= want*10 { // derived pool exhausted: random hosts
			h = vfC09Host{Name: vfC09Domain(rg)}
			if rg.Intn(2) == 0 {
				h.V4 = vfC09RandV4(rg)
			}
		}
		if mappedOK && !literal && rg.Intn(8) == 0 {
			m := pick(ip4)
			h.V6 = net.IPv4(m[0], m[1], m[2], m[3]) // 16-byte ::ffff:a.b.c.d in the IPv6 slot
			if rg.Intn(2) == 0 {
				h.V4 = nil
			}
		}
		// rules whose address part covers this host: probe their protocol and port edges
		var cand []int
		for i := range rules {
			if vfC09AddrMatches(&rules[i], h.Name, h.V4, h.V6, true) {
				cand = append(cand, i)
			}
		}
		var ports []int
		if len(cand) > 0 && rg.Intn(5) != 0 {
			probe := []int{cand[rg.Intn(len(cand))]}
			if len(cand) >= 2 && rg.Intn(2) == 0 { // several rules cover this host: the edges of all of them
				probe = cand
			}
			dup := map[int]bool{}
			for _, ci := range probe {
				r := &rules[ci]
				if r.PortLo == 0 {
					continue
				}
				for _, p := range []int{r.PortLo - 1, r.PortLo, r.PortHi, r.PortHi + 1, (r.PortLo + r.PortHi) / 2} {
					if !dup[p] && len(ports) < 12 {
						dup[p] = true
						ports = append(ports, p)
					}
				}
			}
		}
		if ports == nil {
			ports = []int{portPool[rg.Intn(len(portPool))], portPool[rg.Intn(len(portPool))], 1 + rg.Intn(65535)}
		}
		h.Name = vfC09Variant(rg, h.Name)
		h.V4 = vfC09IPForm(rg, h.V4)
		for _, p := range ports {
			if p < 0 || p > 65535 {
				continue
			}
			for _, proto := range []int{vfC09TCP, vfC09UDP} {
				if rg.Intn(4) == 0 {
					continue
				}
				q := vfC09Query{Name: h.Name, V4: h.V4, V6: h.V6, Proto: proto, Port: uint16(p)}
				if k := q.Key(); !seen[k] {
					seen[k] = true
					out = append(out, q)
				}
			}
		}
	}
	if len(out) > want {
		out = out[:want]
	}
	return out
}

// vfC09History: every query index appears at least three times, at different points, with
// immediate repeats, near repeats and bursts of sibling queries (same host, other port/protocol).
func vfC09History(rg *rand.Rand, n int, extra int) []int {
	h := make([]int, 0, 3*n+extra)
	h = append(h, rg.Perm(n)...)
	for i := 0; i < extra; i++ {
		switch rg.Intn(4) {
		case 0: // repeat something recent
			back := 1 + rg.Intn(6)
			if back > len(h) {
				back = len(h)
			}
			h = append(h, h[len(h)-back])
		case 1: // neighbours in derivation order are siblings (same host, other port/protocol)
			j := rg.Intn(n)
			h = append(h, j, (j+1)%n, j, (j+1)%n)
		default:
			h = append(h, rg.Intn(n))
		}
	}
	// in derivation order: siblings back to back
	for j := 0; j < n; j++ {
		h = append(h, j)
	}
	h = append(h, rg.Perm(n)...)
	return h
}
