//go:build verif

package acl

// C09 — ACL decisions are first-match and independent of lookup history (rule-set layer).
//
// Rule lists are generated in a structured form (c09_model_test.go), rendered to rule-file
// text and pushed through the REAL ParseTextRules + Compile. Every Match answer is compared
//   (a) with the independent reference evaluator built from the structured form, and
//   (b) with every earlier answer to the same query in the same history, and with the answer
//       of a freshly compiled rule set that has never been asked anything ("cold").
// Parts:
//   acl-history     many small rule sets, ~64 distinct derived queries each, histories with
//                   repeats run against cache sizes 1, 4 and 1024 (so > cache-size distinct
//                   queries for 1 and 4)
//   acl-bigcache    fewer rule sets with > 1024 distinct queries against cache size 1024
//   acl-longlist    one synthetic list of > 65 536 rules (thorough: also > 131 072); queries whose
//                   deciding rule sits at positions 0, 1, 254..257, 65 533..65 538, ..., last, each
//                   asked cold and then three more times (cache hits)
//   acl-concurrent  8 goroutines querying one compiled rule set (cache 1/4/64/1024), each
//                   answer compared with the reference; the job runs under -race

import (
	"fmt"
	"net"
	"runtime"
	"sync"
	"sync/atomic"
	"testing"
)

type vfC09Answer struct {
	Outbound string `json:"outbound"` // "" = miss
	Hijack   net.IP `json:"hijack,omitempty"`
}

func vfC09SameAns(a, b vfC09Answer) bool {
	return a.Outbound == b.Outbound && vfC09HijackEq(a.Hijack, b.Hijack)
}

func vfC09Proto(p int) Protocol {
	if p == vfC09TCP {
		return ProtocolTCP
	}
	return ProtocolUDP
}

func vfC09Ask(rs CompiledRuleSet[string], q *vfC09Query) vfC09Answer {
	ob, hij := rs.Match(HostInfo{Name: q.Name, IPv4: q.V4, IPv6: q.V6}, vfC09Proto(q.Proto), q.Port)
	return vfC09Answer{ob, hij}
}

var vfC09ObPool = []string{"ob1", "ob2", "direct", "reject", "my_out", "default", "proxy_3", "x9"}

type vfC09Case struct {
	ID      string
	Rules   []vfC09Rule
	Text    string
	ObNames []string
	Queries []vfC09Query
	Expect  []vfC09Expect
	Long    string // non-empty: a synthetic very long list; replay files describe it instead of carrying it
}

func vfC09NewCase(k *vfKit, id string, nQueries int) *vfC09Case {
	rg := k.Rand(id)
	c := &vfC09Case{ID: id}
	u := vfC09NewUniverse(rg)
	perm := rg.Perm(len(vfC09ObPool))
	for _, j := range perm[:1+rg.Intn(5)] {
		c.ObNames = append(c.ObNames, vfC09ObPool[j])
	}
	c.Rules = vfC09GenRules(rg, u, c.ObNames, 1+rg.Intn(12))
	c.Text = vfC09RenderFile(rg, c.Rules)
	c.Queries = vfC09DeriveQueries(rg, c.Rules, u, nQueries)
	c.Expect = make([]vfC09Expect, len(c.Queries))
	for i := range c.Queries {
		c.Expect[i] = vfC09Expected(c.Rules, &c.Queries[i])
	}
	return c
}

// Compile through the real parser and compiler. A failure is reported as a violation: every
// generated line is inside the documented grammar.
func (c *vfC09Case) compile(k *vfKit, cache int) CompiledRuleSet[string] {
	trs, err := ParseTextRules(c.Text)
	if err != nil {
		k.Violation("acl:documented-rule-rejected", c.replay(nil), "ParseTextRules rejected a documented rule file: %v", err)
		return nil
	}
	if len(trs) != len(c.Rules) {
		k.Violation("acl:parser-rule-count", c.replay(nil), "rule file has %d rules, parser produced %d", len(c.Rules), len(trs))
		return nil
	}
	obs := map[string]string{}
	for _, n := range c.ObNames {
		obs[n] = n
	}
	rs, err := Compile[string](trs, obs, cache, nil)
	if err != nil {
		k.Violation("acl:documented-rule-rejected", c.replay(nil), "Compile rejected a documented rule file: %v", err)
		return nil
	}
	return rs
}

func (c *vfC09Case) replay(extra map[string]any) map[string]any {
	m := map[string]any{"case_id": c.ID, "rules_text": c.Text, "rules": c.Rules, "outbounds": c.ObNames}
	if c.Long != "" {
		m = map[string]any{"case_id": c.ID, "rule_list": c.Long, "rule_count": len(c.Rules), "outbounds": c.ObNames}
	}
	for k, v := range extra {
		m[k] = v
	}
	return m
}

func (c *vfC09Case) want(i int) map[string]any {
	e := c.Expect[i]
	w := map[string]any{"rule_index": e.Rule, "matching_rules": e.Matching}
	if e.Rule >= 0 {
		w["outbound"], w["hijack"], w["rule_text"] = c.Rules[e.Rule].Outbound, c.Rules[e.Rule].Hijack, c.Rules[e.Rule].Text
	} else {
		w["outbound"] = "(miss: zero outbound, no hijack)"
	}
	if e.Ambiguous {
		w["alt_rule_index"] = e.AltRule
	}
	return w
}

// okRef: does the answer equal what the reference prescribes (either reading when ambiguous)?
func (c *vfC09Case) okRef(i int, a vfC09Answer) bool {
	e := c.Expect[i]
	if vfC09AnswerOK(c.Rules, e.Rule, a.Outbound, a.Hijack) {
		return true
	}
	return e.Ambiguous && vfC09AnswerOK(c.Rules, e.AltRule, a.Outbound, a.Hijack)
}

func (c *vfC09Case) countExpectations(k *vfKit) {
	n := map[string]int64{}
	for i := range c.Queries {
		e := c.Expect[i]
		switch {
		case e.Ambiguous:
			n["ev_queries_ambiguous_star"]++
		case e.Rule >= 0:
			n["ev_queries_hitting_a_rule"]++
			k.Nontrivial(c.Text + "\x00" + c.Queries[i].Key())
		default:
			n["ev_queries_missing"]++
		}
		if e.Matching >= 2 {
			n["ev_queries_order_decides"]++
		}
		if e.Rule > 0 {
			n["ev_queries_decided_by_later_rule"]++
		}
	}
	for name, v := range n {
		k.Count(name, v)
	}
}

// vfC09Guarded runs f and reports whether it panicked (the caller then re-runs it under
// k.Guard to record the violation with the full replay document).
func vfC09Guarded(f func()) (panicked bool) {
	defer func() {
		if recover() != nil {
			panicked = true
		}
	}()
	f()
	return false
}

// runHistory asks the queries in history order against one compiled rule set.
func (c *vfC09Case) runHistory(k *vfKit, cache int, hist []int, first []*vfC09Answer) (bad int) {
	rs := c.compile(k, cache)
	if rs == nil {
		return 1
	}
	local := make([]*vfC09Answer, len(c.Queries)) // first answer from THIS rule set
	var nCalls, nRepeats int64                    // flushed once: the kit's mutex is shared by all workers
	defer func() {
		k.Count("ev_match_calls", nCalls)
		k.Count("ev_repeat_compared", nRepeats)
	}()
	for pos, qi := range hist {
		q := &c.Queries[qi]
		var a vfC09Answer
		if vfC09Guarded(func() { a = vfC09Ask(rs, q) }) {
			k.Guard("acl:Match-panic", c.replay(map[string]any{"query": q, "cache_size": cache, "history_pos": pos}), func() { a = vfC09Ask(rs, q) })
			return bad + 1
		}
		nCalls++
		if !c.okRef(qi, a) {
			k.Violation("acl:answer-differs-from-reference", c.replay(map[string]any{
				"query": q, "cache_size": cache, "history_pos": pos, "history": hist[:pos+1], "expected": c.want(qi), "got": a}),
				"cache=%d pos=%d query %s: got (outbound=%q hijack=%v), reference says %v", cache, pos, q.Key(), a.Outbound, a.Hijack, c.want(qi))
			if bad++; bad >= 3 {
				return
			}
		}
		if local[qi] != nil {
			nRepeats++
			if !vfC09SameAns(*local[qi], a) {
				k.Violation("acl:answer-depends-on-history", c.replay(map[string]any{
					"query": q, "cache_size": cache, "history_pos": pos, "history": hist[:pos+1], "first_answer": local[qi], "got": a, "expected": c.want(qi)}),
					"cache=%d: query %s answered (outbound=%q hijack=%v) at history position %d but (outbound=%q hijack=%v) earlier in the same history",
					cache, q.Key(), a.Outbound, a.Hijack, pos, local[qi].Outbound, local[qi].Hijack)
				if bad++; bad >= 3 {
					return
				}
			}
		} else {
			aa := a
			local[qi] = &aa
		}
		// across cache sizes the answer must not change either
		if first[qi] == nil {
			aa := a
			first[qi] = &aa
		} else if !vfC09SameAns(*first[qi], a) {
			k.Violation("acl:answer-depends-on-history", c.replay(map[string]any{
				"query": q, "cache_size": cache, "history_pos": pos, "first_answer": first[qi], "got": a, "expected": c.want(qi)}),
				"query %s answered (outbound=%q hijack=%v) with cache size %d but (outbound=%q hijack=%v) in another history of the same rule set",
				q.Key(), a.Outbound, a.Hijack, cache, first[qi].Outbound, first[qi].Hijack)
			if bad++; bad >= 3 {
				return
			}
		}
	}
	return
}

// cold: a fresh rule set, one question, compared with the warm answers.
func (c *vfC09Case) runCold(k *vfKit, first []*vfC09Answer, step int) {
	var nCold int64
	defer func() { k.Count("ev_cold_lookups", nCold) }()
	for qi := 0; qi < len(c.Queries); qi += step {
		rs := c.compile(k, 4)
		if rs == nil {
			return
		}
		a := vfC09Ask(rs, &c.Queries[qi])
		nCold++
		if !c.okRef(qi, a) {
			k.Violation("acl:answer-differs-from-reference", c.replay(map[string]any{"query": c.Queries[qi], "cold": true, "expected": c.want(qi), "got": a}),
				"cold lookup of %s: got (outbound=%q hijack=%v), reference says %v", c.Queries[qi].Key(), a.Outbound, a.Hijack, c.want(qi))
			return
		}
		if first[qi] != nil && !vfC09SameAns(*first[qi], a) {
			k.Violation("acl:answer-depends-on-history", c.replay(map[string]any{"query": c.Queries[qi], "cold_answer": a, "warm_answer": first[qi], "expected": c.want(qi)}),
				"query %s: a rule set never asked before says (outbound=%q hijack=%v), the one with a history said (outbound=%q hijack=%v)",
				c.Queries[qi].Key(), a.Outbound, a.Hijack, first[qi].Outbound, first[qi].Hijack)
			return
		}
	}
}

func vfC09RunSeq(k *vfKit, id string, nQueries int, caches []int, coldStep int, sample bool) {
	c := vfC09NewCase(k, id, nQueries)
	k.Eval()
	c.countExpectations(k)
	k.Count("ev_rule_sets", 1)
	k.Count("ev_rules", int64(len(c.Rules)))
	rg := k.Rand(id + "/history")
	first := make([]*vfC09Answer, len(c.Queries))
	for _, cs := range caches {
		hist := vfC09History(rg, len(c.Queries), len(c.Queries)/2)
		if len(c.Queries) > cs {
			k.Count("ev_histories_exceeding_cache", 1)
		}
		if c.runHistory(k, cs, hist, first) > 0 {
			return
		}
	}
	c.runCold(k, first, coldStep)
	if sample && len(c.Queries) > 0 {
		i := 0
		for j := range c.Queries { // prefer a sample decided by a later rule
			if c.Expect[j].Rule > 0 && !c.Expect[j].Ambiguous {
				i = j
				break
			}
		}
		k.Sample(map[string]any{"case_id": id, "rules_text": c.Text, "distinct_queries": len(c.Queries),
			"cache_sizes": caches, "example_query": c.Queries[i], "example_expected": c.want(i), "example_got": first[i]})
	}
}

// vfC09Each runs f(0..n-1) on a few workers; cases are independent (own PRNG, own rule sets)
// and the kit is thread-safe, so the set of cases executed does not depend on the schedule.
func vfC09Each(n int, f func(i int)) {
	workers := runtime.GOMAXPROCS(0) / 2
	if workers < 1 {
		workers = 1
	}
	if workers > 4 {
		workers = 4
	}
	var next int64 = -1
	var wg sync.WaitGroup
	for w := 0; w < workers; w++ {
		wg.Add(1)
		go func() {
			defer wg.Done()
			for {
				i := int(atomic.AddInt64(&next, 1))
				if i >= n {
					return
				}
				f(i)
			}
		}()
	}
	wg.Wait()
}

func TestVerifC09History(t *testing.T) {
	k := vfNewKit(t, "C09", "acl-history")
	defer k.Finish()
	nSets := k.N(300, 10000)
	nQ := k.N(64, 160) // distinct queries; the history asks each >= 3 times (~200 / ~500 lookups)
	cold := k.N(2, 4)
	vfC09Each(nSets, func(i int) {
		id := fmt.Sprintf("rs-%d", i)
		if rc := k.ReplayCase(); rc != "" && rc != id {
			return
		}
		vfC09RunSeq(k, id, nQ, []int{1, 4, 1024}, cold, i < 2)
	})
}

func TestVerifC09BigCache(t *testing.T) {
	k := vfNewKit(t, "C09", "acl-bigcache")
	defer k.Finish()
	nSets := k.N(6, 80)
	for i := 0; i < nSets; i++ {
		id := fmt.Sprintf("big-%d", i)
		if rc := k.ReplayCase(); rc != "" && rc != id {
			continue
		}
		vfC09RunSeq(k, id, 1400, []int{1024}, 16, i < 1)
	}
}

func TestVerifC09Concurrent(t *testing.T) {
	k := vfNewKit(t, "C09", "acl-concurrent")
	defer k.Finish()
	nSets := k.N(24, 240)
	per := k.N(1500, 4000)
	const workers = 8
	for i := 0; i < nSets; i++ {
		id := fmt.Sprintf("cc-%d", i)
		if rc := k.ReplayCase(); rc != "" && rc != id {
			continue
		}
		c := vfC09NewCase(k, id, 120)
		k.Eval()
		c.countExpectations(k)
		cs := []int{1, 4, 64, 1024}[i%4]
		rs := c.compile(k, cs)
		if rs == nil || len(c.Queries) == 0 {
			continue
		}
		type bad struct {
			worker, n, qi int
			got           vfC09Answer
		}
		var mu sync.Mutex
		var bads []bad
		var wg sync.WaitGroup
		start := make(chan struct{})
		for w := 0; w < workers; w++ {
			wrg := k.Rand(fmt.Sprintf("%s/w%d", id, w))
			wg.Add(1)
			go func(w int) {
				defer wg.Done()
				<-start
				qi := wrg.Intn(len(c.Queries))
				for n := 0; n < per; n++ {
					switch wrg.Intn(3) {
					case 0: // sibling of the previous query (same host, other port/protocol)
						qi = (qi + 1) % len(c.Queries)
					case 1:
						qi = wrg.Intn(len(c.Queries))
					}
					a := vfC09Ask(rs, &c.Queries[qi])
					if !c.okRef(qi, a) {
						mu.Lock()
						if len(bads) < 3 {
							bads = append(bads, bad{w, n, qi, a})
						}
						mu.Unlock()
					}
				}
			}(w)
		}
		close(start)
		wg.Wait()
		k.Count("ev_match_calls", int64(workers*per))
		k.Count("ev_concurrent_rule_sets", 1)
		for _, b := range bads {
			k.Violation("acl:concurrent-answer-differs-from-reference", c.replay(map[string]any{
				"query": c.Queries[b.qi], "cache_size": cs, "worker": b.worker, "nth_lookup": b.n, "expected": c.want(b.qi), "got": b.got}),
				"cache=%d, 8 goroutines: query %s got (outbound=%q hijack=%v), reference says %v",
				cs, c.Queries[b.qi].Key(), b.got.Outbound, b.got.Hijack, c.want(b.qi))
		}
		if i == 0 {
			k.Sample(map[string]any{"case_id": id, "rules_text": c.Text, "goroutines": workers, "lookups_per_goroutine": per, "cache_size": cs})
		}
	}
}

// vfC09LongCase builds a list of n rules in which rule i is the only rule covering "its" host:
// an IPv4 single-address rule (cheap to scan), at a few positions an exact-name rule instead.
// Outbounds cycle, and three rules in four carry a hijack address that encodes i, so the answer
// names the deciding rule. The last rule is `all` for tcp only (udp requests for unknown hosts miss).
// Expectations: every address in the list is distinct (checked while building), so the deciding
// rule of the probe aimed at rule i is i itself (plus the final `all` rule as a second match for
// tcp); three probes are cross-checked against the O(n) reference evaluator used everywhere else.
func vfC09LongCase(k *vfKit, id string, n int) *vfC09Case {
	rg := k.Rand(id)
	c := &vfC09Case{ID: id, ObNames: []string{"ob1", "ob2", "direct", "proxy_3", "x9"}}
	first := byte(11 + rg.Intn(100))
	c.Long = fmt.Sprintf("rule i (0-based, i < %d): outbound %v[i%%5], address %d.(i>>16).(i>>8&255).(i&255) -- or the exact name h<i>.long.test "+
		"where i%%65536 is 255, 65535 or 2 -- hijack 172.(16+(i>>16)).(i>>8&255).(i&255) unless i%%4==0; last rule: ob2(all,tcp)", n-1, c.ObNames, first)
	c.Rules = make([]vfC09Rule, n)
	var sb []byte
	distinct := make(map[string]struct{}, n)
	for i := 0; i < n-1; i++ {
		r := &c.Rules[i]
		r.Outbound = c.ObNames[i%5]
		if m := i % 65536; m == 255 || m == 65535 || m == 2 {
			r.Kind, r.Pattern = vfC09Exact, fmt.Sprintf("h%d.long.test", i)
			r.Text = r.Outbound + "(" + r.Pattern
		} else {
			r.Kind, r.IP = vfC09IP, net.IP{first, byte(i >> 16), byte(i >> 8), byte(i)}
			r.Text = r.Outbound + "(" + r.IP.String()
		}
		if i%4 != 0 {
			r.Hijack = net.IP{172, byte(16 + i>>16), byte(i >> 8), byte(i)}
			r.Text += ",*," + r.Hijack.String()
		}
		r.Text += ")"
		distinct[r.Pattern+"|"+string(r.IP)] = struct{}{}
		sb = append(sb, r.Text...)
		sb = append(sb, '\n')
	}
	last := &c.Rules[n-1]
	last.Kind, last.Outbound, last.Proto, last.Text = vfC09All, "ob2", vfC09TCP, "ob2(all,tcp)"
	sb = append(sb, last.Text...)
	sb = append(sb, '\n')
	c.Text = string(sb)
	var probes []int
	for base := 0; base < n; base += 65536 {
		for _, d := range []int{-3, -2, -1, 0, 1, 2, 254, 255, 256, 257} {
			if i := base + d; i >= 0 && i < n-1 {
				probes = append(probes, i)
			}
		}
	}
	probes = append(probes, n-3, n-2)
	if len(distinct) != n-1 {
		k.t.Fatalf("harness error: long list has %d distinct addresses for %d rules", len(distinct), n-1)
	}
	for pi, i := range probes {
		r := &c.Rules[i]
		q := vfC09Query{Proto: 1 + pi%2, Port: uint16(1 + rg.Intn(65535))}
		if r.Kind == vfC09Exact {
			q.Name = r.Pattern
		} else {
			q.V4 = r.IP
		}
		c.Queries = append(c.Queries, q)
		e := vfC09Expect{Rule: i, AltRule: i, Matching: 1}
		if q.Proto == vfC09TCP {
			e.Matching = 2 // the final `all` rule matches as well
		}
		c.Expect = append(c.Expect, e)
	}
	// nobody's host: decided by the last rule (tcp) or by no rule at all (udp)
	c.Queries = append(c.Queries,
		vfC09Query{Name: "nobody.long.test", V4: net.IP{first, 255, 255, 255}, Proto: vfC09TCP, Port: 443},
		vfC09Query{Name: "nobody.long.test", V4: net.IP{first, 255, 255, 255}, Proto: vfC09UDP, Port: 443})
	c.Expect = append(c.Expect, vfC09Expect{Rule: n - 1, AltRule: n - 1, Matching: 1}, vfC09Expect{Rule: -1, AltRule: -1})
	for _, qi := range []int{rg.Intn(len(probes)), len(probes) - 1, len(c.Queries) - 1 - rg.Intn(2)} {
		if e, _ := vfC09Ref(c.Rules, &c.Queries[qi], true); e != c.Expect[qi].Rule {
			k.t.Fatalf("harness error: long-list query %d: analytic deciding rule %d, reference evaluator %d", qi, c.Expect[qi].Rule, e)
		}
	}
	return c
}

func TestVerifC09LongList(t *testing.T) {
	k := vfNewKit(t, "C09", "acl-longlist")
	defer k.Finish()
	sizes := []int{65536 + 1500}
	if !k.Quick() {
		sizes = append(sizes, 2*65536+700)
	}
	for ci, n := range sizes {
		id := fmt.Sprintf("long-%d", ci)
		if rc := k.ReplayCase(); rc != "" && rc != id {
			continue
		}
		c := vfC09LongCase(k, id, n)
		k.Eval()
		c.countExpectations(k)
		k.Count("ev_long_rule_lists", 1)
		k.Count("ev_rules", int64(n))
		rg := k.Rand(id + "/history")
		nq := len(c.Queries)
		var hist []int
		for qi := 0; qi < nq; qi++ { // cold, then immediately again
			hist = append(hist, qi, qi)
		}
		for qi := 0; qi < nq; qi++ {
			hist = append(hist, qi)
		}
		hist = append(hist, rg.Perm(nq)...)
		first := make([]*vfC09Answer, nq)
		c.runHistory(k, 64, hist, first) // cache larger than the query set: every repeat is a cache hit
		deep := 0
		for qi := range c.Queries {
			if c.Expect[qi].Rule >= 65535 {
				deep++
			}
		}
		k.Count("ev_queries_decided_beyond_rule_65535", int64(deep))
		k.Sample(map[string]any{"case_id": id, "rule_list": c.Long, "rule_count": n, "distinct_queries": nq,
			"lookups_per_cache_size": len(hist), "cache_sizes": []int{64},
			"example_query": c.Queries[nq/2], "example_expected": c.want(nq / 2), "example_got": first[nq/2]})
	}
}
