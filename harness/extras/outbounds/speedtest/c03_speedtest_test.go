//go:build verif

package speedtest

// C03 — peer-controlled bytes never crash the process: the built-in speed test.
//
//   spd-server: server(conn) (the handler behind the "@SpeedTest" pseudo connection) over a scripted
//               net.Conn: any request bytes, truncated at every offset, sizes 0/1/64Ki+-1/2^31/2^32-1,
//               upload bodies shorter and longer than announced. The scripted peer stops reading
//               after 256 KiB (its Write fails), so a 4 GiB download request ends there. A sample goes
//               through NewServerConn (net.Pipe + the handler in its own goroutine; input logged
//               first). After hostile requests a well-formed download and upload are served exactly.
//   spd-client: client-side readers (readDownloadResponse, readUploadResponse, readUploadSummary)
//               and Client.Download / Client.Upload against a scripted server that sends arbitrary
//               bytes: status bytes, message lengths 0/1/65535 with shorter bodies, missing data.

import (
	"bytes"
	"encoding/binary"
	"errors"
	"fmt"
	"io"
	"net"
	"testing"
	"time"
)

type vfC03Timeout struct{}

func (vfC03Timeout) Error() string   { return "c03: i/o timeout" }
func (vfC03Timeout) Timeout() bool   { return true }
func (vfC03Timeout) Temporary() bool { return true }

// vfC03SConn is the scripted peer: Read hands out the script, then endErr; Write accepts up to
// `budget` bytes (keeps the first 64 KiB), then fails like a closed connection.
type vfC03SConn struct {
	rd      vfC03Reader
	budget  int64
	written int64
	out     []byte
	closed  bool
}

func (c *vfC03SConn) Read(p []byte) (int, error) { return c.rd.Read(p) }
func (c *vfC03SConn) Write(p []byte) (int, error) {
	if c.closed || c.written+int64(len(p)) > c.budget {
		return 0, io.ErrClosedPipe
	}
	c.written += int64(len(p))
	if len(c.out) < 65536 {
		c.out = append(c.out, p...)
	}
	return len(p), nil
}
func (c *vfC03SConn) Close() error                       { c.closed = true; return nil }
func (c *vfC03SConn) LocalAddr() net.Addr                { return &net.TCPAddr{IP: net.IPv4(127, 0, 0, 1), Port: 1} }
func (c *vfC03SConn) RemoteAddr() net.Addr               { return &net.TCPAddr{IP: net.IPv4(127, 0, 0, 1), Port: 2} }
func (c *vfC03SConn) SetDeadline(t time.Time) error      { return nil }
func (c *vfC03SConn) SetReadDeadline(t time.Time) error  { return nil }
func (c *vfC03SConn) SetWriteDeadline(t time.Time) error { return nil }

func vfC03NewSConn(script []byte, mode int, end error, budget int64) *vfC03SConn {
	return &vfC03SConn{rd: vfC03Reader{data: script, mode: mode, endErr: end}, budget: budget}
}

func vfC03Req(typ byte, l uint32, body []byte) []byte {
	var b [5]byte
	b[0] = typ
	binary.BigEndian.PutUint32(b[1:], l)
	return append(b[:], body...)
}

const vfC03PeerBudget = 1 << 18 // the scripted peer stops reading after 256 KiB

func vfC03ServerCanary(r *vfC03Run, entry string, n int) {
	r.Canary(entry, "", map[string]any{"download": 1000 + n, "upload": 100 + n}, func() error {
		dl := uint32(1000 + n)
		c := vfC03NewSConn(vfC03Req(typeDownload, dl, nil), n%4, io.EOF, vfC03PeerBudget)
		if err := server(c); err != nil {
			return fmt.Errorf("download of %d bytes: %v", dl, err)
		}
		if c.written != int64(5+dl) || !bytes.Equal(c.out[:5], []byte{0, 0, 2, 'O', 'K'}) || !c.closed {
			return fmt.Errorf("download of %d bytes: server wrote %d bytes starting % x, closed=%v", dl, c.written, c.out[:5], c.closed)
		}
		ul := uint32(100 + n)
		c = vfC03NewSConn(vfC03Req(typeUpload, ul, make([]byte, ul)), n%4, io.EOF, vfC03PeerBudget)
		if err := server(c); err != nil {
			return fmt.Errorf("upload of %d bytes: %v", ul, err)
		}
		if c.written != 5+8 || !bytes.Equal(c.out[:5], []byte{0, 0, 2, 'O', 'K'}) || binary.BigEndian.Uint32(c.out[9:13]) != ul {
			return fmt.Errorf("upload of %d bytes: server answered % x", ul, c.out)
		}
		return nil
	})
}

func TestVerifC03SpeedtestServer(t *testing.T) {
	k := vfNewKit(t, "C03", "spd-server")
	defer k.Finish()
	r := vfC03New(k)
	defer r.Close()
	const entry = "speedtest:server"
	r.Entry(entry, func(b []byte) {
		for _, mode := range []int{0, 1 + len(b)%3} {
			c := vfC03NewSConn(b, mode, io.EOF, vfC03PeerBudget)
			if err := server(c); err != nil {
				k.Count("ev_server_error", 1)
			} else {
				k.Count("ev_server_ok", 1)
			}
			k.Count("bytes_served", c.written)
			if !c.closed {
				panic("server returned without closing the connection")
			}
		}
	})
	if r.Replay() {
		return
	}
	n := 0
	emit := func(b []byte) {
		r.Do(entry, b)
		if n++; n%500 == 0 {
			vfC03ServerCanary(r, entry, n/500)
		}
	}
	vfC03ServerRequests(k, "gen", emit)
	vfC03ServerCanary(r, entry, 0)
	k.Sample(map[string]any{"entry": entry, "inputs": k.Counter("ev_inputs"), "bytes_served": k.Counter("bytes_served")})
}

// vfC03ServerRequests: the request workload shared by spd-server and spd-pipe.
func vfC03ServerRequests(k *vfKit, rngName string, emit func([]byte)) {
	rng := k.Rand(rngName)
	sizes := []uint32{0, 1, 2, 255, 65535, 65536, 65537, 131072, 1<<18 - 5, 1<<18 - 4, 1 << 18, 1<<31 - 1, 1 << 31, 1<<32 - 1}
	// (a) all lengths 0..64 of structured prefixes
	var heads [][]byte
	for _, typ := range []byte{0, typeDownload, typeUpload, 3, 0x7f, 0xff} {
		heads = append(heads, []byte{typ})
		for _, s := range []uint32{0, 1, 10, 59, 60, 61, 65536, 1<<32 - 1} {
			heads = append(heads, vfC03Req(typ, s, nil))
		}
	}
	vfC03Prefixes(rng, heads, 64, emit)
	// (b) every size for both request types, truncated at every offset; upload bodies of length l-1, l, l+1, l/2
	for _, typ := range []byte{typeDownload, typeUpload} {
		for _, s := range sizes {
			req := vfC03Req(typ, s, nil)
			for cut := 0; cut <= len(req); cut++ {
				emit(req[:cut])
			}
			if typ == typeUpload && s <= 131072 {
				for _, bl := range []int64{int64(s) - 1, int64(s), int64(s) + 1, int64(s) / 2} {
					if bl >= 0 {
						emit(vfC03Req(typ, s, make([]byte, bl)))
					}
				}
			}
			if typ == typeUpload && s > 131072 {
				emit(vfC03Req(typ, s, make([]byte, 100000)))
			}
		}
	}
	vfC03Mutations(rng, vfC03Req(typeUpload, 300, vfC03Fill(rng, 2, 300)), []vfC03Field{{0, 1, "u8"}, {1, 4, "be32"}}, vfC03LenValues(300, 65536, 1<<18), k.N(200, 4000), emit)
	vfC03Mutations(rng, vfC03Req(typeDownload, 300, nil), []vfC03Field{{0, 1, "u8"}, {1, 4, "be32"}}, vfC03LenValues(300, 65536, 1<<18), k.N(200, 4000), emit)
	// (c) random bytes
	vfC03Random(rng, k.N(2000, 50000), 2000, emit)
}

// TestVerifC03SpeedtestPipe: a sample of the same requests through the public constructor — the
// handler runs in its own goroutine behind a net.Pipe, so a panic there is process-fatal; the
// request is in inputs-spd-pipe.log before it is written.
func TestVerifC03SpeedtestPipe(t *testing.T) {
	k := vfNewKit(t, "C03", "spd-pipe")
	defer k.Finish()
	r := vfC03New(k)
	defer r.Close()
	const entryPipe = "speedtest:NewServerConn"
	// through the public constructor: the handler runs in its own goroutine behind a net.Pipe
	r.Entry(entryPipe, func(b []byte) {
		c := NewServerConn()
		got := make(chan int64, 1)
		go func() {
			buf := make([]byte, 70000)
			var total int64
			for total < vfC03PeerBudget {
				n, err := c.Read(buf)
				total += int64(n)
				if err != nil {
					break
				}
			}
			_ = c.Close() // peer goes away (also after the budget)
			got <- total
		}()
		_, _ = c.Write(b) // returns when the handler has consumed the request or has gone
		// will the handler finish by itself? (download: yes; upload: only with a complete body)
		finishes := len(b) >= 5 && (b[0] == typeDownload || (b[0] == typeUpload && uint64(len(b)-5) >= uint64(binary.BigEndian.Uint32(b[1:5]))))
		if !finishes {
			_ = c.Close()
		}
		k.Count("bytes_served", <-got)
	})
	if r.Replay() {
		return
	}
	n := 0
	every := k.N(20, 5)
	vfC03ServerRequests(k, "gen", func(b []byte) {
		if n++; n%every != 0 {
			return
		}
		r.Do(entryPipe, b)
		if n%(every*50) != 0 {
			return
		}
		// service continues: a fresh pseudo connection serves a well-formed download completely
		r.Canary(entryPipe, "", "download of 5000 bytes", func() error {
			c := NewServerConn()
			defer c.Close()
			go func() { _, _ = c.Write(vfC03Req(typeDownload, 5000, nil)) }()
			got, err := io.ReadAll(c)
			if err != nil || len(got) != 5+5000 || !bytes.Equal(got[:5], []byte{0, 0, 2, 'O', 'K'}) {
				return fmt.Errorf("got %d bytes (err=%v), want 5005 starting 00 00 02 4f 4b", len(got), err)
			}
			return nil
		})
	})
	k.Sample(map[string]any{"entry": entryPipe, "inputs": k.Counter("ev_inputs"), "bytes_served": k.Counter("bytes_served")})
}

func vfC03Resp(status byte, msgLen uint16, msg []byte, rest []byte) []byte {
	return vfC03Cat([]byte{status, byte(msgLen >> 8), byte(msgLen)}, msg, rest)
}

func TestVerifC03SpeedtestClient(t *testing.T) {
	k := vfNewKit(t, "C03", "spd-client")
	defer k.Finish()
	r := vfC03New(k)
	defer r.Close()
	const entryR = "speedtest:client-readers"
	const entryD = "speedtest:Client.Download"
	const entryU = "speedtest:Client.Upload"
	r.Entry(entryR, func(b []byte) {
		for _, mode := range []int{0, 1 + len(b)%3} {
			if _, _, err := readDownloadResponse(&vfC03Reader{data: b, mode: mode, endErr: io.EOF}); err == nil {
				k.Count("ev_accepted", 1)
			} else {
				k.Count("ev_rejected", 1)
			}
			_, _, _ = readUploadResponse(&vfC03Reader{data: b, mode: mode, endErr: io.EOF})
			_, _, _ = readUploadSummary(&vfC03Reader{data: b, mode: mode, endErr: io.EOF})
			_, _ = readDownloadRequest(&vfC03Reader{data: b, mode: mode, endErr: io.EOF})
			_, _ = readUploadRequest(&vfC03Reader{data: b, mode: mode, endErr: io.EOF})
		}
	})
	cb := func(d time.Duration, n uint64, done bool) {}
	dlSizes := []uint32{0, 1, 100, 70000, 1<<32 - 1}
	r.Entry(entryD, func(b []byte) {
		// size-based mode: the scripted server's stream ends with EOF
		c := &Client{Conn: vfC03NewSConn(b, len(b)%4, io.EOF, vfC03PeerBudget)}
		if err := c.Download(dlSizes[len(b)%len(dlSizes)], 0, cb); err == nil {
			k.Count("ev_client_ok", 1)
		} else {
			k.Count("ev_client_error", 1)
		}
		// time-based mode: the read deadline "fires" when the script is exhausted
		c = &Client{Conn: vfC03NewSConn(b, len(b)%3, vfC03Timeout{}, vfC03PeerBudget)}
		_ = c.Download(0, time.Hour, cb)
	})
	r.Entry(entryU, func(b []byte) {
		c := &Client{Conn: vfC03NewSConn(b, len(b)%4, io.EOF, vfC03PeerBudget)}
		if err := c.Upload(dlSizes[len(b)%len(dlSizes)], 0, cb); err == nil {
			k.Count("ev_client_ok", 1)
		} else {
			k.Count("ev_client_error", 1)
		}
	})
	if r.Replay() {
		return
	}
	rng := k.Rand("gen")
	n := 0
	canary := func() {
		n++
		size := uint32(1000 + n)
		r.Canary(entryD, "", map[string]any{"size": size}, func() error {
			var total uint64
			var fin bool
			c := &Client{Conn: vfC03NewSConn(vfC03Resp(0, 2, []byte("OK"), make([]byte, size)), n%4, io.EOF, vfC03PeerBudget)}
			if err := c.Download(size, 0, func(d time.Duration, nb uint64, done bool) { total, fin = nb, done }); err != nil || !fin || total != uint64(size) {
				return fmt.Errorf("download of %d bytes from a well-behaved server: err=%v done=%v total=%d", size, err, fin, total)
			}
			sc := vfC03NewSConn(vfC03Cat(vfC03Resp(0, 2, []byte("OK"), nil), []byte{0, 0, 0, 5}, []byte{byte(size >> 24), byte(size >> 16), byte(size >> 8), byte(size)}), n%4, io.EOF, vfC03PeerBudget)
			c = &Client{Conn: sc}
			total, fin = 0, false
			if err := c.Upload(size, 0, func(d time.Duration, nb uint64, done bool) { total, fin = nb, done }); err != nil || !fin || total != uint64(size) || sc.written != int64(5+size) {
				return fmt.Errorf("upload of %d bytes to a well-behaved server: err=%v done=%v reported=%d written=%d", size, err, fin, total, sc.written)
			}
			c = &Client{Conn: vfC03NewSConn(vfC03Resp(1, 6, []byte("denied"), nil), 0, io.EOF, vfC03PeerBudget)}
			if err := c.Download(10, 0, cb); err == nil {
				return errors.New("a rejected download was reported as success")
			}
			return nil
		})
	}
	cnt := 0
	emit := func(b []byte) {
		r.Do(entryR, b)
		// Download/Upload allocate a 64 KiB chunk buffer and start a reporter goroutine per call: quick runs them on every 3rd input
		if cnt++; cnt%k.N(3, 1) == 0 {
			r.Do(entryD, b)
			r.Do(entryU, b)
		}
		if cnt%1000 == 0 {
			canary()
		}
	}
	var heads [][]byte
	for _, st := range []byte{0, 1, 2, 0xff} {
		heads = append(heads, []byte{st})
		for _, ml := range []uint16{0, 1, 2, 60, 61, 62, 256, 65535} {
			heads = append(heads, vfC03Resp(st, ml, nil, nil))
		}
	}
	vfC03Prefixes(rng, heads, 64, emit)
	for _, seed := range [][]byte{
		vfC03Resp(0, 2, []byte("OK"), vfC03Fill(rng, 2, 100)),
		vfC03Cat(vfC03Resp(0, 2, []byte("OK"), nil), []byte{0, 0, 0, 5, 0, 0, 0, 100}),
		vfC03Resp(1, 20, []byte("server says no thanks"), nil),
	} {
		vfC03Mutations(rng, seed, []vfC03Field{{0, 1, "u8"}, {1, 2, "be16"}}, vfC03LenValues(2, 100, 70000), k.N(200, 4000), emit)
	}
	for _, ml := range []uint16{0, 1, 65534, 65535} {
		emit(vfC03Resp(0, ml, vfC03Fill(rng, 2, int(ml)), vfC03Fill(rng, 2, 70001)))
		emit(vfC03Resp(0, ml, vfC03Fill(rng, 2, int(ml)/2), nil))
	}
	vfC03Random(rng, k.N(1500, 40000), 2000, emit)
	canary()
	k.Sample(map[string]any{"entries": []string{entryR, entryD, entryU}, "inputs": k.Counter("ev_inputs")})
}
