//go:build verif

package outbounds

// C08, second layer — the policy adapter: CheckUDP walks the same ACL as UDP().
//
// Real aclEngine (NewACLEngineFromString) behind the real PluggableOutboundAdapter, optionally
// with a fake resolver stage in front (so that IP / CIDR rules and hijack addresses take part).
// Sub-outbounds are fakes that record which of them was consulted, by which method and with
// which AddrEx, and that answer CheckUDP and UDP consistently (some reject a few hosts themselves).
// For random rule texts and a grid of destinations (incl. malformed ones):
//   agreement   adapter.CheckUDP(addr) rejects  <=>  adapter.UDP(addr) rejects
//   same walk   both calls end at the same sub-outbound with the same host/port (after hijack)
//   stability   the verdict for addr is the same when asked again later, after more lookups than
//               the engine's LRU (1024) holds, in either order of CheckUDP / UDP
//   reference   the outbound chosen (or "reject"), and the host handed to it, equal a reference
//               first-match evaluation of the rule list written from the documented ACL semantics:
//               proto/port filter, exact / wildcard / suffix names compared case-insensitively,
//               IP and CIDR rules applied to WHATEVER address the resolver stage delivered -- the
//               ResolveInfo contract allows an error together with an address (one family failed,
//               the other resolved), and the fake resolver produces such partial failures as well
//               as complete ones -- hijack address replaces the host, no match = default outbound.
//               Agreement alone would still hold if CheckUDP and UDP were wrong in the same way.

import (
	"fmt"
	"math/rand"
	"net"
	"strconv"
	"strings"
	"testing"
)

type vfC08Call struct {
	Ob     string
	Method string
	Host   string
	Port   uint16
	IP4    string
	IP6    string
}

type vfC08Rec struct{ calls []vfC08Call }

type vfC08Ob struct {
	name   string
	rec    *vfC08Rec
	reject func(a *AddrEx) bool
}

type vfC08Conn struct{ ob string }

func (c *vfC08Conn) ReadFrom(b []byte) (int, *AddrEx, error)     { return 0, nil, fmt.Errorf("vf: closed") }
func (c *vfC08Conn) WriteTo(b []byte, addr *AddrEx) (int, error) { return len(b), nil }
func (c *vfC08Conn) Close() error                                { return nil }

func (o *vfC08Ob) note(method string, a *AddrEx) {
	c := vfC08Call{Ob: o.name, Method: method, Host: a.Host, Port: a.Port}
	if a.ResolveInfo != nil {
		c.IP4, c.IP6 = a.ResolveInfo.IPv4.String(), a.ResolveInfo.IPv6.String()
	}
	o.rec.calls = append(o.rec.calls, c)
}

func (o *vfC08Ob) TCP(a *AddrEx) (net.Conn, error) { return nil, fmt.Errorf("vf: tcp not used") }

func (o *vfC08Ob) UDP(a *AddrEx) (UDPConn, error) {
	o.note("UDP", a)
	if o.reject != nil && o.reject(a) {
		return nil, fmt.Errorf("vf: %s refuses %s", o.name, a.String())
	}
	return &vfC08Conn{o.name}, nil
}

func (o *vfC08Ob) CheckUDP(a *AddrEx) error {
	o.note("CheckUDP", a)
	if o.reject != nil && o.reject(a) {
		return fmt.Errorf("vf: %s refuses %s", o.name, a.String())
	}
	return nil
}

// vfC08Resolver is a resolver stage like the standard / DoH resolvers, with a fixed table instead
// of DNS. Like them it may deliver an error TOGETHER with an address (one family failed).
type vfC08Resolver struct {
	next  PluggableOutbound
	table map[string]vfC08Res
}

type vfC08Res struct {
	ip4, ip6 net.IP
	err      bool
}

func vfC08Lookup(table map[string]vfC08Res, host string) vfC08Res {
	if ip := net.ParseIP(host); ip != nil {
		if ip4 := ip.To4(); ip4 != nil {
			return vfC08Res{ip4: ip4}
		}
		return vfC08Res{ip6: ip}
	}
	if e, ok := table[strings.ToLower(host)]; ok {
		return e
	}
	return vfC08Res{err: true}
}

func (r *vfC08Resolver) resolve(a *AddrEx) {
	e := vfC08Lookup(r.table, a.Host)
	a.ResolveInfo = &ResolveInfo{IPv4: e.ip4, IPv6: e.ip6}
	if e.err {
		a.ResolveInfo.Err = fmt.Errorf("vf: lookup of one or both families failed")
	}
}
func (r *vfC08Resolver) TCP(a *AddrEx) (net.Conn, error) { r.resolve(a); return r.next.TCP(a) }
func (r *vfC08Resolver) UDP(a *AddrEx) (UDPConn, error)  { r.resolve(a); return r.next.UDP(a) }
func (r *vfC08Resolver) CheckUDP(a *AddrEx) error        { r.resolve(a); return r.next.CheckUDP(a) }

var vfC08Hosts = []string{
	"a.test", "b.test", "x.a.test", "y.x.a.test", "xa.test", "a.test.evil", "c.example", "deep.c.example", "EXAMPLE.org", "example.org",
	"10.1.2.3", "10.1.3.4", "10.2.0.1", "192.168.0.1", "8.8.8.8", "fd00::1", "fd00::2:1", "2001:db8::5", "nodot", "xn--bcher-kva.test",
	"p4.b.test", "p6.b.test", "p4.c.example", "p6.other", "pok.other", "fail.a.test",
}

func vfC08IP(s string) net.IP {
	ip := net.ParseIP(s)
	if ip4 := ip.To4(); ip4 != nil {
		return ip4
	}
	return ip
}

var vfC08Table = map[string]vfC08Res{
	"a.test":         {ip4: vfC08IP("10.1.2.3")},
	"b.test":         {ip4: vfC08IP("10.2.0.1"), ip6: vfC08IP("fd00::1")},
	"x.a.test":       {ip4: vfC08IP("192.168.0.1")},
	"y.x.a.test":     {ip6: vfC08IP("2001:db8::5")},
	"c.example":      {ip4: vfC08IP("8.8.8.8"), ip6: vfC08IP("fd00::2:1")},
	"deep.c.example": {ip4: vfC08IP("10.1.3.4")},
	"example.org":    {ip4: vfC08IP("10.1.2.3")},
	// partial failures: one family resolved, the lookup of the other one failed
	"p4.b.test":    {ip4: vfC08IP("10.1.2.3"), err: true},
	"p6.b.test":    {ip6: vfC08IP("fd00::1"), err: true},
	"p4.c.example": {ip4: vfC08IP("192.168.0.1"), err: true},
	"p6.other":     {ip6: vfC08IP("2001:db8::5"), err: true},
	"pok.other":    {ip4: vfC08IP("8.8.8.8"), err: true},
	// complete failure: "fail.a.test" and every name not listed
}

var vfC08Ports = []int{0, 1, 53, 80, 443, 999, 1000, 1500, 2000, 2001, 65535}

type vfC08Rule struct {
	Ob     string // as written (any case)
	Addr   string // as written
	PP     string // proto/port as written
	Hijack string
}

func vfC08GenRules(r *rand.Rand) (string, []vfC08Rule) {
	obs := []string{"ob1", "ob2", "reject", "reject", "direct", "default", "REJECT", "Ob1"}
	addrs := []string{"a.test", "*.a.test", "suffix:a.test", "*.test", "*", "all", "c.example", "suffix:c.example", "*a*", "example.org", "EXAMPLE.ORG",
		"10.1.0.0/16", "10.1.2.3", "10.0.0.0/8", "192.168.0.0/24", "8.8.8.8", "fd00::/8", "fd00::1", "2001:db8::/32", "nodot", "b.test", "x.a.test", "*.example",
		"10.1.0.0/16", "10.0.0.0/8", "192.168.0.0/24", "fd00::/8", "2001:db8::/32", "suffix:other"}
	pps := []string{"", "", "*", "udp", "tcp", "udp/53", "tcp/53", "*/53", "udp/1000-2000", "*/1000-2000", "tcp/1000-2000", "*/*", "udp/*", "UDP/443", "udp/65535", "*/1"}
	hij := []string{"", "", "", "1.2.3.4", "fd00::99", "10.1.2.3"}
	n := 1 + r.Intn(14)
	var b strings.Builder
	var rules []vfC08Rule
	for i := 0; i < n; i++ {
		ru := vfC08Rule{Ob: obs[r.Intn(len(obs))], Addr: addrs[r.Intn(len(addrs))], PP: pps[r.Intn(len(pps))], Hijack: hij[r.Intn(len(hij))]}
		switch {
		case ru.Hijack != "":
			if ru.PP == "" {
				ru.PP = "*"
			}
			fmt.Fprintf(&b, "%s(%s, %s, %s)\n", ru.Ob, ru.Addr, ru.PP, ru.Hijack)
		case ru.PP != "":
			fmt.Fprintf(&b, "%s(%s,%s)\n", ru.Ob, ru.Addr, ru.PP)
		default:
			fmt.Fprintf(&b, "%s(%s)\n", ru.Ob, ru.Addr)
		}
		rules = append(rules, ru)
		if r.Intn(8) == 0 {
			b.WriteString("# comment line\n\n")
		}
	}
	return b.String(), rules
}

// vfC08Glob: '*' stands for any (possibly empty) run of characters.
func vfC08Glob(pat, s string) bool {
	if pat == "" {
		return s == ""
	}
	if pat[0] == '*' {
		for i := 0; i <= len(s); i++ {
			if vfC08Glob(pat[1:], s[i:]) {
				return true
			}
		}
		return false
	}
	return s != "" && s[0] == pat[0] && vfC08Glob(pat[1:], s[1:])
}

// vfC08Reference evaluates a UDP request against the rule list as the ACL documentation
// describes it (first match wins). Returns the outbound name in lower case ("reject", "ob1",
// "ob2", "direct", "default") and the hijack address of the matching rule ("" if none / no match).
func vfC08Reference(rules []vfC08Rule, name string, res vfC08Res, port int) (string, string) {
	name = strings.TrimRight(strings.ToLower(name), ".")
	for _, ru := range rules {
		// protocol / port
		pp := strings.ToLower(ru.PP)
		proto, ports := pp, ""
		if i := strings.IndexByte(pp, '/'); i >= 0 {
			proto, ports = pp[:i], pp[i+1:]
		}
		if proto == "tcp" {
			continue
		}
		if ports != "" && ports != "*" {
			lo, hi := 0, 0
			if j := strings.IndexByte(ports, '-'); j >= 0 {
				fmt.Sscan(ports[:j], &lo)
				fmt.Sscan(ports[j+1:], &hi)
			} else {
				fmt.Sscan(ports, &lo)
				hi = lo
			}
			if port < lo || port > hi {
				continue
			}
		}
		// host
		pat := strings.ToLower(ru.Addr)
		match := false
		switch {
		case pat == "*" || pat == "all":
			match = true
		case strings.HasPrefix(pat, "suffix:"):
			sfx := pat[7:]
			match = name == sfx || strings.HasSuffix(name, "."+sfx)
		case strings.Contains(pat, "/"):
			_, nw, err := net.ParseCIDR(pat)
			match = err == nil && (res.ip4 != nil && nw.Contains(res.ip4) || res.ip6 != nil && nw.Contains(res.ip6))
		case net.ParseIP(pat) != nil:
			ip := net.ParseIP(pat)
			match = res.ip4 != nil && ip.Equal(res.ip4) || res.ip6 != nil && ip.Equal(res.ip6)
		case strings.Contains(pat, "*"):
			match = vfC08Glob(pat, name)
		default:
			match = name == pat
		}
		if match {
			return strings.ToLower(ru.Ob), ru.Hijack
		}
	}
	return "default", ""
}

type vfC08Verdict struct {
	rejected bool
	ob       string
	host     string
	port     uint16
}

func TestVerifC08ACLCheckUDP(t *testing.T) {
	k := vfNewKit(t, "C08", "acl-checkudp")
	defer k.Finish()
	nsets := k.N(150, 3000)
	// destinations: grid + malformed
	var dests []string
	for _, h := range vfC08Hosts {
		for _, p := range vfC08Ports {
			dests = append(dests, net.JoinHostPort(h, fmt.Sprint(p)))
		}
	}
	malformed := []string{"a.test", "a.test:", ":53", "a.test:99999", "a.test:-1", "a.test:http", "[fd00::1]", "fd00::1:53", "a.test:53:53", "", "[::1]:53x"}
	dests = append(dests, malformed...)

	for si := 0; si < nsets; si++ {
		caseID := fmt.Sprintf("acl-%d", si)
		if rc := k.ReplayCase(); rc != "" && rc != caseID {
			continue
		}
		r := k.Rand(caseID)
		rules, ruleList := vfC08GenRules(r)
		rec := &vfC08Rec{}
		picky := func(a *AddrEx) bool { return strings.Contains(a.Host, "x") || a.Port == 999 }
		ob1 := &vfC08Ob{name: "ob1", rec: rec}
		ob2 := &vfC08Ob{name: "ob2", rec: rec, reject: picky}
		direct := &vfC08Ob{name: "direct", rec: rec}
		entries := []OutboundEntry{{"ob1", ob1}, {"ob2", ob2}, {"direct", direct}}
		if r.Intn(3) == 0 { // default = ob2 (the picky one) instead of the first entry
			entries = []OutboundEntry{{"ob2", ob2}, {"ob1", ob1}, {"direct", direct}}
		}
		eng, err := NewACLEngineFromString(rules, entries, nil)
		if err != nil {
			t.Fatalf("harness: generated rules do not compile: %v\n%s", err, rules)
		}
		withResolver := r.Intn(3) > 0
		var top PluggableOutbound = eng
		if withResolver {
			top = &vfC08Resolver{next: eng, table: vfC08Table}
		}
		ad := &PluggableOutboundAdapter{PluggableOutbound: top}
		rep := func(addr string, extra map[string]any) map[string]any {
			m := map[string]any{"case_id": caseID, "rules": rules, "resolver": withResolver, "default": entries[0].Name, "destination": addr}
			for k2, v := range extra {
				m[k2] = v
			}
			return m
		}
		ask := func(addr string, checkFirst bool) (vc, vu vfC08Verdict) {
			one := func(check bool) vfC08Verdict {
				rec.calls = rec.calls[:0]
				var e error
				if check {
					e = ad.CheckUDP(addr)
				} else {
					var c any
					c, e = ad.UDP(addr)
					if e == nil && c == nil {
						k.Violation("acl:udp-nil-conn", rep(addr, nil), "UDP(%q) returned neither a connection nor an error", addr)
					}
				}
				v := vfC08Verdict{rejected: e != nil}
				if len(rec.calls) > 1 {
					k.Violation("acl:more-than-one-outbound-consulted", rep(addr, map[string]any{"calls": rec.calls}), "one request consulted %d sub-outbounds", len(rec.calls))
				}
				if len(rec.calls) > 0 {
					c := rec.calls[len(rec.calls)-1]
					v.ob, v.host, v.port = c.Ob, c.Host, c.Port
					want := "UDP"
					if check {
						want = "CheckUDP"
					}
					if c.Method != want {
						k.Violation("acl:wrong-method-forwarded", rep(addr, map[string]any{"calls": rec.calls}), "%s(%q) was forwarded as %s", want, addr, c.Method)
					}
				}
				return v
			}
			if checkFirst {
				vc = one(true)
				vu = one(false)
			} else {
				vu = one(false)
				vc = one(true)
			}
			return
		}
		k.Eval()
		first := map[string]vfC08Verdict{}
		nrej, nacc := 0, 0
		round := func(order []int, tag string) bool {
			for _, di := range order {
				addr := dests[di]
				vc, vu := ask(addr, r.Intn(2) == 0)
				k.Count("ev_pairs_checked", 1)
				if vc.rejected != vu.rejected {
					k.Violation("acl:checkudp-udp-disagree", rep(addr, map[string]any{"checkudp_rejects": vc.rejected, "udp_rejects": vu.rejected, "round": tag}),
						"CheckUDP(%q) rejects=%v but UDP(%q) rejects=%v", addr, vc.rejected, addr, vu.rejected)
					return false
				}
				if vc.ob != vu.ob || vc.host != vu.host || vc.port != vu.port {
					k.Violation("acl:checkudp-udp-different-walk", rep(addr, map[string]any{"checkudp": fmt.Sprint(vc), "udp": fmt.Sprint(vu), "round": tag}),
						"CheckUDP(%q) ended at outbound %q with %s:%d, UDP at %q with %s:%d", addr, vc.ob, vc.host, vc.port, vu.ob, vu.host, vu.port)
					return false
				}
				// ---- reference verdict (only where the documentation is unambiguous: well-formed
				// destination, no IDN host; without a resolver stage only for names, which then have
				// no address at all)
				if host, portStr, err := net.SplitHostPort(addr); err == nil && !strings.HasPrefix(host, "xn--") {
					port, e2 := strconv.Atoi(portStr)
					if e2 == nil && portStr[0] >= '0' && portStr[0] <= '9' && port <= 65535 && (withResolver || net.ParseIP(host) == nil) {
						res := vfC08Res{}
						if withResolver {
							res = vfC08Lookup(vfC08Table, host)
						}
						ob, hijack := vfC08Reference(ruleList, host, res, port)
						if ob == "default" {
							ob = entries[0].Name
						}
						wantHost := host
						if hijack != "" {
							wantHost = net.ParseIP(hijack).String()
						}
						wantRej := ob == "reject" || ob == "ob2" && picky(&AddrEx{Host: wantHost, Port: uint16(port)})
						wantOb := ob
						if ob == "reject" {
							wantOb, wantHost = "", ""
						}
						k.Count("ev_reference_checked", 1)
						if res.err && (res.ip4 != nil || res.ip6 != nil) {
							k.Count("ev_reference_partial_resolution", 1)
						}
						if vu.rejected != wantRej || vu.ob != wantOb || vu.ob != "" && vu.host != wantHost {
							k.Violation("acl:verdict-differs-from-reference", rep(addr, map[string]any{"round": tag,
								"resolved_ipv4": fmt.Sprint(res.ip4), "resolved_ipv6": fmt.Sprint(res.ip6), "resolver_error": res.err,
								"want": fmt.Sprintf("outbound=%q host=%q rejected=%v", wantOb, wantHost, wantRej),
								"got":  fmt.Sprintf("outbound=%q host=%q rejected=%v", vu.ob, vu.host, vu.rejected)}),
								"UDP(%q) [resolved v4=%v v6=%v err=%v]: first matching rule gives outbound %q host %q rejected=%v, the engine chose outbound %q host %q rejected=%v",
								addr, res.ip4, res.ip6, res.err, wantOb, wantHost, wantRej, vu.ob, vu.host, vu.rejected)
							return false
						}
					}
				}
				if f, ok := first[addr]; ok {
					if f != vc {
						k.Violation("acl:verdict-not-stable", rep(addr, map[string]any{"first": fmt.Sprint(f), "now": fmt.Sprint(vc), "round": tag}),
							"verdict for %q changed between lookups: first %v, now %v", addr, f, vc)
						return false
					}
				} else {
					first[addr] = vc
				}
				if vc.rejected {
					nrej++
					k.Count("ev_rejected", 1)
				} else {
					nacc++
					k.Count("ev_accepted", 1)
				}
				if vc.ob != "" {
					k.Count("via_"+vc.ob, 1)
				}
			}
			return true
		}
		if !round(r.Perm(len(dests)), "first") {
			continue
		}
		// churn the LRU with > 1024 distinct extra keys, then ask again in another order
		if si%5 == 0 {
			for j := 0; j < 1100; j++ {
				addr := fmt.Sprintf("churn%d.a.test:%d", j, 1+j%60000)
				vc, vu := ask(addr, j%2 == 0)
				k.Count("ev_pairs_checked", 1)
				if vc.rejected != vu.rejected {
					k.Violation("acl:checkudp-udp-disagree", rep(addr, map[string]any{"checkudp_rejects": vc.rejected, "udp_rejects": vu.rejected, "round": "churn"}),
						"CheckUDP(%q) rejects=%v but UDP(%q) rejects=%v", addr, vc.rejected, addr, vu.rejected)
					break
				}
			}
			k.Count("lru_churn_rounds", 1)
		}
		if !round(r.Perm(len(dests)), "second") {
			continue
		}
		if nrej > 0 && nacc > 0 {
			k.Nontrivial(rules + fmt.Sprint(withResolver, entries[0].Name))
		}
		if si < 3 {
			k.Sample(map[string]any{"case_id": caseID, "rules": rules, "resolver": withResolver, "destinations": len(dests), "rejected": nrej / 2, "accepted": nacc / 2})
		}
	}
}
