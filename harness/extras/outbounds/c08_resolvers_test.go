//go:build verif

package outbounds

// C08, second layer, real resolver stages — the verdict for a destination is the same whether it
// is a session's FIRST destination (Outbound.UDP) or a LATER one (Outbound.CheckUDP).
//
// Chain under test: real PluggableOutboundAdapter -> real resolver stage -> real aclEngine -> fake
// sub-outbounds (vfC08Ob, c08_aclcheck_test.go). Resolver stages, each against infrastructure the
// harness hosts itself on loopback (real sockets, real time only to carry the queries):
//   system    NewSystemResolver, names the sandbox resolves offline ("localhost")
//   std-udp   NewStandardResolverUDP  -> in-process DNS server (miekg/dns)
//   std-tcp   NewStandardResolverTCP  -> the same server over TCP
//   doh       NewDoHResolver          -> in-process DNS-over-HTTPS server (httptest TLS); a SERVFAIL
//             for one family makes this resolver deliver an error TOGETHER with the other family's
//             address (partial failure), NXDOMAIN a complete failure
// For random rule texts (IP / CIDR / name rules, hijack, proto/port) and destinations written as
// host names and as IP literals:
//   first == later   CheckUDP(dst) rejects <=> UDP(dst) rejects, both end at the same sub-outbound
//                    with the same host
//   reference        both equal the first-match evaluation of the rules on the name AND on the
//                    addresses the name resolves to in the harness's own zone (vfC08Reference)

import (
	"crypto/tls"
	"fmt"
	"io"
	"net"
	"net/http"
	"net/http/httptest"
	"strconv"
	"strings"
	"testing"
	"time"

	"github.com/miekg/dns"
)

type vfC08Zone struct {
	a, aaaa       string
	failA, failA6 bool // answer SERVFAIL for that family
}

var vfC08ZoneData = map[string]vfC08Zone{
	"a.test.":         {a: "10.1.2.3"},
	"b.test.":         {a: "10.2.0.1", aaaa: "fd00::1"},
	"x.a.test.":       {a: "192.168.0.1"},
	"y.x.a.test.":     {aaaa: "2001:db8::5"},
	"c.example.":      {a: "8.8.8.8", aaaa: "fd00::2:1"},
	"deep.c.example.": {a: "10.1.3.4"},
	"example.org.":    {a: "10.1.2.3"},
	"p4.b.test.":      {a: "10.1.2.3", failA6: true},
	"p6.other.":       {aaaa: "2001:db8::5", failA: true},
	"pok.other.":      {a: "8.8.8.8", failA6: true},
}

func vfC08Answer(req *dns.Msg) *dns.Msg {
	resp := new(dns.Msg)
	resp.SetReply(req)
	if len(req.Question) != 1 {
		resp.Rcode = dns.RcodeFormatError
		return resp
	}
	q := req.Question[0]
	z, ok := vfC08ZoneData[strings.ToLower(q.Name)]
	switch {
	case !ok:
		resp.Rcode = dns.RcodeNameError
	case q.Qtype == dns.TypeA && z.failA, q.Qtype == dns.TypeAAAA && z.failA6:
		resp.Rcode = dns.RcodeServerFailure
	case q.Qtype == dns.TypeA && z.a != "":
		resp.Answer = append(resp.Answer, &dns.A{Hdr: dns.RR_Header{Name: q.Name, Rrtype: dns.TypeA, Class: dns.ClassINET, Ttl: 60}, A: net.ParseIP(z.a).To4()})
	case q.Qtype == dns.TypeAAAA && z.aaaa != "":
		resp.Answer = append(resp.Answer, &dns.AAAA{Hdr: dns.RR_Header{Name: q.Name, Rrtype: dns.TypeAAAA, Class: dns.ClassINET, Ttl: 60}, AAAA: net.ParseIP(z.aaaa)})
	}
	return resp
}

// vfC08ZoneRes is what a correct resolver stage delivers for host (the harness's own knowledge).
func vfC08ZoneRes(host string) vfC08Res {
	if ip := net.ParseIP(host); ip != nil {
		return vfC08Res{ip4: ip.To4(), ip6: map[bool]net.IP{true: ip}[ip.To4() == nil]}
	}
	z := vfC08ZoneData[strings.ToLower(dns.Fqdn(host))]
	r := vfC08Res{}
	if z.a != "" && !z.failA {
		r.ip4 = net.ParseIP(z.a).To4()
	}
	if z.aaaa != "" && !z.failA6 {
		r.ip6 = net.ParseIP(z.aaaa)
	}
	return r
}

func vfC08Render(rules []vfC08Rule) string {
	var b strings.Builder
	for _, ru := range rules {
		switch {
		case ru.Hijack != "":
			pp := ru.PP
			if pp == "" {
				pp = "*"
			}
			fmt.Fprintf(&b, "%s(%s, %s, %s)\n", ru.Ob, ru.Addr, pp, ru.Hijack)
		case ru.PP != "":
			fmt.Fprintf(&b, "%s(%s,%s)\n", ru.Ob, ru.Addr, ru.PP)
		default:
			fmt.Fprintf(&b, "%s(%s)\n", ru.Ob, ru.Addr)
		}
	}
	return b.String()
}

func TestVerifC08Resolvers(t *testing.T) {
	k := vfNewKit(t, "C08", "acl-resolvers")
	defer k.Finish()

	// ---- infrastructure on loopback
	pc, err := net.ListenPacket("udp", "127.0.0.1:0")
	if err != nil {
		k.Inconclusive("cannot listen on loopback UDP: " + err.Error())
		return
	}
	handler := dns.HandlerFunc(func(w dns.ResponseWriter, req *dns.Msg) { _ = w.WriteMsg(vfC08Answer(req)) })
	udpSrv := &dns.Server{PacketConn: pc, Handler: handler}
	go func() { _ = udpSrv.ActivateAndServe() }()
	defer udpSrv.Shutdown()
	ln, err := net.Listen("tcp", "127.0.0.1:0")
	if err != nil {
		k.Inconclusive("cannot listen on loopback TCP: " + err.Error())
		return
	}
	tcpSrv := &dns.Server{Listener: ln, Handler: handler}
	go func() { _ = tcpSrv.ActivateAndServe() }()
	defer tcpSrv.Shutdown()
	doh := httptest.NewUnstartedServer(http.HandlerFunc(func(w http.ResponseWriter, r *http.Request) {
		body, _ := io.ReadAll(io.LimitReader(r.Body, 65536))
		req := new(dns.Msg)
		if err := req.Unpack(body); err != nil {
			http.Error(w, "bad dns message", http.StatusBadRequest)
			return
		}
		out, _ := vfC08Answer(req).Pack()
		w.Header().Set("Content-Type", "application/dns-message")
		_, _ = w.Write(out)
	}))
	doh.TLS = &tls.Config{}
	doh.StartTLS()
	defer doh.Close()

	sysRes := vfC08Res{}
	if ips, err := net.LookupIP("localhost"); err == nil {
		sysRes.ip4, sysRes.ip6 = splitIPv4IPv6(ips)
		if sysRes.ip4 != nil {
			sysRes.ip4 = sysRes.ip4.To4()
		}
	}

	type kind struct {
		name  string
		stage func(next PluggableOutbound) PluggableOutbound
		hosts []string
		res   func(host string) vfC08Res
	}
	zoneHosts := []string{"a.test", "b.test", "x.a.test", "y.x.a.test", "c.example", "deep.c.example", "EXAMPLE.org", "p4.b.test", "p6.other", "pok.other",
		"unknown.a.test", "10.1.2.3", "10.2.0.1", "8.8.8.8", "192.168.0.1", "fd00::1", "2001:db8::5"}
	kinds := []kind{
		{"std-udp", func(n PluggableOutbound) PluggableOutbound {
			return NewStandardResolverUDP(pc.LocalAddr().String(), time.Second, n)
		}, zoneHosts, vfC08ZoneRes},
		{"std-tcp", func(n PluggableOutbound) PluggableOutbound {
			return NewStandardResolverTCP(ln.Addr().String(), time.Second, n)
		}, zoneHosts, vfC08ZoneRes},
		{"doh", func(n PluggableOutbound) PluggableOutbound {
			return NewDoHResolver(doh.URL+"/dns-query", 2*time.Second, "", true, n)
		}, zoneHosts, vfC08ZoneRes},
	}
	if sysRes.ip4 != nil || sysRes.ip6 != nil {
		kinds = append(kinds, kind{"system", NewSystemResolver, []string{"localhost", "127.0.0.1", "::1", "127.8.9.1", "10.1.2.3", "8.8.8.8"},
			func(host string) vfC08Res {
				if strings.EqualFold(host, "localhost") {
					return sysRes
				}
				return vfC08ZoneRes(host)
			}})
	} else {
		k.Count("system_resolver_skipped", 1)
	}
	ports := []int{53, 999, 1500, 6379}
	nsets := k.N(8, 60)

	for ki, kd := range kinds {
		for si := 0; si < nsets; si++ {
			caseID := fmt.Sprintf("res-%s-%d", kd.name, si)
			if rc := k.ReplayCase(); rc != "" && rc != caseID {
				continue
			}
			r := k.Rand(caseID)
			_, ruleList := vfC08GenRules(r)
			// make sure address-based rejections (also of loopback) are present in every rule set
			extra := []vfC08Rule{{Ob: "reject", Addr: "10.0.0.0/8"}, {Ob: "reject", Addr: "127.0.0.0/8"}, {Ob: "reject", Addr: "::1"},
				{Ob: "reject", Addr: "2001:db8::/32", PP: "udp/1000-2000"}, {Ob: "ob2", Addr: "192.168.0.0/24"}, {Ob: "reject", Addr: "8.8.8.8", PP: "udp/53"}}
			for _, e := range extra {
				if r.Intn(2) == 0 {
					at := r.Intn(len(ruleList) + 1)
					ruleList = append(ruleList[:at], append([]vfC08Rule{e}, ruleList[at:]...)...)
				}
			}
			rules := vfC08Render(ruleList)
			rec := &vfC08Rec{}
			picky := func(a *AddrEx) bool { return strings.Contains(a.Host, "x") || a.Port == 999 }
			entries := []OutboundEntry{{"ob1", &vfC08Ob{name: "ob1", rec: rec}}, {"ob2", &vfC08Ob{name: "ob2", rec: rec, reject: picky}}, {"direct", &vfC08Ob{name: "direct", rec: rec}}}
			eng, err := NewACLEngineFromString(rules, entries, nil)
			if err != nil {
				t.Fatalf("harness: generated rules do not compile: %v\n%s", err, rules)
			}
			ad := &PluggableOutboundAdapter{PluggableOutbound: kd.stage(eng)}
			k.Eval()
			nrej, nacc, differ := 0, 0, false
			ask := func(dst string, check bool) vfC08Verdict {
				rec.calls = rec.calls[:0]
				var e error
				if check {
					e = ad.CheckUDP(dst)
				} else {
					_, e = ad.UDP(dst)
				}
				v := vfC08Verdict{rejected: e != nil}
				if len(rec.calls) > 0 {
					c := rec.calls[len(rec.calls)-1]
					v.ob, v.host, v.port = c.Ob, c.Host, c.Port
				}
				return v
			}
			for _, host := range kd.hosts {
				for _, port := range ports {
					dst := net.JoinHostPort(host, strconv.Itoa(port))
					var first, later vfC08Verdict
					if r.Intn(2) == 0 {
						later, first = ask(dst, true), ask(dst, false)
					} else {
						first, later = ask(dst, false), ask(dst, true)
					}
					res := kd.res(host)
					ob, hijack := vfC08Reference(ruleList, host, res, port)
					if ob == "default" {
						ob = entries[0].Name
					}
					wantHost := host
					if hijack != "" {
						wantHost = net.ParseIP(hijack).String()
					}
					want := vfC08Verdict{rejected: ob == "reject" || ob == "ob2" && picky(&AddrEx{Host: wantHost, Port: uint16(port)}), ob: ob, host: wantHost, port: uint16(port)}
					if ob == "reject" {
						want.ob, want.host, want.port = "", "", 0
					}
					rep := map[string]any{"case_id": caseID, "resolver": kd.name, "rules": rules, "destination": dst,
						"resolves_to_ipv4": fmt.Sprint(res.ip4), "resolves_to_ipv6": fmt.Sprint(res.ip6),
						"as_first_destination(UDP)": fmt.Sprint(first), "as_later_destination(CheckUDP)": fmt.Sprint(later), "reference": fmt.Sprint(want)}
					k.Count("ev_destinations_checked", 1)
					if net.ParseIP(host) == nil {
						k.Count("ev_host_name_destinations", 1)
					}
					switch {
					case first.rejected != later.rejected || first.ob != later.ob || first.host != later.host:
						k.Violation("acl:first-vs-later-destination-differ", rep,
							"[%s] %q as a session's first destination: outbound %q host %q rejected=%v; as a later destination: outbound %q host %q rejected=%v (resolves to v4=%v v6=%v)",
							kd.name, dst, first.ob, first.host, first.rejected, later.ob, later.host, later.rejected, res.ip4, res.ip6)
						differ = true
					case later != want:
						k.Violation("acl:later-destination-differs-from-reference", rep,
							"[%s] CheckUDP(%q) [resolves to v4=%v v6=%v]: first matching rule gives outbound %q host %q rejected=%v, got outbound %q host %q rejected=%v",
							kd.name, dst, res.ip4, res.ip6, want.ob, want.host, want.rejected, later.ob, later.host, later.rejected)
						differ = true
					case first != want:
						k.Violation("acl:first-destination-differs-from-reference", rep,
							"[%s] UDP(%q) [resolves to v4=%v v6=%v]: first matching rule gives outbound %q host %q rejected=%v, got outbound %q host %q rejected=%v",
							kd.name, dst, res.ip4, res.ip6, want.ob, want.host, want.rejected, first.ob, first.host, first.rejected)
						differ = true
					}
					if later.rejected {
						nrej++
						k.Count("ev_later_rejected", 1)
					} else {
						nacc++
						k.Count("ev_later_accepted", 1)
					}
					if differ {
						break
					}
				}
				if differ {
					break
				}
			}
			if nrej > 0 && nacc > 0 {
				k.Nontrivial(kd.name + rules)
			}
			if si == 0 {
				k.Sample(map[string]any{"case_id": caseID, "resolver": kd.name, "rules": rules, "later_rejected": nrej, "later_accepted": nacc})
			}
			_ = ki
		}
	}
}
