//go:build verif

package sniff

// C17 — Sniffing is transparent to the proxied flow.  Shared pieces:
//
//   * vfC17Stream: a scripted server.HyStream.  The client's bytes arrive in chunks at
//     VIRTUAL times (testing/synctest bubble); Read blocks until the next chunk, the FIN or
//     the read deadline, whichever comes first, and a fired deadline yields a net.Error with
//     Timeout()==true that unwraps to os.ErrDeadlineExceeded (what quic-go streams return).
//     Every byte handed out is recorded.
//   * generators for host names, HTTP requests, TLS ClientHello records (made by crypto/tls
//     and by utls browser presets; checked with crypto/tls's *server-side* parser before use).
//   * a reference QUIC Initial codec written from RFC 9001 §5 / RFC 9369 / RFC 8446 §7.1
//     (HKDF labels, AES-128-GCM, AES-ECB header protection) that never writes to its input.
//     It builds Initials with chosen framing and decides, independently of the code under
//     test, whether a datagram is a decryptable client Initial and what its CRYPTO data is.

import (
	"bytes"
	"context"
	"crypto/aes"
	"crypto/cipher"
	"crypto/hkdf"
	"crypto/sha256"
	"crypto/tls"
	"encoding/binary"
	"encoding/hex"
	"errors"
	"fmt"
	"io"
	"math/rand"
	"net"
	"os"
	"runtime/debug"
	"strings"
	"sync"
	"sync/atomic"
	"testing"
	"testing/synctest"
	"time"

	"github.com/apernet/quic-go"
	utls "github.com/refraction-networking/utls"

	"github.com/apernet/hysteria/extras/v2/utils"
)

// vfC17Violate records a violation but keeps at most vfC17MaxPerKey witnesses per key and
// harness part (the kit keeps 40 per part in total; one flooding defect must not crowd out
// the others). Every occurrence is still counted in viol_<key>.
const vfC17MaxPerKey = 6

var vfC17PerKey sync.Map // part+"|"+key -> *int64

func vfC17Violate(k *vfKit, key string, replay func() map[string]any, format string, args ...any) {
	k.Count("viol_"+key, 1)
	v, _ := vfC17PerKey.LoadOrStore(k.Name+"|"+key, new(int64))
	if atomic.AddInt64(v.(*int64), 1) > vfC17MaxPerKey {
		return
	}
	k.Violation(key, replay(), format, args...)
}

// vfC17Guard is k.Guard with a lazily built replay document.
func vfC17Guard(k *vfKit, key string, replay func() map[string]any, f func()) (panicked bool) {
	defer func() {
		if r := recover(); r != nil {
			panicked = true
			m := replay()
			m["panic"] = fmt.Sprint(r)
			m["stack"] = string(debug.Stack())
			vfC17Violate(k, key, func() map[string]any { return m }, "panic: %v", r)
		}
	}()
	f()
	return false
}

// ---------------------------------------------------------------------------------------
// scripted stream

type vfC17DeadlineErr struct{}

func (vfC17DeadlineErr) Error() string   { return "vfC17 stream: read deadline exceeded" }
func (vfC17DeadlineErr) Timeout() bool   { return true }
func (vfC17DeadlineErr) Temporary() bool { return true }
func (vfC17DeadlineErr) Unwrap() error   { return os.ErrDeadlineExceeded }

var _ net.Error = vfC17DeadlineErr{}

var vfC17ErrStall = errors.New("vfC17 stream: Read without a deadline and no further event would block forever")

type vfC17Chunk struct {
	At time.Duration `json:"at_ns"` // virtual arrival time relative to the start of the case
	N  int           `json:"n"`     // number of bytes (0 = one zero-length read)
}

type vfC17Sched struct {
	Chunks   []vfC17Chunk  `json:"chunks"`
	FinAt    time.Duration `json:"fin_at_ns"` // client FIN; <0 = the client never closes
	FinGlued bool          `json:"fin_glued"` // the read that delivers the last byte also returns io.EOF when the FIN is already in
	MaxRead  int           `json:"max_read"`  // cap on bytes per Read (0 = none)
	Coalesce bool          `json:"coalesce"`  // one Read may span several chunks that have already arrived
}

// arrival returns the virtual time at which the first n bytes of the input have arrived
// (-1 if they never do).
func (s *vfC17Sched) arrival(n int) time.Duration {
	if n <= 0 {
		return 0
	}
	sum := 0
	for _, c := range s.Chunks {
		sum += c.N
		if sum >= n {
			return c.At
		}
	}
	return -1
}

func (s *vfC17Sched) total() int {
	sum := 0
	for _, c := range s.Chunks {
		sum += c.N
	}
	return sum
}

type vfC17Stream struct {
	mu    sync.Mutex
	base  time.Time
	data  []byte
	sched vfC17Sched

	ci, coff, pos int
	deadline      time.Time
	closed        bool
	stalled       bool
	finSeen       bool

	reads, zeroReads, timeouts, setDL, writes, closes int
	trace                                             []string
}

func vfC17NewStream(data []byte, sched vfC17Sched) *vfC17Stream {
	return &vfC17Stream{base: time.Now(), data: data, sched: sched}
}

func (s *vfC17Stream) tr(format string, a ...any) {
	if len(s.trace) < 48 {
		s.trace = append(s.trace, fmt.Sprintf("t=%v ", time.Since(s.base))+fmt.Sprintf(format, a...))
	}
}

func (s *vfC17Stream) StreamID() quic.StreamID { return 4 }

func (s *vfC17Stream) Read(p []byte) (int, error) {
	s.mu.Lock()
	defer s.mu.Unlock()
	s.reads++
	for {
		if s.closed {
			s.tr("read(%d) -> closed", len(p))
			return 0, net.ErrClosed
		}
		now := time.Since(s.base)
		dl := s.deadline
		// an expired deadline fails the read even when data is buffered (quic-go, net.Conn)
		if !dl.IsZero() && !time.Now().Before(dl) {
			s.timeouts++
			s.tr("read(%d) -> timeout", len(p))
			return 0, vfC17DeadlineErr{}
		}
		if s.ci < len(s.sched.Chunks) && s.sched.Chunks[s.ci].At <= now {
			if s.sched.Chunks[s.ci].N == 0 {
				s.ci++
				s.zeroReads++
				s.tr("read(%d) -> 0,nil", len(p))
				return 0, nil
			}
			if len(p) == 0 {
				return 0, nil
			}
			n := 0
			for n < len(p) && s.ci < len(s.sched.Chunks) && s.sched.Chunks[s.ci].At <= now && s.sched.Chunks[s.ci].N > 0 {
				c := s.sched.Chunks[s.ci]
				m := c.N - s.coff
				if m > len(p)-n {
					m = len(p) - n
				}
				if s.sched.MaxRead > 0 && m > s.sched.MaxRead-n {
					m = s.sched.MaxRead - n
				}
				if m <= 0 {
					break
				}
				copy(p[n:], s.data[s.pos:s.pos+m])
				n += m
				s.pos += m
				s.coff += m
				if s.coff == c.N {
					s.ci++
					s.coff = 0
				}
				if !s.sched.Coalesce {
					break
				}
			}
			if s.sched.FinGlued && s.pos == len(s.data) && s.ci == len(s.sched.Chunks) && s.sched.FinAt >= 0 && s.sched.FinAt <= now {
				s.finSeen = true
				s.tr("read(%d) -> %d,EOF", len(p), n)
				return n, io.EOF
			}
			s.tr("read(%d) -> %d", len(p), n)
			return n, nil
		}
		if s.ci == len(s.sched.Chunks) && s.sched.FinAt >= 0 && s.sched.FinAt <= now {
			s.finSeen = true
			s.tr("read(%d) -> EOF", len(p))
			return 0, io.EOF
		}
		// nothing available: wait for the next chunk, the FIN or the deadline
		next := time.Duration(-1)
		if s.ci < len(s.sched.Chunks) {
			next = s.sched.Chunks[s.ci].At
		} else if s.sched.FinAt >= 0 {
			next = s.sched.FinAt
		}
		var wake time.Duration
		switch {
		case next < 0 && dl.IsZero():
			s.stalled = true
			s.tr("read(%d) -> STALL", len(p))
			return 0, vfC17ErrStall
		case next < 0:
			wake = dl.Sub(s.base)
		case dl.IsZero():
			wake = next
		default:
			wake = next
			if d := dl.Sub(s.base); d <= wake {
				wake = d
			}
		}
		s.mu.Unlock()
		time.Sleep(wake - now)
		s.mu.Lock()
	}
}

func (s *vfC17Stream) Write(p []byte) (int, error) {
	s.mu.Lock()
	s.writes++
	s.mu.Unlock()
	return len(p), nil
}

func (s *vfC17Stream) Close() error {
	s.mu.Lock()
	s.closes++
	s.closed = true
	s.mu.Unlock()
	return nil
}

func (s *vfC17Stream) SetReadDeadline(t time.Time) error {
	s.mu.Lock()
	s.setDL++
	s.deadline = t
	if t.IsZero() {
		s.tr("SetReadDeadline(zero)")
	} else {
		s.tr("SetReadDeadline(+%v)", t.Sub(s.base))
	}
	s.mu.Unlock()
	return nil
}
func (s *vfC17Stream) SetWriteDeadline(t time.Time) error { return nil }
func (s *vfC17Stream) SetDeadline(t time.Time) error      { return s.SetReadDeadline(t) }

// drain plays the relay that follows the hook: it reads what is still unread on the stream,
// waiting (virtually) for chunks that have not arrived yet.
func (s *vfC17Stream) drain() ([]byte, error) {
	var rest []byte
	buf := make([]byte, 32*1024)
	idle := 0
	for {
		s.mu.Lock()
		done := s.pos >= len(s.data)
		s.mu.Unlock()
		if done {
			return rest, nil
		}
		n, err := s.Read(buf)
		rest = append(rest, buf[:n]...)
		if err != nil {
			return rest, err
		}
		if n == 0 {
			idle++
			if idle > 10000 {
				return rest, errors.New("vfC17 drain: no progress")
			}
		}
	}
}

// ---------------------------------------------------------------------------------------
// names, addresses, port filters

func vfC17Label(r *rand.Rand, n int) string {
	const al = "abcdefghijklmnopqrstuvwxyz0123456789"
	b := make([]byte, n)
	for i := range b {
		b[i] = al[r.Intn(len(al))]
	}
	if b[0] >= '0' && b[0] <= '9' {
		b[0] = 'h'
	}
	return string(b)
}

// vfC17Name returns a host name that is unique to (tag) so that a rewritten destination
// names the case that produced it.  Plain LDH labels, never an IP literal.
func vfC17Name(r *rand.Rand, tag string) string {
	var parts []string
	parts = append(parts, "c17"+tag)
	nl := 1 + r.Intn(3)
	if r.Intn(12) == 0 {
		nl = 3 + r.Intn(4)
	}
	for i := 0; i < nl; i++ {
		ln := 1 + r.Intn(12)
		if r.Intn(15) == 0 {
			ln = 40 + r.Intn(24) // up to 63
		}
		parts = append(parts, vfC17Label(r, ln))
	}
	parts = append(parts, []string{"test", "example", "invalid", "com", "org", "io"}[r.Intn(6)])
	name := strings.Join(parts, ".")
	if len(name) > 253 {
		name = name[len(name)-253:]
		name = "x" + strings.TrimLeft(name[1:], ".-")
	}
	return name
}

func vfC17MixCase(r *rand.Rand, s string) string {
	b := []byte(s)
	for i := range b {
		if b[i] >= 'a' && b[i] <= 'z' && r.Intn(3) == 0 {
			b[i] -= 32
		}
	}
	return string(b)
}

type vfC17Dest struct {
	ReqAddr       string `json:"req_addr"`
	Host          string `json:"-"`
	Port          string `json:"-"`
	RewriteDomain bool   `json:"rewrite_domain"`
	Filter        string `json:"port_filter"` // human-readable
	ports         utils.PortUnion
}

// vfC17MakeDest picks the original destination, the RewriteDomain switch and a port filter.
func vfC17MakeDest(r *rand.Rand, tag string) vfC17Dest {
	var d vfC17Dest
	port := 1 + r.Intn(65535)
	if r.Intn(3) == 0 {
		port = []int{80, 443, 8080, 8443, 1, 65535}[r.Intn(6)]
	}
	d.Port = fmt.Sprint(port)
	switch x := r.Intn(10); {
	case x < 5:
		d.Host = fmt.Sprintf("%d.%d.%d.%d", 1+r.Intn(223), r.Intn(256), r.Intn(256), 1+r.Intn(254))
	case x < 7:
		d.Host = fmt.Sprintf("2001:db8:%x::%x", r.Intn(65536), 1+r.Intn(65535))
	default:
		d.Host = "orig" + tag + "." + vfC17Label(r, 1+r.Intn(8)) + ".example"
	}
	d.ReqAddr = net.JoinHostPort(d.Host, d.Port)
	d.RewriteDomain = r.Intn(3) != 0
	switch x := r.Intn(10); {
	case x < 5:
		d.Filter = "all"
	case x < 8: // a filter that contains the port
		lo, hi := port-r.Intn(50), port+r.Intn(50)
		if lo < 1 {
			lo = 1
		}
		if hi > 65535 {
			hi = 65535
		}
		d.ports = utils.PortUnion{{Start: uint16(lo), End: uint16(hi)}}
		if r.Intn(2) == 0 {
			d.ports = append(utils.PortUnion{{Start: 0, End: 0}}, d.ports...)
		}
		d.Filter = fmt.Sprintf("contains %v", d.ports)
	default: // a filter that excludes the port
		if port > 1 {
			d.ports = append(d.ports, utils.PortRange{Start: 1, End: uint16(port - 1)})
		}
		if port < 65535 {
			d.ports = append(d.ports, utils.PortRange{Start: uint16(port + 1), End: 65535})
		}
		d.Filter = fmt.Sprintf("excludes %d", port)
	}
	return d
}

// ---------------------------------------------------------------------------------------
// inputs

const (
	vfC17Must      = "must-rewrite" // valid, mainstream input: once the header has fully arrived before the deadline the host must become one of Accept; if it arrives after the deadline (or never) the destination must stay untouched
	vfC17Untouched = "untouched"    // garbage / truncated / nothing to sniff: the destination must not change
	vfC17Free      = "free"         // only the universal rules apply (port, name present in the bytes)
)

type vfC17Input struct {
	Kind      string   `json:"kind"`
	Mode      string   `json:"mode"`
	Accept    []string `json:"accept,omitempty"`
	HeaderEnd int      `json:"header_end,omitempty"` // number of leading bytes that carry the sniffable header
	Note      string   `json:"note,omitempty"`
	Data      []byte   `json:"-"`
}

var vfC17Methods = []string{"GET", "POST", "PUT", "HEAD", "DELETE", "OPTIONS", "PATCH"}

// vfC17HTTP builds an HTTP/1.x request of about `size` bytes. form selects how the name is embedded.
func vfC17HTTP(r *rand.Rand, tag string, form string, size int) vfC17Input {
	name := vfC17Name(r, tag)
	if r.Intn(4) == 0 {
		name = vfC17MixCase(r, name)
	}
	decoy := "decoy" + tag + ".invalid"
	method := vfC17Methods[r.Intn(len(vfC17Methods))]
	path := "/" + vfC17Label(r, 1+r.Intn(20))
	if r.Intn(4) == 0 {
		path += "?u=http://" + decoy + "/x"
	}
	proto := "HTTP/1.1"
	in := vfC17Input{Kind: "http:" + form, Mode: vfC17Must, Accept: []string{name}}
	target := path
	hostLine := ""
	hname := "Host"
	switch r.Intn(6) {
	case 0:
		hname = "host"
	case 1:
		hname = "HOST"
	}
	ows := []string{" ", "", "  ", "\t"}[r.Intn(4)]
	switch form {
	case "host":
		hostLine = hname + ":" + ows + name + "\r\n"
	case "host-port":
		hostLine = fmt.Sprintf("%s:%s%s:%d\r\n", hname, ows, name, 1+r.Intn(65535))
	case "abs-uri":
		target = "http://" + name + path
		hostLine = hname + ": " + name + "\r\n"
	case "abs-uri-port-other-host":
		other := "hdr" + tag + "." + vfC17Label(r, 5) + ".test"
		target = fmt.Sprintf("http://%s:%d%s", name, 1+r.Intn(65535), path)
		hostLine = hname + ": " + other + "\r\n"
		in.Accept = []string{name, other} // RFC 7230 §5.4 says the request-target wins; both are present in the bytes
	case "abs-uri-no-host":
		target = "http://" + name + path
		proto = "HTTP/1.0"
	case "connect":
		method = "CONNECT"
		target = name + ":443"
		hostLine = hname + ": " + name + ":443\r\n"
	case "ip4":
		ip := fmt.Sprintf("%d.%d.%d.%d", 1+r.Intn(223), r.Intn(256), r.Intn(256), 1+r.Intn(254))
		in.Accept = []string{ip}
		if r.Intn(2) == 0 {
			hostLine = hname + ": " + ip + "\r\n"
		} else {
			hostLine = fmt.Sprintf("%s: %s:%d\r\n", hname, ip, 1+r.Intn(65535))
		}
	case "ip6-port":
		ip := fmt.Sprintf("2001:db8:%x::%x", r.Intn(65536), 1+r.Intn(65535))
		in.Accept = []string{ip}
		hostLine = fmt.Sprintf("%s: [%s]:%d\r\n", hname, ip, 1+r.Intn(65535))
	case "ip6-bare": // what a browser sends for http://[2001:db8::1]/
		ip := fmt.Sprintf("2001:db8:%x::%x", r.Intn(65536), 1+r.Intn(65535))
		in.Accept = []string{ip}
		hostLine = fmt.Sprintf("%s: [%s]\r\n", hname, ip)
		if r.Intn(2) == 0 {
			target = "http://[" + ip + "]" + path
		}
	case "empty-host": // syntactically a Host header (RFC 7230 allows an empty reg-name) but there is no name in it
		hostLine = fmt.Sprintf("%s: :%d\r\n", hname, 1+r.Intn(65535))
		in.Mode = vfC17Untouched
		in.Accept = nil
		in.Note = "Host header with an empty host part"
	case "missing":
		proto = "HTTP/1.0"
		in.Mode = vfC17Untouched
		in.Accept = nil
		in.Note = "valid request without any host name"
	case "custom-method": // a method the sniffer need not know: no obligation to rewrite
		method = []string{"PROPFIND", "M-SEARCH", "get", "X1"}[r.Intn(4)]
		hostLine = hname + ": " + name + "\r\n"
		in.Mode = vfC17Free
	default:
		panic("vfC17HTTP: unknown form " + form)
	}
	var b bytes.Buffer
	b.Grow(size + 1024)
	fmt.Fprintf(&b, "%s %s %s\r\n", method, target, proto)
	// where the Host line goes among the other headers
	hostFirst := r.Intn(2) == 0
	if hostFirst {
		b.WriteString(hostLine)
	}
	body := 0
	if method == "POST" || method == "PUT" || method == "PATCH" {
		body = r.Intn(200)
	}
	fixed := b.Len() + len(hostLine) + 2 + 64
	pad := size - fixed - body
	i := 0
	for pad > 0 {
		ln := 1 + r.Intn(120)
		if r.Intn(30) == 0 {
			ln = 4000 + r.Intn(9000) // one header line longer than a 4 KiB buffered reader
		}
		if ln > pad {
			ln = pad
		}
		before := b.Len()
		fmt.Fprintf(&b, "X-Pad-%d: ", i)
		if i%7 == 3 {
			b.WriteString("see " + decoy + " ")
		}
		for j := 0; j < ln; j++ {
			b.WriteByte(byte('a' + i%26))
		}
		b.WriteString("\r\n")
		pad -= b.Len() - before
		i++
	}
	if r.Intn(2) == 0 {
		b.WriteString("User-Agent: vfC17/" + tag + "\r\n")
	}
	if body > 0 {
		fmt.Fprintf(&b, "Content-Length: %d\r\n", body)
	}
	if !hostFirst {
		b.WriteString(hostLine)
	}
	b.WriteString("\r\n")
	in.HeaderEnd = b.Len()
	if body > 0 {
		bd := []byte("Host: " + decoy + "\r\n\r\n" + strings.Repeat("B", body))
		b.Write(bd[:body])
	}
	if r.Intn(5) == 0 { // a pipelined second request naming another host
		fmt.Fprintf(&b, "GET /second HTTP/1.1\r\nHost: %s\r\n\r\n", decoy)
	}
	in.Data = b.Bytes()
	if in.HeaderEnd > 192*1024 {
		// larger than any obligation we can justify from the documentation (the sniffer bounds
		// the header block it is willing to parse); conservation must still hold
		in.Mode = vfC17Free
	}
	return in
}

var vfC17HTTPForms = []string{"host", "host", "host-port", "host-port", "abs-uri", "abs-uri-port-other-host",
	"abs-uri-no-host", "connect", "ip4", "ip6-port", "ip6-bare", "empty-host", "missing", "custom-method"}

// vfC17SubRand forks a PRNG for crypto/tls's Config.Rand: crypto/tls consumes a
// non-deterministic number of bytes from it, which must not disturb the case generator.
func vfC17SubRand(r *rand.Rand) *rand.Rand { return rand.New(rand.NewSource(r.Int63())) }

// ---- TLS

type vfC17CapConn struct {
	buf bytes.Buffer
}

func (c *vfC17CapConn) Read(b []byte) (int, error)  { return 0, io.EOF }
func (c *vfC17CapConn) Write(b []byte) (int, error) { return c.buf.Write(b) }
func (c *vfC17CapConn) Close() error                { return nil }
func (c *vfC17CapConn) LocalAddr() net.Addr         { return &net.TCPAddr{IP: net.IPv4(10, 0, 0, 1), Port: 1} }
func (c *vfC17CapConn) RemoteAddr() net.Addr {
	return &net.TCPAddr{IP: net.IPv4(10, 0, 0, 2), Port: 443}
}
func (c *vfC17CapConn) SetDeadline(t time.Time) error      { return nil }
func (c *vfC17CapConn) SetReadDeadline(t time.Time) error  { return nil }
func (c *vfC17CapConn) SetWriteDeadline(t time.Time) error { return nil }

// vfC17ReplayConn feeds fixed bytes to a crypto/tls server (corpus self-check).
type vfC17ReplayConn struct {
	vfC17CapConn
	in *bytes.Reader
}

func (c *vfC17ReplayConn) Read(b []byte) (int, error) { return c.in.Read(b) }

// vfC17ServerSeesSNI runs crypto/tls's server-side ClientHello parser over a record stream
// and returns the server name it extracts ("" with ok=false if it does not parse).
func vfC17ServerSeesSNI(records []byte) (string, bool) {
	got, ok := "", false
	stop := errors.New("stop")
	srv := tls.Server(&vfC17ReplayConn{in: bytes.NewReader(records)}, &tls.Config{
		GetConfigForClient: func(chi *tls.ClientHelloInfo) (*tls.Config, error) {
			got, ok = chi.ServerName, true
			return nil, stop
		},
	})
	_ = srv.Handshake()
	return got, ok
}

type vfC17Hello struct {
	SNI    string
	Record []byte // one TLS record 16 03 xx len(2) ‖ handshake message
	Msg    []byte // the handshake message (ClientHello) alone
	Source string
}

// vfC17TLSClientCfg runs a crypto/tls client handshake against the capturing conn; min
// selects the smallest hello crypto/tls will produce.
func vfC17TLSClientCfg(cc *vfC17CapConn, sni string, r *rand.Rand, min bool) error {
	cfg := &tls.Config{ServerName: sni, Rand: vfC17SubRand(r), InsecureSkipVerify: true}
	if min {
		cfg.MaxVersion = tls.VersionTLS12
		cfg.MinVersion = tls.VersionTLS12
		cfg.CipherSuites = []uint16{tls.TLS_ECDHE_RSA_WITH_AES_128_GCM_SHA256}
		cfg.CurvePreferences = []tls.CurveID{tls.X25519}
		cfg.SessionTicketsDisabled = true
	}
	return tls.Client(cc, cfg).Handshake() // fails with EOF after the hello went out
}

// vfC17TLSHello makes a ClientHello record with crypto/tls for the given SNI.
func vfC17TLSHello(r *rand.Rand, sni string) (vfC17Hello, error) {
	cfg := &tls.Config{ServerName: sni, Rand: vfC17SubRand(r), InsecureSkipVerify: true}
	src := "crypto/tls"
	switch r.Intn(5) {
	case 0:
		cfg.MaxVersion = tls.VersionTLS12
		src += " max=1.2"
	case 1:
		cfg.CurvePreferences = []tls.CurveID{tls.X25519}
		src += " x25519"
	case 2:
		cfg.CurvePreferences = []tls.CurveID{tls.CurveP256, tls.X25519}
		src += " p256,x25519"
	}
	if r.Intn(2) == 0 {
		cfg.NextProtos = [][]string{{"h2", "http/1.1"}, {"http/1.1"}, {"h2"}, {"vfc17-" + vfC17Label(r, 1+r.Intn(30))}}[r.Intn(4)]
		src += fmt.Sprintf(" alpn=%v", cfg.NextProtos)
	}
	if r.Intn(3) == 0 {
		cfg.SessionTicketsDisabled = true
	}
	cc := &vfC17CapConn{}
	_ = tls.Client(cc, cfg).Handshake() // fails with EOF after the hello went out
	rec := cc.buf.Bytes()
	return vfC17CheckHello(rec, sni, src)
}

func vfC17CheckHello(rec []byte, sni, src string) (vfC17Hello, error) {
	if len(rec) < 9 || rec[0] != 0x16 || rec[1] != 3 {
		return vfC17Hello{}, fmt.Errorf("%s: no handshake record captured (%d bytes)", src, len(rec))
	}
	n := int(rec[3])<<8 | int(rec[4])
	if len(rec) < 5+n {
		return vfC17Hello{}, fmt.Errorf("%s: short record", src)
	}
	rec = vfExact(rec[:5+n])
	if rec[5] != 1 || 4+(int(rec[6])<<16|int(rec[7])<<8|int(rec[8])) != n {
		return vfC17Hello{}, fmt.Errorf("%s: ClientHello does not fill exactly one record (record %d bytes)", src, n)
	}
	got, ok := vfC17ServerSeesSNI(rec)
	if !ok || !strings.EqualFold(got, sni) {
		return vfC17Hello{}, fmt.Errorf("%s: crypto/tls server parser sees SNI %q (ok=%v), wanted %q", src, got, ok, sni)
	}
	return vfC17Hello{SNI: sni, Record: rec, Msg: rec[5:], Source: src}, nil
}

// vfC17UTLSHello makes a browser-shaped ClientHello with a utls preset.
func vfC17UTLSHello(r *rand.Rand, sni string) (vfC17Hello, error) {
	ids := []utls.ClientHelloID{utls.HelloChrome_Auto, utls.HelloFirefox_Auto, utls.HelloSafari_Auto, utls.HelloIOS_Auto, utls.HelloEdge_Auto}
	id := ids[r.Intn(len(ids))]
	uc := utls.UClient(&vfC17CapConn{}, &utls.Config{ServerName: sni, InsecureSkipVerify: true}, id)
	if err := uc.BuildHandshakeState(); err != nil {
		return vfC17Hello{}, fmt.Errorf("utls %s: %v", id.Str(), err)
	}
	msg := uc.HandshakeState.Hello.Raw
	rec := append([]byte{0x16, 3, 1, byte(len(msg) >> 8), byte(len(msg))}, msg...)
	return vfC17CheckHello(rec, sni, "utls "+id.Str())
}

// ---------------------------------------------------------------------------------------
// reference QUIC Initial codec (RFC 9001 §5, RFC 9369 §3.3, RFC 8446 §7.1)

const (
	vfC17QV1 uint32 = 0x00000001
	vfC17QV2 uint32 = 0x6b3343cf
)

func vfC17MustHex(s string) []byte {
	b, err := hex.DecodeString(s)
	if err != nil {
		panic(err)
	}
	return b
}

var (
	vfC17SaltV1 = vfC17MustHex("38762cf7f55934b34d179ae6a4c80cadccbb7f0a") // RFC 9001 §5.2
	vfC17SaltV2 = vfC17MustHex("0dede3def700a6db819381be6e269dcbf9bd2ed9") // RFC 9369 §3.3.1
)

func vfC17ExpandLabel(secret []byte, label string, n int) []byte {
	info := []byte{byte(n >> 8), byte(n), byte(6 + len(label))}
	info = append(info, "tls13 "...)
	info = append(info, label...)
	info = append(info, 0)
	out, err := hkdf.Expand(sha256.New, secret, string(info), n)
	if err != nil {
		panic(err)
	}
	return out
}

type vfC17QKeys struct {
	aead cipher.AEAD
	iv   []byte
	hp   cipher.Block
}

func vfC17ClientInitialKeys(ver uint32, dcid []byte) vfC17QKeys {
	salt, kl, il, hl := vfC17SaltV1, "quic key", "quic iv", "quic hp"
	if ver == vfC17QV2 {
		salt, kl, il, hl = vfC17SaltV2, "quicv2 key", "quicv2 iv", "quicv2 hp"
	}
	prk, err := hkdf.Extract(sha256.New, dcid, salt)
	if err != nil {
		panic(err)
	}
	cs := vfC17ExpandLabel(prk, "client in", 32)
	blk, _ := aes.NewCipher(vfC17ExpandLabel(cs, kl, 16))
	aead, _ := cipher.NewGCM(blk)
	hp, _ := aes.NewCipher(vfC17ExpandLabel(cs, hl, 16))
	return vfC17QKeys{aead: aead, iv: vfC17ExpandLabel(cs, il, 12), hp: hp}
}

func (k vfC17QKeys) nonce(pn uint64) []byte {
	n := append([]byte(nil), k.iv...)
	var b [8]byte
	binary.BigEndian.PutUint64(b[:], pn)
	for i := 0; i < 8; i++ {
		n[4+i] ^= b[i]
	}
	return n
}

// vfC17Varint encodes v in at least minLen (1,2,4,8) bytes (RFC 9000 §16).
func vfC17Varint(v uint64, minLen int) []byte {
	l := 1
	switch {
	case v >= 1<<30:
		l = 8
	case v >= 1<<14:
		l = 4
	case v >= 1<<6:
		l = 2
	}
	if minLen > l {
		l = minLen
	}
	switch l {
	case 1:
		return []byte{byte(v)}
	case 2:
		return []byte{0x40 | byte(v>>8), byte(v)}
	case 4:
		return []byte{0x80 | byte(v>>24), byte(v >> 16), byte(v >> 8), byte(v)}
	}
	b := make([]byte, 8)
	binary.BigEndian.PutUint64(b, v)
	b[0] |= 0xC0
	return b
}

func vfC17ReadVarint(b []byte) (uint64, int, bool) {
	if len(b) == 0 {
		return 0, 0, false
	}
	l := 1 << (b[0] >> 6)
	if len(b) < l {
		return 0, 0, false
	}
	v := uint64(b[0] & 0x3f)
	for i := 1; i < l; i++ {
		v = v<<8 | uint64(b[i])
	}
	return v, l, true
}

type vfC17CryptoFrame struct {
	Off  int
	Data []byte
}

type vfC17Initial struct {
	Version  uint32
	DCID     []byte
	SCID     []byte
	Token    []byte
	PN       uint32
	PNLen    int
	LenBytes int    // size of the Length varint (2 is what implementations send)
	Payload  []byte // frames
	Trailer  []byte // bytes after this packet in the same datagram (a coalesced packet)
}

func (p *vfC17Initial) Seal() []byte {
	typ := byte(0)
	if p.Version == vfC17QV2 {
		typ = 1
	}
	hdr := []byte{0xC0 | typ<<4 | byte(p.PNLen-1)}
	hdr = binary.BigEndian.AppendUint32(hdr, p.Version)
	hdr = append(hdr, byte(len(p.DCID)))
	hdr = append(hdr, p.DCID...)
	hdr = append(hdr, byte(len(p.SCID)))
	hdr = append(hdr, p.SCID...)
	hdr = append(hdr, vfC17Varint(uint64(len(p.Token)), 1)...)
	hdr = append(hdr, p.Token...)
	hdr = append(hdr, vfC17Varint(uint64(p.PNLen+len(p.Payload)+16), p.LenBytes)...)
	pnOff := len(hdr)
	for i := p.PNLen - 1; i >= 0; i-- {
		hdr = append(hdr, byte(p.PN>>(8*uint(i))))
	}
	k := vfC17ClientInitialKeys(p.Version, p.DCID)
	pkt := k.aead.Seal(append([]byte(nil), hdr...), k.nonce(uint64(p.PN)), p.Payload, hdr)
	if len(pkt) < pnOff+20 {
		panic("vfC17Initial.Seal: payload too short to sample")
	}
	var mask [16]byte
	k.hp.Encrypt(mask[:], pkt[pnOff+4:pnOff+20])
	pkt[0] ^= mask[0] & 0x0f
	for i := 0; i < p.PNLen; i++ {
		pkt[pnOff+i] ^= mask[1+i]
	}
	return append(pkt, p.Trailer...)
}

type vfC17Opened struct {
	Version   uint32
	DCID      []byte
	PN        uint64
	PNLen     int
	PktLen    int    // bytes of the datagram that belong to the Initial
	Plain     []byte // decrypted frames
	Frames    []vfC17CryptoFrame
	Other     bool     // frames other than PADDING/PING/CRYPTO seen (parsing stopped there)
	Crypto    []byte   // contiguous CRYPTO data from offset 0
	Assembled []byte   // all CRYPTO frames laid out at their offsets (holes are zero)
	Segments  [][]byte // the maximal covered runs of Assembled
	HelloOK   bool     // Crypto holds a complete handshake message of type ClientHello
}

// vfC17RefOpen decides whether pkt starts with a client Initial (v1 or v2) that decrypts
// under the keys RFC 9001 derives from its DCID. It never writes to pkt.
func vfC17RefOpen(pkt []byte) (*vfC17Opened, error) {
	if len(pkt) < 7 {
		return nil, errors.New("too short")
	}
	if pkt[0]&0xC0 != 0xC0 {
		return nil, errors.New("not a long header with the fixed bit")
	}
	ver := binary.BigEndian.Uint32(pkt[1:5])
	typ := pkt[0] >> 4 & 3
	switch {
	case ver == vfC17QV1 && typ == 0:
	case ver == vfC17QV2 && typ == 1:
	default:
		return nil, fmt.Errorf("not an Initial of a known version (version %#x type %d)", ver, typ)
	}
	off := 5
	readCID := func() ([]byte, bool) {
		if off >= len(pkt) {
			return nil, false
		}
		l := int(pkt[off])
		off++
		if l > 20 || off+l > len(pkt) {
			return nil, false
		}
		c := pkt[off : off+l]
		off += l
		return c, true
	}
	dcid, ok := readCID()
	if !ok {
		return nil, errors.New("bad DCID")
	}
	if _, ok = readCID(); !ok {
		return nil, errors.New("bad SCID")
	}
	tl, n, ok := vfC17ReadVarint(pkt[off:])
	if !ok || uint64(len(pkt)-off-n) < tl {
		return nil, errors.New("bad token")
	}
	off += n + int(tl)
	ln, n, ok := vfC17ReadVarint(pkt[off:])
	if !ok {
		return nil, errors.New("bad length")
	}
	off += n
	if ln < 20 || uint64(len(pkt)-off) < ln {
		return nil, errors.New("length field does not fit the datagram")
	}
	cp := append([]byte(nil), pkt[:off+int(ln)]...)
	k := vfC17ClientInitialKeys(ver, dcid)
	var mask [16]byte
	k.hp.Encrypt(mask[:], cp[off+4:off+20])
	cp[0] ^= mask[0] & 0x0f
	pnLen := int(cp[0]&3) + 1
	var pn uint64
	for i := 0; i < pnLen; i++ {
		cp[off+i] ^= mask[1+i]
		pn = pn<<8 | uint64(cp[off+i])
	}
	plain, err := k.aead.Open(nil, k.nonce(pn), cp[off+pnLen:], cp[:off+pnLen])
	if err != nil {
		return nil, errors.New("AEAD authentication failed")
	}
	o := &vfC17Opened{Version: ver, DCID: append([]byte(nil), dcid...), PN: pn, PNLen: pnLen, PktLen: off + int(ln), Plain: plain}
	b := plain
	for len(b) > 0 {
		t, n, ok := vfC17ReadVarint(b)
		if !ok {
			o.Other = true
			break
		}
		if t == 0 || t == 1 {
			b = b[n:]
			continue
		}
		if t != 6 {
			o.Other = true
			break
		}
		b = b[n:]
		fo, n1, ok1 := vfC17ReadVarint(b)
		if !ok1 {
			o.Other = true
			break
		}
		fl, n2, ok2 := vfC17ReadVarint(b[n1:])
		if !ok2 || uint64(len(b)-n1-n2) < fl || fo > 1<<20 {
			o.Other = true
			break
		}
		o.Frames = append(o.Frames, vfC17CryptoFrame{Off: int(fo), Data: b[n1+n2 : n1+n2+int(fl)]})
		b = b[n1+n2+int(fl):]
	}
	// contiguous prefix from offset 0
	for progress := true; progress; {
		progress = false
		for _, f := range o.Frames {
			if f.Off <= len(o.Crypto) && f.Off+len(f.Data) > len(o.Crypto) {
				o.Crypto = append(o.Crypto, f.Data[len(o.Crypto)-f.Off:]...)
				progress = true
			}
		}
	}
	// every CRYPTO frame at its offset (holes stay zero): what a reassembling reader can see
	end := 0
	for _, f := range o.Frames {
		if f.Off+len(f.Data) > end {
			end = f.Off + len(f.Data)
		}
	}
	o.Assembled = make([]byte, end)
	covered := make([]bool, end)
	for _, f := range o.Frames {
		copy(o.Assembled[f.Off:], f.Data)
		for i := f.Off; i < f.Off+len(f.Data); i++ {
			covered[i] = true
		}
	}
	// maximal runs of CRYPTO stream bytes that really are in the packet; a name that spans a
	// hole (zero-filled in Assembled) is NOT present in the bytes
	for i := 0; i < end; {
		if !covered[i] {
			i++
			continue
		}
		j := i
		for j < end && covered[j] {
			j++
		}
		o.Segments = append(o.Segments, o.Assembled[i:j])
		i = j
	}
	if len(o.Crypto) >= 4 && o.Crypto[0] == 1 {
		hl := int(o.Crypto[1])<<16 | int(o.Crypto[2])<<8 | int(o.Crypto[3])
		o.HelloOK = len(o.Crypto) >= 4+hl
	}
	return o, nil
}

// vfC17FramePayload lays CRYPTO frames (pieces of data, in the given order) out with
// PADDING / PING in between and pads the result to at least minLen bytes.
func vfC17FramePayload(r *rand.Rand, data []byte, cuts []int, order []int, minLen int) []byte {
	type piece struct{ off, end int }
	var ps []piece
	prev := 0
	for _, c := range cuts {
		ps = append(ps, piece{prev, c})
		prev = c
	}
	ps = append(ps, piece{prev, len(data)})
	var b []byte
	for _, idx := range order {
		p := ps[idx]
		switch r.Intn(4) {
		case 0:
			b = append(b, make([]byte, r.Intn(8))...) // PADDING
		case 1:
			b = append(b, 1) // PING
		}
		b = append(b, 6)
		b = append(b, vfC17Varint(uint64(p.off), []int{1, 1, 2, 4}[r.Intn(4)])...)
		b = append(b, vfC17Varint(uint64(p.end-p.off), []int{1, 2, 2, 4}[r.Intn(4)])...)
		b = append(b, data[p.off:p.end]...)
	}
	if len(b) < minLen {
		b = append(b, make([]byte, minLen-len(b))...)
	}
	return b
}

// vfC17FramesPayload lays an explicit list of CRYPTO frames (any offsets: overlapping,
// duplicated, with gaps) out in the given order with PADDING / PING in between.
func vfC17FramesPayload(r *rand.Rand, frames []vfC17CryptoFrame, minLen int) []byte {
	var b []byte
	for _, f := range frames {
		switch r.Intn(4) {
		case 0:
			b = append(b, make([]byte, r.Intn(6))...)
		case 1:
			b = append(b, 1)
		}
		b = append(b, 6)
		b = append(b, vfC17Varint(uint64(f.Off), []int{1, 1, 2, 4}[r.Intn(4)])...)
		b = append(b, vfC17Varint(uint64(len(f.Data)), []int{1, 2, 2, 4}[r.Intn(4)])...)
		b = append(b, f.Data...)
	}
	if len(b) < minLen {
		b = append(b, make([]byte, minLen-len(b))...)
	}
	return b
}

// ---- capturing real Initials from quic-go

type vfC17PktCap struct {
	mu     sync.Mutex
	pkts   [][]byte
	first  chan struct{}
	closed chan struct{}
	once   sync.Once
	conce  sync.Once
}

func vfC17NewPktCap() *vfC17PktCap {
	return &vfC17PktCap{first: make(chan struct{}), closed: make(chan struct{})}
}

func (p *vfC17PktCap) ReadFrom(b []byte) (int, net.Addr, error) {
	<-p.closed
	return 0, nil, net.ErrClosed
}

func (p *vfC17PktCap) WriteTo(b []byte, a net.Addr) (int, error) {
	p.mu.Lock()
	p.pkts = append(p.pkts, vfExact(b))
	p.mu.Unlock()
	p.once.Do(func() { close(p.first) })
	return len(b), nil
}
func (p *vfC17PktCap) Close() error { p.conce.Do(func() { close(p.closed) }); return nil }
func (p *vfC17PktCap) LocalAddr() net.Addr {
	return &net.UDPAddr{IP: net.IPv4(10, 0, 0, 1), Port: 40000}
}
func (p *vfC17PktCap) SetDeadline(time.Time) error      { return nil }
func (p *vfC17PktCap) SetReadDeadline(time.Time) error  { return nil }
func (p *vfC17PktCap) SetWriteDeadline(time.Time) error { return nil }

type vfC17Captured struct {
	SNI    string
	Flight [][]byte // datagrams of the client's first flight, in order
	Config string
	Opened *vfC17Opened // reference view of Flight[0]
	Hello  []byte       // the complete ClientHello when Flight[0] carries it
}

// vfC17CaptureInitial dials with quic-go inside a bubble over a socket that records what is
// sent and never answers; the dial is cancelled 1 ms (virtual) after the first datagram.
func vfC17CaptureInitial(t *testing.T, r *rand.Rand, sni string, small bool, ver quic.Version) (cap vfC17Captured, err error) {
	cap.SNI = sni
	tc := &tls.Config{ServerName: sni, InsecureSkipVerify: true, NextProtos: []string{"h3"}, Rand: vfC17SubRand(r)}
	cap.Config = "quic-go"
	if small {
		tc.CurvePreferences = []tls.CurveID{tls.X25519}
		cap.Config += " x25519-only(one-datagram hello)"
	} else {
		cap.Config += " default-curves(hello spans two datagrams)"
	}
	if r.Intn(3) == 0 {
		tc.NextProtos = []string{"vfc17-" + vfC17Label(r, 1+r.Intn(20)), "h3"}
	}
	qc := &quic.Config{Versions: []quic.Version{ver}}
	cap.Config += fmt.Sprintf(" version=%#x", uint32(ver))
	synctest.Test(t, func(t *testing.T) {
		pc := vfC17NewPktCap()
		tr := &quic.Transport{Conn: pc}
		ctx, cancel := context.WithTimeout(context.Background(), 2*time.Second)
		defer cancel()
		go func() {
			select {
			case <-pc.first:
				time.Sleep(time.Millisecond)
				cancel()
			case <-ctx.Done():
			}
		}()
		_, derr := tr.Dial(ctx, &net.UDPAddr{IP: net.IPv4(10, 0, 0, 2), Port: 443}, tc, qc)
		if derr == nil {
			err = errors.New("dial into a black hole succeeded")
		}
		pc.Close()
		tr.Close()
		synctest.Wait()
		pc.mu.Lock()
		cap.Flight = pc.pkts
		pc.mu.Unlock()
	})
	if err != nil {
		return cap, err
	}
	if len(cap.Flight) == 0 {
		return cap, errors.New("quic-go sent nothing")
	}
	o, oerr := vfC17RefOpen(cap.Flight[0])
	if oerr != nil {
		return cap, fmt.Errorf("reference codec cannot open quic-go's own Initial: %v", oerr)
	}
	cap.Opened = o
	if o.HelloOK {
		cap.Hello = o.Crypto
		if !bytes.Contains(cap.Hello, []byte(sni)) {
			return cap, fmt.Errorf("captured ClientHello does not contain the configured SNI %q", sni)
		}
	}
	return cap, nil
}
