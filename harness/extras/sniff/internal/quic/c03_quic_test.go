//go:build verif

package quic

// C03 — peer-controlled bytes never crash the process: QUIC Initial sniffer internals.
//
//   quic-header:    ParseInitialHeader on hostile datagrams.
//   quic-unprotect: ReadCryptoPayload and, separately for attribution, the very UnProtect call it
//                   makes (same arguments: packet[:offset+Length], offset, 2) on hostile datagrams:
//                   ALL lengths 0..64 behind every interesting first byte (long/short header bit,
//                   fixed bit, packet types) x version x connection-id lengths, mutations of valid
//                   protected packets, random bytes.
//   quic-crypto:    hostile PLAINTEXT: frame streams straight into extractCryptoFrames +
//                   assembleCryptoFrames, and the same frames sealed by a reference RFC 9001
//                   implementation so that they arrive through ReadCryptoPayload's decryption.
//
// Every input is a fresh slice with cap==len. After each batch a well-formed Initial (v1 and v2)
// must still yield exactly the CRYPTO data that was sealed into it.

import (
	"bytes"
	"crypto"
	"fmt"
	"math/rand"
	"testing"

	"golang.org/x/crypto/hkdf"
)

// vfC03UnProtectAsCaller repeats ReadCryptoPayload up to its UnProtect call and then makes that
// call; only inputs that production would hand to UnProtect reach it.
func vfC03UnProtectAsCaller(packet []byte, onCall func()) {
	hdr, offset, err := ParseInitialHeader(packet)
	if err != nil {
		return
	}
	if hdr.Version != V1 && hdr.Version != V2 {
		return
	}
	if offset == 0 || hdr.Length == 0 {
		return
	}
	initialSecret := hkdf.Extract(crypto.SHA256.New, hdr.DestConnectionID, getSalt(hdr.Version))
	clientSecret := hkdfExpandLabel(crypto.SHA256.New, initialSecret, "client in", []byte{}, crypto.SHA256.Size())
	key, err := NewInitialProtectionKey(clientSecret, hdr.Version)
	if err != nil {
		return
	}
	pp := NewPacketProtector(key)
	if int64(len(packet)) < offset+hdr.Length {
		return
	}
	onCall()
	_, _ = pp.UnProtect(packet[:offset+hdr.Length], offset, 2)
}

// vfC03HeaderHeads: first byte x version x connection-id lengths x token length x Length field.
func vfC03HeaderHeads(rng *rand.Rand, thorough bool) [][]byte {
	var heads [][]byte
	firsts := []byte{0x00, 0x40, 0x43, 0x7f, 0x80, 0xc0, 0xc3, 0xd0, 0xff}
	versions := []uint32{V1, V2}
	cids := [][2]int{{0, 0}, {8, 8}}
	tokens := [][]byte{{0x00}, {0x01, 0xee}}
	lengths := [][]byte{{0x00}, {0x01}, {0x02}, {0x14}, {0x15}, {0x40, 0x14}}
	if thorough {
		firsts = []byte{0x00, 0x01, 0x3f, 0x40, 0x41, 0x42, 0x43, 0x4f, 0x50, 0x60, 0x7f, 0x80, 0x83, 0xc0, 0xc1, 0xc2, 0xc3, 0xcf, 0xd0, 0xd3, 0xe0, 0xf0, 0xff}
		cids = append(cids, [2]int{8, 0}, [2]int{20, 20})
		tokens = append(tokens, []byte{0x40, 0x00})
		lengths = append(lengths, []byte{0x13}, []byte{0x16}, []byte{0x3f}, []byte{0x7f, 0xff}, []byte{0xff, 0xff, 0xff, 0xff, 0xff, 0xff, 0xff, 0xff})
	}
	for _, fb := range firsts {
		heads = append(heads, []byte{fb})
		// other versions are refused right after the header: one representative each
		for _, v := range []uint32{0, 0xff00001d, 0xffffffff} {
			heads = append(heads, []byte{fb, byte(v >> 24), byte(v >> 16), byte(v >> 8), byte(v), 0, 0, 0, 0x14})
		}
		for _, v := range versions {
			vb := []byte{fb, byte(v >> 24), byte(v >> 16), byte(v >> 8), byte(v)}
			heads = append(heads, vb, vfC03Cat(vb, []byte{255}), vfC03Cat(vb, []byte{0, 255}))
			for _, cid := range cids {
				h := vfC03Cat(vb, []byte{byte(cid[0])}, vfC03Fill(rng, 2, cid[0]), []byte{byte(cid[1])}, vfC03Fill(rng, 2, cid[1]))
				for _, tl := range tokens {
					for _, ln := range lengths {
						heads = append(heads, vfC03Cat(h, tl, ln))
					}
				}
			}
		}
	}
	return heads
}

// vfC03HeadPrefixes: ALL lengths 0..64 of head||fill; quick uses one fill pattern per head (rotating), thorough all four.
func vfC03HeadPrefixes(rng *rand.Rand, heads [][]byte, thorough bool, emit func([]byte)) {
	for i, h := range heads {
		for kind := 0; kind < 4; kind++ {
			if !thorough && kind != i%4 {
				continue
			}
			full := append(append([]byte(nil), h...), vfC03Fill(rng, kind, 65)...)
			for l := 0; l <= 64; l++ {
				emit(full[:l])
			}
		}
	}
}

func vfC03ValidInitial(rng *rand.Rand, version uint32, data []byte, pnLen int) []byte {
	dcid := vfC03Fill(rng, 2, 8)
	frames := vfC03Cat(vfC03CryptoFrame(0, uint64(len(data)), data, 0), make([]byte, 30))
	return vfC03SealInitial(vfC03Initial{Version: version, DCID: dcid, SCID: []byte{1, 2, 3, 4}, PN: 1, PNLen: pnLen, Frames: frames})
}

func vfC03QUICCanary(r *vfC03Run, entry string, rng *rand.Rand, n int) {
	version := V1
	if n%2 == 1 {
		version = V2
	}
	data := []byte(fmt.Sprintf("\x01c03 canary crypto data %d ....", n))
	r.Canary(entry, "", map[string]any{"version": version, "crypto_data": string(data)}, func() error {
		pkt := vfC03ValidInitial(rng, version, data, 1+n%4)
		got, err := ReadCryptoPayload(vfExact(pkt))
		if err != nil || !bytes.Equal(got, data) {
			return fmt.Errorf("ReadCryptoPayload on a well-formed Initial (version %#x): got %q err=%v, want %q", version, got, err, data)
		}
		return nil
	})
}

func TestVerifC03QuicHeader(t *testing.T) {
	k := vfNewKit(t, "C03", "quic-header")
	defer k.Finish()
	r := vfC03New(k)
	defer r.Close()
	const entry = "quic:ParseInitialHeader"
	r.Entry(entry, func(b []byte) {
		hdr, n, err := ParseInitialHeader(b)
		if err != nil {
			k.Count("ev_rejected", 1)
			return
		}
		k.Count("ev_accepted", 1)
		if n < 0 || n > int64(len(b)) || hdr == nil {
			panic(fmt.Sprintf("ParseInitialHeader reports %d bytes read of %d", n, len(b)))
		}
	})
	if r.Replay() {
		return
	}
	rng := k.Rand("gen")
	emit := func(b []byte) { r.Do(entry, b) }
	heads := vfC03HeaderHeads(rng, !k.Quick())
	// the full head list is used by quic-unprotect; here every 3rd head is enough
	var sub [][]byte
	for i, h := range heads {
		if i%3 == 0 {
			sub = append(sub, h)
		}
	}
	vfC03HeadPrefixes(rng, sub, !k.Quick(), emit)
	seed := vfC03ValidInitial(rng, V1, vfC03ClientHello("c03.verif"), 1)
	vfC03Mutations(rng, seed, []vfC03Field{{5, 1, "u8"}, {14, 1, "u8"}, {19, 1, "varint"}, {20, 2, "varint"}}, vfC03LenValues(20, 255, uint64(len(seed))), k.N(500, 10000), emit)
	vfC03Random(rng, k.N(3000, 60000), 1500, emit)
	k.Sample(map[string]any{"entry": entry, "inputs": k.Counter("ev_inputs"), "valid_seed": vfHex(seed)})
}

func TestVerifC03QuicUnprotect(t *testing.T) {
	k := vfNewKit(t, "C03", "quic-unprotect")
	defer k.Finish()
	r := vfC03New(k)
	defer r.Close()
	const entryRCP = "quic:ReadCryptoPayload"
	const entryUP = "quic:PacketProtector.UnProtect"
	r.Entry(entryRCP, func(b []byte) {
		if _, err := ReadCryptoPayload(b); err != nil {
			k.Count("ev_rejected", 1)
		} else {
			k.Count("ev_accepted", 1)
		}
	})
	r.Entry(entryUP, func(b []byte) {
		vfC03UnProtectAsCaller(b, func() { k.Count("ev_unprotect_calls", 1) })
	})
	if r.Replay() {
		return
	}
	rng := k.Rand("gen")
	n := 0
	emit := func(b []byte) {
		r.Do(entryUP, b)
		r.Do(entryRCP, b)
		if n++; n%1000 == 0 {
			vfC03QUICCanary(r, entryRCP, rng, n/1000)
		}
	}
	// (a) all lengths 0..64 behind structured heads
	vfC03HeadPrefixes(rng, vfC03HeaderHeads(rng, !k.Quick()), !k.Quick(), emit)
	// (b) mutations of valid protected packets (v1, v2; packet number lengths 1..4)
	for i, v := range []uint32{V1, V2, V1, V1}[:k.N(2, 4)] {
		seed := vfC03ValidInitial(rng, v, vfC03ClientHello("c03.verif"), 1+3*i%4)
		fields := []vfC03Field{{0, 1, "u8"}, {5, 1, "u8"}, {14, 1, "u8"}, {19, 1, "varint"}, {20, 2, "varint"}}
		vfC03Mutations(rng, seed, fields, vfC03LenValues(16, 20, 21, 255, uint64(len(seed)), uint64(len(seed)-22)), k.N(400, 8000), emit)
	}
	// (c) random bytes; random bytes behind a plausible header
	vfC03Random(rng, k.N(2000, 60000), 1500, emit)
	for i, nr := 0, k.N(2000, 60000); i < nr; i++ {
		fb := byte(rng.Intn(256))
		v := []uint32{V1, V2}[rng.Intn(2)]
		dl, sl := rng.Intn(21), rng.Intn(21)
		if rng.Intn(3) == 0 {
			dl, sl = 0, 0
		}
		body := vfC03Fill(rng, 2, rng.Intn(80))
		ln := uint64(len(body))
		switch rng.Intn(4) {
		case 0:
			ln = uint64(rng.Intn(len(body) + 2))
		case 1:
			ln = uint64(rng.Intn(40))
		}
		emit(vfC03Cat([]byte{fb, byte(v >> 24), byte(v >> 16), byte(v >> 8), byte(v), byte(dl)}, vfC03Fill(rng, 2, dl), []byte{byte(sl)}, vfC03Fill(rng, 2, sl),
			[]byte{0}, vfC03VarintMin(ln), body))
	}
	vfC03QUICCanary(r, entryRCP, rng, 0)
	vfC03QUICCanary(r, entryRCP, rng, 1)
	k.Sample(map[string]any{"entries": []string{entryRCP, entryUP}, "inputs": k.Counter("ev_inputs"), "unprotect_calls": k.Counter("ev_unprotect_calls")})
}

// vfC03HostileFrames: a plaintext Initial payload made of hostile frames.
func vfC03HostileFrames(rng *rand.Rand) []byte {
	var out []byte
	offsets := []uint64{0, 1, 2, 100, 65535, 65536, maxCryptoPayloadLen - 1, maxCryptoPayloadLen, maxCryptoPayloadLen + 1, 1 << 31, 1 << 32, 1<<62 - 1, uint64(rng.Intn(300))}
	lens := []uint64{0, 1, 2, 16, 100, maxCryptoFrameDataLen, maxCryptoFrameDataLen + 1, 1 << 32, 1<<62 - 1}
	nf := 1 + rng.Intn(6)
	next := uint64(0)
	for i := 0; i < nf; i++ {
		switch rng.Intn(10) {
		case 0:
			out = append(out, make([]byte, rng.Intn(20))...) // PADDING
		case 1:
			out = append(out, 0x01) // PING
		case 2:
			out = append(out, vfC03Varint(uint64(rng.Intn(64)), []int{1, 2, 4, 8}[rng.Intn(4)])...) // some other frame type
		default:
			dl := rng.Intn(40)
			off := next
			if rng.Intn(3) == 0 {
				off = offsets[rng.Intn(len(offsets))]
			}
			announced := uint64(dl)
			if rng.Intn(4) == 0 {
				announced = lens[rng.Intn(len(lens))]
			}
			width := []int{0, 0, 1, 2, 4, 8}[rng.Intn(6)]
			out = append(out, vfC03CryptoFrame(off, announced, vfC03Fill(rng, 2, dl), width)...)
			next = off + uint64(dl)
			if rng.Intn(5) == 0 {
				next += uint64(rng.Intn(3)) // gap
			} else if rng.Intn(8) == 0 && next > 0 {
				next-- // overlap
			}
		}
	}
	if rng.Intn(6) == 0 && len(out) > 0 {
		out = out[:rng.Intn(len(out))]
	}
	return out
}

func TestVerifC03QuicCrypto(t *testing.T) {
	k := vfNewKit(t, "C03", "quic-crypto")
	defer k.Finish()
	r := vfC03New(k)
	defer r.Close()
	const entryFrames = "quic:extractCryptoFrames+assembleCryptoFrames"
	const entrySealed = "quic:ReadCryptoPayload(sealed hostile frames)"
	r.Entry(entryFrames, func(b []byte) {
		frs, err := extractCryptoFrames(bytes.NewReader(b))
		if err != nil {
			k.Count("ev_frames_rejected", 1)
			return
		}
		k.Count("ev_frames_extracted", int64(len(frs)))
		if data := assembleCryptoFrames(frs); data != nil {
			k.Count("ev_assembled", 1)
		}
	})
	// input = plaintext frames; sealed into an Initial with a fixed connection id, then sniffed
	r.Entry(entrySealed, func(b []byte) {
		for _, v := range []uint32{V1, V2}[len(b)%2:][:1] {
			pkt := vfC03SealInitial(vfC03Initial{Version: v, DCID: []byte{0xc0, 0x03, 1, 2, 3, 4, 5, 6}, PN: uint32(len(b) % 3), PNLen: 1 + len(b)%4, Frames: b})
			if _, err := ReadCryptoPayload(vfExact(pkt)); err != nil {
				k.Count("ev_rejected", 1)
			} else {
				k.Count("ev_accepted", 1)
			}
		}
	})
	if r.Replay() {
		return
	}
	rng := k.Rand("gen")
	n := 0
	emit := func(b []byte) {
		r.Do(entryFrames, b)
		if n++; n%3 == 0 {
			r.Do(entrySealed, b)
		}
		if n%1000 == 0 {
			vfC03QUICCanary(r, entrySealed, rng, n/1000)
		}
	}
	// (a) all lengths 0..64 of structured frame prefixes
	var heads [][]byte
	for _, typ := range []byte{0x00, 0x01, 0x06, 0x07, 0x1c, 0x40, 0xff} {
		heads = append(heads, []byte{typ})
	}
	for _, off := range []uint64{0, 1, 63, 64, maxCryptoPayloadLen, maxCryptoPayloadLen + 1, 1<<62 - 1} {
		for _, ln := range []uint64{0, 1, 5, 58, 59, 60, 63, 64, maxCryptoFrameDataLen, maxCryptoFrameDataLen + 1, 1<<62 - 1} {
			for _, w := range []int{0, 8} {
				heads = append(heads, vfC03CryptoFrame(off, ln, nil, w))
			}
		}
	}
	vfC03Prefixes(rng, heads, 64, emit)
	// (b) mutations of a valid frame stream (two contiguous CRYPTO frames carrying a ClientHello)
	ch := vfC03ClientHello("c03.verif")
	half := len(ch) / 2
	seed := vfC03Cat(vfC03CryptoFrame(uint64(half), uint64(len(ch)-half), ch[half:], 0), []byte{0x01, 0x00, 0x00}, vfC03CryptoFrame(0, uint64(half), ch[:half], 0))
	l1 := len(vfC03VarintMin(uint64(half)))
	vfC03Mutations(rng, seed, []vfC03Field{{1, l1, "varint"}, {1 + l1, len(vfC03VarintMin(uint64(len(ch) - half))), "varint"}},
		vfC03LenValues(maxCryptoFrameDataLen, maxCryptoPayloadLen, uint64(len(ch))), k.N(400, 8000), emit)
	// (c) random bytes, (d) generated hostile frame sequences
	vfC03Random(rng, k.N(2000, 40000), 600, emit)
	for i, nr := 0, k.N(6000, 160000); i < nr; i++ {
		emit(vfC03HostileFrames(rng))
	}
	// aggregate: every frame is small and valid, the SUM (or the number) of frames is what is hostile:
	// totals around the 256 KiB payload cap, 1 MiB, thousands of 0/1-byte frames, all frames at the
	// same offset, a contiguous run that starts just below the cap; in order, reversed, shuffled
	type agg struct {
		n, size int
		start   uint64
		same    bool
	}
	aggs := []agg{{262, 1000, 0, false}, {263, 1000, 0, false}, {256, 1024, 0, false}, {257, 1024, 0, false}, {255, 1028, 0, false}, {400, 1024, 0, false},
		{64, 4096, 0, false}, {65, 4096, 0, false}, {5000, 1, 0, false}, {8000, 0, 0, false}, {3000, 0, 7, false}, {300, 1000, 0, true}, {2000, 100, 5, true},
		{10, 1000, maxCryptoPayloadLen - 5000, false}, {10, 1000, maxCryptoPayloadLen - 10000, false}, {2, 1, maxCryptoPayloadLen - 1, false}, {3, 1, 1<<62 - 3, false},
		{50, 1000, 0, false}, {1000, 50, 0, false}, {9000, 1, 0, false}}
	for ai, a := range aggs {
		frames := make([][]byte, a.n)
		off := a.start
		for j := range frames {
			frames[j] = vfC03CryptoFrame(off, uint64(a.size), vfC03Fill(rng, 3, a.size), 0)
			if !a.same {
				off += uint64(a.size)
			}
		}
		for oi := 0; oi < 3; oi++ {
			order := make([]int, a.n)
			for j := range order {
				order[j] = []int{j, a.n - 1 - j, j}[oi]
			}
			if oi == 2 {
				rng.Shuffle(a.n, func(x, y int) { order[x], order[y] = order[y], order[x] })
			}
			var stream []byte
			for _, j := range order {
				stream = append(stream, frames[j]...)
				if oi == 2 && j%7 == 0 {
					stream = append(stream, 0x00, 0x01) // PADDING, PING in between
				}
			}
			r.Do(entryFrames, stream)
			k.Count("ev_aggregate_frame_streams", 1)
			if len(stream) <= 60000 { // fits a UDP datagram: also through the real decryption
				r.Do(entrySealed, stream)
			}
		}
		if ai == 0 {
			k.Sample(map[string]any{"aggregate": "262 contiguous CRYPTO frames of 1000 bytes (sum 262000 < 256 KiB cap), in order / reversed / shuffled"})
		}
	}
	vfC03QUICCanary(r, entrySealed, rng, 0)
	vfC03QUICCanary(r, entrySealed, rng, 1)
	k.Sample(map[string]any{"entries": []string{entryFrames, entrySealed}, "inputs": k.Counter("ev_inputs"), "assembled": k.Counter("ev_assembled")})
}

// ---------------------------------------------------------------------------- thorough: native fuzzing as workload generator

func FuzzVerifC03ReadCryptoPayload(f *testing.F) {
	z := vfC03FuzzBegin(f, "fuzz-quic-packet", "quic-unprotect")
	defer z.End()
	rng := rand.New(rand.NewSource(3))
	f.Add(vfC03ValidInitial(rng, V1, vfC03ClientHello("c03.verif"), 1))
	f.Add(vfC03ValidInitial(rng, V2, vfC03ClientHello("c03.verif"), 4))
	f.Add([]byte{0xc0, 0, 0, 0, 1, 0, 0, 0, 0x14})
	f.Fuzz(func(t *testing.T, b []byte) {
		z.Exec("quic:ReadCryptoPayload", b, func(b []byte) { _, _ = ReadCryptoPayload(b) })
	})
}

func FuzzVerifC03CryptoFrames(f *testing.F) {
	z := vfC03FuzzBegin(f, "fuzz-quic-frames", "quic-crypto")
	defer z.End()
	ch := vfC03ClientHello("c03.verif")
	f.Add(vfC03CryptoFrame(0, uint64(len(ch)), ch, 0))
	f.Add(vfC03Cat(vfC03CryptoFrame(10, 5, []byte("world"), 0), []byte{0, 1}, vfC03CryptoFrame(0, 10, []byte("hellohello"), 8)))
	f.Fuzz(func(t *testing.T, b []byte) {
		z.Exec("quic:extractCryptoFrames+assembleCryptoFrames", b, func(b []byte) {
			if frs, err := extractCryptoFrames(bytes.NewReader(b)); err == nil {
				_ = assembleCryptoFrames(frs)
			}
		})
	})
}
