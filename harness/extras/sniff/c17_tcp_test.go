//go:build verif

package sniff

// C17, TCP side.  Each case = (client bytes, arrival schedule, FIN, sniffer config, original
// destination).  The driver does what core/server/server.go does around the hook:
//
//     if hook.Check(false, reqAddr) { putback, err = hook.TCP(stream, &reqAddr) }
//     ... target.Write(putback); relay(stream -> target)
//
// and the oracles are
//   (1) putback ‖ (what the relay can still read from the stream) == what the client sent;
//   (2) the port of reqAddr is unchanged and reqAddr is still host:port;
//   (3) host: unchanged, or a name present in the bytes the sniffer was given; for valid
//       mainstream inputs whose header fully arrived before the deadline exactly the embedded
//       name; for garbage / truncated / late input the destination string is untouched.
//
// Parts: tcp-short (every split point and every truncation of short inputs x deadline
// positions), tcp-http (generated requests 10 B..300 KiB), tcp-tls (crypto/tls and utls
// ClientHellos, honest / over-long / short / fragmented record lengths).

import (
	"bytes"
	"crypto/sha256"
	"encoding/hex"
	"fmt"
	"math/rand"
	"net"
	"net/url"
	"runtime"
	"sort"
	"strings"
	"sync"
	"testing"
	"testing/synctest"
	"time"
)

type vfC17TCPCase struct {
	CaseID    string
	In        vfC17Input
	Sched     vfC17Sched
	SchedNote string
	Timeout   time.Duration // Sniffer.Timeout (0 = the sniffer's default)
	Dest      vfC17Dest
}

func (c *vfC17TCPCase) replay(extra map[string]any) map[string]any {
	sum := sha256.Sum256(c.In.Data)
	in := hex.EncodeToString(c.In.Data)
	if len(c.In.Data) > 4096 {
		in = vfHex(c.In.Data)
	}
	chunks := c.Sched.Chunks
	more := 0
	if len(chunks) > 80 {
		more = len(chunks) - 80
		chunks = chunks[:80]
	}
	m := map[string]any{
		"case_id": c.CaseID, "input": c.In, "input_len": len(c.In.Data), "input_hex": in, "input_sha256": hex.EncodeToString(sum[:]),
		"schedule": map[string]any{"chunks(at_ns,n)": chunks, "more_chunks": more, "fin_at_ns": c.Sched.FinAt, "fin_glued": c.Sched.FinGlued,
			"max_read": c.Sched.MaxRead, "coalesce": c.Sched.Coalesce, "note": c.SchedNote},
		"sniffer_timeout_ns": c.Timeout, "dest": c.Dest,
	}
	for k, v := range extra {
		m[k] = v
	}
	return m
}

func (c *vfC17TCPCase) sig() string {
	sum := sha256.Sum256(c.In.Data)
	return fmt.Sprintf("%x/%d/%s/%v/%v/%d/%v/%v", sum[:8], len(c.Sched.Chunks), c.SchedNote, c.Sched.FinAt, c.Sched.FinGlued, c.Sched.MaxRead, c.Timeout, c.Dest.ReqAddr+c.Dest.Filter)
}

// resolve turns the input's mode plus the schedule into what is demanded of the host.
func (c *vfC17TCPCase) resolve(hooked bool) (mode string, why string) {
	if !hooked {
		return vfC17Untouched, "Check() returned false, the hook is not called"
	}
	switch c.In.Mode {
	case vfC17Untouched, vfC17Free:
		return c.In.Mode, c.In.Note
	}
	ready := c.Sched.arrival(c.In.HeaderEnd)
	if c.Timeout == 0 {
		switch {
		case ready < 0:
			return vfC17Untouched, "header never fully arrives"
		case ready < time.Second:
			return vfC17Must, "header complete within 1 s, default timeout"
		}
		return vfC17Free, "default timeout, late header"
	}
	switch {
	case ready < 0:
		return vfC17Untouched, "header never fully arrives"
	case ready > c.Timeout:
		return vfC17Untouched, fmt.Sprintf("header complete at %v, after the deadline %v", ready, c.Timeout)
	case ready == c.Timeout:
		return vfC17Free, "header completes exactly at the deadline"
	}
	return vfC17Must, fmt.Sprintf("header complete at %v, before the deadline %v", ready, c.Timeout)
}

func vfC17FirstDiff(a, b []byte) int {
	n := len(a)
	if len(b) < n {
		n = len(b)
	}
	for i := 0; i < n; i++ {
		if a[i] != b[i] {
			return i
		}
	}
	if len(a) != len(b) {
		return n
	}
	return -1
}

func vfC17InBytes(name string, seen []byte) bool {
	if name == "" {
		return false
	}
	low := bytes.ToLower(seen)
	n := []byte(strings.ToLower(name))
	if bytes.Contains(low, n) {
		return true
	}
	if bytes.IndexByte(seen, '%') >= 0 {
		if un, err := url.PathUnescape(string(low)); err == nil && strings.Contains(strings.ToLower(un), string(n)) {
			return true
		}
	}
	return false
}

// vfC17RunTCP executes one case. Must be called inside a synctest bubble.
func vfC17RunTCP(k *vfKit, c *vfC17TCPCase) {
	k.Eval()
	k.Count("ev_tcp_cases", 1)
	k.Count("kind_"+c.In.Kind, 1)
	st := vfC17NewStream(c.In.Data, c.Sched)
	sn := &Sniffer{Timeout: c.Timeout, RewriteDomain: c.Dest.RewriteDomain, TCPPorts: c.Dest.ports}
	addr := c.Dest.ReqAddr
	hooked := sn.Check(false, addr)
	var putback []byte
	var herr error
	if hooked {
		k.Count("ev_tcp_hooked", 1)
		if vfC17Guard(k, "sniff:tcp-panic", func() map[string]any { return c.replay(nil) }, func() { putback, herr = sn.TCP(st, &addr) }) {
			return
		}
	} else {
		k.Count("ev_tcp_not_hooked", 1)
	}
	elapsed := time.Since(st.base)
	sniffN := st.pos
	sniffTimeouts := st.timeouts
	putback = append([]byte(nil), putback...)
	rest, derr := st.drain()
	k.Count("ev_stream_reads", int64(st.reads))
	k.Count("ev_zero_len_reads", int64(st.zeroReads))
	k.Count("ev_deadline_fired", int64(sniffTimeouts))
	k.Count("putback_bytes", int64(len(putback)))
	k.Count("drained_bytes", int64(len(rest)))
	if st.writes > 0 || st.closes > 0 {
		k.Count("obs_stream_write_or_close_by_hook", 1)
	}
	obs := map[string]any{
		"hooked": hooked, "putback_len": len(putback), "putback_head_hex": vfHex(putback), "bytes_read_by_hook": sniffN,
		"drained_len": len(rest), "hook_returned_at_ns": elapsed, "hook_err": fmt.Sprint(herr), "drain_err": fmt.Sprint(derr),
		"req_addr_after": addr, "stream_trace": st.trace,
	}
	if st.stalled {
		k.Inconclusive(c.CaseID + ": the hook read without a deadline while no further client event was scheduled")
	}
	// (1) conservation
	if herr != nil {
		putback = nil // the server drops the flow; nothing is replayed
	}
	got := append(append([]byte(nil), putback...), rest...)
	if !bytes.Equal(got, c.In.Data) {
		key := "sniff:tcp-replay-differs"
		if _, isTO := derr.(vfC17DeadlineErr); isTO {
			key = "sniff:tcp-deadline-left-armed"
		}
		obs["first_diff_offset"] = vfC17FirstDiff(got, c.In.Data)
		vfC17Violate(k, key, func() map[string]any { return c.replay(obs) }, "%s [%s]: putback(%d B) ‖ unread remainder(%d B) != sent (%d B); first difference at offset %d; hook consumed %d B, hook err=%v, relay read err=%v",
			c.CaseID, c.In.Kind, len(putback), len(rest), len(c.In.Data), vfC17FirstDiff(got, c.In.Data), sniffN, herr, derr)
	} else if hooked && !st.deadline.IsZero() {
		vfC17Violate(k, "sniff:tcp-deadline-left-armed", func() map[string]any { return c.replay(obs) }, "%s: the hook returned with the stream's read deadline still armed (+%v); the relay's later reads would time out",
			c.CaseID, st.deadline.Sub(st.base))
	}
	if sniffN > 0 {
		k.Nontrivial(c.sig())
	}
	// (2) port, (3) host
	mode, why := c.resolve(hooked)
	obs["demand"] = mode + ": " + why
	k.Count("demand_"+mode, 1)
	if herr != nil {
		return
	}
	if addr == c.Dest.ReqAddr {
		k.Count("ev_dest_untouched", 1)
		if mode == vfC17Must {
			vfC17Violate(k, "sniff:tcp-host-not-rewritten", func() map[string]any { return c.replay(obs) }, "%s [%s]: %s, yet the destination stayed %q (embedded name %v)", c.CaseID, c.In.Kind, why, addr, c.In.Accept)
		}
		return
	}
	h1, p1, err := net.SplitHostPort(addr)
	if err != nil {
		if mode != vfC17Free {
			vfC17Violate(k, "sniff:tcp-dest-unparsable", func() map[string]any { return c.replay(obs) }, "%s [%s]: %s; destination %q became %q which is not host:port (%v)", c.CaseID, c.In.Kind, why, c.Dest.ReqAddr, addr, err)
			return
		}
		// damaged input: the statement only forbids a changed port and a name that is not in
		// the bytes; a malformed Host value copied from the bytes is not ours to judge
		k.Count("obs_free_mode_dest_not_host_port", 1)
		hp, ok := strings.CutSuffix(addr, ":"+c.Dest.Port)
		if !ok {
			vfC17Violate(k, "sniff:tcp-port-changed", func() map[string]any { return c.replay(obs) }, "%s [%s]: %q -> %q no longer ends in the original port", c.CaseID, c.In.Kind, c.Dest.ReqAddr, addr)
			return
		}
		h1, p1 = strings.TrimSuffix(strings.TrimPrefix(hp, "["), "]"), c.Dest.Port
	}
	if p1 != c.Dest.Port {
		vfC17Violate(k, "sniff:tcp-port-changed", func() map[string]any { return c.replay(obs) }, "%s [%s]: port changed, %q -> %q", c.CaseID, c.In.Kind, c.Dest.ReqAddr, addr)
	}
	if strings.EqualFold(h1, c.Dest.Host) {
		return
	}
	k.Count("ev_host_rewritten", 1)
	switch mode {
	case vfC17Untouched:
		vfC17Violate(k, "sniff:tcp-rewrite-on-unsniffable", func() map[string]any { return c.replay(obs) }, "%s [%s]: %s, yet the destination changed %q -> %q", c.CaseID, c.In.Kind, why, c.Dest.ReqAddr, addr)
	case vfC17Must:
		ok := false
		for _, a := range c.In.Accept {
			ok = ok || strings.EqualFold(a, h1)
		}
		if !ok {
			vfC17Violate(k, "sniff:tcp-host-wrong-name", func() map[string]any { return c.replay(obs) }, "%s [%s]: host became %q, embedded name is %v", c.CaseID, c.In.Kind, h1, c.In.Accept)
		} else {
			k.Count("ev_host_rewritten_to_embedded_name", 1)
		}
	default:
		if !vfC17InBytes(h1, c.In.Data[:sniffN]) {
			vfC17Violate(k, "sniff:tcp-host-not-in-bytes", func() map[string]any { return c.replay(obs) }, "%s [%s]: host became %q which does not occur in the %d bytes the hook read", c.CaseID, c.In.Kind, h1, sniffN)
		}
	}
}

// vfC17RunTCPGen generates case i with gen(i) for i in [0,n) and runs it inside a bubble;
// generation and execution are spread over several workers (32 cases per bubble). Every
// case draws from its own PRNG (k.Rand(caseID)), so the result does not depend on scheduling.
func vfC17RunTCPGen(t *testing.T, k *vfKit, n int, gen func(i int) *vfC17TCPCase, sample func(i int, c *vfC17TCPCase)) {
	const batch = 32
	workers := runtime.GOMAXPROCS(0)
	if workers > 8 {
		workers = 8
	}
	ch := make(chan int)
	var wg sync.WaitGroup
	for w := 0; w < workers; w++ {
		wg.Add(1)
		go func() {
			defer wg.Done()
			for lo := range ch {
				var b []*vfC17TCPCase
				for i := lo; i < lo+batch && i < n; i++ {
					c := gen(i)
					if c == nil {
						continue
					}
					if rc := k.ReplayCase(); rc != "" && rc != c.CaseID {
						continue
					}
					if sample != nil {
						sample(i, c)
					}
					b = append(b, c)
				}
				if len(b) == 0 {
					continue
				}
				synctest.Test(t, func(t *testing.T) {
					for _, c := range b {
						vfC17RunTCP(k, c)
					}
				})
			}
		}()
	}
	for lo := 0; lo < n; lo += batch {
		ch <- lo
	}
	close(ch)
	wg.Wait()
}

// vfC17RunTCPCases runs a prepared list.
func vfC17RunTCPCases(t *testing.T, k *vfKit, cases []*vfC17TCPCase) {
	vfC17RunTCPGen(t, k, len(cases), func(i int) *vfC17TCPCase { return cases[i] }, nil)
}

// ---------------------------------------------------------------------------------------
// schedules

var vfC17Timeouts = []time.Duration{time.Millisecond, 50 * time.Millisecond, time.Second, 4 * time.Second, 30 * time.Second}

// vfC17Cuts splits [0,L) into pieces by a named strategy and returns the piece lengths.
func vfC17Cuts(r *rand.Rand, L int, strat string) []int {
	if L == 0 {
		return nil
	}
	var out []int
	fixed := func(sz int) {
		for rem := L; rem > 0; rem -= sz {
			if rem < sz {
				out = append(out, rem)
				break
			}
			out = append(out, sz)
		}
	}
	switch strat {
	case "one":
		out = []int{L}
	case "tiny":
		fixed([]int{1, 1, 2, 3, 5, 7, 16}[r.Intn(7)])
	case "bufio":
		fixed([]int{4096, 4095, 4097, 8192, 1024}[r.Intn(5)])
	case "mtu":
		fixed(1100 + r.Intn(300))
	default: // "rand": 2..24 random cut points
		n := 1 + r.Intn(24)
		if n > L-1 {
			n = L - 1
		}
		cuts := map[int]bool{}
		for i := 0; i < n; i++ {
			cuts[1+r.Intn(L-1)] = true
		}
		ks := make([]int, 0, len(cuts)+1)
		for c := range cuts {
			ks = append(ks, c)
		}
		sort.Ints(ks)
		prev := 0
		for _, c := range ks {
			out = append(out, c-prev)
			prev = c
		}
		out = append(out, L-prev)
	}
	return out
}

// vfC17MakeSched builds an arrival schedule for L bytes. marks are byte offsets of interest
// (3 = after the probe, 5 = after the TLS record header, header end, ...); D is the sniffer's
// deadline used to place gaps (the oracle does not rely on it).
func vfC17MakeSched(r *rand.Rand, L int, D time.Duration, marks []int) (vfC17Sched, string) {
	var s vfC17Sched
	note := ""
	strat := []string{"one", "rand", "rand", "rand", "tiny", "bufio", "mtu"}[r.Intn(7)]
	if strat == "tiny" && L > 8192 {
		strat = "rand"
	}
	pieces := vfC17Cuts(r, L, strat)
	// force a chunk boundary at one mark so that a gap can sit exactly there
	gapAt := -1
	timing := r.Intn(10)
	if timing >= 4 && L > 0 {
		if len(marks) > 0 && r.Intn(4) != 0 {
			gapAt = marks[r.Intn(len(marks))]
		} else {
			gapAt = r.Intn(L + 1)
		}
		if gapAt < 0 {
			gapAt = 0
		}
		if gapAt > L {
			gapAt = L
		}
		// re-cut so that gapAt is a boundary
		var np []int
		sum := 0
		for _, p := range pieces {
			if sum < gapAt && gapAt < sum+p {
				np = append(np, gapAt-sum, sum+p-gapAt)
			} else {
				np = append(np, p)
			}
			sum += p
		}
		pieces = np
	}
	// arrival times
	var late time.Duration
	switch timing {
	case 0, 1:
		note = strat + ", everything at t=0"
	case 2, 3:
		note = strat + ", spread before the deadline"
	case 4, 5, 6:
		late = D + time.Duration(1+r.Int63n(int64(2*time.Second)))
		note = fmt.Sprintf("%s, bytes from offset %d arrive after the deadline (+%v)", strat, gapAt, late)
	case 7:
		late = D + 1
		note = fmt.Sprintf("%s, bytes from offset %d arrive 1 ns after the deadline", strat, gapAt)
	case 8:
		late = D
		note = fmt.Sprintf("%s, bytes from offset %d arrive exactly at the deadline", strat, gapAt)
	case 9:
		late = D - 1
		note = fmt.Sprintf("%s, bytes from offset %d arrive 1 ns before the deadline", strat, gapAt)
	}
	early := D - 2
	if early > 0 && timing >= 2 {
		early = time.Duration(r.Int63n(int64(early)))
	} else {
		early = 0
	}
	sum := 0
	var tcur time.Duration
	for _, p := range pieces {
		var at time.Duration
		if gapAt >= 0 && sum >= gapAt {
			at = late
			if timing <= 6 && r.Intn(3) == 0 {
				late += time.Duration(r.Int63n(int64(time.Millisecond)))
			}
		} else if timing >= 2 {
			// non-decreasing times in [0, early]
			if early > 0 && r.Intn(2) == 0 {
				tcur += time.Duration(r.Int63n(int64(early-tcur) + 1))
			}
			at = tcur
		}
		s.Chunks = append(s.Chunks, vfC17Chunk{At: at, N: p})
		sum += p
	}
	// zero-length reads
	if r.Intn(8) == 0 && len(s.Chunks) > 0 {
		for z := 1 + r.Intn(3); z > 0; z-- {
			i := r.Intn(len(s.Chunks) + 1)
			at := time.Duration(0)
			if i > 0 {
				at = s.Chunks[i-1].At
			}
			s.Chunks = append(s.Chunks[:i], append([]vfC17Chunk{{At: at, N: 0}}, s.Chunks[i:]...)...)
		}
		note += ", zero-length reads"
	}
	last := time.Duration(0)
	if len(s.Chunks) > 0 {
		last = s.Chunks[len(s.Chunks)-1].At
	}
	switch r.Intn(4) {
	case 0:
		s.FinAt = -1
	case 1:
		s.FinAt = last
		s.FinGlued = r.Intn(2) == 0
	case 2:
		s.FinAt = last + time.Duration(r.Int63n(int64(D)+1))
	default:
		s.FinAt = last + D + time.Duration(r.Int63n(int64(time.Second)))
	}
	switch r.Intn(6) {
	case 0:
		if L <= 16384 {
			s.MaxRead = []int{1, 2, 3, 4, 5, 7}[r.Intn(6)]
		}
	case 1:
		s.MaxRead = []int{4096, 4097, 1000, 100}[r.Intn(4)]
	}
	s.Coalesce = r.Intn(2) == 0
	return s, note
}

// vfC17Truncate cuts an input to its first n bytes: the client sent only that.
func vfC17Truncate(in vfC17Input, n int) vfC17Input {
	out := in
	out.Data = in.Data[:n:n]
	out.Kind = in.Kind + "/truncated"
	if in.Mode == vfC17Must && n < in.HeaderEnd {
		out.Mode = vfC17Untouched
		out.Note = fmt.Sprintf("truncated to %d of the %d header bytes", n, in.HeaderEnd)
		out.Accept = nil
	}
	return out
}

// ---------------------------------------------------------------------------------------
// part 1: short inputs, every split point, every truncation

func vfC17ShortInputs(t *testing.T, r *rand.Rand) []vfC17Input {
	var ins []vfC17Input
	ins = append(ins, vfC17Input{Kind: "empty", Mode: vfC17Untouched, Note: "empty"})
	n1 := "c17s1.a.test"
	d := []byte("GET / HTTP/1.1\r\nHost: " + n1 + "\r\n\r\n")
	ins = append(ins, vfC17Input{Kind: "http:host/min", Mode: vfC17Must, Accept: []string{n1}, HeaderEnd: len(d), Data: d})
	n2 := "c17s2.b.example"
	d = []byte("POST /p HTTP/1.1\r\nContent-Length: 5\r\nHost: " + n2 + ":8080\r\n\r\nhello")
	ins = append(ins, vfC17Input{Kind: "http:host-port/min", Mode: vfC17Must, Accept: []string{n2}, HeaderEnd: len(d) - 5, Data: d})
	n3 := "c17s3.c.org"
	d = []byte("GET http://" + n3 + "/x HTTP/1.0\r\n\r\n")
	ins = append(ins, vfC17Input{Kind: "http:abs-uri-no-host/min", Mode: vfC17Must, Accept: []string{n3}, HeaderEnd: len(d), Data: d})
	d = []byte("GET / HTTP/1.1\r\nHost: [2001:db8::17]\r\n\r\n")
	ins = append(ins, vfC17Input{Kind: "http:ip6-bare/min", Mode: vfC17Must, Accept: []string{"2001:db8::17"}, HeaderEnd: len(d), Data: d})
	d = []byte("GET / HTTP/1.1\r\nHost: :8080\r\n\r\n")
	ins = append(ins, vfC17Input{Kind: "http:empty-host/min", Mode: vfC17Untouched, Note: "Host header with an empty host part", Data: d})
	d = []byte("GET / HTTP/1.0\r\nAccept: */*\r\n\r\n")
	ins = append(ins, vfC17Input{Kind: "http:missing/min", Mode: vfC17Untouched, Note: "no host name in the request", Data: d})
	// smallest hello crypto/tls will make
	sni := "c17s4.tls.test"
	cc := &vfC17CapConn{}
	_ = vfC17TLSClientMin(cc, sni, r)
	h, err := vfC17CheckHello(cc.buf.Bytes(), sni, "crypto/tls minimal")
	if err != nil {
		t.Fatalf("vfC17 corpus: %v", err)
	}
	ins = append(ins, vfC17Input{Kind: "tls:honest/min", Mode: vfC17Must, Accept: []string{sni}, HeaderEnd: len(h.Record), Data: h.Record,
		Note: fmt.Sprintf("%d-byte record from crypto/tls", len(h.Record))})
	// the same hello followed by more client data (e.g. a second record)
	d = append(append([]byte(nil), h.Record...), 0x14, 3, 3, 0, 1, 1, 0x17, 3, 3, 0, 3, 'a', 'b', 'c')
	ins = append(ins, vfC17Input{Kind: "tls:honest+more/min", Mode: vfC17Must, Accept: []string{sni}, HeaderEnd: len(h.Record), Data: d})
	// garbage
	ins = append(ins, vfC17Input{Kind: "garbage:binary", Mode: vfC17Untouched, Data: []byte("\x01\x02\x03\x04\x05\x06\x07\x08\x09\x0a evil.example \x00\xff")})
	ins = append(ins, vfC17Input{Kind: "garbage:ssh-banner", Mode: vfC17Untouched, Data: []byte("SSH-2.0-OpenSSH_9.6 evil.example\r\n")})
	ins = append(ins, vfC17Input{Kind: "garbage:tls-like", Mode: vfC17Untouched, Data: []byte("\x16\x03\x01\x00\x10evil.example.....")})
	ins = append(ins, vfC17Input{Kind: "garbage:tls-zero-len", Mode: vfC17Untouched, Data: []byte("\x16\x03\x03\x00\x00")})
	ins = append(ins, vfC17Input{Kind: "garbage:http-like", Mode: vfC17Untouched, Data: []byte("GETHost: evil.example\r\n\r\n\x00\x01")})
	return ins
}

func vfC17TLSClientMin(cc *vfC17CapConn, sni string, r *rand.Rand) error {
	return vfC17TLSClientCfg(cc, sni, r, true)
}

func TestVerifC17TCPShort(t *testing.T) {
	k := vfNewKit(t, "C17", "tcp-short")
	defer k.Finish()
	r := k.Rand("short")
	ins := vfC17ShortInputs(t, r)
	D := 2 * time.Second
	var cases []*vfC17TCPCase
	id := 0
	add := func(in vfC17Input, s vfC17Sched, note string, timeout time.Duration) {
		dest := vfC17MakeDest(r, fmt.Sprintf("s%d", id))
		if id%3 != 0 { // mostly: an IP destination, hooked on every port
			dest = vfC17Dest{ReqAddr: "203.0.113.9:4443", Host: "203.0.113.9", Port: "4443", Filter: "all"}
		}
		cases = append(cases, &vfC17TCPCase{CaseID: fmt.Sprintf("short-%d", id), In: in, Sched: s, SchedNote: note, Timeout: timeout, Dest: dest})
		id++
	}
	secondAt := []time.Duration{0, D / 2, D - 1, D, D + 1, D + time.Second}
	for _, in := range ins {
		L := len(in.Data)
		// whole input in one piece; FIN never / at once / later
		for _, fin := range []time.Duration{-1, 0, D / 2, D + time.Second} {
			for _, glued := range []bool{false, true} {
				add(in, vfC17Sched{Chunks: vfC17One(L), FinAt: fin, FinGlued: glued}, "one piece", D)
			}
		}
		// every split point x arrival of the second half relative to the deadline
		for i := 1; i < L; i++ {
			for _, at := range secondAt {
				fin := time.Duration(-1)
				switch (i + int(at)) % 3 {
				case 1:
					fin = at
				case 2:
					fin = at + D
				}
				add(in, vfC17Sched{Chunks: []vfC17Chunk{{0, i}, {at, L - i}}, FinAt: fin, FinGlued: i%2 == 0, Coalesce: i%4 < 2},
					fmt.Sprintf("split at %d, second part at %v", i, at), D)
			}
		}
		// every truncation: the client sent only the first i bytes, then silence or FIN
		for i := 0; i < L; i++ {
			tr := vfC17Truncate(in, i)
			for _, fin := range []time.Duration{-1, 0, D - 1, D + time.Second} {
				add(tr, vfC17Sched{Chunks: vfC17One(i), FinAt: fin, FinGlued: i%2 == 1}, fmt.Sprintf("only %d bytes are ever sent", i), D)
			}
		}
		// byte by byte, 1 ns apart and with the deadline cutting through at every 4th offset
		if L > 0 {
			var cs []vfC17Chunk
			for i := 0; i < L; i++ {
				cs = append(cs, vfC17Chunk{At: time.Duration(i), N: 1})
			}
			add(in, vfC17Sched{Chunks: cs, FinAt: -1}, "byte by byte in time", D)
			for cut := 0; cut <= L; cut += 1 + cut/8 {
				cs2 := make([]vfC17Chunk, L)
				for i := range cs2 {
					cs2[i] = vfC17Chunk{At: time.Duration(i), N: 1}
					if i >= cut {
						cs2[i].At = D + time.Duration(i)
					}
				}
				add(in, vfC17Sched{Chunks: cs2, FinAt: D + time.Hour, MaxRead: 1 + cut%3}, fmt.Sprintf("byte by byte, deadline fires before offset %d", cut), D)
			}
		}
		// zero-length reads before, inside and after the probe / the record header
		if L > 6 {
			for _, at := range []time.Duration{0, D - 1, D + 1} {
				add(in, vfC17Sched{Chunks: []vfC17Chunk{{0, 0}, {0, 2}, {0, 0}, {0, 0}, {0, 1}, {0, 0}, {0, 2}, {at, 0}, {at, L - 5}, {at, 0}}, FinAt: at, Coalesce: at == 0},
					fmt.Sprintf("zero-length reads around offsets 0,2,3,5; rest at %v", at), D)
			}
		}
		// default timeout (Sniffer.Timeout == 0)
		add(in, vfC17Sched{Chunks: vfC17One(L), FinAt: -1}, "one piece, default timeout", 0)
		if L > 4 {
			add(in, vfC17Sched{Chunks: []vfC17Chunk{{0, 3}, {time.Hour, L - 3}}, FinAt: -1}, "probe, then an hour of silence, default timeout", 0)
		}
	}
	vfC17RunTCPCases(t, k, cases)
	for i, c := range cases {
		if i%997 == 5 {
			k.Sample(map[string]any{"case_id": c.CaseID, "kind": c.In.Kind, "len": len(c.In.Data), "schedule": c.SchedNote, "mode": c.In.Mode})
		}
	}
}

func vfC17One(n int) []vfC17Chunk {
	if n == 0 {
		return nil
	}
	return []vfC17Chunk{{0, n}}
}

// ---------------------------------------------------------------------------------------
// part 2: generated HTTP requests

func vfC17Marks(in vfC17Input) []int {
	m := []int{0, 1, 2, 3, 4, 5, 6}
	if in.HeaderEnd > 0 {
		m = append(m, in.HeaderEnd-4, in.HeaderEnd-2, in.HeaderEnd-1, in.HeaderEnd, in.HeaderEnd/2)
		if in.HeaderEnd+1 <= len(in.Data) {
			m = append(m, in.HeaderEnd+1)
		}
	}
	head := in.Data
	if len(head) > 16384 {
		head = head[:16384]
	}
	if i := bytes.Index(bytes.ToLower(head), []byte("host:")); i >= 0 {
		m = append(m, i, i+5, i+9)
	}
	for _, x := range []int{4095, 4096, 4097, 8192, 262143, 262144, 262145} {
		if x < len(in.Data) {
			m = append(m, x)
		}
	}
	m = append(m, len(in.Data))
	return m
}

func vfC17HTTPSize(r *rand.Rand, i int) int {
	switch i % 40 {
	case 0:
		return 250*1024 + r.Intn(60*1024) // around and above 256 KiB
	case 1:
		return 64*1024 + r.Intn(128*1024)
	case 2, 3:
		return 4000 + r.Intn(300) // around the 4 KiB buffered reader
	case 4, 5:
		return 8000 + r.Intn(9000)
	}
	// log-uniform 10 B .. 16 KiB
	return 10 + int(float64(1)*float64(r.Intn(1<<14))*r.Float64()*r.Float64())
}

func TestVerifC17TCPHTTP(t *testing.T) {
	k := vfNewKit(t, "C17", "tcp-http")
	defer k.Finish()
	n := k.N(6000, 400000)
	nj := n / 20
	gen := func(i int) *vfC17TCPCase {
		if i >= n { // pure garbage that passes the 3-letter probe
			id := fmt.Sprintf("httpjunk-%d", i-n)
			r := k.Rand(id)
			d := make([]byte, 3+r.Intn(3000))
			r.Read(d)
			copy(d, []string{"GET", "abc", "POS", "Zzz"}[r.Intn(4)])
			if r.Intn(2) == 0 {
				d = append(d[:3+r.Intn(len(d)-2)], []byte(" / HTTP/1.1\r\nHost \x00: evil"+id+".example\r\n\r\n")...)
			}
			in := vfC17Input{Kind: "garbage:http-probe", Mode: vfC17Untouched, Note: "random bytes behind three letters", Data: d}
			D := vfC17Timeouts[r.Intn(len(vfC17Timeouts))]
			s, note := vfC17MakeSched(r, len(d), D, []int{0, 1, 2, 3, 4, len(d)})
			return &vfC17TCPCase{CaseID: id, In: in, Sched: s, SchedNote: note, Timeout: D, Dest: vfC17MakeDest(r, id)}
		}
		id := fmt.Sprintf("http-%d", i)
		r := k.Rand(id)
		form := vfC17HTTPForms[r.Intn(len(vfC17HTTPForms))]
		in := vfC17HTTP(r, fmt.Sprintf("h%d", i), form, vfC17HTTPSize(r, i))
		switch r.Intn(12) {
		case 0: // truncated somewhere
			in = vfC17Truncate(in, r.Intn(len(in.Data)))
		case 1: // truncated inside the last bytes of the header block
			cut := in.HeaderEnd - 1 - r.Intn(4)
			if cut >= 0 && cut < len(in.Data) {
				in = vfC17Truncate(in, cut)
			}
		case 2: // damaged: a few flipped bits; only the universal rules apply
			in.Data = append([]byte(nil), in.Data...)
			for f := 1 + r.Intn(3); f > 0; f-- {
				in.Data[r.Intn(len(in.Data))] ^= byte(1 << uint(r.Intn(8)))
			}
			in.Kind += "/bitflip"
			in.Mode = vfC17Free
		}
		D := vfC17Timeouts[r.Intn(len(vfC17Timeouts))]
		timeout := D
		if r.Intn(12) == 0 {
			timeout, D = 0, 4*time.Second
		}
		s, note := vfC17MakeSched(r, len(in.Data), D, vfC17Marks(in))
		return &vfC17TCPCase{CaseID: id, In: in, Sched: s, SchedNote: note, Timeout: timeout, Dest: vfC17MakeDest(r, fmt.Sprintf("h%d", i))}
	}
	vfC17RunTCPGen(t, k, n+nj, gen, func(i int, c *vfC17TCPCase) {
		if i%1499 == 7 {
			k.Sample(map[string]any{"case_id": c.CaseID, "kind": c.In.Kind, "len": len(c.In.Data), "header_end": c.In.HeaderEnd, "schedule": c.SchedNote,
				"chunks": len(c.Sched.Chunks), "timeout": c.Timeout.String(), "dest": c.Dest.ReqAddr, "filter": c.Dest.Filter})
		}
	})
}
