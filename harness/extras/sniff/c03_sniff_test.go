//go:build verif

package sniff

// C03 — peer-controlled bytes never crash the process: the request hook that looks at the first
// bytes of a proxied flow.
//
//   sniff-tcp: Sniffer.TCP over a scripted server.HyStream (no ReadByte, four chunkings, ends in a
//              deadline error or EOF): all lengths 0..64 behind HTTP-looking and TLS-looking heads
//              (record lengths 0/1/65535 with a shorter stream), mutations of a valid HTTP request
//              and of a valid TLS ClientHello record, random bytes; hostile request addresses.
//   sniff-udp: Sniffer.UDP on the first datagram of a UDP session (cap==len): ALL lengths 0..64
//              behind every interesting first byte x version x connection-id lengths, mutations
//              of a valid protected QUIC Initial, hostile ClientHello bytes sealed by a reference
//              RFC 9001 implementation (so they reach the TLS parser through the real path), random.
//
// Service continues: the same Sniffer afterwards still extracts the name from a well-formed
// ClientHello / HTTP request / QUIC Initial and rewrites the address.

import (
	"fmt"
	"io"
	"math/rand"
	"os"
	"strings"
	"testing"
	"time"

	"github.com/apernet/quic-go"
)

type vfC03Stream struct {
	rd        vfC03Reader
	deadlines int
}

func (s *vfC03Stream) StreamID() quic.StreamID            { return 4 }
func (s *vfC03Stream) Read(p []byte) (int, error)         { return s.rd.Read(p) }
func (s *vfC03Stream) Write(p []byte) (int, error)        { return len(p), nil }
func (s *vfC03Stream) Close() error                       { return nil }
func (s *vfC03Stream) SetReadDeadline(t time.Time) error  { s.deadlines++; return nil }
func (s *vfC03Stream) SetWriteDeadline(t time.Time) error { return nil }
func (s *vfC03Stream) SetDeadline(t time.Time) error      { return nil }
func vfC03NewStream(b []byte, mode int, end error) *vfC03Stream {
	return &vfC03Stream{rd: vfC03Reader{data: b, mode: mode, endErr: end}}
}

func vfC03TLSRecord(hs []byte) []byte {
	return vfC03Cat([]byte{0x16, 0x03, 0x01, byte(len(hs) >> 8), byte(len(hs))}, hs)
}

func TestVerifC03SniffTCP(t *testing.T) {
	k := vfNewKit(t, "C03", "sniff-tcp")
	defer k.Finish()
	r := vfC03New(k)
	defer r.Close()
	const entry = "sniff:Sniffer.TCP"
	sn := &Sniffer{Timeout: time.Second, RewriteDomain: true}
	addrs := []string{"1.2.3.4:443", "[2001:db8::1]:80", "no-port.verif", "", "a:b:c"}
	r.Entry(entry, func(b []byte) {
		for mode := 0; mode < 4; mode++ {
			end := error(os.ErrDeadlineExceeded)
			if mode == 3 {
				end = io.EOF
			}
			st := vfC03NewStream(b, mode, end)
			addr := addrs[(len(b)+mode)%len(addrs)]
			before := addr
			back, err := sn.TCP(st, &addr)
			if err != nil {
				k.Count("ev_error", 1)
			} else {
				k.Count("ev_returned", 1)
				_ = back
			}
			if addr != before {
				k.Count("ev_rewritten", 1)
			}
		}
	})
	if r.Replay() {
		return
	}
	rng := k.Rand("gen")
	n := 0
	canary := func() {
		n++
		name := fmt.Sprintf("c03-%d.verif", n)
		r.Canary(entry, "", map[string]any{"sni": name}, func() error {
			addr := "1.2.3.4:8443"
			rec := vfC03Cat(vfC03TLSRecord(vfC03ClientHello(name)), []byte("application data follows"))
			if _, err := sn.TCP(vfC03NewStream(vfExact(rec), n%3, os.ErrDeadlineExceeded), &addr); err != nil || addr != name+":8443" {
				return fmt.Errorf("TLS ClientHello with SNI %q: address became %q, err=%v", name, addr, err)
			}
			addr = "1.2.3.4:8080"
			req := fmt.Sprintf("GET /x HTTP/1.1\r\nHost: %s\r\nUser-Agent: c03\r\n\r\n", name)
			if _, err := sn.TCP(vfC03NewStream([]byte(req), n%3, os.ErrDeadlineExceeded), &addr); err != nil || addr != name+":8080" {
				return fmt.Errorf("HTTP request with Host %q: address became %q, err=%v", name, addr, err)
			}
			return nil
		})
	}
	emit := func(b []byte) {
		r.Do(entry, b)
		if k.Counter("ev_inputs")%500 == 0 {
			canary()
		}
	}
	// (a) all lengths 0..64 of structured prefixes
	heads := [][]byte{nil, []byte("G"), []byte("GE"), []byte("GET"), []byte("GET / HTTP/1.1\r\nHost: "), []byte("GET / HTTP/1.1\r\nHost: x\r\n\r\n"),
		[]byte("POST / HTTP/1.1\r\nContent-Length: 99999999999999999999\r\nHost: [::1\r\n"), []byte("abc"), []byte("zzz\r\n\r\n"), []byte("PRI * HTTP/2.0\r\n\r\nSM\r\n\r\n"),
		[]byte("CONNECT x:1 HTTP/1.1\r\nHost:\r\n"), []byte("GET http://[::1]:namedport/ HTTP/1.1\r\n")}
	for _, typ := range []byte{0x15, 0x16, 0x17, 0x18} {
		for _, ver := range [][]byte{{0x03, 0x00}, {0x03, 0x01}, {0x03, 0x03}, {0x03, 0x09}, {0x03, 0x0a}, {0x02, 0x00}} {
			heads = append(heads, vfC03Cat([]byte{typ}, ver))
			if k.Quick() && (typ == 0x15 || typ == 0x18 || ver[1] == 0x00 || ver[1] == 0x09) {
				continue // refused by isTLS / same path as 03 01: the bare head is enough in the quick tier
			}
			for _, ln := range [][]byte{{0, 0}, {0, 1}, {0, 4}, {0, 5}, {0, 38}, {0, 59}, {0, 60}, {1, 0}, {0x40, 0}, {0xff, 0xff}} {
				heads = append(heads, vfC03Cat([]byte{typ}, ver, ln), vfC03Cat([]byte{typ}, ver, ln, []byte{0x01, 0x00, 0x00, 0x30, 0x03, 0x03}))
			}
		}
	}
	vfC03Prefixes(rng, heads, 64, emit)
	// (b) mutations of valid seeds
	ch := vfC03ClientHello("seed.c03.verif")
	rec := vfC03TLSRecord(ch)
	lens := vfC03LenValues(uint64(len(ch)), uint64(len(ch)-4), 16384)
	// record length, handshake length (low 2 bytes), session id len, cipher suites len, extensions len, sni ext len, list len, name len
	extOff := 5 + 4 + 2 + 32 + 1 + 4 + 2
	fields := []vfC03Field{{3, 2, "be16"}, {7, 2, "be16"}, {5 + 4 + 2 + 32, 1, "u8"}, {5 + 4 + 2 + 32 + 1, 2, "be16"}, {extOff, 2, "be16"}, {extOff + 4, 2, "be16"}, {extOff + 6, 2, "be16"}, {extOff + 9, 2, "be16"}}
	vfC03Mutations(rng, rec, fields, lens, k.N(1500, 30000), emit)
	httpSeed := []byte("POST /hello HTTP/1.1\r\nHost: seed.c03.verif:8080\r\nUser-Agent: c03\r\nContent-Length: 5\r\n\r\nhello")
	vfC03Mutations(rng, httpSeed, nil, nil, k.N(1500, 30000), emit)
	// HTTP headers larger than the sniffer's 256 KiB cap, and a request line without end
	emit(vfC03Cat([]byte("GET / HTTP/1.1\r\nX: "), []byte(strings.Repeat("a", 300*1024)), []byte("\r\nHost: big.c03.verif\r\n\r\n")))
	emit([]byte("GET /" + strings.Repeat("b", 70000)))
	for i := 0; i < 300; i++ {
		emit([]byte("GET / HTTP/1.1\r\n" + strings.Repeat(fmt.Sprintf("H%d: v\r\n", i), i) + "Host: many.c03.verif\r\n\r\n"))
	}
	// (c) random bytes
	vfC03Random(rng, k.N(2000, 60000), 3000, emit)
	canary()
	k.Sample(map[string]any{"entry": entry, "inputs": k.Counter("ev_inputs"), "tls_seed": vfHex(rec)})
}

const (
	vfC03V1 uint32 = 0x1
	vfC03V2 uint32 = vfC03QUICv2
)

func vfC03DatagramHeads(rng *rand.Rand, thorough bool) [][]byte {
	var heads [][]byte
	firsts := []byte{0x00, 0x40, 0x43, 0x7f, 0x80, 0xc0, 0xc3, 0xd0, 0xff}
	cids := [][2]int{{0, 0}, {8, 8}}
	tokens := [][]byte{{0x00}, {0x01, 0xee}}
	lengths := [][]byte{{0x00}, {0x01}, {0x02}, {0x14}, {0x15}, {0x40, 0x14}}
	if thorough {
		firsts = []byte{0x00, 0x01, 0x3f, 0x40, 0x41, 0x42, 0x43, 0x4f, 0x50, 0x60, 0x7f, 0x80, 0x83, 0xc0, 0xc1, 0xc2, 0xc3, 0xcf, 0xd0, 0xd3, 0xe0, 0xf0, 0xff}
		cids = append(cids, [2]int{8, 0}, [2]int{0, 8}, [2]int{20, 20}, [2]int{1, 1})
		tokens = append(tokens, []byte{0x3f}, []byte{0x40, 0x00}, []byte{0xc0, 0, 0, 0, 0, 0, 0, 0})
		lengths = append(lengths, []byte{0x10}, []byte{0x13}, []byte{0x16}, []byte{0x3f}, []byte{0x44, 0xd0}, []byte{0x7f, 0xff}, []byte{0x80, 0, 0, 0x20}, []byte{0xff, 0xff, 0xff, 0xff, 0xff, 0xff, 0xff, 0xff})
	}
	for _, fb := range firsts {
		heads = append(heads, []byte{fb})
		for _, v := range []uint32{0, 0xff00001d, 0xffffffff} {
			heads = append(heads, []byte{fb, byte(v >> 24), byte(v >> 16), byte(v >> 8), byte(v), 0, 0, 0, 0x14})
		}
		for _, v := range []uint32{vfC03V1, vfC03V2} {
			vb := []byte{fb, byte(v >> 24), byte(v >> 16), byte(v >> 8), byte(v)}
			heads = append(heads, vb, vfC03Cat(vb, []byte{255}), vfC03Cat(vb, []byte{0, 255}))
			for _, cid := range cids {
				h := vfC03Cat(vb, []byte{byte(cid[0])}, vfC03Fill(rng, 2, cid[0]), []byte{byte(cid[1])}, vfC03Fill(rng, 2, cid[1]))
				for _, tl := range tokens {
					for _, ln := range lengths {
						heads = append(heads, vfC03Cat(h, tl, ln))
					}
				}
			}
		}
	}
	return heads
}

func vfC03SealedHello(rng *rand.Rand, version uint32, hello []byte, pnLen int, split bool) []byte {
	var frames []byte
	if split && len(hello) > 8 {
		h := len(hello) / 2
		frames = vfC03Cat(vfC03CryptoFrame(uint64(h), uint64(len(hello)-h), hello[h:], 0), []byte{0x01}, vfC03CryptoFrame(0, uint64(h), hello[:h], 0))
	} else {
		frames = vfC03CryptoFrame(0, uint64(len(hello)), hello, 0)
	}
	frames = append(frames, make([]byte, 24)...)
	return vfC03SealInitial(vfC03Initial{Version: version, DCID: vfC03Fill(rng, 2, 8), SCID: []byte{9, 9}, PN: 0, PNLen: pnLen, Frames: frames})
}

func TestVerifC03SniffUDP(t *testing.T) {
	k := vfNewKit(t, "C03", "sniff-udp")
	defer k.Finish()
	r := vfC03New(k)
	defer r.Close()
	const entry = "sniff:Sniffer.UDP"
	const entryHello = "sniff:Sniffer.UDP(sealed hostile ClientHello)"
	sn := &Sniffer{Timeout: time.Second, RewriteDomain: true}
	addrs := []string{"1.2.3.4:443", "[2001:db8::1]:443", "no-port.verif", ""}
	r.Entry(entry, func(b []byte) {
		addr := addrs[len(b)%len(addrs)]
		before := addr
		if err := sn.UDP(b, &addr); err != nil {
			k.Count("ev_error", 1)
		}
		if addr != before {
			k.Count("ev_rewritten", 1)
		}
	})
	// input = plaintext TLS handshake bytes; sealed into a valid Initial, then sniffed
	r.Entry(entryHello, func(b []byte) {
		v := []uint32{vfC03V1, vfC03V2}[len(b)%2]
		frames := vfC03Cat(vfC03CryptoFrame(0, uint64(len(b)), b, 0), make([]byte, 24))
		pkt := vfC03SealInitial(vfC03Initial{Version: v, DCID: []byte{0xc0, 0x03, 1, 2, 3, 4, 5, 6}, PN: 0, PNLen: 1 + len(b)%4, Frames: frames})
		addr := "1.2.3.4:443"
		if err := sn.UDP(vfExact(pkt), &addr); err != nil {
			k.Count("ev_error", 1)
		}
		if addr != "1.2.3.4:443" {
			k.Count("ev_rewritten", 1)
		}
	})
	if r.Replay() {
		return
	}
	rng := k.Rand("gen")
	n := 0
	canary := func() {
		n++
		name := fmt.Sprintf("c03-%d.verif", n)
		r.Canary(entry, "", map[string]any{"sni": name}, func() error {
			addr := "9.9.9.9:443"
			pkt := vfC03SealedHello(rng, []uint32{vfC03V1, vfC03V2}[n%2], vfC03ClientHello(name), 1+n%4, n%3 == 0)
			if err := sn.UDP(vfExact(pkt), &addr); err != nil || addr != name+":443" {
				return fmt.Errorf("QUIC Initial with SNI %q: address became %q, err=%v", name, addr, err)
			}
			return nil
		})
	}
	emit := func(b []byte) {
		r.Do(entry, b)
		if k.Counter("ev_inputs")%1000 == 0 {
			canary()
		}
	}
	// (a) ALL lengths 0..64 behind structured heads
	heads := vfC03DatagramHeads(rng, !k.Quick())
	for i, h := range heads {
		for kind := 0; kind < 4; kind++ {
			if k.Quick() && kind != i%4 {
				continue
			}
			full := append(append([]byte(nil), h...), vfC03Fill(rng, kind, 65)...)
			for l := 0; l <= 64; l++ {
				emit(full[:l])
			}
		}
	}
	// (b) mutations of valid protected Initials
	for i, v := range []uint32{vfC03V1, vfC03V2} {
		seed := vfC03SealedHello(rng, v, vfC03ClientHello("seed.c03.verif"), 1+3*i, i == 1)
		fields := []vfC03Field{{0, 1, "u8"}, {5, 1, "u8"}, {14, 1, "u8"}, {17, 1, "varint"}, {18, 2, "varint"}}
		vfC03Mutations(rng, seed, fields, vfC03LenValues(16, 20, 21, 255, uint64(len(seed)), uint64(len(seed)-20)), k.N(400, 8000), emit)
	}
	// (c) random bytes
	vfC03Random(rng, k.N(2000, 60000), 1500, emit)
	// (d) hostile ClientHello bytes behind valid packet protection
	hello := vfC03ClientHello("seed.c03.verif")
	extOff := 4 + 2 + 32 + 1 + 4 + 2
	hfields := []vfC03Field{{2, 2, "be16"}, {4 + 2 + 32, 1, "u8"}, {4 + 2 + 32 + 1, 2, "be16"}, {extOff, 2, "be16"}, {extOff + 4, 2, "be16"}, {extOff + 6, 2, "be16"}, {extOff + 9, 2, "be16"}}
	vfC03Mutations(rng, hello, hfields, vfC03LenValues(uint64(len(hello)), uint64(len(hello)-4)), k.N(1500, 30000), func(b []byte) {
		r.Do(entryHello, b)
	})
	vfC03Prefixes(rng, [][]byte{{0x01}, {0x01, 0x00, 0x00, 0x00}, {0x01, 0x00, 0xff, 0xff}, {0x01, 0xff, 0xff, 0xff}, {0x02}, hello[:43]}, 64, func(b []byte) { r.Do(entryHello, b) })
	// aggregate: a well-formed ClientHello (padding extension) of 2..50 KiB cut into many CRYPTO frames,
	// shuffled, in one Initial: the sum of the frame lengths is what grows
	for i, c := range [][2]int{{2000, 10}, {4000, 100}, {8000, 500}, {16000, 1000}, {30000, 4000}, {50000, 200}, {50000, 9000}} {
		name := fmt.Sprintf("agg-%d.c03.verif", i)
		h := vfC03ClientHelloPad(name, c[0])
		piece := (len(h) + c[1] - 1) / c[1]
		var frs [][]byte
		for off := 0; off < len(h); off += piece {
			end := off + piece
			if end > len(h) {
				end = len(h)
			}
			frs = append(frs, vfC03CryptoFrame(uint64(off), uint64(end-off), h[off:end], 0))
		}
		rng.Shuffle(len(frs), func(x, y int) { frs[x], frs[y] = frs[y], frs[x] })
		pkt := vfC03SealInitial(vfC03Initial{Version: []uint32{vfC03V1, vfC03V2}[i%2], DCID: vfC03Fill(rng, 2, 8), PN: 1, PNLen: 2, Frames: vfC03Cat(frs...)})
		if len(pkt) > 65000 {
			continue
		}
		r.Canary(entry, vfC03CaseID(entry, pkt), map[string]any{"hello_bytes": len(h), "crypto_frames": len(frs), "datagram_bytes": len(pkt)}, func() error {
			r.Log(entry, pkt, true)
			k.Count("ev_aggregate_hellos", 1)
			addr := "9.9.9.9:443"
			if err := sn.UDP(vfExact(pkt), &addr); err != nil || addr != name+":443" {
				return fmt.Errorf("ClientHello of %d bytes in %d shuffled CRYPTO frames: address became %q, err=%v", len(h), len(frs), addr, err)
			}
			return nil
		})
	}
	canary()
	canary()
	k.Sample(map[string]any{"entries": []string{entry, entryHello}, "inputs": k.Counter("ev_inputs"), "rewritten": k.Counter("ev_rewritten")})
}

// ---------------------------------------------------------------------------- thorough: native fuzzing as workload generator

func FuzzVerifC03SnifferUDP(f *testing.F) {
	z := vfC03FuzzBegin(f, "fuzz-sniff-udp", "sniff-udp")
	defer z.End()
	rng := rand.New(rand.NewSource(5))
	f.Add(vfC03SealedHello(rng, vfC03V1, vfC03ClientHello("seed.c03.verif"), 1, false))
	f.Add(vfC03SealedHello(rng, vfC03V2, vfC03ClientHello("seed.c03.verif"), 4, true))
	f.Add([]byte{0xc0, 0, 0, 0, 1, 0, 0, 0, 0x14})
	sn := &Sniffer{RewriteDomain: true}
	f.Fuzz(func(t *testing.T, b []byte) {
		z.Exec("sniff:Sniffer.UDP", b, func(b []byte) {
			addr := "1.2.3.4:443"
			_ = sn.UDP(b, &addr)
		})
	})
}

func FuzzVerifC03SnifferTCP(f *testing.F) {
	z := vfC03FuzzBegin(f, "fuzz-sniff-tcp", "sniff-tcp")
	defer z.End()
	f.Add(vfC03TLSRecord(vfC03ClientHello("seed.c03.verif")))
	f.Add([]byte("POST /hello HTTP/1.1\r\nHost: seed.c03.verif:8080\r\nContent-Length: 5\r\n\r\nhello"))
	sn := &Sniffer{RewriteDomain: true}
	f.Fuzz(func(t *testing.T, b []byte) {
		z.Exec("sniff:Sniffer.TCP", b, func(b []byte) {
			addr := "1.2.3.4:443"
			_, _ = sn.TCP(vfC03NewStream(b, len(b)%3, os.ErrDeadlineExceeded), &addr)
		})
	})
}
