//go:build verif

package sniff

// C17, TCP side, part 3: TLS.  ClientHello records produced by crypto/tls (several configs)
// and by utls browser presets for random SNIs — each accepted by crypto/tls's server-side
// parser with that SNI before it is used — sent with honest, over-long, too-short and
// fragmented record lengths, truncated, bit-flipped, under generated arrival schedules.

import (
	"fmt"
	"math/rand"
	"testing"
	"time"
)

func vfC17HelloPool(t *testing.T, k *vfKit, n int) []vfC17Hello {
	r := k.Rand("hello-pool")
	var pool []vfC17Hello
	for i := 0; i < n; i++ {
		sni := vfC17Name(r, fmt.Sprintf("t%d", i))
		var h vfC17Hello
		var err error
		if i%3 == 2 {
			h, err = vfC17UTLSHello(r, sni)
		} else {
			h, err = vfC17TLSHello(r, sni)
		}
		if err != nil {
			// a generator that cannot make a checked hello for this name is a harness problem, not a verdict
			k.Count("corpus_rejected", 1)
			t.Logf("vfC17 corpus: %v", err)
			continue
		}
		pool = append(pool, h)
	}
	if len(pool) < n/2 {
		t.Fatalf("vfC17 corpus: only %d of %d ClientHellos could be generated", len(pool), n)
	}
	return pool
}

func vfC17SetRecLen(rec []byte, n int) {
	rec[3], rec[4] = byte(n>>8), byte(n)
}

// vfC17TLSInput derives one client byte stream from a hello.
func vfC17TLSInput(r *rand.Rand, h vfC17Hello) vfC17Input {
	rec := append([]byte(nil), h.Record...)
	n := len(rec) - 5
	extra := func(max int) []byte {
		b := make([]byte, r.Intn(max+1))
		r.Read(b)
		return b
	}
	in := vfC17Input{Accept: []string{h.SNI}, Note: h.Source}
	switch v := r.Intn(20); {
	case v < 7: // honest
		in.Kind, in.Mode, in.HeaderEnd = "tls:honest", vfC17Must, len(rec)
		if r.Intn(2) == 0 {
			rec[1], rec[2] = 3, 3 // legacy_record_version 0x0303 is also what clients send
		}
		if r.Intn(2) == 0 {
			rec = append(rec, extra(600)...)
			in.Kind = "tls:honest+more"
		}
	case v < 8: // unusual record version: no obligation
		in.Kind, in.Mode = "tls:odd-version", vfC17Free
		rec[2] = []byte{0, 2, 4, 5, 9, 10, 0xff}[r.Intn(7)]
	case v < 11: // declared length larger than everything that ever arrives
		add := 1 + r.Intn(64)
		if r.Intn(3) == 0 {
			add = 0xFFFF - n
		} else if r.Intn(3) == 0 {
			add = 1 + r.Intn(16384)
		}
		if n+add > 0xFFFF {
			add = 0xFFFF - n
		}
		vfC17SetRecLen(rec, n+add)
		if add > 1 && r.Intn(2) == 0 {
			e := extra(add - 1)
			if len(e) > 2000 {
				e = e[:2000]
			}
			rec = append(rec, e...)
		}
		in.Kind, in.Mode, in.Accept = "tls:overlong-never-completes", vfC17Untouched, nil
		in.Note = fmt.Sprintf("record declares %d bytes, %d arrive; %s", n+add, len(rec)-5, h.Source)
	case v < 12: // declared length larger than the hello, and the bytes do arrive
		add := 1 + r.Intn(300)
		vfC17SetRecLen(rec, n+add)
		e := make([]byte, add+r.Intn(100))
		r.Read(e)
		rec = append(rec, e...)
		in.Kind, in.Mode = "tls:overlong-completed", vfC17Free
	case v < 14: // declared length shorter than the hello; the rest follows raw
		m := r.Intn(n)
		vfC17SetRecLen(rec, m)
		in.Kind, in.Mode = "tls:short-declared", vfC17Free
	case v < 16: // hello fragmented over two records (legal TLS)
		m := 1 + r.Intn(n-1)
		first := append([]byte{0x16, rec[1], rec[2], byte(m >> 8), byte(m)}, rec[5:5+m]...)
		second := append([]byte{0x16, rec[1], rec[2], byte((n - m) >> 8), byte(n - m)}, rec[5+m:]...)
		rec = append(first, second...)
		in.Kind, in.Mode = "tls:fragmented", vfC17Free
	case v < 17: // application-data record type carrying the hello bytes
		rec[0] = 0x17
		in.Kind, in.Mode = "tls:type-0x17", vfC17Free
	case v < 19: // truncated: the client sends only part of the record
		cut := r.Intn(len(rec))
		if r.Intn(3) == 0 {
			cut = len(rec) - 1 - r.Intn(3)
		}
		rec = rec[:cut]
		in.Kind, in.Mode, in.Accept = "tls:truncated", vfC17Untouched, nil
		in.Note = fmt.Sprintf("%d of %d record bytes; %s", cut, n+5, h.Source)
	default: // damaged
		for f := 1 + r.Intn(3); f > 0; f-- {
			rec[r.Intn(len(rec))] ^= byte(1 << uint(r.Intn(8)))
		}
		in.Kind, in.Mode = "tls:bitflip", vfC17Free
	}
	in.Data = rec
	return in
}

func TestVerifC17TCPTLS(t *testing.T) {
	k := vfNewKit(t, "C17", "tcp-tls")
	defer k.Finish()
	pool := vfC17HelloPool(t, k, k.N(150, 1500))
	k.Count("corpus_hellos", int64(len(pool)))
	n := k.N(6000, 400000)
	gen := func(i int) *vfC17TCPCase {
		if i >= n { // random bytes behind a TLS-looking 3-byte probe
			id := fmt.Sprintf("tlsjunk-%d", i-n)
			r := k.Rand(id)
			d := make([]byte, 3+r.Intn(2000))
			r.Read(d)
			d[0], d[1], d[2] = 0x16+byte(r.Intn(2)), 3, byte(r.Intn(10))
			if len(d) >= 5 && r.Intn(2) == 0 {
				vfC17SetRecLen(d, r.Intn(len(d)))
			}
			in := vfC17Input{Kind: "garbage:tls-probe", Mode: vfC17Untouched, Note: "random bytes behind a TLS record header", Data: d}
			D := vfC17Timeouts[r.Intn(len(vfC17Timeouts))]
			s, note := vfC17MakeSched(r, len(d), D, []int{0, 1, 2, 3, 4, 5, len(d)})
			return &vfC17TCPCase{CaseID: id, In: in, Sched: s, SchedNote: note, Timeout: D, Dest: vfC17MakeDest(r, id)}
		}
		id := fmt.Sprintf("tls-%d", i)
		r := k.Rand(id)
		h := pool[r.Intn(len(pool))]
		in := vfC17TLSInput(r, h)
		D := vfC17Timeouts[r.Intn(len(vfC17Timeouts))]
		timeout := D
		if r.Intn(12) == 0 {
			timeout, D = 0, 4*time.Second
		}
		L := len(in.Data)
		marks := []int{0, 1, 2, 3, 4, 5, 6, len(h.Record) - 1, len(h.Record), len(h.Record) + 1, len(h.Record) / 2, L - 1, L}
		s, note := vfC17MakeSched(r, L, D, marks)
		return &vfC17TCPCase{CaseID: id, In: in, Sched: s, SchedNote: note, Timeout: timeout, Dest: vfC17MakeDest(r, fmt.Sprintf("t%d", i))}
	}
	vfC17RunTCPGen(t, k, n+n/20, gen, func(i int, c *vfC17TCPCase) {
		if i%1499 == 11 {
			k.Sample(map[string]any{"case_id": c.CaseID, "kind": c.In.Kind, "len": len(c.In.Data), "note": c.In.Note, "schedule": c.SchedNote,
				"chunks": len(c.Sched.Chunks), "timeout": c.Timeout.String(), "dest": c.Dest.ReqAddr, "filter": c.Dest.Filter})
		}
	})
}
