//go:build verif

package sniff

// C17, UDP side.  The driver does what core/server (udpIOImpl.Hook) does with the first
// datagram of a session:  if hook.Check(true, addr) { err = hook.UDP(data, &addr) }  and then
// forwards `data` — the very slice the hook was given.  Oracles:
//   (1) data is byte-identical before/after the hook                (sniff:udp-packet-mutated)
//   (2) the port of addr is unchanged, addr still host:port
//   (3) host: decided with the reference Initial codec of c17_model_test.go —
//       datagram is not a decryptable v1/v2 client Initial  -> destination untouched;
//       decryptable, complete ClientHello with the SNI we configured, mainstream framing
//                                                            -> host == that SNI;
//       otherwise: unchanged or a name that occurs in the decrypted payload.
// Inputs: first-flight datagrams captured from real quic-go dials (v1 and v2; one-datagram
// and two-datagram hellos), the captured ClientHellos re-packed by the reference codec
// (DCID/SCID/token lengths, packet-number length, CRYPTO frames split and reordered with
// PADDING/PING, coalesced trailer), truncations, bit flips, garbage, the suite's own sample.

import (
	"bytes"
	"encoding/base64"
	"encoding/binary"
	"encoding/hex"
	"fmt"
	"math/rand"
	"net"
	"sort"
	"strings"
	"testing"

	"github.com/apernet/quic-go"
)

type vfC17UDPCase struct {
	CaseID     string `json:"case_id"`
	Kind       string `json:"kind"`
	Note       string `json:"note,omitempty"`
	SNI        string `json:"sni,omitempty"` // the name configured when the hello was generated ("" = none)
	Mainstream bool   `json:"mainstream"`    // framing a sniffer is expected to handle
	ExactCap   bool   `json:"cap_equals_len"`
	Dest       vfC17Dest
	Data       []byte `json:"-"`
}

func (c *vfC17UDPCase) replay(extra map[string]any) map[string]any {
	m := map[string]any{"case_id": c.CaseID, "case": c, "datagram_len": len(c.Data), "datagram_hex": hex.EncodeToString(c.Data)}
	for k, v := range extra {
		m[k] = v
	}
	return m
}

// vfC17InD2Region: datagrams whose first byte has the fixed bit but not the long-header bit
// and whose bytes 1..4 are a supported QUIC version reach UnProtect without a length check
// (live defect D2, property C03). They are kept out of this harness until D2 is repaired.
func vfC17InD2Region(d []byte) bool {
	if len(d) < 5 || d[0]&0xC0 != 0x40 {
		return false
	}
	v := binary.BigEndian.Uint32(d[1:5])
	return v == vfC17QV1 || v == vfC17QV2
}

func vfC17RunUDP(k *vfKit, c *vfC17UDPCase) {
	if vfC17InD2Region(c.Data) {
		k.Count("skipped_d2_region", 1)
		return
	}
	k.Eval()
	k.Count("ev_udp_cases", 1)
	k.Count("kind_"+c.Kind, 1)
	orig := vfExact(c.Data)
	// the slice the hook gets: either exactly sized or inside a larger buffer with a guard zone
	const guard = 64
	buf := make([]byte, len(orig)+guard)
	copy(buf, orig)
	for i := len(orig); i < len(buf); i++ {
		buf[i] = 0xA5
	}
	data := buf[:len(orig)]
	if c.ExactCap {
		data = vfExact(orig)
	}
	sn := &Sniffer{RewriteDomain: c.Dest.RewriteDomain, UDPPorts: c.Dest.ports}
	addr := c.Dest.ReqAddr
	hooked := sn.Check(true, addr)
	var herr error
	if hooked {
		k.Count("ev_udp_hooked", 1)
		if vfC17Guard(k, "sniff:udp-panic", func() map[string]any { return c.replay(nil) }, func() { herr = sn.UDP(data, &addr) }) {
			return
		}
	} else {
		k.Count("ev_udp_not_hooked", 1)
	}
	obs := map[string]any{"hooked": hooked, "hook_err": fmt.Sprint(herr), "req_addr_after": addr}
	// (1) the packet
	if !bytes.Equal(data, orig) {
		changed, first := 0, -1
		for i := range orig {
			if data[i] != orig[i] {
				changed++
				if first < 0 {
					first = i
				}
			}
		}
		obs["bytes_changed"], obs["first_changed_offset"] = changed, first
		obs["datagram_after_hex"] = hex.EncodeToString(data)
		vfC17Violate(k, "sniff:udp-packet-mutated", func() map[string]any { return c.replay(obs) }, "%s [%s]: the hook changed %d of the %d bytes of the datagram that is forwarded next (first at offset %d)",
			c.CaseID, c.Kind, changed, len(orig), first)
	} else {
		k.Count("ev_udp_packet_intact", 1)
	}
	if !c.ExactCap {
		for i := len(orig); i < len(buf); i++ {
			if buf[i] != 0xA5 {
				k.Count("obs_udp_wrote_beyond_len", 1)
				break
			}
		}
	}
	if herr != nil {
		vfC17Violate(k, "sniff:udp-hook-error", func() map[string]any { return c.replay(obs) }, "%s [%s]: the hook returned an error (%v) for a destination that passed Check; the server then drops the datagram instead of forwarding it", c.CaseID, c.Kind, herr)
		return
	}
	// reference view of the datagram
	mode, why := vfC17Untouched, ""
	var ref *vfC17Opened
	if !hooked {
		why = "Check() returned false, the hook is not called"
	} else {
		var rerr error
		ref, rerr = vfC17RefOpen(orig)
		switch {
		case rerr != nil:
			why = "not a decryptable v1/v2 client Initial: " + rerr.Error()
		case ref.HelloOK && c.SNI != "" && c.Mainstream && !ref.Other && bytes.Contains(ref.Crypto, []byte(c.SNI)):
			mode, why = vfC17Must, "decryptable Initial with a complete ClientHello"
			k.Nontrivial(c.Kind + c.Note + c.SNI + c.Dest.ReqAddr + c.Dest.Filter)
		default:
			mode, why = vfC17Free, fmt.Sprintf("decryptable Initial, complete hello=%v, crypto prefix %d B", ref.HelloOK, len(ref.Crypto))
			k.Nontrivial(c.Kind + c.Note + c.SNI + c.Dest.ReqAddr + c.Dest.Filter)
		}
	}
	obs["demand"] = mode + ": " + why
	k.Count("demand_"+mode, 1)
	if addr == c.Dest.ReqAddr {
		k.Count("ev_dest_untouched", 1)
		if mode == vfC17Must {
			vfC17Violate(k, "sniff:udp-host-not-rewritten", func() map[string]any { return c.replay(obs) }, "%s [%s]: %s for %q, yet the destination stayed %q", c.CaseID, c.Kind, why, c.SNI, addr)
		}
		return
	}
	h1, p1, err := net.SplitHostPort(addr)
	if err != nil {
		if mode != vfC17Free {
			vfC17Violate(k, "sniff:udp-dest-unparsable", func() map[string]any { return c.replay(obs) }, "%s [%s]: %s; destination %q became %q which is not host:port (%v)", c.CaseID, c.Kind, why, c.Dest.ReqAddr, addr, err)
			return
		}
		k.Count("obs_free_mode_dest_not_host_port", 1)
		hp, ok := strings.CutSuffix(addr, ":"+c.Dest.Port)
		if !ok {
			vfC17Violate(k, "sniff:udp-port-changed", func() map[string]any { return c.replay(obs) }, "%s [%s]: %q -> %q no longer ends in the original port", c.CaseID, c.Kind, c.Dest.ReqAddr, addr)
			return
		}
		h1, p1 = strings.TrimSuffix(strings.TrimPrefix(hp, "["), "]"), c.Dest.Port
	}
	if p1 != c.Dest.Port {
		vfC17Violate(k, "sniff:udp-port-changed", func() map[string]any { return c.replay(obs) }, "%s [%s]: port changed, %q -> %q", c.CaseID, c.Kind, c.Dest.ReqAddr, addr)
	}
	if strings.EqualFold(h1, c.Dest.Host) {
		return
	}
	k.Count("ev_host_rewritten", 1)
	switch mode {
	case vfC17Untouched:
		vfC17Violate(k, "sniff:udp-rewrite-on-unsniffable", func() map[string]any { return c.replay(obs) }, "%s [%s]: %s, yet the destination changed %q -> %q", c.CaseID, c.Kind, why, c.Dest.ReqAddr, addr)
	case vfC17Must:
		if !strings.EqualFold(h1, c.SNI) {
			vfC17Violate(k, "sniff:udp-host-wrong-name", func() map[string]any { return c.replay(obs) }, "%s [%s]: host became %q, the ClientHello's server name is %q", c.CaseID, c.Kind, h1, c.SNI)
		} else {
			k.Count("ev_host_rewritten_to_embedded_name", 1)
		}
	default:
		found := vfC17InBytes(h1, ref.Plain)
		for _, seg := range ref.Segments {
			found = found || vfC17InBytes(h1, seg)
		}
		if !found {
			vfC17Violate(k, "sniff:udp-host-not-in-bytes", func() map[string]any { return c.replay(obs) }, "%s [%s]: host became %q which does not occur in the decrypted Initial payload", c.CaseID, c.Kind, h1)
		}
	}
}

// the QUIC sample of extras/sniff/sniff_test.go (SNI www.notion.so)
const vfC17SuiteSample = "ygAAAAEIwugWgPS7ulYAAES8hY891uwgGE9GG4CPOLd+nsDe28raso24lCSFmlFwYQG1uF39ikbL13/R9ZTghYmTl+jEbr6F9TxxRiOgpTmKRmh6aKZiIiVfy5pVRckovaI8lq0WRoW9xoFNTyYtQP8TVJ3bLCK+zUqpquEQSyWf7CE43ywayyMpE9UlIoPXFWCoopXLM1SvzdQ+17P51N9KR7m4emti4DWWTBLMQOvrwd2HEEkbiZdRO1wf6ZXJlIat5dN0R/6uod60OFPO+u+awvq67MoMReC7+5I/xWI+xx6o4JpnZNn6YPG8Gqi8hS6doNcAAdtD8h5eMLuHCCgkpX3QVjjfWtcOhtw9xKjU43HhUPwzUTv+JDLgwuTQCTmlfYlb3B+pk4b2I9si0tJ0SBuYaZ2VQPtZbj2hpGXw3gn11pbN8xsbKkQL50+Scd4dGJxWQlGaJHeaU5WOCkxLXc635z8m5XO/CBHVYPGp4pfwfwNUgbe5WF+3MaUIlDB8dMfsnrO0BmZPo379jVx0SFLTAiS8wAdHib1WNEY8qKYnTWuiyxYg1GZEhJt0nXmI+8f0eJq42DgHBWC+Rf5rRBr/Sf25o3mFAmTUaul0Woo9/CIrpT73B63N91xd9A77i4ru995YG8l9Hen+eLtpDU9Q9376nwMDYBzeYG9U/Rn0Urbm6q4hmAgV/xlNJ2rAyDS+yLnwqD6I0PRy8bZJEttcidb/SkOyrpgMiAzWeT+SO+c/k+Y8H0UTRa05faZUrhuUaym9wAcaIVRA6nFI+fejfjVp+7afFv+kWn3vCqQEij+CRHuxkltrixZMD2rfYj6NUW7TTYBtPRtuV/V0ZIDjRR26vr4K+0D84+l3c0mA/l6nmpP5kkco3nmpdjtQN6sGXL7+5o0nnsftX5d6/n5mLyEpP+AEDl1zk3iqkS62RsITwql6DMMoGbSDdUpMclCIeM0vlo3CkxGMO7QA9ruVeNddkL3EWMivl+uxO43sXEEqYQHVl4N75y63t05GOf7/gm9Kb/BJ8MpG9ViEkVYaskQCzi3D8bVpzo8FfTj8te8B6c3ikc/cm7r8k0ZcZpr+YiLGDYq+0ilHxpqJfmq8dPkSvxdzLcUSvy7+LMQ/TTobRSF7L4JhtDKck0+00vl9H35Tkh9N+MsVtpKdWyoqZ4XaK2Nx1M6AieczXpdFc0y7lYPoUfF4IeW8WzeVUclol5ElYjkyFz/lDOGAe1bF2g5AYaGWCPiGleVZknNdD5ihB8W8Mfkt1pEwq2S97AHrppqkf/VoIfZzeqH8wUFw8fDDrZIpnoa0rW7HfwIQaqJhPCyB9Z6TVbV4x9UWmaHfVAcinCK/7o10dtaj3rvEqcUC/iPceGq3Tqv/p9GGNJ+Ci2JBjXqNxYr893Llk75VdPD9pM6y1SM0P80oXNy32VMtafkFFST8GpvvqWcxUJ93kzaY8RmU1g3XFOImSU2utU6+FUQ2Pn5uLwcfT2cTYfTpPGh+WXjSbZ6trqdEMEsLHybuPo2UN4WpVLXVQma3kSaHQggcLlEip8GhEUAy/xCb2eKqhI4HkDpDjwDnDVKufWlnRaOHf58cc8Woi+WT8JTOkHC+nBEG6fKRPHDG08U5yayIQIjI"

func vfC17Trailer(r *rand.Rand) []byte {
	if r.Intn(3) != 0 {
		return nil
	}
	b := make([]byte, 1+r.Intn(200))
	r.Read(b)
	b[0] = 0xC0 | byte(0x10+r.Intn(0x30)) // looks like a coalesced 0-RTT/Handshake packet
	return b
}

func vfC17Bytes(r *rand.Rand, n int) []byte {
	b := make([]byte, n)
	r.Read(b)
	return b
}

// vfC17Reframe packs a captured ClientHello into a fresh Initial with the reference codec.
func vfC17Reframe(r *rand.Rand, hello []byte) (pkt []byte, mainstream bool, note string) {
	p := &vfC17Initial{Version: vfC17QV1, PNLen: 1 + r.Intn(4), LenBytes: 2}
	mainstream = true
	if r.Intn(3) == 0 {
		p.Version = vfC17QV2
	}
	dl := 8 + r.Intn(13)
	if r.Intn(10) == 0 {
		dl = r.Intn(8) // shorter than RFC 9000 §7.2 allows for a client's first Initial
		mainstream = false
	}
	p.DCID = vfC17Bytes(r, dl)
	p.SCID = vfC17Bytes(r, r.Intn(21))
	if r.Intn(3) == 0 {
		p.Token = vfC17Bytes(r, 1+r.Intn(80))
	}
	p.PN = uint32(r.Intn(3))
	if r.Intn(8) == 0 {
		max := int64(1) << (8 * uint(p.PNLen))
		if max > 1<<31-1 {
			max = 1<<31 - 1
		}
		p.PN = uint32(r.Int63n(max))
		if p.PN > 2 {
			mainstream = false
		}
	}
	if r.Intn(6) == 0 {
		p.LenBytes = 4
	}
	// CRYPTO frames: 1..4 pieces, possibly out of order
	np := 1 + r.Intn(4)
	cutset := map[int]bool{}
	for len(cutset) < np-1 {
		cutset[1+r.Intn(len(hello)-1)] = true
	}
	var cuts []int
	for i := 1; i < len(hello); i++ {
		if cutset[i] {
			cuts = append(cuts, i)
		}
	}
	order := r.Perm(np)
	if r.Intn(2) == 0 {
		for i := range order {
			order[i] = i
		}
	}
	minLen := 1100 + r.Intn(250)
	p.Payload = vfC17FramePayload(r, hello, cuts, order, minLen)
	p.Trailer = vfC17Trailer(r)
	note = fmt.Sprintf("reframed: version=%#x dcid=%d scid=%d token=%d pn=%d/%dB lenvarint=%dB crypto-pieces=%d order=%v payload=%d trailer=%d",
		p.Version, len(p.DCID), len(p.SCID), len(p.Token), p.PN, p.PNLen, p.LenBytes, np, order, len(p.Payload), len(p.Trailer))
	return p.Seal(), mainstream, note
}

// vfC17OddFrames produces CRYPTO frame layouts that are NOT a partition of the ClientHello:
// overlapping frames, exact duplicates, gaps, a gap plus duplicated bytes of exactly the same
// total length (hole inside / outside the server name), frames beyond the end, missing start.
func vfC17OddFrames(r *rand.Rand, hello []byte, sni string) (frames []vfC17CryptoFrame, layout string) {
	L := len(hello)
	p := bytes.Index(hello, []byte(sni))
	part := func(lo, hi, n int) []vfC17CryptoFrame { // n pieces covering [lo,hi)
		var fs []vfC17CryptoFrame
		if hi <= lo {
			return nil
		}
		cuts := []int{lo, hi}
		for i := 1; i < n && hi-lo > 1; i++ {
			cuts = append(cuts, lo+1+r.Intn(hi-lo-1))
		}
		sort.Ints(cuts)
		for i := 1; i < len(cuts); i++ {
			if cuts[i] > cuts[i-1] {
				fs = append(fs, vfC17CryptoFrame{Off: cuts[i-1], Data: hello[cuts[i-1]:cuts[i]]})
			}
		}
		return fs
	}
	dup := func(total, avoidLo, avoidHi int) []vfC17CryptoFrame { // duplicated bytes of `total` length outside [avoidLo,avoidHi)
		var fs []vfC17CryptoFrame
		n := 1
		if total > 1 && r.Intn(2) == 0 {
			n = 2
		}
		for i := 0; i < n; i++ {
			ln := total
			if i < n-1 {
				ln = 1 + r.Intn(total-1)
			}
			total -= ln
			for try := 0; try < 50; try++ {
				off := r.Intn(L - ln + 1)
				if off+ln <= avoidLo || off >= avoidHi {
					fs = append(fs, vfC17CryptoFrame{Off: off, Data: hello[off : off+ln]})
					break
				}
			}
		}
		return fs
	}
	hole := func(inside bool) (int, int) {
		m := 1 + r.Intn(6)
		if inside && p >= 0 {
			if m > len(sni) {
				m = len(sni)
			}
			g := p + r.Intn(len(sni)-m+1)
			return g, g + m
		}
		for {
			g := 4 + r.Intn(L-4-m)
			if p < 0 || g+m <= p || g >= p+len(sni) {
				return g, g + m
			}
		}
	}
	switch v := r.Intn(16); {
	case v < 2:
		layout = "overlap (complete coverage)"
		frames = part(0, L, 2+r.Intn(3))
		for i := range frames {
			lo, hi := frames[i].Off, frames[i].Off+len(frames[i].Data)
			if lo > 0 && r.Intn(2) == 0 {
				lo -= 1 + r.Intn(min(lo, 20))
			}
			if hi < L && r.Intn(2) == 0 {
				hi += 1 + r.Intn(min(L-hi, 20))
			}
			frames[i] = vfC17CryptoFrame{Off: lo, Data: hello[lo:hi]}
		}
	case v < 4:
		layout = "exact duplicate of a frame (complete coverage)"
		frames = part(0, L, 1+r.Intn(3))
		frames = append(frames, frames[r.Intn(len(frames))])
	case v < 6:
		inside := r.Intn(2) == 0
		g, e := hole(inside)
		layout = fmt.Sprintf("gap [%d,%d) inside-sni=%v, no duplicate", g, e, inside)
		frames = append(part(0, g, 1+r.Intn(2)), part(e, L, 1+r.Intn(2))...)
	case v < 11:
		inside := v < 9
		g, e := hole(inside)
		d := dup(e-g, g, e)
		layout = fmt.Sprintf("gap [%d,%d) inside-sni=%v + %d duplicated frame(s) of the same total length", g, e, inside, len(d))
		frames = append(append(part(0, g, 1+r.Intn(2)), part(e, L, 1+r.Intn(2))...), d...)
	case v < 12:
		inside := r.Intn(2) == 0
		g, e := hole(inside)
		d := dup(e-g+1+r.Intn(4), g, e)
		layout = fmt.Sprintf("gap [%d,%d) inside-sni=%v + duplicated bytes of a different total length", g, e, inside)
		frames = append(append(part(0, g, 1), part(e, L, 1)...), d...)
	case v < 13:
		layout = "complete hello + a frame beyond its end"
		frames = part(0, L, 1+r.Intn(2))
		frames = append(frames, vfC17CryptoFrame{Off: L + r.Intn(40), Data: vfC17Bytes(r, 1+r.Intn(30))})
	case v < 14:
		g := 1 + r.Intn(40)
		layout = fmt.Sprintf("start [0,%d) missing + duplicated bytes of the same length", g)
		frames = append(part(g, L, 1+r.Intn(2)), dup(g, 0, g)...)
	default:
		cut := L - 1 - r.Intn(L/2)
		layout = fmt.Sprintf("hello cut at %d (continues in the next packet) + duplicated bytes of the missing length", cut)
		frames = append(part(0, cut, 1+r.Intn(2)), dup(L-cut, cut, L)...)
	}
	if r.Intn(2) == 0 {
		r.Shuffle(len(frames), func(i, j int) { frames[i], frames[j] = frames[j], frames[i] })
		layout += ", shuffled"
	}
	return frames, layout
}

func TestVerifC17UDP(t *testing.T) {
	k := vfNewKit(t, "C17", "udp-quic")
	defer k.Finish()

	// self-check of the reference codec against the repository's own sample packet
	sample, err := base64.StdEncoding.DecodeString(vfC17SuiteSample)
	if err != nil {
		t.Fatalf("vfC17: sample: %v", err)
	}
	so, err := vfC17RefOpen(sample)
	if err != nil || !so.HelloOK || !bytes.Contains(so.Crypto, []byte("www.notion.so")) {
		t.Fatalf("vfC17: reference codec cannot read the suite's QUIC sample: %v", err)
	}
	// and seal -> open round trip
	{
		r := k.Rand("selfcheck")
		pkt, _, _ := vfC17Reframe(r, so.Crypto)
		o2, err := vfC17RefOpen(pkt)
		if err != nil || !o2.HelloOK || !bytes.Equal(o2.Crypto, so.Crypto) {
			t.Fatalf("vfC17: reference codec seal/open round trip failed: %v", err)
		}
	}

	// capture real first flights
	rc := k.Rand("capture")
	nSmall, nLarge := k.N(24, 200), k.N(8, 60)
	var small, large []vfC17Captured
	for i := 0; i < nSmall+nLarge; i++ {
		sni := vfC17Name(rc, fmt.Sprintf("q%d", i))
		ver := quic.Version1
		if i%3 == 1 {
			ver = quic.Version2
		}
		cp, err := vfC17CaptureInitial(t, rc, sni, i < nSmall, ver)
		if err != nil {
			t.Fatalf("vfC17: capture %d: %v", i, err)
		}
		k.Count("captured_flights", 1)
		k.Count("captured_datagrams", int64(len(cp.Flight)))
		if i < nSmall {
			if cp.Hello == nil {
				t.Fatalf("vfC17: capture %d (%s): the x25519-only ClientHello did not fit the first datagram", i, cp.Config)
			}
			small = append(small, cp)
		} else {
			large = append(large, cp)
		}
	}

	var cases []*vfC17UDPCase
	add := func(c *vfC17UDPCase) {
		c.CaseID = fmt.Sprintf("udp-%d", len(cases))
		cases = append(cases, c)
	}
	r := k.Rand("cases")
	dest := func() vfC17Dest { return vfC17MakeDest(r, fmt.Sprintf("u%d", len(cases))) }
	plainDest := vfC17Dest{ReqAddr: "198.51.100.7:443", Host: "198.51.100.7", Port: "443", Filter: "all"}

	// the suite's sample, both slice shapes
	for _, exact := range []bool{true, false} {
		add(&vfC17UDPCase{Kind: "quic:suite-sample", SNI: "www.notion.so", Mainstream: true, ExactCap: exact, Dest: plainDest, Data: sample,
			Note: "the QUIC packet of extras/sniff/sniff_test.go"})
	}
	// captured datagrams as they are
	for _, cp := range small {
		add(&vfC17UDPCase{Kind: "quic:captured", SNI: cp.SNI, Mainstream: true, ExactCap: r.Intn(2) == 0, Dest: plainDest, Data: cp.Flight[0], Note: cp.Config})
		add(&vfC17UDPCase{Kind: "quic:captured", SNI: cp.SNI, Mainstream: true, ExactCap: r.Intn(2) == 0, Dest: dest(), Data: cp.Flight[0], Note: cp.Config})
	}
	for _, cp := range large {
		for i, d := range cp.Flight {
			if i > 2 {
				break
			}
			add(&vfC17UDPCase{Kind: fmt.Sprintf("quic:captured-2dgram-hello/dgram%d", i), SNI: cp.SNI, Mainstream: false, ExactCap: r.Intn(2) == 0, Dest: plainDest, Data: d, Note: cp.Config})
		}
	}
	n := k.N(12000, 600000)
	for i := 0; i < n; i++ {
		cp := small[r.Intn(len(small))]
		c := &vfC17UDPCase{SNI: cp.SNI, ExactCap: r.Intn(2) == 0, Dest: dest()}
		base := cp.Flight[0]
		c.Mainstream = true
		c.Note = cp.Config
		if r.Intn(3) != 0 {
			base, c.Mainstream, c.Note = vfC17Reframe(r, cp.Hello)
		}
		switch v := r.Intn(20); {
		case v < 9:
			c.Kind, c.Data = "quic:valid", base
		case v < 12: // truncated
			cut := r.Intn(len(base))
			if r.Intn(4) == 0 {
				cut = r.Intn(40)
			}
			c.Kind, c.Data = "quic:truncated", base[:cut]
			c.Note += fmt.Sprintf("; cut to %d of %d bytes", cut, len(base))
		case v < 15: // bit flips
			d := append([]byte(nil), base...)
			var pos []int
			for f := 1 + r.Intn(3); f > 0; f-- {
				p := r.Intn(len(d))
				if r.Intn(3) == 0 {
					p = r.Intn(50) // the header
				}
				d[p] ^= byte(1 << uint(r.Intn(8)))
				pos = append(pos, p)
			}
			c.Kind, c.Data = "quic:bitflip", d
			c.Note += fmt.Sprintf("; bits flipped at offsets %v", pos)
		case v < 16: // a later datagram of a two-datagram flight arrives first
			lp := large[r.Intn(len(large))]
			c.SNI, c.Mainstream = lp.SNI, false
			c.Kind, c.Data, c.Note = "quic:captured-2dgram-hello/any", lp.Flight[r.Intn(len(lp.Flight))], lp.Config
		case v < 18: // header of a real Initial, payload replaced by random bytes
			d := append([]byte(nil), base...)
			from := 20 + r.Intn(40)
			if from < len(d) {
				r.Read(d[from:])
			}
			c.Kind, c.Data = "garbage:initial-header+random", d
		default: // plain garbage
			d := vfC17Bytes(r, r.Intn(1500))
			switch r.Intn(4) {
			case 0:
				if len(d) > 5 {
					d[0] |= 0xC0
					binary.BigEndian.PutUint32(d[1:], []uint32{vfC17QV1, vfC17QV2, 0, 0xff00001d}[r.Intn(4)])
				}
			case 1:
				if len(d) > 7 {
					d[0] = 0xC0 | byte(r.Intn(16))
					binary.BigEndian.PutUint32(d[1:], vfC17QV1)
					d[5], d[6] = 0, 0 // empty connection ids: the header parses whatever follows
				}
			}
			c.Kind, c.Data = "garbage:random", d
		}
		add(c)
	}
	// CRYPTO frame layouts that are not a partition of the ClientHello
	for i, no := 0, k.N(5000, 200000); i < no; i++ {
		cp := small[r.Intn(len(small))]
		frames, layout := vfC17OddFrames(r, cp.Hello, cp.SNI)
		p := &vfC17Initial{Version: vfC17QV1, PNLen: 1 + r.Intn(4), LenBytes: 2, PN: uint32(r.Intn(3)),
			DCID: vfC17Bytes(r, 8+r.Intn(13)), SCID: vfC17Bytes(r, r.Intn(21))}
		if r.Intn(3) == 0 {
			p.Version = vfC17QV2
		}
		p.Payload = vfC17FramesPayload(r, frames, 1100+r.Intn(250))
		p.Trailer = vfC17Trailer(r)
		var fl []string
		for _, f := range frames {
			fl = append(fl, fmt.Sprintf("[%d,%d)", f.Off, f.Off+len(f.Data)))
		}
		add(&vfC17UDPCase{Kind: "quic:non-partition-frames", SNI: cp.SNI, Mainstream: false, ExactCap: r.Intn(2) == 0, Dest: dest(),
			Data: p.Seal(), Note: fmt.Sprintf("hello %d B, sni at %d; %s; frames %v", len(cp.Hello), bytes.Index(cp.Hello, []byte(cp.SNI)), layout, fl)})
	}
	for _, c := range cases {
		if rc := k.ReplayCase(); rc != "" && rc != c.CaseID {
			continue
		}
		vfC17RunUDP(k, c)
	}
	for i, c := range cases {
		if i%2999 == 60 || i == 0 {
			k.Sample(map[string]any{"case_id": c.CaseID, "kind": c.Kind, "len": len(c.Data), "sni": c.SNI, "note": c.Note, "dest": c.Dest.ReqAddr, "filter": c.Dest.Filter})
		}
	}
}
