//go:build verif

package obfs

// C14 parts that use REAL sender frames:
//   gecko-wire        send side: every length 1..1500, several [min,max] configurations; chunk count,
//                     header fields, concatenation, datagram sizes on the captured wire, short-header
//                     pass-through, all chunk counts 2..8 seen.
//   gecko-reassemble  one message at a time into a real receiver: all permutations for <=5 chunks
//                     (each also with duplicates), random permutations + duplicates for 6..8 chunks.
//   gecko-interleave  1..64 sources, each a real sender with its own (wrapping) message-ID counter;
//                     chunks of many messages and sources interleaved, duplicated, dropped, with short
//                     packets, ill-formed frames and virtual time mixed in.

import (
	"fmt"
	"math/rand"
	"testing"
	"testing/synctest"
	"time"
)

func vfC14FirstByte(r *rand.Rand, long bool) byte {
	if long {
		return []byte{0xc0, 0x80, 0xff, 0xd3, 0xe5}[r.Intn(5)]
	}
	return byte(r.Intn(0x80))
}

func TestVerifC14Wire(t *testing.T) {
	k := vfNewKit(t, "C14", "gecko-wire")
	defer k.Finish()
	vfC14CheckConsts(t)
	r := k.Rand("wire")
	configs := [][2]int{{0, 0}, {400, 900}, {1, 2048}, {100, 100}, {1200, 1200}, {512, 512}, {40, 60}, {13, 14}, {2048, 2048}, {1, 1}, {300, 1500}}
	boundary := []int{1, 2, 3, 4, 5, 6, 7, 8, 9, 15, 16, 17, 63, 64, 65, 255, 256, 499, 500, 511, 512, 513, 1186, 1187, 1188, 1199, 1200, 1201, 1252, 1350, 1452, 1499, 1500}
	synctest.Test(t, func(t *testing.T) {
		tag := 0
		for ci, cfg := range configs {
			tx := vfC14NewTx(t, k, vfC14Addr(ci), cfg[0], cfg[1])
			var lens []int
			if ci == 0 || !k.Quick() {
				for n := 1; n <= 1500; n++ {
					lens = append(lens, n)
				}
			} else {
				lens = append(lens, boundary...)
				for i := 0; i < 150; i++ {
					lens = append(lens, 1+r.Intn(1500))
				}
				// lengths around "chunk just fits / does not fit" for this max
				for c := 2; c <= 8; c++ {
					for d := -2; d <= 2; d++ {
						if n := c*(tx.max-vfC14SaltLen-vfC14HeaderLen) + d; n >= 1 && n <= 1500 {
							lens = append(lens, n)
						}
					}
				}
			}
			seen := map[int]bool{}
			reps := k.N(1, 3)
			for _, n := range lens {
				for rep := 0; rep < reps; rep++ {
					caseID := fmt.Sprintf("wire-%d-%d-%d", ci, n, rep)
					if rc := k.ReplayCase(); rc != "" && rc != caseID {
						continue
					}
					k.Eval()
					tag++
					long := r.Intn(8) != 0
					m := tx.write(tag, vfC14Payload(uint32(tag), n, vfC14FirstByte(r, long)), caseID)
					if m == nil {
						continue
					}
					if m.Long {
						seen[m.Total] = true
						k.Nontrivial(caseID) // not the drawn chunk count: the count of distinct cases is a function of the seed
						if n%499 == 0 && ci < 3 {
							sizes := []int{}
							for _, w := range m.Wire {
								sizes = append(sizes, len(w))
							}
							k.Sample(map[string]any{"part": "wire", "min": tx.min, "max": tx.max, "len": n, "chunks": m.Total, "wire_sizes": sizes})
						}
					}
				}
			}
			if k.ReplayCase() == "" {
				for c := vfC14MinChunks; c <= vfC14MaxChunks; c++ {
					if !seen[c] {
						tag++
						if m := tx.writeWithChunks(tag, vfC14Payload(uint32(tag), 700, 0xc0), c, fmt.Sprintf("wire-%d-fill-%d", ci, c)); m != nil {
							seen[c] = true
						}
					}
				}
				k.Count("ev_chunk_counts_seen", int64(len(seen)))
			}
			tx.close()
		}
	})
}

// vfC14WithDups inserts dups extra occurrences of random chunk indexes at random positions.
func vfC14WithDups(r *rand.Rand, order []int, dups int) []int {
	o := append([]int(nil), order...)
	n := len(order)
	for i := 0; i < dups; i++ {
		pos := r.Intn(len(o) + 1)
		v := order[r.Intn(n)]
		o = append(o[:pos], append([]int{v}, o[pos:]...)...)
	}
	return o
}

func TestVerifC14Reassemble(t *testing.T) {
	k := vfNewKit(t, "C14", "gecko-reassemble")
	defer k.Finish()
	r := k.Rand("perm")
	synctest.Test(t, func(t *testing.T) {
		txs := []*vfC14Tx{}
		for i := 0; i < 16; i++ {
			cfg := [][2]int{{0, 0}, {1, 2048}, {200, 1400}, {64, 64}}[i%4]
			tx := vfC14NewTx(t, k, vfC14Addr(100+i*37), cfg[0], cfg[1])
			tx.g.msgID.Store(uint32(r.Intn(256)))
			txs = append(txs, tx)
		}
		rx := vfC14NewRx(t, k, "")
		tag := 0
		runCase := func(caseID string, n, plen int, order []int) {
			if rc := k.ReplayCase(); rc != "" && rc != caseID {
				return
			}
			k.Eval()
			tag++
			tx := txs[r.Intn(len(txs))]
			m := tx.writeWithChunks(tag, vfC14Payload(uint32(tag), plen, vfC14FirstByte(r, true)), n, caseID)
			if m == nil {
				return
			}
			rx.caseID = caseID
			rx.register(m)
			if !rx.wouldBeJudged(m) {
				rx.drain() // a leftover of an earlier case (late duplicate) holds this ID or the source's slots
			}
			for _, idx := range order {
				rx.feed(m, idx)
			}
			k.Nontrivial(fmt.Sprintf("%d/%d/%v", n, plen, order))
			if r.Intn(4) == 0 {
				rx.sleep(time.Duration(r.Intn(3000)) * time.Millisecond)
			}
			if tag%211 == 0 {
				k.Sample(map[string]any{"part": "reassemble", "chunks": n, "len": plen, "arrival_order": order, "msg_id": m.ID})
			}
		}
		for n := 2; n <= 5; n++ {
			for _, plen := range []int{1, n - 1, n, n + 1, 2*n - 1, 100, 1200, 1500} {
				pi := 0
				vfC14Perms(n, func(o []int) {
					runCase(fmt.Sprintf("perm-%d-%d-%d", n, plen, pi), n, plen, o)
					runCase(fmt.Sprintf("permdup-%d-%d-%d", n, plen, pi), n, plen, vfC14WithDups(r, o, 1+r.Intn(3)))
					pi++
				})
			}
		}
		nr := k.N(60, 3000)
		for n := 6; n <= 8; n++ {
			for i := 0; i < nr; i++ {
				plen := 1 + r.Intn(1500)
				if i%4 == 0 {
					plen = 1 + r.Intn(2*n)
				}
				o := r.Perm(n)
				if i%2 == 1 {
					o = vfC14WithDups(r, o, 1+r.Intn(2*n))
				}
				runCase(fmt.Sprintf("rand-%d-%d", n, i), n, plen, o)
			}
		}
		if k.ReplayCase() == "" {
			rx.caseID = "final-drain"
			rx.drain()
		}
		rx.close()
		for _, tx := range txs {
			tx.close()
		}
	})
}

// ---------------------------------------------------------------------------- interleaving

type vfC14Open struct {
	m      *vfC14Msg
	script []int
	pos    int
}

// vfC14IllFormed makes a datagram that no reading of the frame layout accepts as a chunk.
func vfC14IllFormed(r *rand.Rand, sal *vfC14Sal) ([]byte, string) {
	chunk := make([]byte, r.Intn(60))
	r.Read(chunk)
	id := uint8(r.Intn(256))
	switch r.Intn(6) {
	case 0: // chunk count outside 2..8
		tot := []int{0, 1, 9, 12, 15}[r.Intn(5)]
		return sal.seal(vfC14RefEncode(r, 0x80, id, 0, tot, r.Intn(20), chunk)), fmt.Sprintf("total=%d", tot)
	case 1: // index >= count
		tot := 2 + r.Intn(7)
		idx := tot + r.Intn(16-tot)
		return sal.seal(vfC14RefEncode(r, 0x80, id, idx, tot, r.Intn(20), chunk)), fmt.Sprintf("idx=%d total=%d", idx, tot)
	case 2: // padding longer than the datagram
		f := vfC14RefEncode(r, 0x80, id, 0, 2+r.Intn(7), 0, chunk)
		pl := len(chunk) + 1 + r.Intn(1000)
		f[3], f[4] = byte(pl>>8), byte(pl)
		return sal.seal(f), "padlen>datagram"
	case 3: // truncated header
		f := vfC14RefEncode(r, 0x80, id, 0, 4, 0, nil)
		return sal.seal(f[:1+r.Intn(4)]), "truncated-header"
	case 4: // too short for Salamander (<= salt)
		f := make([]byte, r.Intn(9))
		r.Read(f)
		return f, "no-payload-after-salt"
	default: // header only claims 15 chunks and index 15
		return sal.seal(vfC14RefEncode(r, 0xff, id, 15, 15, 0, chunk)), "idx=15 total=15"
	}
}

type vfC14World struct {
	Sources int  `json:"sources"`
	Msgs    int  `json:"messages"`
	Avoid   bool `json:"judged"` // scheduler keeps every step inside what the property fixes
	PStart  int  `json:"p_start_pct"`
	Lossy   int  `json:"p_lossy_pct"`
	Sleepy  int  `json:"p_sleep_pct"`
}

func vfC14RunWorld(t *testing.T, k *vfKit, caseID string, w vfC14World) {
	r := k.Rand(caseID)
	sal := vfC14NewSal(t)
	rx := vfC14NewRx(t, k, caseID)
	type source struct {
		tx      *vfC14Tx
		open    []*vfC14Open
		written int
	}
	srcs := make([]*source, w.Sources)
	base := r.Intn(100000)
	for i := range srcs {
		cfg := [][2]int{{0, 0}, {1, 2048}, {600, 700}}[r.Intn(3)]
		tx := vfC14NewTx(t, k, vfC14Addr(base+i), cfg[0], cfg[1])
		tx.g.msgID.Store(uint32(r.Intn(256))) // counters start anywhere: 8-bit wrap-around happens mid-run
		srcs[i] = &source{tx: tx}
	}
	tag := 0
	written, skipped := 0, 0
	newMsg := func(s *source) *vfC14Msg {
		tag++
		long := r.Intn(5) != 0
		n := 1 + r.Intn(1500)
		switch r.Intn(4) {
		case 0:
			n = 1 + r.Intn(16)
		case 1:
			n = 1100 + r.Intn(401)
		}
		m := s.tx.writeSeeded(r, tag, vfC14Payload(uint32(tag), n, vfC14FirstByte(r, long)), caseID)
		if m != nil {
			rx.register(m)
			s.written++
			written++
		}
		return m
	}
	pending := map[*source]*vfC14Msg{} // written but not yet started (ID slot busy / source at cap)
	idle := 0
	for written < w.Msgs || vfC14AnyOpen(len(srcs), func(i int) bool { return len(srcs[i].open) > 0 || pending[srcs[i]] != nil }) {
		if rx.failed {
			break
		}
		cand := srcs
		if written >= w.Msgs {
			cand = nil
			for _, c := range srcs {
				if len(c.open) > 0 || pending[c] != nil {
					cand = append(cand, c)
				}
			}
		}
		s := cand[r.Intn(len(cand))]
		progressed := false
		switch {
		case r.Intn(100) < w.Sleepy:
			// scaled so that a message spread over many sources' turns usually still fits in the TTL
			rx.sleep(time.Duration(1+r.Intn(1+3000/w.Sources)) * time.Millisecond)
			progressed = true
		case r.Intn(100) < 4:
			wire, what := vfC14IllFormed(r, sal)
			from := s.tx.src
			if r.Intn(2) == 0 {
				from = vfC14Addr(900000 + r.Intn(50))
			}
			rx.junk(wire, from, what)
			progressed = true
		case (len(s.open) == 0 || r.Intn(100) < w.PStart) && (written < w.Msgs || pending[s] != nil):
			m := pending[s]
			if m == nil {
				if m = newMsg(s); m == nil {
					continue
				}
			}
			if w.Avoid && !rx.wouldBeJudged(m) {
				pending[s] = m // wait until the stale entry / the source's slots are gone
				break
			}
			delete(pending, s)
			if !m.Long {
				rx.feed(m, 0)
				progressed = true
				break
			}
			script := r.Perm(m.Total)
			if r.Intn(100) < w.Lossy {
				script = script[:len(script)-1-r.Intn(len(script)-1)] // chunks lost: can never complete
				k.Count("ev_lossy_messages", 1)
			}
			if r.Intn(3) == 0 {
				script = vfC14WithDups(r, script, 1+r.Intn(3))
			}
			o := &vfC14Open{m: m, script: script}
			s.open = append(s.open, o)
			rx.feed(m, o.script[0])
			o.pos = 1
			progressed = true
		case len(s.open) > 0:
			oi := r.Intn(len(s.open))
			o := s.open[oi]
			if o.pos < len(o.script) {
				if w.Avoid && !rx.wouldBeJudged(o.m) {
					// outcome not fixed by the property (TTL window / source at cap): the network loses it
					skipped++
					k.Count("chunks_withheld", 1)
				} else {
					rx.feed(o.m, o.script[o.pos])
				}
				o.pos++
				progressed = true
			}
			if o.pos >= len(o.script) {
				s.open = append(s.open[:oi], s.open[oi+1:]...)
			}
		}
		if progressed {
			idle = 0
			continue
		}
		idle++
		if idle > 4*len(srcs)+16 {
			rx.sleep(vfC14Gone + time.Millisecond) // everything waits for stale state to expire
			idle = 0
		}
	}
	// drift-prone history is over: nothing may remain, and no source may be locked out
	if !rx.failed {
		rx.drain()
		for _, s := range srcs {
			tag++
			m := s.tx.writeWithChunks(tag, vfC14Payload(uint32(tag), 1+r.Intn(1500), 0xc0), 2+r.Intn(7), caseID)
			if m == nil {
				continue
			}
			rx.register(m)
			before := k.Counter("ev_messages_delivered")
			for _, idx := range r.Perm(m.Total) {
				rx.feed(m, idx)
			}
			if k.Counter("ev_messages_delivered") == before+1 {
				k.Count("ev_no_lockout_confirmed", 1)
			}
		}
	}
	k.Nontrivial(fmt.Sprintf("%s/%+v/%d", caseID, w, rx.steps))
	rx.close()
	for _, s := range srcs {
		s.tx.close()
	}
}

func vfC14AnyOpen(n int, f func(int) bool) bool {
	for i := 0; i < n; i++ {
		if f(i) {
			return true
		}
	}
	return false
}

func TestVerifC14Interleave(t *testing.T) {
	k := vfNewKit(t, "C14", "gecko-interleave")
	defer k.Finish()
	r := k.Rand("worlds")
	var worlds []vfC14World
	nw := k.N(24, 2500)
	per := k.N(90, 100)
	for i := 0; i < nw; i++ {
		w := vfC14World{Sources: []int{1, 1, 2, 3, 5, 8, 16, 33, 64}[i%9], Msgs: per, Avoid: i%6 != 5,
			PStart: 10 + r.Intn(60), Lossy: r.Intn(25), Sleepy: r.Intn(12)}
		if i%9 < 2 {
			w.Msgs = per * 4 // one source, several trips round the 8-bit ID space
			w.Lossy = r.Intn(8)
		}
		worlds = append(worlds, w)
	}
	for i, w := range worlds {
		caseID := fmt.Sprintf("world-%d", i)
		if rc := k.ReplayCase(); rc != "" && rc != caseID {
			continue
		}
		k.Eval()
		synctest.Test(t, func(t *testing.T) { vfC14RunWorld(t, k, caseID, w) })
		if i < 3 {
			k.Sample(map[string]any{"part": "interleave", "case_id": caseID, "world": w})
		}
	}
}
