//go:build verif

package obfs

// C13, memory-ownership part ("sal-alias").
//
// "Wrapped with the same key" means the key VALUE the caller passed at construction, and
// "arrives unchanged" presupposes that the wrapper leaves the caller's memory alone. A Go slice
// handed to the constructor / WriteTo / Obfuscate / Deobfuscate may be a window into a larger
// buffer (config blob holding several passwords, a fuzz input carved into key and payload, a
// reusable read buffer): len says what the callee may read, nothing says it may write there or
// behind it, or keep a live view of it.
//
// Scenarios (sequential, non-blocking fake network, reference model from PROTOCOL.md):
//   key-window     key = sub-slice of a sentinel-filled buffer with spare capacity 0,1,7,8,9,64;
//                  built through WrapPacketConnSalamander and newSalamanderObfuscator. (a) after
//                  construction and after every packet the caller's whole backing buffer is
//                  byte-identical to before; (b) then the caller wipes / reuses its key buffer and
//                  the socket must still interoperate with a peer built from the original key
//                  value and with the reference (wire == spec under the ORIGINAL key).
//   adjacent-keys  two keys carved from one config buffer, two sockets built in either order,
//                  traffic interleaved: both behave as independent sockets with their own key and
//                  the config buffer stays intact.
//   payload-window payload / wire / output buffers passed to WriteTo, ReadFrom, Obfuscate and
//                  Deobfuscate are windows into sentinel-filled buffers: inputs are not modified,
//                  nothing outside the window (before it, or behind len within cap) is written.
//                  (Inside an OUTPUT window beyond the returned n the callee may scribble; that is
//                  not checked.)

import (
	"bytes"
	"encoding/hex"
	"fmt"
	"math/rand"
	"testing"
)

type vfC13AliasCase struct {
	CaseID   string `json:"case_id"`
	Scenario string `json:"scenario"`
	Ctor     string `json:"constructor,omitempty"`
	KeyLen   int    `json:"key_len,omitempty"`
	Spare    int    `json:"spare_capacity,omitempty"`
	Wipe     string `json:"wipe,omitempty"`
	KeyHex   string `json:"key,omitempty"`
	Key2Len  int    `json:"key2_len,omitempty"`
	Order    string `json:"build_order,omitempty"`
	Len      int    `json:"payload_len,omitempty"`
	Phase    string `json:"phase,omitempty"`
}

func vfC13Sentinel(b []byte, seed byte) {
	for i := range b {
		b[i] = 0x80 | (seed+byte(i)*7)&0x7f // never zero
		if b[i] == 0 {
			b[i] = 0x81
		}
	}
}

// vfC13SameBuf reports (and records) a difference between the caller's buffer and its snapshot.
func vfC13SameBuf(k *vfKit, v *vfC13Viol, key string, c vfC13AliasCase, phase, region string, buf, snap []byte, layout string) bool {
	k.Count("ev_caller_buffer_checks", 1)
	if bytes.Equal(buf, snap) {
		return true
	}
	off := 0
	for off < len(buf) && buf[off] == snap[off] {
		off++
	}
	n := 0
	for i := range buf {
		if buf[i] != snap[i] {
			n++
		}
	}
	c.Phase = phase
	v.Add(key, map[string]any{"case_id": c.CaseID, "case": c, "layout": layout, "before": hex.EncodeToString(snap), "after": hex.EncodeToString(buf)},
		"%s: the caller's %s was written by the code under test: %d byte(s) differ, first at offset %d (0x%02x -> 0x%02x); layout %s",
		phase, region, n, off, snap[off], buf[off], layout)
	copy(snap, buf) // report each modification once
	return false
}

// vfC13ObjExchange drives a bare obfuscator object against the reference under refKey.
func vfC13ObjExchange(k *vfKit, v *vfC13Viol, wl *vfC13WireLog, c vfC13AliasCase, phase string, ob *salamanderObfuscator, refKey []byte, r *rand.Rand, n int, after func()) {
	c.Phase = phase
	kObf, kDeobf := "salamander:wire-not-spec", "salamander:foreign-packet-misdecoded"
	if phase == "after-wipe" {
		kObf, kDeobf = "salamander:key-follows-caller-buffer", "salamander:key-follows-caller-buffer"
	}
	for i := 0; i < n; i++ {
		k.Eval()
		plain := make([]byte, 1+r.Intn(300))
		r.Read(plain)
		out := make([]byte, len(plain)+8+r.Intn(3))
		nn := ob.Obfuscate(plain, out)
		k.Count("ev_writes", 1)
		if nn != len(plain)+8 {
			v.Add("salamander:wire-length", c, "Obfuscate of %d bytes returned %d (want %d)", len(plain), nn, len(plain)+8)
		} else {
			k.Count("ev_wire_packets", 1)
			wl.Add("real", c.CaseID, refKey, plain, out[:nn])
			if !bytes.Equal(vfC13RefDeobfuscate(refKey, out[:nn]), plain) {
				v.Add(kObf, map[string]any{"case_id": c.CaseID, "case": c, "plain": vfHex(plain), "wire": vfHex(out[:nn]), "original_key": hex.EncodeToString(refKey)},
					"%s: Obfuscate output is not payload XOR BLAKE2b-256(key||salt) under the key the obfuscator was built with (%d bytes)", phase, len(refKey))
			}
		}
		after()
		plain2 := make([]byte, 1+r.Intn(300))
		r.Read(plain2)
		salt := make([]byte, 8)
		r.Read(salt)
		wire := vfC13RefObfuscate(refKey, salt, plain2)
		wl.Add("ref", c.CaseID, refKey, plain2, wire)
		dout := make([]byte, len(plain2))
		dn := ob.Deobfuscate(vfExact(wire), dout)
		k.Count("ev_ref_packets", 1)
		if dn != len(plain2) || !bytes.Equal(dout[:dn], plain2) {
			v.Add(kDeobf, map[string]any{"case_id": c.CaseID, "case": c, "want": vfHex(plain2), "got_n": dn, "got": vfHex(dout), "original_key": hex.EncodeToString(refKey)},
				"%s: a packet made by the reference with the original %d-byte key is decoded differently (n=%d, want %d)", phase, len(refKey), dn, len(plain2))
		} else {
			k.Count("ev_delivered_exact", 1)
		}
		after()
	}
}

func vfC13WipeBuf(b []byte, mode string, r *rand.Rand) {
	switch mode {
	case "zero":
		for i := range b {
			b[i] = 0
		}
	case "ff":
		for i := range b {
			b[i] = 0xff
		}
	default: // "reuse": the buffer now holds something else
		r.Read(b)
	}
}

func TestVerifC13Alias(t *testing.T) {
	k := vfNewKit(t, "C13", "sal-alias")
	defer k.Finish()
	v := vfC13NewViol(k)
	wl := vfC13OpenWireLog(k, "sal-alias")
	defer wl.Close()
	r := k.Rand("cases")
	no := 0
	nextID := func() string { s := fmt.Sprintf("al-%d", no); no++; return s }
	skip := func(id string) bool { rc := k.ReplayCase(); return rc != "" && rc != id }
	perPhase := k.N(4, 24)
	pktNo := uint64(0)
	tagBase := uint64(r.Int63()) &^ 0xFFFFFFFF

	// run m packets through a pair with the sequential oracle of the roundtrip part
	exchange := func(p *vfC13Pair, c vfC13AliasCase, phase string, jr *rand.Rand, m int, after func()) {
		dirs := []string{"A>B", "B>A", "foreign>A", "foreign>B"}
		for i := 0; i < m; i++ {
			pktNo++
			n := vfC13BoundaryLens[jr.Intn(len(vfC13BoundaryLens))]
			if jr.Intn(2) == 0 {
				n = 1 + jr.Intn(400)
			}
			sc := &vfC13Case{CaseID: c.CaseID, KeyName: c.Scenario, KeyHex: hex.EncodeToString(p.key), Len: n, Dir: dirs[i%len(dirs)],
				JunkBefore: vfC13JunkSizes(jr, 2), BufSize: 2048, id: pktNo, tag: tagBase | pktNo,
				Note: fmt.Sprintf("%s %s spare=%d %s", c.Scenario, phase, c.Spare, c.Ctor)}
			if sc.Dir[0] == 'f' {
				s := make([]byte, 8)
				jr.Read(s)
				sc.SaltHex = hex.EncodeToString(s)
			}
			vfC13RunCase(k, v, wl, p, sc, jr, nil)
			after()
		}
	}

	// ---- key-window
	spares := []int{0, 1, 7, 8, 9, 64}
	keyLens := []int{4, 7, 8, 9, 16, 31, 32, 33, 64}
	wipes := []string{"zero", "ff", "reuse"}
	for _, ctor := range []string{"WrapPacketConnSalamander", "newSalamanderObfuscator"} {
		for li, L := range keyLens {
			for si, spare := range spares {
				c := vfC13AliasCase{CaseID: nextID(), Scenario: "key-window", Ctor: ctor, KeyLen: L, Spare: spare, Wipe: wipes[(li+si)%len(wipes)]}
				seed := r.Int63()
				if skip(c.CaseID) {
					continue
				}
				jr := rand.New(rand.NewSource(seed))
				// [8 sentinel][key L][spare sentinel = rest of cap][8 sentinel beyond cap]
				back := make([]byte, 8+L+spare+8)
				vfC13Sentinel(back, byte(L+spare))
				jr.Read(back[8 : 8+L])
				key := back[8 : 8+L : 8+L+spare]
				orig := vfExact(key)
				c.KeyHex = hex.EncodeToString(orig)
				snap := vfExact(back)
				layout := fmt.Sprintf("[0,8) guard | [8,%d) key | [%d,%d) spare capacity of the key slice | [%d,%d) guard", 8+L, 8+L, 8+L+spare, 8+L+spare, len(back))
				k.Eval()
				k.Nontrivial(fmt.Sprintf("kw/%s/%d/%d/%s", ctor, L, spare, c.Wipe))
				check := func(phase string) func() {
					return func() {
						vfC13SameBuf(k, v, "salamander:caller-key-buffer-written", c, phase, "key buffer", back, snap, layout)
					}
				}
				if ctor == "newSalamanderObfuscator" {
					ob, err := newSalamanderObfuscator(key)
					if err != nil || ob == nil {
						v.Add("salamander:valid-key-refused", c, "a %d-byte key was refused: %v", L, err)
						continue
					}
					check("construction")()
					vfC13ObjExchange(k, v, wl, c, "use", ob, orig, jr, perPhase, check("use"))
					vfC13WipeBuf(back[8:8+L+spare], c.Wipe, jr)
					snap = vfExact(back)
					vfC13ObjExchange(k, v, wl, c, "after-wipe", ob, orig, jr, perPhase, check("after-wipe"))
				} else {
					p, err := vfC13NewPairKeys(key, vfExact(orig), orig, true, 64)
					if err != nil {
						v.Add("salamander:valid-key-refused", c, "a %d-byte key was refused: %v", L, err)
						continue
					}
					check("construction")()
					exchange(p, c, "use", jr, perPhase, check("use"))
					vfC13WipeBuf(back[8:8+L+spare], c.Wipe, jr)
					snap = vfExact(back)
					exchange(p, c, "after-wipe", jr, perPhase, check("after-wipe"))
				}
				if L == 8 && spare == 8 {
					k.Sample(map[string]any{"case": c, "layout": layout, "packets_per_phase": perPhase})
				}
			}
		}
	}

	// ---- adjacent-keys
	for _, ls := range [][2]int{{4, 4}, {4, 16}, {8, 8}, {16, 5}, {32, 32}, {7, 64}, {64, 9}} {
		for _, order := range []string{"1-then-2", "2-then-1"} {
			c := vfC13AliasCase{CaseID: nextID(), Scenario: "adjacent-keys", KeyLen: ls[0], Key2Len: ls[1], Order: order}
			seed := r.Int63()
			if skip(c.CaseID) {
				continue
			}
			jr := rand.New(rand.NewSource(seed))
			L1, L2 := ls[0], ls[1]
			cfg := make([]byte, L1+L2+16)
			vfC13Sentinel(cfg, byte(L1*3+L2))
			jr.Read(cfg[:L1+L2])
			key1, key2 := cfg[:L1], cfg[L1:L1+L2] // plain sub-slices: capacity runs to the end of cfg
			o1, o2 := vfExact(key1), vfExact(key2)
			c.KeyHex = hex.EncodeToString(o1) + "|" + hex.EncodeToString(o2)
			snap := vfExact(cfg)
			layout := fmt.Sprintf("[0,%d) key1 | [%d,%d) key2 | [%d,%d) rest of the config buffer", L1, L1, L1+L2, L1+L2, len(cfg))
			k.Eval()
			k.Nontrivial(fmt.Sprintf("adj/%d/%d/%s", L1, L2, order))
			check := func(phase string) func() {
				return func() {
					vfC13SameBuf(k, v, "salamander:caller-key-buffer-written", c, phase, "config buffer holding two keys", cfg, snap, layout)
				}
			}
			var p1, p2 *vfC13Pair
			var e1, e2 error
			if order == "1-then-2" {
				p1, e1 = vfC13NewPairKeys(key1, vfExact(o1), o1, true, 64)
				check("construction of socket 1")()
				p2, e2 = vfC13NewPairKeys(key2, vfExact(o2), o2, true, 64)
				check("construction of socket 2")()
			} else {
				p2, e2 = vfC13NewPairKeys(key2, vfExact(o2), o2, true, 64)
				check("construction of socket 2")()
				p1, e1 = vfC13NewPairKeys(key1, vfExact(o1), o1, true, 64)
				check("construction of socket 1")()
			}
			if e1 != nil || e2 != nil {
				v.Add("salamander:valid-key-refused", c, "keys of %d / %d bytes refused: %v / %v", L1, L2, e1, e2)
				continue
			}
			c1, c2 := c, c
			c1.Scenario, c2.Scenario = "adjacent-keys/socket1", "adjacent-keys/socket2"
			for round := 0; round < perPhase; round++ {
				exchange(p1, c1, "interleaved", jr, 1+jr.Intn(2), check("traffic on socket 1"))
				exchange(p2, c2, "interleaved", jr, 1+jr.Intn(2), check("traffic on socket 2"))
			}
			if L1 == 8 && order == "1-then-2" {
				k.Sample(map[string]any{"case": c, "layout": layout})
			}
		}
	}

	// ---- payload-window
	pw, err := vfC13NewPair([]byte("payload-window-key"), true, 64)
	if err != nil {
		t.Fatalf("c13: %v", err)
	}
	ob, err := newSalamanderObfuscator([]byte("payload-window-key"))
	if err != nil {
		t.Fatalf("c13: %v", err)
	}
	for _, n := range vfC13BoundaryLens {
		for _, spare := range spares {
			c := vfC13AliasCase{CaseID: nextID(), Scenario: "payload-window", Len: n, Spare: spare, KeyHex: hex.EncodeToString(pw.key)}
			seed := r.Int63()
			if skip(c.CaseID) {
				continue
			}
			jr := rand.New(rand.NewSource(seed))
			k.Eval()
			k.Nontrivial(fmt.Sprintf("pw/%d/%d", n, spare))
			pktNo++
			// window(n) returns a sentinel buffer and its [8, 8+n) window whose capacity covers `spare` more bytes
			window := func(n int, seed byte) (back, win []byte) {
				back = make([]byte, 8+n+spare+8)
				vfC13Sentinel(back, seed)
				return back, back[8 : 8+n : 8+n+spare]
			}
			outside := func(back, snap []byte, n int) bool { // everything but the window itself
				return bytes.Equal(back[:8], snap[:8]) && bytes.Equal(back[8+n:], snap[8+n:])
			}

			// WriteTo: the payload buffer is an input
			wb, p := window(n, 1)
			vfC13Fill(p, tagBase|pktNo)
			ws := vfExact(wb)
			nn, werr := pw.wa.WriteTo(p, vfC13Addr{Ep: "B", ID: pktNo})
			k.Count("ev_writes", 1)
			if werr != nil || nn != n {
				v.Add("obfs:writeto-count", c, "WriteTo(%d bytes) = (%d, %v)", n, nn, werr)
			}
			vfC13SameBuf(k, v, "obfs:write-touches-caller-memory", c, "WriteTo", "payload buffer (input)", wb, ws, fmt.Sprintf("[8,%d) payload, %d spare", 8+n, spare))
			wires := pw.take()
			// ReadFrom: only the window may be written
			m := []int{n, 2048}[jr.Intn(2)]
			rb, rp := window(m, 2)
			rs := vfExact(rb)
			gn, _, rerr := pw.wb.ReadFrom(rp)
			k.Count("ev_reads_returned", 1)
			if rerr != nil || gn != n || !bytes.Equal(rp[:gn], p) {
				v.Add("obfs:payload-altered", c, "payload-window: ReadFrom = (%d, %v), payload equal=%v", gn, rerr, rerr == nil && gn == n && bytes.Equal(rp[:gn], p))
			} else {
				k.Count("ev_delivered_exact", 1)
			}
			k.Count("ev_caller_buffer_checks", 1)
			if !outside(rb, rs, m) {
				v.Add("obfs:read-writes-outside-buffer", c, "ReadFrom wrote outside the %d-byte buffer it was given (guard bytes before it or behind len changed)", m)
			}
			for _, w := range wires {
				wl.Add("real", c.CaseID, pw.key, vfExact(p), w.data)
			}

			// Obfuscate: `in` is an input, `out` an output window
			ib, in := window(n, 3)
			jr.Read(in)
			is := vfExact(ib)
			obk, out := window(n+8, 4)
			os := vfExact(obk)
			on := ob.Obfuscate(in, out)
			vfC13SameBuf(k, v, "salamander:obfuscate-touches-input", c, "Obfuscate", "input buffer", ib, is, fmt.Sprintf("[8,%d) in, %d spare", 8+n, spare))
			k.Count("ev_caller_buffer_checks", 1)
			if !outside(obk, os, n+8) {
				v.Add("salamander:obfuscate-writes-outside-out", c, "Obfuscate wrote outside out[:%d]", n+8)
			}
			if on != n+8 || !bytes.Equal(vfC13RefDeobfuscate(pw.key, out[:on]), in) {
				v.Add("salamander:wire-not-spec", c, "payload-window: Obfuscate returned %d, reference decoding differs", on)
			} else {
				k.Count("ev_wire_packets", 1)
				wl.Add("real", c.CaseID, pw.key, vfExact(in), out[:on])
			}
			// Deobfuscate: the wire packet is an input, `out` an output window
			salt := make([]byte, 8)
			jr.Read(salt)
			plain := make([]byte, n)
			jr.Read(plain)
			db, din := window(n+8, 5)
			copy(din, vfC13RefObfuscate(pw.key, salt, plain))
			ds := vfExact(db)
			wl.Add("ref", c.CaseID, pw.key, plain, vfExact(din))
			dob, dout := window(n, 6)
			dos := vfExact(dob)
			dn := ob.Deobfuscate(din, dout)
			k.Count("ev_ref_packets", 1)
			vfC13SameBuf(k, v, "salamander:deobfuscate-touches-input", c, "Deobfuscate", "wire packet buffer (input)", db, ds, fmt.Sprintf("[8,%d) wire, %d spare", 16+n, spare))
			k.Count("ev_caller_buffer_checks", 1)
			if !outside(dob, dos, n) {
				v.Add("salamander:deobfuscate-writes-outside-out", c, "Deobfuscate wrote outside out[:%d]", n)
			}
			if dn != n || !bytes.Equal(dout[:dn], plain) {
				v.Add("salamander:foreign-packet-misdecoded", c, "payload-window: Deobfuscate returned %d for a %d-byte payload or content differs", dn, n)
			} else {
				k.Count("ev_delivered_exact", 1)
			}
		}
	}
}
