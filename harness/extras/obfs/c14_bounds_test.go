//go:build verif

package obfs

// C14 part gecko-bounds: an attacker who knows the key forges valid frames with arbitrary source,
// message ID and chunk index. Scenarios (each in its own synctest bubble):
//   srcflood   9..300 pending IDs from one source (+ honest traffic from other sources, which must be
//              unaffected); pending entries observed in the table are then completed (must come out),
//              freed slots must be usable, after TTL+GC everything is gone and the flooded source can
//              complete a new message (no lock-out).
//   wrap       one source walks the 8-bit ID space several times (any stride) with messages that
//              complete, expire or stay pending; time advances across the TTL.
//   global     4097+ sources (and a variant with 8 IDs per source) push the table over its global cap;
//              survivors complete, evicted sources send again, nothing drifts, all expires.
//   ttl        chunks arrive at chosen ages (just before TTL, inside the sweep window, just after
//              TTL+GC) relative to the first chunk and to the sweeper's ticks.
// After EVERY datagram and every advance of virtual time: perSource == census(reassembly), <= 8 per
// source, <= 4096 overall (rx.census), read under the conn's own mutex.

import (
	"bytes"
	"fmt"
	"math/rand"
	"net"
	"sort"
	"testing"
	"testing/synctest"
	"time"
)

// vfC14CompleteObserved: key (m.Src, m.ID) is pending in the real table and only chunks of m were ever
// sent with that key since `since` (< TTL ago), so once all chunks of m have arrived it must come out
// exactly once. Used where the model cannot know which of many candidates the table accepted.
func vfC14CompleteObserved(rx *vfC14Rx, r *rand.Rand, m *vfC14Msg, since time.Time) {
	if time.Since(since) >= vfC14TTL {
		return
	}
	key := vfC14Key{m.SrcS, m.ID}
	var got []vfC14Delivery
	order := r.Perm(m.Total)
	rx.note(map[string]any{"op": "complete-observed", "tag": m.Tag, "src": m.SrcS, "id": m.ID, "order": order})
	for _, idx := range order {
		got = append(got, rx.raw(m.Wire[idx], m.Src)...)
		rx.census(false)
	}
	// the chunk that was already stored may have arrived again after completion and started a new
	// (stale) entry: from here on the model does not know this key
	if e := rx.model[key]; e != nil {
		delete(rx.model, key)
		rx.perSrc[key.src]--
	}
	rx.taint[key] = time.Now().Add(vfC14Gone + time.Nanosecond)
	if len(got) != 1 || !bytes.Equal(got[0].data, m.Payload) || got[0].from != m.SrcS {
		rx.violation("gecko:pending-message-not-completed", map[string]any{"msg": m.desc(), "delivered": vfC14Desc(got)},
			"(source %s, id %d) was pending in the table; after all %d chunks of the only message with that key arrived ReadFrom returned %s (want the %d-byte message once)",
			m.SrcS, m.ID, m.Total, vfC14Desc(got), len(m.Payload))
		return
	}
	m.done++
	rx.k.Count("ev_messages_delivered", 1)
	rx.k.Count("ev_observed_completions", 1)
}

// vfC14FreshMustComplete: the source has fewer than 8 pending messages (observed) and the ID is free,
// so a new message whose chunks all arrive now must be delivered.
func vfC14FreshMustComplete(rx *vfC14Rx, r *rand.Rand, m *vfC14Msg, why string) {
	rx.register(m)
	if !rx.wouldBeJudged(m) {
		// the model is conservative (it counts keys it is unsure about); fall back to what the table shows
		_, keys := rx.census(true)
		n := 0
		for k := range keys {
			if k.src == m.SrcS {
				n++
			}
			if k == (vfC14Key{m.SrcS, m.ID}) {
				return // ID busy: precondition not met
			}
		}
		if n >= vfC14PerSource {
			return
		}
		delete(rx.taint, vfC14Key{m.SrcS, m.ID})
		if e := rx.model[vfC14Key{m.SrcS, m.ID}]; e != nil {
			return
		}
		var got []vfC14Delivery
		rx.note(map[string]any{"op": "fresh-observed", "why": why, "tag": m.Tag, "src": m.SrcS, "id": m.ID, "pending_of_source": n})
		for _, idx := range r.Perm(m.Total) {
			got = append(got, rx.raw(m.Wire[idx], m.Src)...)
			rx.census(false)
		}
		if len(got) != 1 || !bytes.Equal(got[0].data, m.Payload) || got[0].from != m.SrcS {
			rx.violation("gecko:source-locked-out", map[string]any{"msg": m.desc(), "why": why, "pending_of_source": n, "delivered": vfC14Desc(got)},
				"%s: source %s had %d pending messages (<8) and id %d was free, yet a new complete message produced %s",
				why, m.SrcS, n, m.ID, vfC14Desc(got))
			return
		}
		rx.k.Count("ev_messages_delivered", 1)
		rx.k.Count("ev_no_lockout_confirmed", 1)
		return
	}
	before := rx.k.Counter("ev_messages_delivered")
	rx.note(map[string]any{"op": "fresh", "why": why, "tag": m.Tag})
	for _, idx := range r.Perm(m.Total) {
		rx.feed(m, idx)
	}
	if rx.k.Counter("ev_messages_delivered") == before+1 {
		rx.k.Count("ev_no_lockout_confirmed", 1)
	}
}

func vfC14SrcFlood(t *testing.T, k *vfKit, caseID string) {
	r := k.Rand(caseID)
	sal := vfC14NewSal(t)
	rx := vfC14NewRx(t, k, caseID)
	defer rx.close()
	attacker := vfC14Addr(500000 + r.Intn(1000))
	nIDs := 9 + r.Intn(292) // 9..300
	if r.Intn(3) == 0 {
		nIDs = 9 + r.Intn(8)
	}
	honest := vfC14NewTx(t, k, vfC14Addr(600000+r.Intn(1000)), 0, 0)
	defer honest.close()
	rx.sleep(time.Duration(r.Intn(4000)) * time.Millisecond) // any phase relative to the sweeper
	start := time.Now()
	ids := r.Perm(256)
	byID := map[uint8]*vfC14Msg{}
	collide := false
	tag := 0
	for i := 0; i < nIDs && !rx.failed; i++ {
		tag++
		id := uint8(ids[i%256])
		if i >= 256 {
			collide = true // more pending IDs than the ID space: stale-ID collisions, recorded not judged
		}
		m := vfC14Forge(r, sal, tag, attacker, id, 2+r.Intn(7), 1+r.Intn(1500))
		rx.register(m)
		if byID[id] == nil {
			byID[id] = m
		} else {
			byID[id] = nil
		}
		// a proper subset of the chunks, any order, sometimes duplicated
		sub := r.Perm(m.Total)[:1+r.Intn(m.Total-1)]
		if r.Intn(4) == 0 {
			sub = vfC14WithDups(r, sub, 1)
		}
		for _, idx := range sub {
			rx.feed(m, idx)
		}
		if r.Intn(6) == 0 { // honest source in the middle of the flood
			tag++
			hm := honest.writeSeeded(r, tag, vfC14Payload(uint32(tag), 1+r.Intn(1500), 0xc0), caseID)
			if hm != nil {
				rx.register(hm)
				if rx.wouldBeJudged(hm) {
					for _, idx := range r.Perm(hm.Total) {
						rx.feed(hm, idx)
					}
				}
			}
		}
		if r.Intn(10) == 0 {
			rx.sleep(time.Duration(r.Intn(20)) * time.Millisecond)
		}
	}
	k.Count("ev_flood_ids", int64(nIDs))
	if rx.failed {
		return
	}
	// complete what the table shows as pending for the attacker's address
	_, keys := rx.census(true)
	pend := 0
	for _, key := range vfC14SortedKeys(keys) {
		if key.src != attacker.String() {
			continue
		}
		pend++
		if m := byID[key.id]; m != nil && !collide && r.Intn(3) != 0 {
			vfC14CompleteObserved(rx, r, m, start)
		}
	}
	k.Count("ev_flood_pending_seen", int64(pend))
	// slots freed by completion are usable again
	free := []int{}
	for i := nIDs; i < 256; i++ {
		free = append(free, ids[i])
	}
	for i := 0; i < 3 && i < len(free) && !rx.failed; i++ {
		tag++
		vfC14FreshMustComplete(rx, r, vfC14Forge(r, sal, tag, attacker, uint8(free[i]), 2+r.Intn(7), 1+r.Intn(1500)), "after completing flood entries")
	}
	if rx.failed {
		return
	}
	rx.drain()
	for i := 0; i < 3 && !rx.failed; i++ {
		tag++
		vfC14FreshMustComplete(rx, r, vfC14Forge(r, sal, tag, attacker, uint8(r.Intn(256)), 2+r.Intn(7), 1+r.Intn(1500)), "after flood expired")
		rx.drain()
	}
	k.Nontrivial(fmt.Sprintf("%s/%d/%d", caseID, nIDs, rx.steps))
}

func vfC14Wrap(t *testing.T, k *vfKit, caseID string, nMsgs int) {
	r := k.Rand(caseID)
	sal := vfC14NewSal(t)
	rx := vfC14NewRx(t, k, caseID)
	defer rx.close()
	src := vfC14Addr(700000 + r.Intn(1000))
	stride := []int{1, 1, 1, 3, 255, 127, 129}[r.Intn(7)]
	id := r.Intn(256)
	var later []*vfC14Open
	for i := 0; i < nMsgs && !rx.failed; i++ {
		m := vfC14Forge(r, sal, i+1, src, uint8(id), 2+r.Intn(7), 1+r.Intn(1500))
		id = (id + stride) & 0xff
		rx.register(m)
		if !rx.wouldBeJudged(m) {
			// ID still held by a stale entry, or 8 pending: wait for expiry (time crosses the TTL)
			k.Count("ev_wrap_waits", 1)
			rx.sleep(vfC14Gone + time.Millisecond)
			later = nil
		}
		script := r.Perm(m.Total)
		switch x := r.Intn(100); {
		case x < 60: // completes at once, sometimes with duplicates (also after completion)
			if r.Intn(3) == 0 {
				script = vfC14WithDups(r, script, 1+r.Intn(2))
			}
			for _, idx := range script {
				if rx.wouldBeJudged(m) {
					rx.feed(m, idx)
				}
			}
		case x < 80: // never completes: expires
			for _, idx := range script[:1+r.Intn(m.Total-1)] {
				rx.feed(m, idx)
			}
		default: // completes later, interleaved with the following messages
			rx.feed(m, script[0])
			later = append(later, &vfC14Open{m: m, script: script, pos: 1})
		}
		for j := 0; j < len(later); j++ {
			o := later[j]
			if r.Intn(2) == 0 {
				continue
			}
			if rx.wouldBeJudged(o.m) {
				rx.feed(o.m, o.script[o.pos])
			}
			o.pos++
			if o.pos >= len(o.script) {
				later = append(later[:j], later[j+1:]...)
				j--
			}
		}
		if r.Intn(5) == 0 {
			rx.sleep(time.Duration(r.Intn(2500)) * time.Millisecond)
		}
	}
	if !rx.failed {
		rx.drain()
		vfC14FreshMustComplete(rx, r, vfC14Forge(r, sal, nMsgs+1, src, uint8(id), 2+r.Intn(7), 1+r.Intn(1500)), "after wrap-around history")
	}
	k.Nontrivial(fmt.Sprintf("%s/%d/%d/%d", caseID, stride, nMsgs, rx.steps))
}

// vfC14FloodShape parameterises a global-cap flood: how many IDs each source uses, how many chunks the
// forged messages have, and how many of them have arrived (the table's entries are then all "have
// received R of T chunks" - in particular all one chunk short of completion).
type vfC14FloodShape struct {
	PerSrcIDs int  `json:"ids_per_source"` // 0 = 1..8 at random per source
	Total     int  `json:"total_chunks"`   // 0 = 2..8 at random per message
	Nearly    bool `json:"all_but_one_chunk_received"`
	Extra     int  `json:"entries_beyond_cap"`
	MinSrc    int  `json:"min_sources"`
	Shuffle   bool `json:"shuffled"`
}

func vfC14GlobalFlood(t *testing.T, k *vfKit, caseID string, sh vfC14FloodShape) {
	r := k.Rand(caseID)
	sal := vfC14NewSal(t)
	rx := vfC14NewRx(t, k, caseID)
	defer rx.close()
	rx.sleep(time.Duration(r.Intn(4000)) * time.Millisecond)
	start := time.Now()
	base := 1000000 + r.Intn(1000)*10000
	type ent struct {
		s  int
		id uint8
	}
	var ents []ent
	nSrc := 0
	for len(ents) < vfC14Global+1+sh.Extra || nSrc < sh.MinSrc {
		n := sh.PerSrcIDs
		if n == 0 {
			n = 1 + r.Intn(8)
		}
		for j := 0; j < n; j++ {
			ents = append(ents, ent{nSrc, uint8(j*31 + nSrc)})
		}
		nSrc++
	}
	if sh.Shuffle {
		r.Shuffle(len(ents), func(i, j int) { ents[i], ents[j] = ents[j], ents[i] })
	}
	msgs := map[vfC14Key]*vfC14Msg{}
	tag, frames := 0, 0
	maxSeen := 0
	for _, en := range ents {
		if rx.failed {
			break
		}
		tag++
		src := vfC14Addr(base + en.s)
		tot := sh.Total
		if tot == 0 {
			tot = 2 + r.Intn(7)
		}
		m := vfC14Forge(r, sal, tag, src, en.id, tot, 1+r.Intn(200))
		rx.sources[m.SrcS] = append(rx.sources[m.SrcS], m)
		msgs[vfC14Key{m.SrcS, m.ID}] = m
		sub := r.Perm(m.Total)
		if sh.Nearly {
			sub = sub[:m.Total-1]
		} else {
			sub = sub[:1]
		}
		for _, idx := range sub {
			rx.note(map[string]any{"op": "flood", "src": m.SrcS, "id": m.ID, "idx": idx, "of": m.Total})
			frames++
			if d := rx.raw(m.Wire[idx], src); len(d) != 0 {
				rx.violation("gecko:delivery-without-complete-set", map[string]any{"msg": m.desc(), "delivered": vfC14Desc(d)},
					"%d of %d chunks of a message arrived; ReadFrom returned %s", len(sub), m.Total, vfC14Desc(d))
			}
			total, _ := rx.census(false)
			if total > maxSeen {
				maxSeen = total
			}
			if rx.failed {
				break
			}
		}
		// every entry gets its own creation instant: "the oldest" is then a single entry and the victim
		// of an eviction does not depend on the map iteration order inside the code under test
		time.Sleep(time.Microsecond)
	}
	k.Count("ev_global_flood_entries", int64(tag))
	k.Count("ev_global_flood_sources", int64(nSrc))
	tag = frames
	k.Count("ev_global_flood_frames", int64(tag))
	if maxSeen >= vfC14Global {
		k.Count("ev_global_cap_reached", 1)
	}
	if rx.failed {
		return
	}
	if maxSeen < vfC14Global {
		k.Inconclusive(fmt.Sprintf("%s: table never reached the global cap (max %d)", caseID, maxSeen))
	}
	_, keys := rx.census(true)
	// survivors complete
	n := 0
	for _, key := range vfC14SortedKeys(keys) {
		if n >= 40 || rx.failed {
			break
		}
		if m := msgs[key]; m != nil {
			vfC14CompleteObserved(rx, r, m, start)
			n++
		}
	}
	// evicted sources come back while the table is still (nearly) full
	_, keys = rx.census(true)
	per := map[string]int{}
	for key := range keys {
		per[key.src]++
	}
	n = 0
	for s := 0; s < nSrc && n < 40 && !rx.failed; s++ {
		src := vfC14Addr(base + s)
		if per[src.String()] != 0 {
			continue
		}
		tag++
		m := vfC14Forge(r, sal, tag, src, uint8(200+r.Intn(50)), 2+r.Intn(7), 1+r.Intn(1500))
		rx.sources[m.SrcS] = append(rx.sources[m.SrcS], m)
		var got []vfC14Delivery
		rx.note(map[string]any{"op": "evicted-source-returns", "src": m.SrcS, "id": m.ID})
		for _, idx := range r.Perm(m.Total) {
			got = append(got, rx.raw(m.Wire[idx], src)...)
			rx.census(false)
		}
		if len(got) != 1 || !bytes.Equal(got[0].data, m.Payload) {
			rx.violation("gecko:source-locked-out", map[string]any{"msg": m.desc(), "delivered": vfC14Desc(got)},
				"source %s had no pending message left (evicted at the global cap); its next complete message produced %s", m.SrcS, vfC14Desc(got))
		} else {
			k.Count("ev_messages_delivered", 1)
			k.Count("ev_no_lockout_confirmed", 1)
		}
		n++
	}
	if rx.failed {
		return
	}
	// all flood keys are unknown to the model: let everything expire, then the table must be empty
	time.Sleep(vfC14Gone + time.Millisecond)
	synctest.Wait()
	if total, _ := rx.census(false); total != 0 {
		rx.violation("gecko:not-forgotten-after-ttl", map[string]any{"pending": total},
			"%d flood entries still pending %v after the last datagram", total, vfC14Gone)
		return
	}
	k.Count("ev_drains", 1)
	for i := 0; i < 30 && !rx.failed; i++ {
		tag++
		src := vfC14Addr(base + r.Intn(nSrc))
		vfC14FreshMustComplete(rx, r, vfC14Forge(r, sal, tag, src, uint8(r.Intn(256)), 2+r.Intn(7), 1+r.Intn(1500)), "after global flood expired")
	}
	k.Nontrivial(fmt.Sprintf("%s/%+v/%d/%d", caseID, sh, nSrc, rx.steps))
}

func vfC14TTLCase(t *testing.T, k *vfKit, caseID string) {
	r := k.Rand(caseID)
	sal := vfC14NewSal(t)
	rx := vfC14NewRx(t, k, caseID)
	defer rx.close()
	ages := []time.Duration{vfC14TTL - time.Millisecond, vfC14TTL - time.Nanosecond, vfC14TTL, vfC14TTL + time.Second,
		vfC14Gone - time.Millisecond, vfC14Gone, vfC14Gone + time.Nanosecond, vfC14Gone + time.Millisecond, 3 * time.Second}
	tag := 0
	for round := 0; round < 12 && !rx.failed; round++ {
		// phase relative to the sweeper: sometimes exactly on a tick, sometimes anywhere
		switch r.Intn(3) {
		case 0:
			rx.sleep(time.Duration(r.Intn(4000)) * time.Millisecond)
		case 1:
			el := time.Since(vfC14Epoch())
			rx.sleep(vfC14GCPeriod - el%vfC14GCPeriod) // lands on a multiple of the GC period
		}
		nm := 1 + r.Intn(6)
		var ms []*vfC14Msg
		for i := 0; i < nm; i++ {
			tag++
			m := vfC14Forge(r, sal, tag, vfC14Addr(800000+r.Intn(3)), uint8(tag), 2+r.Intn(7), 1+r.Intn(1500))
			rx.register(m)
			if !rx.wouldBeJudged(m) {
				continue
			}
			ms = append(ms, m)
			for idx := 0; idx < m.Total-1; idx++ { // all but the last chunk
				rx.feed(m, idx)
			}
		}
		first := time.Now()
		age := ages[r.Intn(len(ages))]
		// walk to the chosen age in steps, checking the table at every stop
		for time.Since(first) < age {
			step := time.Duration(1+r.Intn(3000)) * time.Millisecond
			if rem := age - time.Since(first); step > rem {
				step = rem
			}
			rx.sleep(step)
		}
		for _, m := range ms {
			rx.feed(m, m.Total-1) // judged if age < TTL (must complete), recorded otherwise
		}
		k.Count("ev_ttl_rounds", 1)
	}
	if !rx.failed {
		rx.drain()
	}
	k.Nontrivial(fmt.Sprintf("%s/%d", caseID, rx.steps))
}

// vfC14Pin: "forgotten after its TTL, whatever an attacker sends". A message stays incomplete while
// frames that change nothing keep arriving for its key (duplicates of chunks it already has; now and
// then a further new chunk that still does not complete it) at intervals shorter than the TTL, and
// other sources' traffic flows. The entry must be gone TTL + one GC period after its FIRST chunk.
// All repeats arrive before the TTL has run out, then the key stays silent, so the expected state is
// not in doubt at the moment it is inspected. Several cycles = several TTLs of virtual time.
func vfC14Pin(t *testing.T, k *vfKit, caseID string) {
	r := k.Rand(caseID)
	sal := vfC14NewSal(t)
	rx := vfC14NewRx(t, k, caseID)
	defer rx.close()
	honest := []*vfC14Tx{vfC14NewTx(t, k, vfC14Addr(1600000+r.Intn(1000)), 0, 0), vfC14NewTx(t, k, vfC14Addr(1700000+r.Intn(1000)), 1, 2048)}
	defer honest[0].close()
	defer honest[1].close()
	tag := 0
	other := func() {
		tag++
		tx := honest[r.Intn(2)]
		if hm := tx.writeSeeded(r, tag, vfC14Payload(uint32(tag), 1+r.Intn(1500), 0xc0), caseID); hm != nil {
			rx.register(hm)
			if rx.wouldBeJudged(hm) {
				for _, idx := range r.Perm(hm.Total) {
					rx.feed(hm, idx)
				}
			}
		}
	}
	walk := func(until time.Time) {
		for time.Now().Before(until) && !rx.failed {
			step := time.Duration(1+r.Intn(1500)) * time.Millisecond
			if rem := time.Until(until); step > rem {
				step = rem
			}
			rx.sleep(step)
			if r.Intn(2) == 0 {
				other()
			}
		}
	}
	victims := []int{1800000 + r.Intn(1000), 1810000 + r.Intn(1000)}
	for cycle := 0; cycle < 4 && !rx.failed; cycle++ {
		rx.sleep(time.Duration(r.Intn(4000)) * time.Millisecond)
		var ms []*vfC14Msg
		fed := map[*vfC14Msg][]int{}
		for i := 0; i < 1+r.Intn(4); i++ {
			tag++
			m := vfC14Forge(r, sal, tag, vfC14Addr(victims[r.Intn(2)]), uint8(tag), 2+r.Intn(7), 1+r.Intn(1500))
			rx.register(m)
			if !rx.wouldBeJudged(m) {
				continue
			}
			first := r.Intn(m.Total)
			rx.feed(m, first)
			ms = append(ms, m)
			fed[m] = []int{first}
		}
		t0 := time.Now()
		// repeats at ages strictly below the TTL
		n := 1 + r.Intn(6)
		ages := make([]time.Duration, n)
		for i := range ages {
			ages[i] = time.Duration(1 + r.Int63n(int64(vfC14TTL-time.Millisecond)))
		}
		if r.Intn(2) == 0 {
			ages[0] = vfC14TTL - time.Duration(1+r.Intn(1000))*time.Millisecond // a late one: pushes a refreshed deadline far out
		}
		sort.Slice(ages, func(i, j int) bool { return ages[i] < ages[j] })
		for _, a := range ages {
			walk(t0.Add(a))
			for _, m := range ms {
				if !rx.wouldBeJudged(m) {
					continue
				}
				have := fed[m]
				if r.Intn(4) == 0 && len(have) < m.Total-1 { // a new chunk, still incomplete afterwards
					for idx := 0; idx < m.Total; idx++ {
						seen := false
						for _, h := range have {
							seen = seen || h == idx
						}
						if !seen {
							rx.feed(m, idx)
							fed[m] = append(have, idx)
							break
						}
					}
					continue
				}
				rx.feed(m, have[r.Intn(len(have))]) // duplicate
				k.Count("ev_pin_repeats", 1)
			}
		}
		// silence for these keys; the rest of the world goes on
		walk(t0.Add(vfC14Gone + time.Nanosecond))
		rx.checkState()
		walk(t0.Add(vfC14Gone + time.Duration(r.Intn(3000))*time.Millisecond))
		k.Count("ev_pin_cycles", 1)
	}
	if !rx.failed {
		rx.drain()
	}
	k.Nontrivial(fmt.Sprintf("%s/%d", caseID, rx.steps))
}

// vfC14EvictSelf (directed): the table is filled to the global cap so that the OLDEST pending entries
// belong to chosen sources S1..Sn (each holding `held` entries, inserted first, every entry at its own
// strictly increasing instant), followed by filler entries from >= 512 other sources (<= 7 each).
// Then, for each Si in turn and `held` times, Si sends one chunk of a NEW message ID: the entry evicted
// to make room is Si's own oldest one (victim and inserter coincide). A FULL census (perSource[src] ==
// pending entries of src for every src, no non-zero perSource key without entries, bounds) runs after
// every one of these steps. Afterwards everything expires (census again) and every Si must be able to
// reassemble two interleaved messages (no lock-out by a counter left too high).
func vfC14EvictSelf(t *testing.T, k *vfKit, caseID string, helds []int) {
	r := k.Rand(caseID)
	sal := vfC14NewSal(t)
	rx := vfC14NewRx(t, k, caseID)
	defer rx.close()
	rx.sleep(time.Duration(r.Intn(4000)) * time.Millisecond)
	base := 3000000 + r.Intn(1000)*10000
	tag := 0
	one := func(src net.Addr, id uint8, what string) {
		tag++
		m := vfC14Forge(r, sal, tag, src, id, 2+r.Intn(7), 1+r.Intn(300))
		rx.sources[m.SrcS] = append(rx.sources[m.SrcS], m)
		idx := r.Intn(m.Total)
		rx.note(map[string]any{"op": what, "src": m.SrcS, "id": m.ID, "idx": idx, "of": m.Total})
		if d := rx.raw(m.Wire[idx], src); len(d) != 0 {
			rx.violation("gecko:delivery-without-complete-set", map[string]any{"msg": m.desc(), "delivered": vfC14Desc(d)},
				"one chunk of a %d-chunk message arrived; ReadFrom returned %s", m.Total, vfC14Desc(d))
		}
		time.Sleep(time.Microsecond) // strictly increasing creation instants
	}
	nextID := make([]int, len(helds))
	entries := 0
	for i, h := range helds {
		for j := 0; j < h; j++ {
			one(vfC14Addr(base+i), uint8(nextID[i]), "self-evict-setup")
			nextID[i]++
			entries++
			rx.census(true)
		}
	}
	// fillers: >= 512 other sources, at most 7 entries each, until the table is exactly at the cap
	fs := 0
	for entries < vfC14Global && !rx.failed {
		n := 1 + r.Intn(7)
		if left := vfC14Global - entries; left/n < 600-fs { // keep the source count above 512
			n = 1 + r.Intn(6)
		}
		for j := 0; j < n && entries < vfC14Global; j++ {
			one(vfC14Addr(base+1000+fs), uint8(j*17+fs), "self-evict-filler")
			entries++
			rx.census(false)
		}
		fs++
	}
	k.Count("ev_self_evict_filler_sources", int64(fs))
	if total, _ := rx.census(true); total != vfC14Global {
		k.Inconclusive(fmt.Sprintf("%s: table holds %d after the fill (want 4096)", caseID, total))
		return
	}
	for i, h := range helds {
		for j := 0; j < h && !rx.failed; j++ {
			_, before := rx.census(true)
			src := vfC14Addr(base + i)
			oldest := vfC14Key{src.String(), uint8(j)}
			one(src, uint8(nextID[i]), "self-evict")
			nextID[i]++
			_, after := rx.census(true) // the invariant, in full, right after the coincidence
			if before[oldest] && !after[oldest] {
				k.Count("ev_self_evictions", 1) // the victim was the sender's own oldest entry
			}
		}
	}
	if rx.failed {
		return
	}
	time.Sleep(vfC14Gone + time.Millisecond)
	synctest.Wait()
	if total, _ := rx.census(true); total != 0 {
		rx.violation("gecko:not-forgotten-after-ttl", map[string]any{"pending": total}, "%d entries still pending %v after the last datagram", total, vfC14Gone)
		return
	}
	for i := range helds {
		src := vfC14Addr(base + i)
		tag += 2
		a := vfC14Forge(r, sal, tag-1, src, uint8(200), 2+r.Intn(7), 1+r.Intn(1500))
		b := vfC14Forge(r, sal, tag, src, uint8(201), 2+r.Intn(7), 1+r.Intn(1500))
		rx.register(a)
		rx.register(b)
		before := k.Counter("ev_messages_delivered")
		rx.feed(a, 0)
		rx.feed(b, 0)
		for idx := 1; idx < a.Total || idx < b.Total; idx++ {
			if idx < a.Total {
				rx.feed(a, idx)
			}
			if idx < b.Total {
				rx.feed(b, idx)
			}
		}
		if k.Counter("ev_messages_delivered") == before+2 {
			k.Count("ev_no_lockout_confirmed", 1)
		}
	}
	k.Nontrivial(fmt.Sprintf("%s/%v", caseID, helds))
}

func TestVerifC14Bounds(t *testing.T) {
	k := vfNewKit(t, "C14", "gecko-bounds")
	defer k.Finish()
	type sc struct {
		id  string
		run func(t *testing.T, id string)
	}
	var list []sc
	for i := 0; i < k.N(12, 300); i++ {
		list = append(list, sc{fmt.Sprintf("srcflood-%d", i), func(t *testing.T, id string) { vfC14SrcFlood(t, k, id) }})
	}
	for i := 0; i < k.N(4, 100); i++ {
		n := k.N(600, 1200)
		list = append(list, sc{fmt.Sprintf("wrap-%d", i), func(t *testing.T, id string) { vfC14Wrap(t, k, id, n) }})
	}
	shapes := []vfC14FloodShape{
		{PerSrcIDs: 0, Total: 2, Nearly: true, Extra: 300, MinSrc: 600, Shuffle: true}, // every entry: 1 of 2 chunks
		{PerSrcIDs: 1, Total: 0, Nearly: false, Extra: 150},                            // 4247 sources, one chunk each
		{PerSrcIDs: 0, Total: 3, Nearly: true, Extra: 300, MinSrc: 600},
		{PerSrcIDs: 8, Total: 0, Nearly: false, Extra: 200, Shuffle: true},
		{PerSrcIDs: 0, Total: 0, Nearly: true, Extra: 300, MinSrc: 600, Shuffle: true}, // mixed counts, all one short
		{PerSrcIDs: 0, Total: 8, Nearly: true, Extra: 300, MinSrc: 600},
		{PerSrcIDs: 3, Total: 2, Nearly: true, Extra: 500},
		{PerSrcIDs: 2, Total: 0, Nearly: false, Extra: 300, Shuffle: true},
	}
	for i := 0; i < k.N(6, 24); i++ {
		sh := shapes[i%len(shapes)]
		list = append(list, sc{fmt.Sprintf("global-%d", i), func(t *testing.T, id string) { vfC14GlobalFlood(t, k, id, sh) }})
	}
	heldSets := [][]int{{1, 7, 1, 7, 3}, {7, 1, 2, 1}, {1, 1, 1, 1, 1, 1, 1, 1}, {7, 7}}
	for i := 0; i < k.N(2, 12); i++ {
		hs := heldSets[i%len(heldSets)]
		list = append(list, sc{fmt.Sprintf("evictself-%d", i), func(t *testing.T, id string) { vfC14EvictSelf(t, k, id, hs) }})
	}
	for i := 0; i < k.N(12, 300); i++ {
		list = append(list, sc{fmt.Sprintf("pin-%d", i), func(t *testing.T, id string) { vfC14Pin(t, k, id) }})
	}
	for i := 0; i < k.N(10, 300); i++ {
		list = append(list, sc{fmt.Sprintf("ttl-%d", i), func(t *testing.T, id string) { vfC14TTLCase(t, k, id) }})
	}
	for i, s := range list {
		if rc := k.ReplayCase(); rc != "" && rc != s.id {
			continue
		}
		k.Eval()
		synctest.Test(t, func(t *testing.T) { s.run(t, s.id) })
		if i%9 == 0 {
			k.Sample(map[string]any{"part": "bounds", "case_id": s.id})
		}
	}
}

// vfC14SortedKeys: map order must not leak into the script (determinism).
func vfC14SortedKeys(keys map[vfC14Key]bool) []vfC14Key {
	out := make([]vfC14Key, 0, len(keys))
	for k := range keys {
		out = append(out, k)
	}
	sort.Slice(out, func(i, j int) bool {
		if out[i].src != out[j].src {
			return out[i].src < out[j].src
		}
		return out[i].id < out[j].id
	})
	return out
}
