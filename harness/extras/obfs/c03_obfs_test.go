//go:build verif

package obfs

// C03 — peer-controlled bytes never crash the process: obfuscated / chunked transport packets.
//
//   obfs-salamander: salamanderObfuscator.Deobfuscate on any packet (cap==len) with output buffers
//                    of any size (exact, too small, empty, large), and obfsPacketConn.ReadFrom over a
//                    scripted PacketConn: hostile packet first, then a correctly obfuscated one that
//                    must come out intact with its source address.
//   obfs-gecko:      decodeFrame on any bytes; geckoPacketConn.ReadFrom fed hostile frames (any
//                    msgID / chunk index / chunk count / padding length, conflicting counts,
//                    duplicates) from many sources, incl. floods that hit the per-source and the
//                    global reassembly caps, (1) as plaintext straight under the Gecko layer and
//                    (2) through the full Gecko+Salamander stack by an attacker who knows the
//                    password. After hostile input a well-formed fragmented message from a fresh
//                    source must be reassembled exactly and a short-header packet must pass through.

import (
	"bytes"
	"errors"
	"fmt"
	"math/rand"
	"net"
	"testing"
	"time"
)

var errVfC03Drained = errors.New("c03: no more packets (script end)")

type vfC03Pkt struct {
	data []byte
	from net.Addr
}

// vfC03PConn is a scripted net.PacketConn: ReadFrom hands out the queued packets (cut to the
// reader's buffer like UDP), then fails.
type vfC03PConn struct {
	q      []vfC03Pkt
	writes int
}

func (c *vfC03PConn) ReadFrom(p []byte) (int, net.Addr, error) {
	if len(c.q) == 0 {
		return 0, nil, errVfC03Drained
	}
	pk := c.q[0]
	c.q = c.q[1:]
	return copy(p, pk.data), pk.from, nil
}
func (c *vfC03PConn) WriteTo(p []byte, addr net.Addr) (int, error) { c.writes++; return len(p), nil }
func (c *vfC03PConn) Close() error                                 { return nil }
func (c *vfC03PConn) LocalAddr() net.Addr                          { return &net.UDPAddr{IP: net.IPv4(127, 0, 0, 1), Port: 1} }
func (c *vfC03PConn) SetDeadline(t time.Time) error                { return nil }
func (c *vfC03PConn) SetReadDeadline(t time.Time) error            { return nil }
func (c *vfC03PConn) SetWriteDeadline(t time.Time) error           { return nil }

func vfC03Src(i int) net.Addr {
	return &net.UDPAddr{IP: net.IPv4(10, byte(i>>16), byte(i>>8), byte(i)), Port: 1000 + i%60000}
}

var vfC03PSK = []byte("c03 pre-shared key")

// vfC03Obfuscate makes the wire form of a plaintext with the peer's obfuscator (same key).
func vfC03Obfuscate(peer *salamanderObfuscator, plain []byte) []byte {
	out := make([]byte, len(plain)+smSaltLen)
	n := peer.Obfuscate(plain, out)
	return out[:n]
}

func TestVerifC03ObfsSalamander(t *testing.T) {
	k := vfNewKit(t, "C03", "obfs-salamander")
	defer k.Finish()
	r := vfC03New(k)
	defer r.Close()
	const entryD = "obfs:salamander.Deobfuscate"
	const entryR = "obfs:obfsPacketConn.ReadFrom"
	ob, err := newSalamanderObfuscator(vfC03PSK)
	if err != nil {
		t.Fatal(err)
	}
	peer, _ := newSalamanderObfuscator(vfC03PSK)
	peer.RandSrc = k.Rand("peer-salts") // deterministic salts
	r.Entry(entryD, func(b []byte) {
		for _, ol := range []int{len(b) - smSaltLen, len(b) - smSaltLen - 1, 0, 1, len(b), udpBufferSize} {
			if ol < 0 {
				ol = 0
			}
			out := make([]byte, ol)
			n := ob.Deobfuscate(b, out)
			if n > 0 {
				k.Count("ev_accepted", 1)
			} else {
				k.Count("ev_dropped", 1)
			}
			if n < 0 || n > len(out) {
				panic(fmt.Sprintf("Deobfuscate returned %d for a %d-byte output buffer", n, len(out)))
			}
		}
	})
	fake := &vfC03PConn{}
	wrapped := wrapPacketConn(fake, ob)
	canaryNo := 0
	r.Entry(entryR, func(b []byte) {
		canaryNo++
		payload := []byte(fmt.Sprintf("c03 salamander canary %d", canaryNo))
		src := vfC03Src(canaryNo)
		fake.q = []vfC03Pkt{{b, vfC03Src(0)}, {vfC03Obfuscate(peer, payload), src}}
		bufLen := []int{len(payload), len(payload) + 1, 64, 1200, udpBufferSize, 4096}[len(b)%6]
		var got []byte
		var from net.Addr
		for i := 0; i < 3; i++ {
			p := make([]byte, bufLen)
			n, a, err := wrapped.ReadFrom(p)
			if err != nil {
				break
			}
			if n < 0 || n > len(p) {
				panic(fmt.Sprintf("ReadFrom returned n=%d for a %d-byte buffer", n, len(p)))
			}
			k.Count("ev_delivered", 1)
			if bytes.Equal(p[:n], payload) {
				got, from = p[:n], a
				break
			}
		}
		if got == nil || from.String() != src.String() {
			r.ServiceStopped(entryR, vfC03CaseID(entryR, b), map[string]any{"hostile_packet": vfHex(b), "reader_buffer": bufLen},
				"after a hostile %d-byte packet the following well-formed packet was not delivered intact (got %q from %v)", len(b), got, from)
			return
		}
		k.Count("ev_canary_ok", 1)
	})
	if r.Replay() {
		return
	}
	rng := k.Rand("gen")
	emit := func(b []byte) {
		r.Do(entryD, b)
		r.Do(entryR, b)
	}
	// (a) all lengths 0..64 of plain fills, (b) mutations of a valid packet, (c) random incl. long
	vfC03Prefixes(rng, [][]byte{nil, {0, 0, 0, 0, 0, 0, 0, 0}, vfC03Obfuscate(peer, []byte("hello"))[:8]}, 64, emit)
	seed := vfC03Obfuscate(peer, bytes.Repeat([]byte("QUIC"), 30))
	vfC03Mutations(rng, seed, nil, nil, k.N(500, 10000), emit)
	for _, l := range []int{7, 8, 9, 1199, 1200, 1500, 2039, 2040, 2041, 2047, 2048, 2049, 2056, 2057, 4096, 65535} {
		emit(vfC03Fill(rng, 2, l))
		emit(vfC03Obfuscate(peer, vfC03Fill(rng, 2, l)))
	}
	vfC03Random(rng, k.N(3000, 80000), 2200, emit)
	k.Sample(map[string]any{"entries": []string{entryD, entryR}, "inputs": k.Counter("ev_inputs"), "canaries_delivered": k.Counter("ev_canary_ok")})
}

func vfC03GeckoFrame(flag, msgID, idx, total byte, padLen uint16, realPad int, payload []byte) []byte {
	return vfC03Cat([]byte{flag, msgID, idx<<4 | total&0x0f, byte(padLen >> 8), byte(padLen)}, make([]byte, realPad), payload)
}

func vfC03HostileGeckoFrame(rng *rand.Rand) []byte {
	flag := []byte{0x80, 0x80, 0x80, 0x81, 0xff, 0xc0, 0x00, 0x7f, 0x40}[rng.Intn(9)]
	msgID := []byte{0, 1, 2, 255, byte(rng.Intn(256))}[rng.Intn(5)]
	total := []byte{0, 1, 2, 2, 3, 8, 8, 9, 15, byte(rng.Intn(16))}[rng.Intn(10)]
	var idx byte
	switch rng.Intn(5) {
	case 0:
		idx = total
	case 1:
		idx = byte(rng.Intn(16))
	case 2:
		idx = 15
	default:
		if total > 0 {
			idx = byte(rng.Intn(int(total)))
		}
	}
	dl := rng.Intn(40)
	if rng.Intn(10) == 0 {
		dl = rng.Intn(1300)
	}
	realPad := rng.Intn(20)
	padLen := uint16(realPad)
	switch rng.Intn(8) {
	case 0:
		padLen = 0xffff
	case 1:
		padLen = uint16(realPad + dl) // padding swallows the payload exactly
	case 2:
		padLen = uint16(realPad + dl + 1) // one more than there is
	case 3:
		padLen = uint16(rng.Intn(0x10000))
	}
	f := vfC03GeckoFrame(flag, msgID, idx, total, padLen, realPad, vfC03Fill(rng, 2, dl))
	if rng.Intn(15) == 0 {
		f = f[:rng.Intn(len(f)+1)]
	}
	return f
}

// vfC03GeckoCanary: after hostile input, a fresh source sends a well-formed message in `total`
// chunks (random order) and a short-header packet; both must come out exactly.
func vfC03GeckoCanary(r *vfC03Run, entry, seqID string, rng *rand.Rand, n int, feed func(pkt []byte, from net.Addr) ([]byte, net.Addr, error)) {
	total := 2 + rng.Intn(7)
	src := vfC03Src(0x800000 + n)
	var chunks [][]byte
	var whole []byte
	for i := 0; i < total; i++ {
		c := []byte(fmt.Sprintf("\xc3c03-gecko-canary-%d-chunk-%d|", n, i))
		chunks = append(chunks, c)
		whole = append(whole, c...)
	}
	order := rng.Perm(total)
	r.Canary(entry, seqID, map[string]any{"chunks": total, "order": order, "source": src.String()}, func() error {
		canaryStart := time.Now()
		stalled := func() bool { return time.Since(canaryStart) > geckoReassemblyTTL/4 } // real-time TTL in the code under test
		var out []byte
		var from net.Addr
		for j, i := range order {
			got, a, err := feed(vfC03GeckoFrame(0x80, byte(n), byte(i), byte(total), uint16(3+i), 3+i, chunks[i]), src)
			if j < total-1 {
				if err == nil {
					return fmt.Errorf("a packet was delivered after %d of %d chunks: %q", j+1, total, got)
				}
				continue
			}
			if err != nil {
				if stalled() {
					r.k.Count("ev_canary_not_judged_machine_stalled", 1)
					return nil
				}
				return fmt.Errorf("nothing delivered after all %d chunks: %v", total, err)
			}
			out, from = got, a
		}
		if !bytes.Equal(out, whole) || from.String() != src.String() {
			return fmt.Errorf("reassembled %q from %v, want %q from %v", out, from, whole, src)
		}
		short := []byte(fmt.Sprintf("\x43c03 short header packet %d", n))
		got, a, err := feed(short, src)
		if err != nil || !bytes.Equal(got, short) || a.String() != src.String() {
			return fmt.Errorf("short-header packet: got %q from %v err=%v", got, a, err)
		}
		return nil
	})
}

func TestVerifC03ObfsGecko(t *testing.T) {
	k := vfNewKit(t, "C03", "obfs-gecko")
	defer k.Finish()
	r := vfC03New(k)
	defer r.Close()
	const entryF = "obfs:decodeFrame"
	const entryG = "obfs:geckoPacketConn.ReadFrom"
	const entryW = "obfs:gecko+salamander.ReadFrom"
	r.Entry(entryF, func(b []byte) {
		h, payload, err := decodeFrame(b)
		if err != nil {
			k.Count("ev_rejected", 1)
			return
		}
		k.Count("ev_accepted", 1)
		cp := append([]byte(nil), payload...) // the payload slice must be usable
		if len(cp) > len(b) || h.chunkIdx >= h.totalChunks {
			panic(fmt.Sprintf("decodeFrame accepted header %+v with a %d-byte payload from %d bytes", h, len(cp), len(b)))
		}
	})
	// a single plaintext frame into a fresh Gecko layer (replay of one packet)
	r.Entry(entryG, func(b []byte) {
		inner := &vfC03PConn{q: []vfC03Pkt{{b, vfC03Src(1)}}}
		g := newGeckoPacketConn(inner, geckoDefaultMinPacket, geckoDefaultMaxPacket)
		defer g.Close()
		p := make([]byte, geckoBufferSize)
		_, _, _ = g.ReadFrom(p)
	})
	if r.Replay() {
		return
	}
	rng := k.Rand("gen")
	// ---- decodeFrame: (a) prefixes, (b) mutations, (c) random
	var heads [][]byte
	for _, fl := range []byte{0x80, 0x00, 0xff} {
		for _, ct := range []byte{0x02, 0x12, 0x22, 0x08, 0x78, 0x88, 0x01, 0x09, 0x00, 0xff} {
			for _, pad := range [][]byte{{0, 0}, {0, 1}, {0, 58}, {0, 59}, {0, 60}, {1, 0}, {0xff, 0xff}} {
				heads = append(heads, vfC03Cat([]byte{fl, 7, ct}, pad))
			}
		}
	}
	if r.k.ReplayCase() == "" {
		vfC03Prefixes(rng, heads, 64, func(b []byte) { r.Do(entryF, b) })
		seed := vfC03GeckoFrame(0x80, 9, 1, 3, 10, 10, []byte("chunk payload of a handshake packet"))
		vfC03Mutations(rng, seed, []vfC03Field{{2, 1, "u8"}, {3, 2, "be16"}}, vfC03LenValues(uint64(len(seed)), uint64(len(seed)-5), 2048), k.N(300, 6000), func(b []byte) { r.Do(entryF, b) })
		vfC03Random(rng, k.N(2000, 60000), 2100, func(b []byte) { r.Do(entryF, b) })
	}

	// ---- sequences into one Gecko layer
	nseq := k.N(60, 1200)
	canaryNo := 0
	for i := 0; i < nseq; i++ {
		id := fmt.Sprintf("%d", i)
		if r.SkipSeq(id) {
			continue
		}
		srng := k.Rand("seq-" + id)
		fullStack := i%3 == 2
		entry := entryG
		if fullStack {
			entry = entryW
		}
		fake := &vfC03PConn{}
		var conn net.PacketConn
		peer, _ := newSalamanderObfuscator(vfC03PSK)
		peer.RandSrc = k.Rand("peer-salts-" + id) // deterministic salts
		if fullStack {
			var err error
			conn, err = WrapPacketConnGecko(fake, GeckoOptions{Password: vfC03PSK})
			if err != nil {
				t.Fatal(err)
			}
		} else {
			conn = newGeckoPacketConn(fake, geckoDefaultMinPacket, geckoDefaultMaxPacket)
		}
		r.NewObject(entry + ", sequence " + id)
		wire := func(plain []byte) []byte {
			if fullStack {
				return vfC03Obfuscate(peer, plain)
			}
			return plain
		}
		// feed hands exactly one packet to the stack and makes one ReadFrom call
		feed := func(pkt []byte, from net.Addr) ([]byte, net.Addr, error) {
			fake.q = []vfC03Pkt{{wire(pkt), from}}
			p := make([]byte, geckoBufferSize)
			n, a, err := conn.ReadFrom(p)
			if err != nil {
				return nil, a, err
			}
			return p[:n], a, nil
		}
		flood := i%20 == 7 // per-source cap and global cap with eviction
		steps := 150 + srng.Intn(150)
		nsrc := 1 + srng.Intn(12)
		if flood {
			steps = geckoMaxReassembly + 600
			nsrc = 700
		}
		panicked := false
		for s := 0; s < steps && !panicked; s++ {
			var pkt []byte
			from := vfC03Src(1 + srng.Intn(nsrc))
			switch {
			case flood:
				// first chunk of ever new messages: fills the tables
				from = vfC03Src(1 + s%nsrc)
				pkt = vfC03GeckoFrame(0x80, byte(s/nsrc), 0, 2+byte(s%7), 0, 0, []byte("flood"))
			case srng.Intn(12) == 0:
				pkt = vfC03Fill(srng, srng.Intn(4), s%65)
			default:
				pkt = vfC03HostileGeckoFrame(srng)
			}
			if fullStack && srng.Intn(10) == 0 {
				// not even correctly obfuscated
				panicked = r.DoObj(entry, r.SeqID(id), pkt, func(b []byte) {
					fake.q = []vfC03Pkt{{b, from}}
					_, _, _ = conn.ReadFrom(make([]byte, geckoBufferSize))
				})
				continue
			}
			panicked = r.DoObj(entry, r.SeqID(id), pkt, func(b []byte) {
				if _, _, err := feed(b, from); err == nil {
					k.Count("ev_delivered", 1)
				} else {
					k.Count("ev_absorbed", 1)
				}
			})
			if panicked || (s%25 != 24 && s != steps-1) {
				continue
			}
			canaryNo++
			vfC03GeckoCanary(r, entry, r.SeqID(id), srng, canaryNo, feed)
		}
		// aggregate: COMPLETE well-formed messages whose chunks are as large as a datagram allows (sum up to
		// ~16 KiB, far above the 2 KiB packet buffer), shuffled with duplicates, read into buffers of
		// different sizes; then 50 sources x 8 messages x 8 big chunks all pending at once (~5 MB of
		// pending chunks) before they complete.
		if !panicked && i%k.N(12, 60) == 1 && !flood {
			maxChunk := geckoBufferSize - geckoHeaderSize
			if fullStack {
				maxChunk -= smSaltLen
			}
			for ai, c := range [][2]int{{2, maxChunk}, {8, maxChunk}, {8, maxChunk - 1}, {5, 1000}, {8, 1}, {3, 0}, {8, 600}, {4, 1024}} {
				total, size := c[0], c[1]
				src := vfC03Src(0x900000 + 16*i + ai)
				var chunks [][]byte
				var whole []byte
				for ci := 0; ci < total; ci++ {
					ch := vfC03Fill(srng, 3, size)
					if len(ch) > 0 {
						ch[0] = byte(ci)
					}
					chunks = append(chunks, ch)
					whole = append(whole, ch...)
				}
				order := srng.Perm(total)
				order = append(order[:total/2], append([]int{order[0]}, order[total/2:]...)...) // one duplicate
				bufLen := []int{geckoBufferSize, 1200, 65535, 1}[ai%4]
				var got []byte
				delivered := 0
				for _, ci := range order {
					pkt := vfC03GeckoFrame(0x80, byte(ai), byte(ci), byte(total), 0, 0, chunks[ci])
					panicked = r.DoObj(entry, r.SeqID(id), pkt, func(b []byte) {
						fake.q = []vfC03Pkt{{wire(b), src}}
						p := make([]byte, bufLen)
						if n, _, err := conn.ReadFrom(p); err == nil {
							delivered++
							got = p[:n]
						}
					})
					if panicked {
						break
					}
				}
				if panicked {
					break
				}
				k.Count("ev_aggregate_messages", 1)
				want := whole
				if len(want) > bufLen {
					want = want[:bufLen]
				}
				if delivered > 0 && (delivered != 1 || !bytes.Equal(got, want)) {
					r.ServiceStopped(entry, r.SeqID(id), map[string]any{"chunks": total, "chunk_size": size, "reader_buffer": bufLen},
						"complete message of %d chunks x %d bytes: %d deliveries, got %d bytes that differ from the message (cut to the reader's %d-byte buffer)", total, size, delivered, len(got), bufLen)
				}
			}
			if !panicked {
				const nSrc, nMsg, nChunk = 50, geckoMaxPerSource, 8
				deliveredAll, wrong := 0, 0
				aggStart := time.Now() // pending messages expire after geckoReassemblyTTL of REAL time
				for ci := 0; ci < nChunk && !panicked; ci++ {
					for sidx := 0; sidx < nSrc && !panicked; sidx++ {
						for mi := 0; mi < nMsg && !panicked; mi++ {
							ch := vfC03Fill(srng, 3, maxChunk-10)
							ch[0], ch[1], ch[2] = byte(sidx), byte(mi), byte(ci)
							pkt := vfC03GeckoFrame(0x80, byte(100+mi), byte(ci), nChunk, 0, 0, ch)
							panicked = r.DoObj(entry, r.SeqID(id), pkt, func(b []byte) {
								fake.q = []vfC03Pkt{{wire(b), vfC03Src(0xa00000 + sidx)}}
								p := make([]byte, 65535)
								if n, _, err := conn.ReadFrom(p); err == nil {
									deliveredAll++
									if n != nChunk*(maxChunk-10) || p[0] != byte(sidx) || p[1] != byte(mi) || p[2] != 0 {
										wrong++
									}
								}
							})
						}
					}
				}
				k.Count("ev_aggregate_interleaved_delivered", int64(deliveredAll))
				if !panicked && wrong == 0 && deliveredAll != nSrc*nMsg && time.Since(aggStart) > geckoReassemblyTTL/4 {
					// feeding the 3200 packets took so long in real time (loaded machine; each input is logged to disk
					// first) that the implementation's own TTL may have expired messages: not judged
					k.Inconclusive(fmt.Sprintf("%s: interleaved aggregate took %v of real time (TTL %v): %d of %d delivered, not judged", r.SeqID(id), time.Since(aggStart).Round(time.Millisecond), geckoReassemblyTTL, deliveredAll, nSrc*nMsg))
				} else if !panicked && (wrong > 0 || deliveredAll != nSrc*nMsg) {
					r.ServiceStopped(entry, r.SeqID(id), map[string]any{"sources": nSrc, "messages_per_source": nMsg, "chunks": nChunk},
						"%d sources x %d interleaved messages of %d big chunks: %d delivered (%d wrong), want %d", nSrc, nMsg, nChunk, deliveredAll, wrong, nSrc*nMsg)
				}
			}
			if !panicked {
				canaryNo++
				vfC03GeckoCanary(r, entry, r.SeqID(id), srng, canaryNo, feed)
			}
		}
		if g, ok := conn.(*geckoPacketConn); ok {
			g.mu.Lock()
			k.Count("ev_reassembly_entries_at_end", int64(len(g.reassembly)))
			if flood {
				k.Count("ev_flood_sequences", 1)
			}
			g.mu.Unlock()
		}
		_ = conn.Close()
		if i < 2 {
			k.Sample(map[string]any{"sequence": id, "packets": steps, "sources": nsrc, "full_stack": fullStack})
		}
	}
}

// ---------------------------------------------------------------------------- thorough: native fuzzing as workload generator

func FuzzVerifC03GeckoFrame(f *testing.F) {
	z := vfC03FuzzBegin(f, "fuzz-obfs-gecko", "obfs-gecko")
	defer z.End()
	f.Add(vfC03GeckoFrame(0x80, 9, 1, 3, 10, 10, []byte("chunk payload")))
	f.Add(vfC03GeckoFrame(0x80, 9, 0, 2, 0, 0, []byte("x")))
	f.Add([]byte{0x43, 1, 2, 3})
	f.Fuzz(func(t *testing.T, b []byte) {
		z.Exec("obfs:decodeFrame", b, func(b []byte) {
			if _, payload, err := decodeFrame(b); err == nil {
				_ = append([]byte(nil), payload...)
			}
		})
		z.Exec("obfs:geckoPacketConn.ReadFrom", b, func(b []byte) {
			// the input is cut into packets of a single source: 1-byte length prefix each
			inner := &vfC03PConn{}
			for len(b) > 0 {
				n := int(b[0])
				b = b[1:]
				if n > len(b) {
					n = len(b)
				}
				inner.q = append(inner.q, vfC03Pkt{b[:n:n], vfC03Src(1)})
				b = b[n:]
			}
			g := newGeckoPacketConn(inner, geckoDefaultMinPacket, geckoDefaultMaxPacket)
			defer g.Close()
			p := make([]byte, geckoBufferSize)
			for {
				if _, _, err := g.ReadFrom(p); err != nil {
					return
				}
			}
		})
	})
}
