//go:build verif

package obfs

// C14 — Gecko reassembles handshake packets exactly with bounded state.
//
// Shared machinery of the C14 harness parts (see DESIGN.md §3 C14):
//
//   vfC14Conn   fake inner net.PacketConn owned by the harness. WriteTo captures every datagram
//               (the real wire: Salamander salt included); ReadFrom hands out, one at a time, the
//               datagrams the harness scripts, each with the source address the script chose.
//   vfC14Tx     a real sender Gecko over a capturing vfC14Conn: every written packet yields its REAL
//               wire frames, which are decoded by a reference decoder written from the frame layout
//               documented in gecko_frame.go (not by calling decodeFrame).
//   vfC14Rx     a real receiver Gecko over a replaying vfC14Conn plus one reader goroutine. After
//               every delivered datagram the harness calls synctest.Wait() (everything runs inside a
//               testing/synctest bubble: GC ticker and TTL are on virtual time), collects what
//               ReadFrom returned, and reads reassembly / perSource under the conn's own g.mu.
//   model       reference model of "what must come out": per (source, msgID) the set of distinct
//               chunk indexes that arrived while the message could not yet have been forgotten.
//               A message whose set becomes complete must be delivered exactly once at that step,
//               byte-identical, with the source address of its chunks; every other step must deliver
//               nothing. Steps whose outcome the property does not fix (source already at its cap of
//               8, a chunk arriving in the window TTL..TTL+GC after the first chunk, two pending
//               messages of one source with the same 8-bit ID) are marked "tainted": recorded, not
//               judged — except that bounds and the perSource census are judged after EVERY step.

import (
	"bytes"
	"encoding/binary"
	"fmt"
	"math/rand"
	"net"
	"sort"
	"sync"
	"testing"
	"testing/synctest"
	"time"
)

// Numbers taken from the property statement / anchors (not from the implementation's constants;
// vfC14CheckConsts compares them so that a changed constant is reported rather than mis-modelled).
const (
	vfC14TTL        = 8 * time.Second
	vfC14GCPeriod   = 4 * time.Second // "one GC period": the sweeper runs every TTL/2
	vfC14Gone       = vfC14TTL + vfC14GCPeriod
	vfC14PerSource  = 8
	vfC14Global     = 4096
	vfC14SaltLen    = 8
	vfC14HeaderLen  = 5
	vfC14MinChunks  = 2
	vfC14MaxChunks  = 8
	vfC14DefaultMin = 512
	vfC14DefaultMax = 1200
)

var vfC14PSK = []byte("vf-c14-shared-key")

// ---------------------------------------------------------------------------- fake inner conn

type vfC14Pkt struct {
	data []byte
	from net.Addr
}

type vfC14Conn struct {
	local net.Addr
	in    chan vfC14Pkt
	done  chan struct{}
	once  sync.Once

	mu  sync.Mutex
	out []vfC14Pkt // captured writes (from = destination address given to WriteTo)
}

var _ net.PacketConn = (*vfC14Conn)(nil)

func vfC14NewConn(local net.Addr) *vfC14Conn {
	return &vfC14Conn{local: local, in: make(chan vfC14Pkt), done: make(chan struct{})}
}

func (c *vfC14Conn) WriteTo(p []byte, addr net.Addr) (int, error) {
	select {
	case <-c.done:
		return 0, net.ErrClosed
	default:
	}
	cp := vfExact(p)
	c.mu.Lock()
	c.out = append(c.out, vfC14Pkt{data: cp, from: addr})
	c.mu.Unlock()
	return len(p), nil
}

func (c *vfC14Conn) ReadFrom(p []byte) (int, net.Addr, error) {
	select {
	case pkt := <-c.in:
		return copy(p, pkt.data), pkt.from, nil
	case <-c.done:
		return 0, nil, net.ErrClosed
	}
}

// take returns and clears the captured writes.
func (c *vfC14Conn) take() []vfC14Pkt {
	c.mu.Lock()
	defer c.mu.Unlock()
	o := c.out
	c.out = nil
	return o
}

func (c *vfC14Conn) Close() error                     { c.once.Do(func() { close(c.done) }); return nil }
func (c *vfC14Conn) LocalAddr() net.Addr              { return c.local }
func (c *vfC14Conn) SetDeadline(time.Time) error      { return nil }
func (c *vfC14Conn) SetReadDeadline(time.Time) error  { return nil }
func (c *vfC14Conn) SetWriteDeadline(time.Time) error { return nil }

// ---------------------------------------------------------------------------- addresses, payloads

// vfC14Addr makes the i-th distinct source address (IPv4 and IPv6 forms, varying ports).
func vfC14Addr(i int) net.Addr {
	if i%5 == 4 {
		ip := net.ParseIP("fd00::1")
		ip[12], ip[13], ip[14] = byte(i>>16), byte(i>>8), byte(i)
		return &net.UDPAddr{IP: ip, Port: 2000 + i%50000}
	}
	return &net.UDPAddr{IP: net.IPv4(10, byte(i>>16), byte(i>>8), byte(i)), Port: 1024 + (i*7)%60000}
}

// vfC14Payload makes n bytes whose content encodes (tag, offset) so that chunks of two messages
// mixed together, or chunks in the wrong order, can never look like a written packet.
// first is the QUIC first byte (top bit set = long header).
func vfC14Payload(tag uint32, n int, first byte) []byte {
	b := make([]byte, n)
	var w [8]byte
	for off := 0; off < n; off += 8 {
		binary.BigEndian.PutUint32(w[:4], tag)
		binary.BigEndian.PutUint32(w[4:], uint32(off)^0x5a5a0000)
		copy(b[off:], w[:])
	}
	if n > 0 {
		b[0] = first
	}
	return b
}

// ---------------------------------------------------------------------------- reference frame codec
// Written from the wire layout documented above frameHeader in gecko_frame.go:
//   byte 0 0x80 | byte 1 msgID | byte 2 chunkIdx:4|totalChunks:4 | byte 3-4 padLen BE | pad | chunk

type vfC14Hdr struct {
	B0     byte
	ID     uint8
	Idx    int
	Total  int
	PadLen int
}

func vfC14RefDecode(plain []byte) (vfC14Hdr, []byte, bool) {
	if len(plain) < vfC14HeaderLen {
		return vfC14Hdr{}, nil, false
	}
	h := vfC14Hdr{B0: plain[0], ID: plain[1], Idx: int(plain[2] >> 4), Total: int(plain[2] & 0x0f),
		PadLen: int(binary.BigEndian.Uint16(plain[3:5]))}
	if vfC14HeaderLen+h.PadLen > len(plain) {
		return h, nil, false
	}
	return h, plain[vfC14HeaderLen+h.PadLen:], true
}

// vfC14RefEncode builds a plaintext frame with arbitrary (possibly invalid) header fields.
func vfC14RefEncode(r *rand.Rand, b0 byte, id uint8, idx, total, padLen int, chunk []byte) []byte {
	out := make([]byte, vfC14HeaderLen+padLen+len(chunk))
	out[0] = b0
	out[1] = id
	out[2] = byte(idx)<<4 | byte(total)&0x0f
	binary.BigEndian.PutUint16(out[3:5], uint16(padLen))
	r.Read(out[vfC14HeaderLen : vfC14HeaderLen+padLen])
	copy(out[vfC14HeaderLen+padLen:], chunk)
	return out
}

// vfC14Sal wraps the package's Salamander obfuscator (C13's subject; part of the trusted base here)
// to turn plaintext frames into wire datagrams and back.
type vfC14Sal struct{ ob *salamanderObfuscator }

func vfC14NewSal(t *testing.T) *vfC14Sal {
	ob, err := newSalamanderObfuscator(vfC14PSK)
	if err != nil {
		t.Fatalf("c14 harness: salamander: %v", err)
	}
	return &vfC14Sal{ob: ob}
}

func (s *vfC14Sal) seal(plain []byte) []byte {
	out := make([]byte, len(plain)+vfC14SaltLen)
	n := s.ob.Obfuscate(plain, out)
	return out[:n:n]
}

func (s *vfC14Sal) open(wire []byte) []byte {
	if len(wire) <= vfC14SaltLen {
		return nil
	}
	out := make([]byte, len(wire)-vfC14SaltLen)
	n := s.ob.Deobfuscate(wire, out)
	return out[:n:n]
}

// ---------------------------------------------------------------------------- messages

// vfC14Msg is one packet written by a source (through a real sender Gecko, or forged with the key).
type vfC14Msg struct {
	Tag     int
	Src     net.Addr
	SrcS    string
	Long    bool
	ID      uint8
	Total   int      // chunk count (1 for a short-header packet)
	Payload []byte   // the packet as written
	Wire    [][]byte // wire datagram of chunk i (salt included)
	Forged  bool
	done    int // how many times the model saw a complete set
}

func (m *vfC14Msg) desc() map[string]any {
	return map[string]any{"tag": m.Tag, "src": m.SrcS, "long": m.Long, "msg_id": m.ID, "chunks": m.Total,
		"len": len(m.Payload), "forged": m.Forged}
}

// vfC14Split cuts payload into total chunks at arbitrary boundaries (empty chunks allowed, as the real
// sender produces them for packets shorter than the chunk count).
func vfC14Split(r *rand.Rand, payload []byte, total int) [][]byte {
	cuts := make([]int, total-1)
	for i := range cuts {
		cuts[i] = r.Intn(len(payload) + 1)
	}
	sort.Ints(cuts)
	out := make([][]byte, 0, total)
	prev := 0
	for _, c := range cuts {
		out = append(out, payload[prev:c])
		prev = c
	}
	return append(out, payload[prev:])
}

// vfC14Forge builds a well-formed message with chosen source, ID and chunk count, knowing the key.
func vfC14Forge(r *rand.Rand, sal *vfC14Sal, tag int, src net.Addr, id uint8, total, n int) *vfC14Msg {
	first := byte(0x80 | r.Intn(0x80))
	m := &vfC14Msg{Tag: tag, Src: src, SrcS: src.String(), Long: true, ID: id, Total: total,
		Payload: vfC14Payload(uint32(tag)|0x40000000, n, first), Forged: true}
	for i, ch := range vfC14Split(r, m.Payload, total) {
		pad := 0
		switch r.Intn(4) {
		case 0:
			pad = r.Intn(40)
		case 1:
			pad = r.Intn(600)
		}
		if vfC14SaltLen+vfC14HeaderLen+pad+len(ch) > 2040 {
			pad = 0
		}
		m.Wire = append(m.Wire, sal.seal(vfC14RefEncode(r, 0x80, id, i, total, pad, ch)))
	}
	return m
}

// ---------------------------------------------------------------------------- sender world

type vfC14Tx struct {
	k    *vfKit
	conn *vfC14Conn
	pc   net.PacketConn
	g    *geckoPacketConn
	sal  *vfC14Sal
	src  net.Addr
	min  int
	max  int
}

func vfC14NewTx(t *testing.T, k *vfKit, src net.Addr, minPkt, maxPkt int) *vfC14Tx {
	conn := vfC14NewConn(src)
	pc, err := WrapPacketConnGecko(conn, GeckoOptions{Password: vfC14PSK, MinPacketSize: minPkt, MaxPacketSize: maxPkt})
	if err != nil {
		t.Fatalf("c14 harness: WrapPacketConnGecko(%d,%d): %v", minPkt, maxPkt, err)
	}
	g, ok := pc.(*geckoPacketConn)
	if !ok {
		t.Fatalf("c14 harness: WrapPacketConnGecko returned %T", pc)
	}
	if minPkt == 0 {
		minPkt = vfC14DefaultMin
	}
	if maxPkt == 0 {
		maxPkt = vfC14DefaultMax
	}
	return &vfC14Tx{k: k, conn: conn, pc: pc, g: g, sal: vfC14NewSal(t), src: src, min: minPkt, max: maxPkt}
}

func (tx *vfC14Tx) close() { _ = tx.pc.Close() }

var vfC14Dst = &net.UDPAddr{IP: net.IPv4(192, 0, 2, 1), Port: 443}

// write sends payload through the real sender and judges everything the property says about the
// send side. It returns the message with its real wire frames (nil after a violation).
func (tx *vfC14Tx) write(tag int, payload []byte, caseID string) *vfC14Msg {
	k := tx.k
	orig := vfExact(payload)
	rep := map[string]any{"case_id": caseID, "len": len(payload), "first_byte": payload[0], "min": tx.min, "max": tx.max}
	var n int
	var err error
	if k.Guard("gecko:WriteTo-panic", rep, func() { n, err = tx.pc.WriteTo(payload, vfC14Dst) }) {
		return nil
	}
	pkts := tx.conn.take()
	k.Count("ev_writes", 1)
	k.Count("ev_wire_datagrams", int64(len(pkts)))
	if err != nil || n != len(payload) {
		k.Violation("gecko:WriteTo-result", rep, "WriteTo(%d bytes) returned (%d, %v)", len(payload), n, err)
		return nil
	}
	if !bytes.Equal(payload, orig) {
		k.Violation("gecko:WriteTo-mutates-input", rep, "WriteTo changed the caller's buffer")
		return nil
	}
	m := &vfC14Msg{Tag: tag, Src: tx.src, SrcS: tx.src.String(), Long: payload[0]&0x80 != 0, Payload: orig}
	sizes := make([]int, len(pkts))
	for i, p := range pkts {
		sizes[i] = len(p.data)
		if p.from.String() != vfC14Dst.String() {
			k.Violation("gecko:wire-destination", rep, "datagram %d sent to %v, WriteTo was given %v", i, p.from, vfC14Dst)
			return nil
		}
	}
	rep["wire_sizes"] = sizes
	if !m.Long {
		// short header: passes through unchanged (one datagram, Salamander only)
		if len(pkts) != 1 {
			k.Violation("gecko:short-not-passthrough", rep, "short-header packet produced %d datagrams (want 1)", len(pkts))
			return nil
		}
		if pl := tx.sal.open(pkts[0].data); !bytes.Equal(pl, orig) {
			k.Violation("gecko:short-altered-on-wire", rep, "short-header packet altered on the wire: %s", vfHex(pl))
			return nil
		}
		m.Total = 1
		m.Wire = [][]byte{pkts[0].data}
		k.Count("ev_short_writes", 1)
		return m
	}
	if len(pkts) < vfC14MinChunks || len(pkts) > vfC14MaxChunks {
		k.Violation("gecko:chunk-count-range", rep, "long-header packet produced %d datagrams (want 2..8)", len(pkts))
		return nil
	}
	m.Total = len(pkts)
	m.Wire = make([][]byte, m.Total)
	chunks := make([][]byte, m.Total)
	for i, p := range pkts {
		plain := tx.sal.open(p.data)
		h, chunk, ok := vfC14RefDecode(plain)
		if !ok || h.B0&0x80 == 0 || h.Total != m.Total || h.Idx >= m.Total || chunks[h.Idx] != nil || (i > 0 && h.ID != m.ID) {
			k.Violation("gecko:wire-frame-malformed", rep, "datagram %d of %d: header %+v ok=%v (id of first chunk %d)", i, m.Total, h, ok, m.ID)
			return nil
		}
		m.ID = h.ID
		chunks[h.Idx] = append([]byte{}, chunk...)
		m.Wire[h.Idx] = p.data
		// size oracle, on the captured wire (salt included): in [min,max] whenever it could fit
		base := vfC14SaltLen + vfC14HeaderLen + len(chunk)
		if base <= tx.max {
			k.Count("ev_sized_datagrams", 1)
			if len(p.data) < tx.min || len(p.data) > tx.max {
				k.Violation("gecko:datagram-size-out-of-range", rep,
					"chunk %d/%d (%d bytes of payload, minimal datagram %d) went out as a %d-byte datagram, range [%d,%d]",
					h.Idx, m.Total, len(chunk), base, len(p.data), tx.min, tx.max)
				return nil
			}
		} else {
			k.Count("ev_unfittable_datagrams", 1)
		}
	}
	if cat := bytes.Join(chunks, nil); !bytes.Equal(cat, orig) {
		k.Violation("gecko:wire-concat-differs", rep, "concatenated chunks (%d bytes) != packet written (%d bytes)", len(cat), len(orig))
		return nil
	}
	k.Count("ev_long_writes", 1)
	return m
}

// writeWithChunks repeats the write until the sender drew the wanted chunk count. The sender draws its
// chunk count from crypto/rand; the harness draws the count it wants from its own seeded PRNG (same
// range, uniform like the sender) and every retry starts from the same message-ID counter value, so the
// message that is used has a chunk count and an ID that are functions of the seed only (the sender's own
// increment still produces the ID). Everything scripted from these messages is then reproducible.
func (tx *vfC14Tx) writeWithChunks(tag int, payload []byte, want int, caseID string) *vfC14Msg {
	id0 := tx.g.msgID.Load()
	for try := 0; try < 600; try++ {
		tx.g.msgID.Store(id0)
		m := tx.write(tag, payload, caseID)
		if m == nil {
			return nil
		}
		if m.Total == want {
			return m
		}
		tx.k.Count("sender_redraws", 1)
	}
	tx.k.Inconclusive(fmt.Sprintf("%s: sender never drew %d chunks in 600 writes", caseID, want))
	return nil
}

// writeSeeded writes a packet for a scripted scenario: short-header packets directly, long-header ones
// with a chunk count chosen by the scenario's PRNG.
func (tx *vfC14Tx) writeSeeded(r *rand.Rand, tag int, payload []byte, caseID string) *vfC14Msg {
	if payload[0]&0x80 == 0 {
		return tx.write(tag, payload, caseID)
	}
	return tx.writeWithChunks(tag, payload, vfC14MinChunks+r.Intn(vfC14MaxChunks-vfC14MinChunks+1), caseID)
}

// ---------------------------------------------------------------------------- receiver world

type vfC14Delivery struct {
	data []byte
	from string
}

type vfC14Key struct {
	src string
	id  uint8
}

type vfC14Ent struct {
	msg     *vfC14Msg
	seen    uint16
	firstAt time.Time
	lastAt  time.Time
	ghost   bool // the message had already been delivered once: this is a replayed set
}

type vfC14Rx struct {
	t    *testing.T
	k    *vfKit
	conn *vfC14Conn
	pc   net.PacketConn
	g    *geckoPacketConn

	mu         sync.Mutex
	got        []vfC14Delivery
	readErr    error
	readerDone chan struct{}

	caseID   string
	lastFrom string
	trail    []map[string]any // last steps, for witnesses
	steps    int

	model   map[vfC14Key]*vfC14Ent
	perSrc  map[string]int         // model entries per source
	taint   map[vfC14Key]time.Time // key not judged until this instant
	sources map[string][]*vfC14Msg // every message written per source (for the "genuine bytes" oracle)
	failed  bool
}

func vfC14NewRx(t *testing.T, k *vfKit, caseID string) *vfC14Rx {
	conn := vfC14NewConn(vfC14Dst)
	pc, err := WrapPacketConnGecko(conn, GeckoOptions{Password: vfC14PSK})
	if err != nil {
		t.Fatalf("c14 harness: WrapPacketConnGecko: %v", err)
	}
	g, ok := pc.(*geckoPacketConn)
	if !ok {
		t.Fatalf("c14 harness: WrapPacketConnGecko returned %T", pc)
	}
	rx := &vfC14Rx{t: t, k: k, conn: conn, pc: pc, g: g, readerDone: make(chan struct{}), caseID: caseID,
		model: map[vfC14Key]*vfC14Ent{}, perSrc: map[string]int{}, taint: map[vfC14Key]time.Time{},
		sources: map[string][]*vfC14Msg{}}
	go func() {
		defer close(rx.readerDone)
		buf := make([]byte, 4096)
		for {
			n, addr, err := pc.ReadFrom(buf)
			rx.mu.Lock()
			if err != nil {
				rx.readErr = err
				rx.mu.Unlock()
				return
			}
			as := "<nil>"
			if addr != nil {
				as = addr.String()
			}
			rx.got = append(rx.got, vfC14Delivery{data: vfExact(buf[:n]), from: as})
			rx.mu.Unlock()
		}
	}()
	synctest.Wait()
	return rx
}

func (rx *vfC14Rx) close() {
	_ = rx.pc.Close()
	<-rx.readerDone
}

// raw hands one datagram to the receiver, waits for quiescence and returns what ReadFrom returned.
func (rx *vfC14Rx) raw(wire []byte, from net.Addr) []vfC14Delivery {
	select {
	case rx.conn.in <- vfC14Pkt{data: wire, from: from}:
	case <-rx.readerDone:
		rx.t.Fatalf("c14 harness: reader stopped: %v", rx.readErr)
	}
	synctest.Wait()
	rx.steps++
	rx.lastFrom = from.String()
	rx.k.Count("ev_frames_fed", 1)
	rx.mu.Lock()
	d := rx.got
	rx.got = nil
	rx.mu.Unlock()
	rx.k.Count("ev_delivered", int64(len(d)))
	return d
}

func (rx *vfC14Rx) note(ev map[string]any) {
	ev["t_ms"] = time.Since(vfC14Epoch()).Milliseconds()
	ev["step"] = rx.steps
	rx.trail = append(rx.trail, ev)
	if len(rx.trail) > 60 {
		rx.trail = rx.trail[len(rx.trail)-60:]
	}
}

func vfC14Epoch() time.Time { return time.Date(2000, 1, 1, 0, 0, 0, 0, time.UTC) }

func (rx *vfC14Rx) witness(extra map[string]any) map[string]any {
	w := map[string]any{"case_id": rx.caseID, "last_steps": append([]map[string]any(nil), rx.trail...)}
	for k, v := range extra {
		w[k] = v
	}
	return w
}

func (rx *vfC14Rx) violation(key string, extra map[string]any, format string, args ...any) {
	rx.failed = true
	rx.k.Violation(key, rx.witness(extra), format, args...)
}

// census reads the conn's tables under its own mutex and judges the state invariants that must hold
// after every step: perSource == census of reassembly, <= 8 per source, <= 4096 overall.
// It returns the pending keys (only when wantKeys).
func (rx *vfC14Rx) census(wantKeys bool) (total int, keys map[vfC14Key]bool) {
	g := rx.g
	if !wantKeys && rx.steps%32 != 0 {
		g.mu.Lock()
		big := len(g.reassembly) > 512
		g.mu.Unlock()
		if big {
			return rx.censusFast(), nil
		}
	}
	g.mu.Lock()
	total = len(g.reassembly)
	cen := make(map[string]int, len(g.perSource))
	if wantKeys {
		keys = make(map[vfC14Key]bool, total)
	}
	for k := range g.reassembly {
		cen[k.addr]++
		if wantKeys {
			keys[vfC14Key{k.addr, k.msgID}] = true
		}
	}
	var bad []string
	worst, worstSrc := 0, ""
	for a, n := range cen {
		if g.perSource[a] != n {
			bad = append(bad, fmt.Sprintf("%s: perSource=%d table=%d", a, g.perSource[a], n))
		}
		if n > worst {
			worst, worstSrc = n, a
		}
	}
	for a, n := range g.perSource {
		if _, ok := cen[a]; !ok && n != 0 {
			bad = append(bad, fmt.Sprintf("%s: perSource=%d table=0", a, n))
		}
	}
	g.mu.Unlock()
	rx.k.Count("ev_census", 1)
	if len(bad) > 0 {
		sort.Strings(bad)
		if len(bad) > 8 {
			bad = append(bad[:8], fmt.Sprintf("... %d more", len(bad)-8))
		}
		rx.violation("gecko:perSource-drift", map[string]any{"mismatch": bad},
			"perSource differs from the census of the reassembly table after step %d: %v", rx.steps, bad)
	}
	if worst > vfC14PerSource {
		rx.violation("gecko:per-source-bound", map[string]any{"source": worstSrc, "pending": worst},
			"%d messages pending for source %s after step %d (bound 8)", worst, worstSrc, rx.steps)
	}
	if total > vfC14Global {
		rx.violation("gecko:global-bound", map[string]any{"pending": total},
			"%d messages pending overall after step %d (bound 4096)", total, rx.steps)
	}
	return total, keys
}

// censusFast is used on big tables (floods) between full censuses (every 32nd step is a full one):
// overall bound, sum(perSource) == len(reassembly), no source above 8, and an exact census of the one
// source whose datagram was just processed (its 256 possible keys are looked up).
func (rx *vfC14Rx) censusFast() int {
	g := rx.g
	g.mu.Lock()
	total := len(g.reassembly)
	sum, worst, worstSrc := 0, 0, ""
	for a, n := range g.perSource {
		sum += n
		if n > worst {
			worst, worstSrc = n, a
		}
	}
	own, ownPS := 0, g.perSource[rx.lastFrom]
	for id := 0; id < 256; id++ {
		if _, ok := g.reassembly[reassemblyKey{addr: rx.lastFrom, msgID: uint8(id)}]; ok {
			own++
		}
	}
	g.mu.Unlock()
	rx.k.Count("ev_census", 1)
	if sum != total || own != ownPS {
		rx.violation("gecko:perSource-drift", map[string]any{"sum_perSource": sum, "table": total, "source": rx.lastFrom, "perSource": ownPS, "census": own},
			"after step %d: sum(perSource)=%d, table holds %d; source %s: perSource=%d, table=%d", rx.steps, sum, total, rx.lastFrom, ownPS, own)
	}
	if worst > vfC14PerSource || own > vfC14PerSource {
		rx.violation("gecko:per-source-bound", map[string]any{"source": worstSrc, "pending": worst},
			"%d messages pending for source %s after step %d (bound 8)", worst, worstSrc, rx.steps)
	}
	if total > vfC14Global {
		rx.violation("gecko:global-bound", map[string]any{"pending": total},
			"%d messages pending overall after step %d (bound 4096)", total, rx.steps)
	}
	return total
}

// register records a message as written by its source (oracle: anything delivered from that source
// must be byte-identical to one of these).
func (rx *vfC14Rx) register(m *vfC14Msg) { rx.sources[m.SrcS] = append(rx.sources[m.SrcS], m) }

func (rx *vfC14Rx) genuine(d vfC14Delivery) bool {
	for _, m := range rx.sources[d.from] {
		if bytes.Equal(m.Payload, d.data) {
			return true
		}
	}
	return false
}

// purge forgets model entries that can no longer be pending, after checking that the real table forgot
// them too. The TTL of a message runs from its FIRST chunk (the deadline is fixed when the entry is
// created; "an incomplete message is forgotten after its TTL, whatever an attacker sends"): frames that
// arrive later for the same key - duplicates in particular - are not activity that keeps it alive.
func (rx *vfC14Rx) purge(now time.Time, keys map[vfC14Key]bool) {
	for key, e := range rx.model {
		if now.Sub(e.firstAt) > vfC14Gone {
			if keys != nil && keys[key] {
				if _, t := rx.taint[key]; !t {
					rx.violation("gecko:not-forgotten-after-ttl", map[string]any{"source": key.src, "msg_id": key.id,
						"age_ms": now.Sub(e.firstAt).Milliseconds(), "since_last_frame_ms": now.Sub(e.lastAt).Milliseconds()},
						"incomplete message (source %s, id %d) still pending %v after its first chunk (TTL 8s + GC period 4s); last frame with that key %v ago",
						key.src, key.id, now.Sub(e.firstAt), now.Sub(e.lastAt))
				}
			}
			rx.k.Count("ev_expired_checked", 1)
			delete(rx.model, key)
			rx.perSrc[key.src]--
		}
	}
	for key, until := range rx.taint {
		if !now.Before(until) {
			delete(rx.taint, key)
		}
	}
}

// checkState: invariants + "forgotten after TTL" + no phantom entries (every pending key was created
// by a chunk the model knows about).
func (rx *vfC14Rx) checkState() {
	_, keys := rx.census(true)
	now := time.Now()
	rx.purge(now, keys)
	for key := range keys {
		if _, ok := rx.model[key]; ok {
			continue
		}
		if _, ok := rx.taint[key]; ok {
			continue
		}
		rx.violation("gecko:phantom-pending-entry", map[string]any{"source": key.src, "msg_id": key.id},
			"reassembly table holds (source %s, id %d) although no chunk with that key is outstanding", key.src, key.id)
		rx.taint[key] = now.Add(vfC14Gone)
	}
}

// wouldBeJudged tells the scheduler whether feeding a chunk of m now has an outcome fixed by the
// property (so judged parts can avoid the undecided situations instead of special-casing them).
func (rx *vfC14Rx) wouldBeJudged(m *vfC14Msg) bool {
	if !m.Long {
		return true
	}
	now := time.Now()
	key := vfC14Key{m.SrcS, m.ID}
	if until, ok := rx.taint[key]; ok && now.Before(until) {
		return false
	}
	e := rx.model[key]
	if e != nil && now.Sub(e.firstAt) > vfC14Gone {
		e = nil
	}
	if e != nil {
		return e.msg == m && now.Sub(e.firstAt) < vfC14TTL
	}
	return rx.pendingModel(m.SrcS, now) < vfC14PerSource
}

func (rx *vfC14Rx) pendingModel(src string, now time.Time) int {
	// conservative: everything that could still be pending counts, including keys whose fate the
	// model does not know (tainted)
	n := 0
	for key, e := range rx.model {
		if key.src == src && now.Sub(e.firstAt) <= vfC14Gone {
			n++
		}
	}
	for key, until := range rx.taint {
		if key.src == src && now.Before(until) {
			n++
		}
	}
	return n
}

// feed delivers chunk idx of m, runs the reference model and judges the step.
func (rx *vfC14Rx) feed(m *vfC14Msg, idx int) {
	k := rx.k
	now := time.Now()
	if !m.Long {
		rx.note(map[string]any{"op": "short", "tag": m.Tag, "src": m.SrcS, "len": len(m.Payload)})
		d := rx.raw(m.Wire[0], m.Src)
		if len(d) != 1 || !bytes.Equal(d[0].data, m.Payload) || d[0].from != m.SrcS {
			rx.violation("gecko:short-header-not-passed", map[string]any{"msg": m.desc(), "delivered": vfC14Desc(d)},
				"short-header packet (%d bytes) from %s: ReadFrom returned %s", len(m.Payload), m.SrcS, vfC14Desc(d))
		} else {
			k.Count("ev_short_delivered", 1)
		}
		rx.checkState()
		return
	}
	key := vfC14Key{m.SrcS, m.ID}
	rx.purge(now, nil)
	tainted := false
	if until, ok := rx.taint[key]; ok && now.Before(until) {
		tainted = true
	}
	e := rx.model[key]
	why := ""
	switch {
	case tainted:
		why = "tainted-key"
	case e != nil && e.msg != m:
		why = "id-collision" // precondition of the property not met: recorded, not judged
	case e != nil && now.Sub(e.firstAt) >= vfC14TTL:
		why = "ttl-window" // the entry may or may not have been swept yet
	case e == nil && rx.pendingModel(m.SrcS, now) >= vfC14PerSource:
		why = "source-at-cap"
	}
	if why != "" && !tainted {
		tainted = true
		until := now.Add(vfC14Gone)
		if e != nil && e.lastAt.Add(vfC14Gone).After(until) {
			until = e.lastAt.Add(vfC14Gone)
		}
		rx.taint[key] = until
		if e != nil {
			delete(rx.model, key)
			rx.perSrc[key.src]--
		}
	}
	if tainted {
		k.Count("unjudged_"+why, 1)
		rx.taint[key] = now.Add(vfC14Gone) // a chunk may have (re)created the entry
		rx.note(map[string]any{"op": "chunk", "tag": m.Tag, "src": m.SrcS, "id": m.ID, "idx": idx, "of": m.Total, "unjudged": why})
		d := rx.raw(m.Wire[idx], m.Src)
		if why != "id-collision" && why != "tainted-key" {
			for _, x := range d {
				if !rx.genuine(x) {
					rx.violation("gecko:delivered-not-written", map[string]any{"delivered": vfC14Desc(d)},
						"ReadFrom returned a %d-byte packet from %s that no one wrote from that source", len(x.data), x.from)
				}
			}
		}
		k.Count("ev_unjudged_deliveries", int64(len(d)))
		rx.checkState()
		return
	}
	if e == nil {
		e = &vfC14Ent{msg: m, firstAt: now, ghost: m.done > 0}
		rx.model[key] = e
		rx.perSrc[key.src]++
	}
	dup := e.seen&(1<<uint(idx)) != 0
	e.seen |= 1 << uint(idx)
	e.lastAt = now
	complete := e.seen == uint16(1)<<uint(m.Total)-1
	rx.note(map[string]any{"op": "chunk", "tag": m.Tag, "src": m.SrcS, "id": m.ID, "idx": idx, "of": m.Total,
		"dup": dup, "completes": complete, "replayed_set": e.ghost})
	d := rx.raw(m.Wire[idx], m.Src)
	if dup {
		k.Count("ev_duplicates_fed", 1)
	}
	ext := map[string]any{"msg": m.desc(), "chunk": idx, "delivered": vfC14Desc(d)}
	switch {
	case complete && !e.ghost:
		if len(d) != 1 {
			rx.violation("gecko:complete-message-not-delivered-once", ext,
				"all %d chunks of message (source %s, id %d, %d bytes) have arrived; ReadFrom returned %d packets (want exactly 1)",
				m.Total, m.SrcS, m.ID, len(m.Payload), len(d))
		} else if !bytes.Equal(d[0].data, m.Payload) {
			rx.violation("gecko:reassembled-bytes-differ", ext,
				"message (source %s, id %d) reassembled to %d bytes that differ from the %d bytes written: got %s",
				m.SrcS, m.ID, len(d[0].data), len(m.Payload), vfHex(d[0].data))
		} else if d[0].from != m.SrcS {
			rx.violation("gecko:delivered-wrong-source", ext, "message of %s delivered with source %s", m.SrcS, d[0].from)
		} else {
			k.Count("ev_messages_delivered", 1)
		}
	case complete && e.ghost:
		// every chunk arrived a second time: a second delivery is the network's duplicate, allowed
		if len(d) > 1 || (len(d) == 1 && (!bytes.Equal(d[0].data, m.Payload) || d[0].from != m.SrcS)) {
			rx.violation("gecko:replayed-set-misdelivered", ext, "replayed chunk set delivered %s", vfC14Desc(d))
		}
		k.Count("ev_replayed_sets", 1)
	default:
		if len(d) != 0 {
			rx.violation("gecko:delivery-without-complete-set", ext,
				"chunk %d/%d of (source %s, id %d) arrived (distinct so far %b); ReadFrom returned %s although the set is incomplete",
				idx, m.Total, m.SrcS, m.ID, e.seen, vfC14Desc(d))
		}
	}
	if complete {
		m.done++
		delete(rx.model, key)
		rx.perSrc[key.src]--
	}
	rx.checkState()
}

// junk delivers a datagram that must never surface as a packet nor disturb anything.
func (rx *vfC14Rx) junk(wire []byte, from net.Addr, what string) {
	rx.note(map[string]any{"op": "junk", "what": what, "src": from.String(), "len": len(wire)})
	d := rx.raw(wire, from)
	rx.k.Count("ev_junk_fed", 1)
	if len(d) != 0 {
		rx.violation("gecko:ill-formed-frame-delivered", map[string]any{"what": what, "wire": vfHex(wire), "delivered": vfC14Desc(d)},
			"ill-formed frame (%s) from %s surfaced from ReadFrom: %s", what, from, vfC14Desc(d))
	}
	rx.census(false)
}

// sleep advances virtual time and re-checks the state (TTL oracle).
func (rx *vfC14Rx) sleep(d time.Duration) {
	time.Sleep(d)
	synctest.Wait()
	rx.note(map[string]any{"op": "sleep", "ms": d.Milliseconds()})
	rx.mu.Lock()
	got := rx.got
	rx.got = nil
	rx.mu.Unlock()
	if len(got) > 0 {
		rx.violation("gecko:delivery-without-input", map[string]any{"delivered": vfC14Desc(got)}, "ReadFrom returned %s while no datagram was fed", vfC14Desc(got))
	}
	rx.checkState()
}

// drain lets every pending message expire and demands an empty table.
func (rx *vfC14Rx) drain() {
	rx.sleep(vfC14Gone + time.Millisecond)
	total, _ := rx.census(false)
	rx.g.mu.Lock()
	ps := len(rx.g.perSource)
	rx.g.mu.Unlock()
	if total != 0 {
		rx.violation("gecko:not-forgotten-after-ttl", map[string]any{"pending": total},
			"%d messages still pending %v after the last datagram (TTL 8s + GC period 4s)", total, vfC14Gone)
	}
	if total == 0 && ps != 0 {
		rx.k.Count("persource_zero_entries_left", int64(ps))
	}
	rx.k.Count("ev_drains", 1)
}

func vfC14Desc(d []vfC14Delivery) string {
	if len(d) == 0 {
		return "nothing"
	}
	s := ""
	for i, x := range d {
		if i > 0 {
			s += ", "
		}
		s += fmt.Sprintf("{%d bytes from %s: %s}", len(x.data), x.from, vfHex(x.data))
		if i == 3 {
			s += fmt.Sprintf(" ...(%d in all)", len(d))
			break
		}
	}
	return s
}

// vfC14CheckConsts: the model's numbers are the statement's; if the tree's constants differ the
// verdicts below would be about a different protocol, so say so instead of guessing.
func vfC14CheckConsts(t *testing.T) {
	if geckoReassemblyTTL != vfC14TTL || geckoMaxPerSource != vfC14PerSource || geckoMaxReassembly != vfC14Global ||
		geckoHeaderSize != vfC14HeaderLen || smSaltLen != vfC14SaltLen ||
		geckoDefaultMinPacket != vfC14DefaultMin || geckoDefaultMaxPacket != vfC14DefaultMax {
		t.Logf("c14 harness: note: implementation constants differ from the property statement's numbers")
	}
}

func vfC14Perms(n int, f func([]int)) {
	p := make([]int, n)
	for i := range p {
		p[i] = i
	}
	var rec func(int)
	rec = func(i int) {
		if i == n {
			f(append([]int(nil), p...))
			return
		}
		for j := i; j < n; j++ {
			p[i], p[j] = p[j], p[i]
			rec(i + 1)
			p[i], p[j] = p[j], p[i]
		}
	}
	rec(0)
}
