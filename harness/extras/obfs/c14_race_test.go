//go:build verif

package obfs

// C14 part gecko-race (run under -race; the race detector is an oracle for gecko.go/gecko_frame.go):
// ONE Gecko conn used concurrently by
//   1|3 readers (ReadFrom)                      4 feeders (datagrams of their own sources arrive)
//   3 writers   (WriteTo, long and short)       the conn's GC ticker (virtual time advances > TTL+GC)
//   1 inspector (reads reassembly/perSource under g.mu every few virtual ms and judges the invariants)
// Behavioural oracles at the end: every packet that came out of ReadFrom is byte-identical to a packet
// written from that source; every message whose chunks all arrived (within the TTL, source below its
// cap, distinct IDs) came out exactly once; incomplete ones never; every WriteTo produced a distinct
// message ID and frames that concatenate to the packet written.

import (
	"fmt"
	"sync"
	"testing"
	"testing/synctest"
	"time"
)

// virtual=true: inside a synctest bubble (one reader: a second reader would wait on readMu, which
// is not a durable block, so the bubble's clock could never advance), time passes TTL+GC.
// virtual=false: plain goroutines, 3 concurrent readers, no sleeps and no time-dependent verdicts.
func vfC14RaceRound(t *testing.T, k *vfKit, caseID string, nReaders int, virtual bool) {
	r0 := k.Rand(caseID)
	sal := vfC14NewSal(t)
	conn := vfC14NewConn(vfC14Dst)
	pc, err := WrapPacketConnGecko(conn, GeckoOptions{Password: vfC14PSK})
	if err != nil {
		t.Fatalf("c14 harness: %v", err)
	}
	g := pc.(*geckoPacketConn)
	g.msgID.Store(uint32(r0.Intn(1 << 20)))

	var mu sync.Mutex
	type dl struct {
		data []byte
		from string
	}
	var delivered []dl
	var wg, readers sync.WaitGroup
	for i := 0; i < nReaders; i++ {
		readers.Add(1)
		go func() {
			defer readers.Done()
			buf := make([]byte, 4096)
			for {
				n, addr, err := pc.ReadFrom(buf)
				if err != nil {
					return
				}
				mu.Lock()
				delivered = append(delivered, dl{vfExact(buf[:n]), addr.String()})
				mu.Unlock()
			}
		}()
	}

	// feeders: disjoint sources, scripts prepared up front (deterministic), <= 5 pending per source
	type plan struct {
		m        *vfC14Msg
		script   []int
		complete bool
	}
	const feeders = 4
	plans := make([][]plan, feeders)
	tag := 0
	for f := 0; f < feeders; f++ {
		incompletes := map[int]int{}
		ids := map[int]int{}
		for i := 0; i < k.N(120, 400); i++ {
			tag++
			si := f*8 + r0.Intn(8)
			src := vfC14Addr(2000000 + si)
			ids[si]++
			if ids[si] > 250 {
				continue
			}
			if r0.Intn(6) == 0 {
				m := &vfC14Msg{Tag: tag, Src: src, SrcS: src.String(), Total: 1, Payload: vfC14Payload(uint32(tag), 12+r0.Intn(1400), byte(r0.Intn(0x80)))}
				m.Wire = [][]byte{sal.seal(m.Payload)}
				plans[f] = append(plans[f], plan{m: m, script: []int{0}, complete: true})
				continue
			}
			m := vfC14Forge(r0, sal, tag, src, uint8(ids[si]), 2+r0.Intn(7), 12+r0.Intn(1489))
			p := plan{m: m, script: r0.Perm(m.Total), complete: true}
			if r0.Intn(8) == 0 && incompletes[si] < 4 {
				incompletes[si]++
				p.script = p.script[:1+r0.Intn(m.Total-1)]
				p.complete = false
			} else if r0.Intn(3) == 0 {
				// duplicates strictly before the completing chunk (no stale entries after completion)
				last := p.script[len(p.script)-1]
				pre := vfC14WithDups(r0, p.script[:len(p.script)-1], 1+r0.Intn(2))
				p.script = append(pre, last)
			}
			plans[f] = append(plans[f], p)
		}
	}
	for f := 0; f < feeders; f++ {
		wg.Add(1)
		r := k.Rand(fmt.Sprintf("%s/feeder%d", caseID, f))
		go func() {
			defer wg.Done()
			// two messages in flight at a time, chunks alternating
			pl := plans[f]
			for i := 0; i < len(pl); i += 2 {
				a := pl[i]
				var b plan
				if i+1 < len(pl) {
					b = pl[i+1]
				}
				ai, bi := 0, 0
				for ai < len(a.script) || (b.m != nil && bi < len(b.script)) {
					pickA := ai < len(a.script) && (b.m == nil || bi >= len(b.script) || r.Intn(2) == 0)
					var p vfC14Pkt
					if pickA {
						p = vfC14Pkt{data: a.m.Wire[a.script[ai]], from: a.m.Src}
						ai++
					} else {
						p = vfC14Pkt{data: b.m.Wire[b.script[bi]], from: b.m.Src}
						bi++
					}
					select {
					case conn.in <- p:
						k.Count("ev_frames_fed", 1)
					case <-conn.done:
						return
					}
					if virtual && r.Intn(4) == 0 {
						time.Sleep(time.Duration(r.Intn(150)) * time.Millisecond)
					}
				}
			}
		}()
	}

	// writers
	type wr struct{ payload []byte }
	written := make([][]wr, 3)
	for w := 0; w < 3; w++ {
		wg.Add(1)
		r := k.Rand(fmt.Sprintf("%s/writer%d", caseID, w))
		go func() {
			defer wg.Done()
			for i := 0; i < 70; i++ {
				first := byte(0xc0)
				if r.Intn(5) == 0 {
					first = byte(r.Intn(0x80))
				}
				p := vfC14Payload(uint32(3000000+w*1000+i), 12+r.Intn(1489), first)
				n, err := pc.WriteTo(p, vfC14Dst)
				if err != nil || n != len(p) {
					k.Violation("gecko:WriteTo-result", map[string]any{"case_id": caseID, "len": len(p)}, "concurrent WriteTo(%d bytes) returned (%d, %v)", len(p), n, err)
				}
				written[w] = append(written[w], wr{vfExact(p)})
				k.Count("ev_writes", 1)
				if virtual && r.Intn(3) == 0 {
					time.Sleep(time.Duration(r.Intn(300)) * time.Millisecond)
				}
			}
		}()
	}

	// inspector + clock: makes sure virtual time passes TTL+GC several times while traffic flows
	stop := make(chan struct{})
	pace := 37 * time.Millisecond
	if !virtual {
		pace = 200 * time.Microsecond
	}
	var insp sync.WaitGroup
	insp.Add(1)
	go func() {
		defer insp.Done()
		for {
			select {
			case <-stop:
				return
			case <-time.After(pace): // virtual in the bubble; outside it only paces the inspector
			}
			g.mu.Lock()
			cen := map[string]int{}
			for key := range g.reassembly {
				cen[key.addr]++
			}
			total := len(g.reassembly)
			bad := ""
			for a, n := range cen {
				if g.perSource[a] != n {
					bad = fmt.Sprintf("%s: perSource=%d table=%d", a, g.perSource[a], n)
				}
				if n > vfC14PerSource {
					bad = fmt.Sprintf("%s: %d pending (bound 8)", a, n)
				}
			}
			for a, n := range g.perSource {
				if cen[a] == 0 && n != 0 {
					bad = fmt.Sprintf("%s: perSource=%d table=0", a, n)
				}
			}
			g.mu.Unlock()
			k.Count("ev_census", 1)
			if bad != "" || total > vfC14Global {
				k.Violation("gecko:state-invariant-under-concurrency", map[string]any{"case_id": caseID, "mismatch": bad, "pending": total},
					"concurrent use: table invariant broken: %s (pending overall %d)", bad, total)
				return
			}
		}
	}()

	wg.Wait() // every datagram has been taken by a reader; a taken datagram is processed to the end
	if virtual {
		synctest.Wait()
		time.Sleep(vfC14Gone + time.Millisecond) // incomplete messages expire while the reader is blocked in ReadFrom
		synctest.Wait()
	}
	close(stop)
	insp.Wait()
	if virtual {
		g.mu.Lock()
		left, leftPS := len(g.reassembly), len(g.perSource)
		g.mu.Unlock()
		if left != 0 {
			k.Violation("gecko:not-forgotten-after-ttl", map[string]any{"case_id": caseID, "pending": left, "perSource_entries": leftPS},
				"%d messages still pending %v after the last datagram", left, vfC14Gone)
		}
	}
	_ = pc.Close()
	readers.Wait()

	// receive-side verdicts
	count := map[string]int{}
	for _, d := range delivered {
		count[d.from+"/"+string(d.data)]++
	}
	k.Count("ev_delivered", int64(len(delivered)))
	known := map[string]bool{}
	for f := range plans {
		for _, p := range plans[f] {
			key := p.m.SrcS + "/" + string(p.m.Payload)
			known[key] = true
			c := count[key]
			switch {
			case p.complete && c != 1:
				k.Violation("gecko:complete-message-not-delivered-once", map[string]any{"case_id": caseID, "msg": p.m.desc(), "script": p.script, "times": c},
					"concurrent use: all chunks of (source %s, id %d) arrived, delivered %d times", p.m.SrcS, p.m.ID, c)
			case !p.complete && c != 0:
				k.Violation("gecko:delivery-without-complete-set", map[string]any{"case_id": caseID, "msg": p.m.desc(), "script": p.script, "times": c},
					"concurrent use: incomplete message (source %s, id %d) delivered %d times", p.m.SrcS, p.m.ID, c)
			case p.complete:
				k.Count("ev_messages_delivered", 1)
			}
		}
	}
	for _, d := range delivered {
		if !known[d.from+"/"+string(d.data)] {
			k.Violation("gecko:delivered-not-written", map[string]any{"case_id": caseID, "from": d.from, "data": vfHex(d.data)},
				"concurrent use: ReadFrom returned a %d-byte packet from %s that nobody wrote from that source", len(d.data), d.from)
			break
		}
	}

	// send-side verdicts: group captured frames by message ID
	want := map[string]bool{}
	nLong := 0
	for w := range written {
		for _, x := range written[w] {
			want[string(x.payload)] = true
			if x.payload[0]&0x80 != 0 {
				nLong++
			}
		}
	}
	type grp struct {
		total  int
		chunks map[int][]byte
	}
	groups := map[uint8]*grp{}
	okWire := true
	for _, p := range conn.take() {
		plain := sal.open(p.data)
		if len(plain) > 0 && plain[0]&0x80 == 0 {
			if !want[string(plain)] {
				okWire = false
				k.Violation("gecko:short-altered-on-wire", map[string]any{"case_id": caseID, "wire": vfHex(plain)}, "concurrent use: short-header datagram on the wire equals no packet written")
			}
			continue
		}
		h, chunk, ok := vfC14RefDecode(plain)
		if !ok || h.Total < 2 || h.Total > 8 || h.Idx >= h.Total {
			okWire = false
			k.Violation("gecko:wire-frame-malformed", map[string]any{"case_id": caseID, "plain": vfHex(plain)}, "concurrent use: malformed frame on the wire: %+v", h)
			continue
		}
		if len(p.data) < vfC14DefaultMin || len(p.data) > vfC14DefaultMax {
			if vfC14SaltLen+vfC14HeaderLen+len(chunk) <= vfC14DefaultMax {
				okWire = false
				k.Violation("gecko:datagram-size-out-of-range", map[string]any{"case_id": caseID, "size": len(p.data)}, "concurrent use: %d-byte datagram, range [512,1200]", len(p.data))
			}
		}
		gr := groups[h.ID]
		if gr == nil {
			gr = &grp{total: h.Total, chunks: map[int][]byte{}}
			groups[h.ID] = gr
		}
		if _, dup := gr.chunks[h.Idx]; dup || gr.total != h.Total {
			okWire = false
			k.Violation("gecko:message-id-reused", map[string]any{"case_id": caseID, "msg_id": h.ID, "idx": h.Idx, "total": h.Total},
				"concurrent WriteTo: two of %d messages written within one trip round the ID space carry id %d (chunk %d/%d seen twice or counts differ)", nLong, h.ID, h.Idx, h.Total)
			continue
		}
		gr.chunks[h.Idx] = append([]byte{}, chunk...)
	}
	if okWire {
		if len(groups) != nLong {
			k.Violation("gecko:message-id-reused", map[string]any{"case_id": caseID, "ids": len(groups), "messages": nLong},
				"concurrent WriteTo: %d long-header packets written, %d distinct message IDs on the wire", nLong, len(groups))
		}
		for id, gr := range groups {
			var cat []byte
			for i := 0; i < gr.total; i++ {
				cat = append(cat, gr.chunks[i]...)
			}
			if len(gr.chunks) != gr.total || !want[string(cat)] {
				k.Violation("gecko:wire-concat-differs", map[string]any{"case_id": caseID, "msg_id": id},
					"concurrent WriteTo: frames with id %d (%d of %d chunks) do not concatenate to a packet written", id, len(gr.chunks), gr.total)
				break
			}
			k.Count("ev_long_writes", 1)
		}
	}
	k.Nontrivial(caseID)
}

func TestVerifC14Race(t *testing.T) {
	k := vfNewKit(t, "C14", "gecko-race")
	defer k.Finish()
	for i := 0; i < k.N(3, 10); i++ {
		caseID := fmt.Sprintf("race-%d", i)
		if rc := k.ReplayCase(); rc != "" && rc != caseID {
			continue
		}
		k.Eval()
		synctest.Test(t, func(t *testing.T) { vfC14RaceRound(t, k, caseID, 1, true) })
	}
	for i := 0; i < k.N(3, 10); i++ {
		caseID := fmt.Sprintf("race-readers-%d", i)
		if rc := k.ReplayCase(); rc != "" && rc != caseID {
			continue
		}
		k.Eval()
		vfC14RaceRound(t, k, caseID, 3, false)
	}
	k.Sample(map[string]any{"part": "race", "goroutines": "1 reader (virtual time) / 3 readers (no clock), 4 feeders (32 sources), 3 writers, GC ticker, inspector", "rounds": k.N(3, 10)})
}
