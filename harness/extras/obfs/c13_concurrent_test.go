//go:build verif

package obfs

// C13, concurrency part ("sal-concurrent"), run under the race detector.
//
// One wrapped socket S is used by 8 writer and 4 reader goroutines at the same time (the
// obfuscator's key-input buffer is shared between Obfuscate and Deobfuscate, the wrapper's
// read/write buffers between the readers resp. writers). A peer socket P, wrapped by a second
// real obfuscator with the same key, has 2 writers (feeding S's readers) and 2 readers (draining
// and checking what S's writers sent). A "foreign" goroutine feeds S with packets made by the
// reference implementation. All of them sprinkle 0..8-byte junk datagrams onto the wire.
//
// Identification: the destination address of every write carries a unique id; the fake network
// turns it into the packet's source address. Oracles: every delivered payload is byte-identical
// to the payload of the write its source address names (so a byte taken from another packet
// through a shared buffer shows), its length is the original length, every write is delivered
// exactly once (the fake network neither loses nor duplicates), every WriteTo returns len(p) and
// emits exactly one wire packet of len(p)+8 that the reference decodes to the payload, junk never
// surfaces. Monitor state is per goroutine and merged after the join, so the harness adds no
// synchronisation between S's writers and S's readers that could hide a race from the detector.
//
// No wall clock: readers stop when the inboxes are closed after all writers have finished.

import (
	"bytes"
	"encoding/binary"
	"errors"
	"fmt"
	"net"
	"sync"
	"sync/atomic"
	"testing"
)

const (
	vfC13NSW = 8 // writers on S
	vfC13NSR = 4 // readers on S
	vfC13NPW = 2 // writers on P
	vfC13NPR = 2 // readers on P

	vfC13OriginS = 1
	vfC13OriginP = 2
	vfC13OriginF = 3
)

type vfC13Sampled struct {
	src   string
	plain []byte
	wire  []byte
}

type vfC13ReaderLog struct {
	got      []uint64 // origin<<28 | id of every non-junk packet returned
	returns  int
	exact    int
	surfaced int
}

type vfC13WriterLog struct {
	writes int
	junk   int
}

type vfC13Conc struct {
	k       *vfKit
	v       *vfC13Viol
	caseID  string
	key     []byte
	tagBase uint64
	logAll  bool

	s, p   *vfC13Ep
	ws, wp net.PacketConn

	lens [4][]int    // by origin; read-only while goroutines run
	sent [4][]uint32 // wire packets seen per id (atomic)

	wmu  [4]sync.Mutex // one per writing socket; readers never take them
	wire [4][]vfC13Sampled
}

func (c *vfC13Conc) rep(origin int, id uint64, extra map[string]any) map[string]any {
	m := map[string]any{"case_id": c.caseID, "origin": []string{"", "S", "P", "foreign"}[origin], "id": id, "key": vfHex(c.key)}
	if int(id) < len(c.lens[origin]) {
		m["payload_len"] = c.lens[origin][id]
	}
	for k, v := range extra {
		m[k] = v
	}
	return m
}

func (c *vfC13Conc) tag(origin int, id uint64) uint64 {
	return c.tagBase | uint64(origin)<<28 | id
}

// onWire: monitor of a wrapped socket's wire side; runs in the writer's goroutine before the
// packet is queued and before WriteTo returns.
func (c *vfC13Conc) onWire(origin int, dstName string) func(to vfC13Addr, w []byte) {
	return func(to vfC13Addr, w []byte) {
		if to.Ep != dstName || to.ID >= uint64(len(c.lens[origin])) {
			c.v.Add("obfs:destination-altered", c.rep(origin, to.ID, nil), "a packet left the socket addressed to %v", to)
			return
		}
		id := to.ID
		n := c.lens[origin][id]
		atomic.AddUint32(&c.sent[origin][id], 1)
		plain := make([]byte, n)
		vfC13Fill(plain, c.tag(origin, id))
		if len(w) != n+8 {
			c.v.Add("salamander:wire-length", c.rep(origin, id, map[string]any{"wire_len": len(w)}),
				"%d-byte payload became a %d-byte wire packet (want %d)", n, len(w), n+8)
		} else if !bytes.Equal(vfC13RefDeobfuscate(c.key, w), plain) {
			c.v.Add("salamander:wire-not-spec", c.rep(origin, id, map[string]any{"wire": vfHex(w), "plain": vfHex(plain)}),
				"wire packet of write %d (len %d) is not salt || payload XOR BLAKE2b-256(key||salt) under concurrent use", id, n)
		}
		if c.logAll || id%16 == 0 {
			c.wmu[origin].Lock()
			c.wire[origin] = append(c.wire[origin], vfC13Sampled{"real", plain, w})
			c.wmu[origin].Unlock()
		}
	}
}

func (c *vfC13Conc) writer(conn net.PacketConn, origin int, dstName string, w, per int, junkTo *vfC13Ep, junkOneIn int, out *vfC13WriterLog) {
	r := c.k.Rand(fmt.Sprintf("%s/writer/%d/%d", c.caseID, origin, w))
	buf := make([]byte, 2040)
	chk := make([]byte, 2040)
	for i := 0; i < per; i++ {
		id := uint64(w*per + i)
		n := c.lens[origin][id]
		p := buf[:n]
		vfC13Fill(p, c.tag(origin, id))
		nn, err := conn.WriteTo(p, vfC13Addr{Ep: dstName, ID: id})
		out.writes++
		if err != nil {
			c.v.Add("obfs:write-error", c.rep(origin, id, nil), "WriteTo of %d bytes failed: %v", n, err)
		} else if nn != n {
			c.v.Add("obfs:writeto-count", c.rep(origin, id, map[string]any{"returned": nn}),
				"WriteTo(%d-byte packet) reported %d bytes written; the caller must see the original length", n, nn)
		}
		vfC13Fill(chk[:n], c.tag(origin, id))
		if !bytes.Equal(p, chk[:n]) {
			c.v.Add("obfs:write-mutates-caller-buffer", c.rep(origin, id, nil), "WriteTo changed the caller's %d-byte buffer", n)
		}
		if r.Intn(junkOneIn) == 0 {
			size := r.Intn(9)
			j := make([]byte, size)
			r.Read(j)
			junkTo.inject(j, vfC13Addr{Ep: "junk", ID: uint64(size)<<32 | uint64(origin)<<28 | uint64(w)<<24 | uint64(out.junk)})
			out.junk++
		}
	}
}

// foreign: packets made by the reference implementation (an independent peer) plus junk, to S.
func (c *vfC13Conc) foreign(n int, out *vfC13WriterLog, samples *[]vfC13Sampled) {
	r := c.k.Rand(c.caseID + "/foreign")
	for i := 0; i < n; i++ {
		id := uint64(i)
		plain := make([]byte, c.lens[vfC13OriginF][id])
		vfC13Fill(plain, c.tag(vfC13OriginF, id))
		salt := make([]byte, 8)
		r.Read(salt)
		wire := vfC13RefObfuscate(c.key, salt, plain)
		if c.logAll || id%16 == 0 {
			*samples = append(*samples, vfC13Sampled{"ref", plain, wire})
		}
		c.s.inject(wire, vfC13Addr{Ep: "foreign", ID: id})
		out.writes++
		if r.Intn(2) == 0 {
			size := r.Intn(9)
			j := make([]byte, size)
			r.Read(j)
			c.s.inject(j, vfC13Addr{Ep: "junk", ID: uint64(size)<<32 | uint64(vfC13OriginF)<<28 | uint64(out.junk)})
			out.junk++
		}
	}
}

func (c *vfC13Conc) reader(conn net.PacketConn, side string, bufSize int, out *vfC13ReaderLog) {
	buf := make([]byte, bufSize)
	want := make([]byte, 2048)
	for {
		n, from, err := conn.ReadFrom(buf)
		if err != nil {
			if !errors.Is(err, net.ErrClosed) {
				c.v.Add("obfs:read-error", map[string]any{"case_id": c.caseID}, "ReadFrom on %s failed: %v", side, err)
			}
			return
		}
		out.returns++
		fa, ok := from.(vfC13Addr)
		if !ok {
			c.v.Add("obfs:source-address-altered", map[string]any{"case_id": c.caseID}, "ReadFrom returned address %v (%T), not one the socket delivered", from, from)
			continue
		}
		origin := 0
		switch {
		case fa.Ep == "junk":
			out.surfaced++
			size := fa.ID >> 32
			c.v.Add(vfC13JunkKey(size), map[string]any{"case_id": c.caseID, "junk_wire_len": size, "returned_n": n, "socket": side},
				"a %d-byte datagram (too short for salt + 1 payload byte) surfaced from ReadFrom as (n=%d, addr=%v, err=nil) instead of being dropped", size, n, fa)
			continue
		case side == "S" && fa.Ep == "P":
			origin = vfC13OriginP
		case side == "S" && fa.Ep == "foreign":
			origin = vfC13OriginF
		case side == "P" && fa.Ep == "S":
			origin = vfC13OriginS
		}
		if origin == 0 || fa.ID >= uint64(len(c.lens[origin])) {
			c.v.Add("obfs:source-address-altered", map[string]any{"case_id": c.caseID, "addr": fa.String(), "socket": side},
				"ReadFrom on %s returned source address %v which no delivered packet had", side, fa)
			continue
		}
		id := fa.ID
		w := want[:c.lens[origin][id]]
		vfC13Fill(w, c.tag(origin, id))
		if n != len(w) {
			c.v.Add("obfs:readfrom-count", c.rep(origin, id, map[string]any{"returned": n}),
				"ReadFrom reported %d bytes for a %d-byte payload", n, len(w))
		} else if !bytes.Equal(buf[:n], w) {
			key, what := "obfs:payload-altered", "differs from what was written"
			if origin == vfC13OriginF {
				key = "salamander:foreign-packet-misdecoded"
			}
			if n >= 16 {
				if t := binary.BigEndian.Uint64(buf[:8]); t != c.tag(origin, id) && t&^0xFFFFFFFF == c.tagBase {
					what = fmt.Sprintf("starts with the tag of another packet (origin %d id %d): cross-contamination", (t>>28)&0xF, t&0xFFFFFFF)
				}
			}
			diff := 0
			for i := range w {
				if buf[i] != w[i] {
					diff++
				}
			}
			c.v.Add(key, c.rep(origin, id, map[string]any{"want": vfHex(w), "got": vfHex(buf[:n]), "bytes_differing": diff}),
				"payload delivered for write %d (len %d) %s; %d bytes differ", id, n, what, diff)
		} else {
			out.exact++
		}
		out.got = append(out.got, uint64(origin)<<28|id)
	}
}

func vfC13RandLen(r interface{ Intn(int) int }) int {
	switch x := r.Intn(100); {
	case x < 55:
		return 1 + r.Intn(64)
	case x < 80:
		return 1 + r.Intn(512)
	case x < 95:
		return 1000 + r.Intn(453)
	}
	return 1 + r.Intn(2040)
}

func vfC13ConcRound(k *vfKit, v *vfC13Viol, wl *vfC13WireLog, round int, caseID string) {
	r := k.Rand(caseID)
	perSW, perPW, nF := k.N(400, 5000), k.N(400, 2500), k.N(400, 2500)
	keyLen := 4 + r.Intn(61)
	if round == 0 {
		keyLen = 4
	} else if round == 1 {
		keyLen = 64
	}
	key := make([]byte, keyLen)
	r.Read(key)
	c := &vfC13Conc{k: k, v: v, caseID: caseID, key: key, logAll: k.Quick(),
		tagBase: (uint64(r.Int63()) &^ 0xFFFFFFFF)}
	counts := [4]int{0, vfC13NSW * perSW, vfC13NPW * perPW, nF}
	for o := 1; o <= 3; o++ {
		c.lens[o] = make([]int, counts[o])
		c.sent[o] = make([]uint32, counts[o])
		for i := range c.lens[o] {
			c.lens[o][i] = vfC13RandLen(r)
		}
	}
	if round == 0 {
		// every payload length 1..2040 also goes through the concurrent path once
		perm := r.Perm(2040)
		for i := 0; i < 2040 && i < len(c.lens[vfC13OriginS]); i++ {
			// spread over the writers: writer w owns ids [w*per, (w+1)*per)
			slot := (i%vfC13NSW)*perSW + i/vfC13NSW
			c.lens[vfC13OriginS][slot] = perm[i] + 1
		}
	}

	c.s = &vfC13Ep{name: "S", inbox: make(chan vfC13Pkt, 256)}
	c.p = &vfC13Ep{name: "P", inbox: make(chan vfC13Pkt, 256)}
	peers := map[string]*vfC13Ep{"S": c.s, "P": c.p}
	c.s.peers, c.p.peers = peers, peers
	c.s.onWire = c.onWire(vfC13OriginS, "P")
	c.p.onWire = c.onWire(vfC13OriginP, "S")
	var err error
	if c.ws, err = WrapPacketConnSalamander(c.s, vfExact(key)); err == nil {
		c.wp, err = WrapPacketConnSalamander(c.p, vfExact(key))
	}
	if err != nil || c.ws == nil || c.wp == nil {
		v.Add("salamander:valid-key-refused", map[string]any{"case_id": caseID, "key": vfHex(key)}, "a %d-byte key was refused: %v", keyLen, err)
		return
	}

	var wgW, wgR sync.WaitGroup
	rlogs := make([]*vfC13ReaderLog, 0, vfC13NSR+vfC13NPR)
	sBufs := []int{2040, 2048, 4096, 65535}
	for i := 0; i < vfC13NSR; i++ {
		rl := &vfC13ReaderLog{}
		rlogs = append(rlogs, rl)
		wgR.Add(1)
		go func(i int) { defer wgR.Done(); c.reader(c.ws, "S", sBufs[i%len(sBufs)], rl) }(i)
	}
	for i := 0; i < vfC13NPR; i++ {
		rl := &vfC13ReaderLog{}
		rlogs = append(rlogs, rl)
		wgR.Add(1)
		go func(i int) { defer wgR.Done(); c.reader(c.wp, "P", 2048-8*i, rl) }(i)
	}
	wlogs := make([]*vfC13WriterLog, 0, vfC13NSW+vfC13NPW+1)
	for w := 0; w < vfC13NSW; w++ {
		l := &vfC13WriterLog{}
		wlogs = append(wlogs, l)
		wgW.Add(1)
		go func(w int) {
			defer wgW.Done()
			c.writer(c.ws, vfC13OriginS, "P", w, perSW, c.p, 6, l)
		}(w)
	}
	for w := 0; w < vfC13NPW; w++ {
		l := &vfC13WriterLog{}
		wlogs = append(wlogs, l)
		wgW.Add(1)
		go func(w int) {
			defer wgW.Done()
			c.writer(c.wp, vfC13OriginP, "S", w, perPW, c.s, 2, l)
		}(w)
	}
	var refSamples []vfC13Sampled
	fl := &vfC13WriterLog{}
	wlogs = append(wlogs, fl)
	wgW.Add(1)
	go func() { defer wgW.Done(); c.foreign(nF, fl, &refSamples) }()

	wgW.Wait()
	close(c.s.inbox) // everything queued is still delivered; then ReadFrom reports net.ErrClosed
	close(c.p.inbox)
	wgR.Wait()

	// ---- after the join: merge what the goroutines saw
	var writes, junk, returns, exact, surfaced int
	for _, l := range wlogs {
		writes += l.writes
		junk += l.junk
	}
	deliv := [4][]uint8{nil, make([]uint8, counts[1]), make([]uint8, counts[2]), make([]uint8, counts[3])}
	for _, l := range rlogs {
		returns += l.returns
		exact += l.exact
		surfaced += l.surfaced
		for _, g := range l.got {
			o, id := int(g>>28), g&0xFFFFFFF
			if deliv[o][id] < 255 {
				deliv[o][id]++
			}
		}
	}
	lost, dup := 0, 0
	for o := 1; o <= 3; o++ {
		for id, n := range deliv[o] {
			switch {
			case n == 0:
				lost++
				v.Add("obfs:packet-lost", c.rep(o, uint64(id), nil), "packet %d of origin %d (len %d) was put on the wire but never returned by ReadFrom", id, o, c.lens[o][id])
			case n > 1:
				dup++
				v.Add("obfs:packet-duplicated", c.rep(o, uint64(id), nil), "packet %d of origin %d was returned %d times", id, o, n)
			default:
				k.Nontrivial(fmt.Sprintf("%s/%d/%d/%d", caseID, o, id, c.lens[o][id]))
			}
		}
	}
	wireSeen := 0
	for o := vfC13OriginS; o <= vfC13OriginP; o++ {
		for id := range c.sent[o] {
			n := atomic.LoadUint32(&c.sent[o][id])
			wireSeen += int(n)
			if n != 1 {
				v.Add("obfs:wire-packet-count", c.rep(o, uint64(id), nil), "write %d of origin %d put %d packets on the wire (want 1)", id, o, n)
			}
		}
		for _, sm := range c.wire[o] {
			wl.Add(sm.src, caseID, key, sm.plain, sm.wire)
		}
	}
	for _, sm := range refSamples {
		wl.Add(sm.src, caseID, key, sm.plain, sm.wire)
	}
	k.EvalN(writes)
	k.Count("ev_writes", int64(writes-nF))
	k.Count("ev_ref_packets", int64(nF))
	k.Count("ev_wire_packets", int64(wireSeen))
	k.Count("ev_reads_returned", int64(returns))
	k.Count("ev_delivered_exact", int64(exact))
	k.Count("ev_junk_injected", int64(junk))
	k.Count("ev_junk_dropped", int64(junk-surfaced))
	k.Count("rounds", 1)
	k.Sample(map[string]any{"case_id": caseID, "key_len": keyLen, "socket_S": fmt.Sprintf("%d writers + %d readers", vfC13NSW, vfC13NSR),
		"packets_S_to_P": counts[1], "packets_P_to_S": counts[2], "reference_packets_to_S": nF, "junk_datagrams": junk,
		"delivered_exact": exact, "junk_surfaced": surfaced, "lost": lost, "duplicated": dup})
}

func TestVerifC13Concurrent(t *testing.T) {
	k := vfNewKit(t, "C13", "sal-concurrent")
	defer k.Finish()
	v := vfC13NewViol(k)
	wl := vfC13OpenWireLog(k, "sal-concurrent")
	defer wl.Close()
	rounds := k.N(3, 10)
	for round := 0; round < rounds; round++ {
		caseID := fmt.Sprintf("conc-r%d", round)
		if rc := k.ReplayCase(); rc != "" && rc != caseID {
			continue
		}
		vfC13ConcRound(k, v, wl, round, caseID)
	}
}
