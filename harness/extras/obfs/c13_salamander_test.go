//go:build verif

package obfs

// C13 — Salamander is transparent, spec-exact, and drops junk.
//
// Technique: the real WrapPacketConnSalamander / obfsPacketConn wrap a pair of in-memory
// net.PacketConn endpoints that the harness owns (channel-backed, every wire packet is
// handed to a monitor *before* WriteTo returns). Every write carries a unique id in the
// destination address; the fake turns it into the source address of the delivered packet,
// so each ReadFrom result names the one write (or harness injection) that caused it.
//
// Parts (each a Test function = one result file):
//   sal-keys        keys of 0..3 bytes are refused, every key length 4..64 (and some longer) is
//                   accepted and carries a packet.
//   sal-roundtrip   sequential: every payload length 1..2040, every key length, both directions,
//                   junk (0..8-byte packets) queued before and after the valid packet. Oracles:
//                   WriteTo returns len(p), one wire packet of len(p)+8 to the address given,
//                   caller's buffer untouched, ReadFrom returns exactly the payload, its length and
//                   the source address, junk never surfaces, nothing is delivered twice.
//   sal-interop     packets produced by a reference implementation written from PROTOCOL.md (and
//                   arbitrary >=9-byte datagrams, which the spec defines as valid packets of some
//                   payload) are delivered exactly by the real deobfuscator.
//   sal-concurrent  (c13_concurrent_test.go) 8 writers + 4 readers on one wrapped socket.
//   sal-alias       (c13_alias_test.go) keys / payloads passed as windows into larger buffers: the
//                   caller's memory is never written and the key does not follow later changes of it.
//
// Every captured wire packet (key, plaintext, wire) goes to $VERIF_OUT/c13-wire-<part>.jsonl;
// /verif/checkers/py/c13_blake.py (hashlib.blake2b, independent of x/crypto) recomputes each one.
// The Go-side reference below is itself checked by that script ("src":"ref" lines).

import (
	"bufio"
	"bytes"
	"encoding/binary"
	"encoding/hex"
	"errors"
	"fmt"
	"math/rand"
	"net"
	"os"
	"path/filepath"
	"sync"
	"testing"
	"time"

	"golang.org/x/crypto/blake2b"
)

// ---------------------------------------------------------------------------- fake network

// vfC13Addr is the address type of the in-memory network. Ep routes the packet, ID names the
// write (or harness injection) the packet is.
type vfC13Addr struct {
	Ep string
	ID uint64
}

func (a vfC13Addr) Network() string { return "vfc13" }
func (a vfC13Addr) String() string  { return fmt.Sprintf("%s#%d", a.Ep, a.ID) }

type vfC13Pkt struct {
	data []byte
	from net.Addr
}

var vfC13ErrEmpty = errors.New("vfc13: no packet queued (non-blocking endpoint)")

// vfC13Ep is one endpoint: a plain net.PacketConn (deliberately not UDP-like).
type vfC13Ep struct {
	name     string
	peers    map[string]*vfC13Ep // fixed before use, read-only afterwards
	inbox    chan vfC13Pkt
	nonblock bool // sequential parts: an empty inbox returns vfC13ErrEmpty instead of blocking
	// onWire sees a private copy of every packet written to this endpoint's socket, before it is
	// queued for the peer and before WriteTo returns to the code under test.
	onWire func(to vfC13Addr, wire []byte)
}

var _ net.PacketConn = (*vfC13Ep)(nil)

func (e *vfC13Ep) WriteTo(p []byte, addr net.Addr) (int, error) {
	a, ok := addr.(vfC13Addr)
	if !ok {
		return 0, fmt.Errorf("vfc13: foreign address type %T", addr)
	}
	cp := vfExact(p)
	if e.onWire != nil {
		e.onWire(a, cp)
	}
	dst := e.peers[a.Ep]
	if dst == nil {
		return 0, fmt.Errorf("vfc13: no route to %q", a.Ep)
	}
	dst.inbox <- vfC13Pkt{data: cp, from: vfC13Addr{Ep: e.name, ID: a.ID}}
	return len(p), nil
}

func (e *vfC13Ep) ReadFrom(b []byte) (int, net.Addr, error) {
	var pkt vfC13Pkt
	var ok bool
	if e.nonblock {
		select {
		case pkt, ok = <-e.inbox:
		default:
			return 0, nil, vfC13ErrEmpty
		}
	} else {
		pkt, ok = <-e.inbox
	}
	if !ok {
		return 0, nil, net.ErrClosed
	}
	n := copy(b, pkt.data) // datagram semantics: excess is cut off
	return n, pkt.from, nil
}

// inject puts a datagram on the wire towards this endpoint without going through any wrapper.
func (e *vfC13Ep) inject(data []byte, from vfC13Addr) {
	e.inbox <- vfC13Pkt{data: vfExact(data), from: from}
}

func (e *vfC13Ep) Close() error                     { return nil }
func (e *vfC13Ep) LocalAddr() net.Addr              { return vfC13Addr{Ep: e.name} }
func (e *vfC13Ep) SetDeadline(time.Time) error      { return nil }
func (e *vfC13Ep) SetReadDeadline(time.Time) error  { return nil }
func (e *vfC13Ep) SetWriteDeadline(time.Time) error { return nil }

// ---------------------------------------------------------------------------- reference (from PROTOCOL.md)

// "hash = BLAKE2b-256(key + salt); payload[i] ^= hash[i % 32]; wire = [8 bytes salt][payload]".
func vfC13RefHash(key, salt []byte) []byte {
	h, err := blake2b.New256(nil)
	if err != nil {
		panic(err)
	}
	h.Write(key)
	h.Write(salt)
	return h.Sum(nil)
}

func vfC13RefObfuscate(key, salt, plain []byte) []byte {
	if len(salt) != 8 {
		panic("vfc13: salt must be 8 bytes")
	}
	hash := vfC13RefHash(key, salt)
	out := make([]byte, 0, 8+len(plain))
	out = append(out, salt...)
	for i := 0; i < len(plain); i++ {
		out = append(out, plain[i]^hash[i%32])
	}
	return out
}

// vfC13RefDeobfuscate returns nil for a datagram that cannot hold a salt and one payload byte.
func vfC13RefDeobfuscate(key, wire []byte) []byte {
	if len(wire) < 9 {
		return nil
	}
	hash := vfC13RefHash(key, wire[:8])
	out := make([]byte, len(wire)-8)
	for i := range out {
		out[i] = wire[8+i] ^ hash[i%32]
	}
	return out
}

// ---------------------------------------------------------------------------- helpers

// vfC13Fill writes a payload determined by tag; payloads of >= 16 bytes start with the tag so a
// payload that ends up in the wrong place names where it came from.
func vfC13Fill(dst []byte, tag uint64) {
	i := 0
	if len(dst) >= 16 {
		binary.BigEndian.PutUint64(dst, tag)
		i = 8
	}
	x := tag*0x9E3779B97F4A7C15 + 0x632BE59BD9B4E019
	var w [8]byte
	for i < len(dst) {
		x += 0x9E3779B97F4A7C15
		z := x
		z = (z ^ (z >> 30)) * 0xBF58476D1CE4E5B9
		z = (z ^ (z >> 27)) * 0x94D049BB133111EB
		z ^= z >> 31
		binary.LittleEndian.PutUint64(w[:], z)
		i += copy(dst[i:], w[:])
	}
}

// vfC13Viol keeps a flood of one kind of violation from using up the kit's cap.
type vfC13Viol struct {
	k  *vfKit
	mu sync.Mutex
	n  map[string]int
}

func vfC13NewViol(k *vfKit) *vfC13Viol { return &vfC13Viol{k: k, n: map[string]int{}} }

func (v *vfC13Viol) Add(key string, replay any, format string, args ...any) {
	v.mu.Lock()
	v.n[key]++
	c := v.n[key]
	v.mu.Unlock()
	if c <= 3 {
		v.k.Violation(key, replay, format, args...)
	} else {
		v.k.Count("more_of:"+key, 1)
	}
}

// vfC13WireLog appends captured packets to $VERIF_OUT/c13-wire-<part>.jsonl for the Python checker.
type vfC13WireLog struct {
	mu sync.Mutex
	f  *os.File
	w  *bufio.Writer
	n  int

	discard bool
}

func vfC13OpenWireLog(k *vfKit, part string) *vfC13WireLog {
	f, err := os.Create(filepath.Join(k.Out, "c13-wire-"+part+".jsonl"))
	if err != nil {
		k.t.Fatalf("c13: cannot create wire log: %v", err)
	}
	return &vfC13WireLog{f: f, w: bufio.NewWriterSize(f, 1<<20)}
}

// Add: src = "real" (produced by the code under test) or "ref" (produced by the harness reference).
func (l *vfC13WireLog) Add(src, caseID string, key, plain, wire []byte) {
	if l.discard {
		return
	}
	l.mu.Lock()
	fmt.Fprintf(l.w, "{\"src\":%q,\"case\":%q,\"key\":\"%s\",\"plain\":\"%s\",\"wire\":\"%s\"}\n",
		src, caseID, hex.EncodeToString(key), hex.EncodeToString(plain), hex.EncodeToString(wire))
	l.n++
	l.mu.Unlock()
}

// Close writes the trailer the checker uses to detect a truncated file.
func (l *vfC13WireLog) Close() {
	l.mu.Lock()
	defer l.mu.Unlock()
	fmt.Fprintf(l.w, "{\"end\":true,\"count\":%d}\n", l.n)
	_ = l.w.Flush()
	_ = l.f.Close()
}

type vfC13Key struct {
	Name string
	Key  []byte
}

// vfC13Keys: every length 4..64, some longer ones, a few with special content.
func vfC13Keys(r *rand.Rand) []vfC13Key {
	var ks []vfC13Key
	for l := 4; l <= 64; l++ {
		b := make([]byte, l)
		r.Read(b)
		ks = append(ks, vfC13Key{fmt.Sprintf("rand%d", l), b})
	}
	for _, l := range []int{65, 100, 128, 129, 255, 256, 1000} {
		b := make([]byte, l)
		r.Read(b)
		ks = append(ks, vfC13Key{fmt.Sprintf("rand%d", l), b})
	}
	ks = append(ks,
		vfC13Key{"zeros4", make([]byte, 4)},
		vfC13Key{"ff32", bytes.Repeat([]byte{0xff}, 32)},
		vfC13Key{"ascii16", []byte("average_password")},
		vfC13Key{"zeros64", make([]byte, 64)},
	)
	return ks
}

// vfC13Pair: two fake endpoints A and B, each wrapped by the real code with the same key.
type vfC13Pair struct {
	key    []byte
	a, b   *vfC13Ep
	wa, wb net.PacketConn
	mu     sync.Mutex
	wire   []vfC13Wire
}

type vfC13Wire struct {
	from string
	to   vfC13Addr
	data []byte
}

func vfC13NewPair(key []byte, nonblock bool, inboxCap int) (*vfC13Pair, error) {
	// each side gets its own copy of the key: two independent parties sharing a secret
	return vfC13NewPairKeys(vfExact(key), vfExact(key), key, nonblock, inboxCap)
}

// vfC13NewPairKeys hands keyA / keyB to the constructor exactly as given (the aliasing part
// passes slices with spare capacity); refKey is the key VALUE both stand for.
func vfC13NewPairKeys(keyA, keyB, refKey []byte, nonblock bool, inboxCap int) (*vfC13Pair, error) {
	p := &vfC13Pair{key: vfExact(refKey)}
	p.a = &vfC13Ep{name: "A", inbox: make(chan vfC13Pkt, inboxCap), nonblock: nonblock}
	p.b = &vfC13Ep{name: "B", inbox: make(chan vfC13Pkt, inboxCap), nonblock: nonblock}
	peers := map[string]*vfC13Ep{"A": p.a, "B": p.b}
	p.a.peers, p.b.peers = peers, peers
	p.a.onWire = func(to vfC13Addr, w []byte) { p.capture("A", to, w) }
	p.b.onWire = func(to vfC13Addr, w []byte) { p.capture("B", to, w) }
	var err error
	if p.wa, err = WrapPacketConnSalamander(p.a, keyA); err != nil {
		return nil, err
	}
	if p.wb, err = WrapPacketConnSalamander(p.b, keyB); err != nil {
		return nil, err
	}
	if p.wa == nil || p.wb == nil {
		return nil, errors.New("constructor returned a nil conn without an error")
	}
	return p, nil
}

func (p *vfC13Pair) capture(from string, to vfC13Addr, w []byte) {
	p.mu.Lock()
	p.wire = append(p.wire, vfC13Wire{from, to, w})
	p.mu.Unlock()
}

func (p *vfC13Pair) take() []vfC13Wire {
	p.mu.Lock()
	w := p.wire
	p.wire = nil
	p.mu.Unlock()
	return w
}

// vfC13Case is one sequential scenario: junk, one valid packet, junk; then read until empty.
type vfC13Case struct {
	CaseID     string `json:"case_id"`
	KeyName    string `json:"key_name"`
	KeyHex     string `json:"key"`
	Len        int    `json:"payload_len"`
	Dir        string `json:"dir"` // "A>B", "B>A" (real writer) or "foreign>A", "foreign>B", "raw>A", "raw>B"
	JunkBefore []int  `json:"junk_before"`
	JunkAfter  []int  `json:"junk_after"`
	BufSize    int    `json:"read_buf"`
	SaltHex    string `json:"salt,omitempty"`
	Note       string `json:"note,omitempty"`
	id         uint64
	tag        uint64
}

func vfC13JunkKey(size uint64) string {
	if size == 0 {
		// different site in conn.go: an empty datagram never reaches the deobfuscator
		return "obfs:zero-length-datagram-surfaces"
	}
	return "obfs:short-packet-surfaces"
}

// vfC13RunCase executes one sequential case on a pair. For Dir "X>Y" the payload goes through the
// real wrapper of X; for "foreign>Y" the reference obfuscates it with c.SaltHex; for "raw>Y" an
// arbitrary datagram `raw` is put on the wire and the expected payload is its reference decoding.
func vfC13RunCase(k *vfKit, v *vfC13Viol, wl *vfC13WireLog, p *vfC13Pair, c *vfC13Case, r *rand.Rand, raw []byte) {
	k.Eval()
	var src, dst *vfC13Ep
	var wsrc, wdst net.PacketConn
	switch c.Dir {
	case "A>B":
		src, dst, wsrc, wdst = p.a, p.b, p.wa, p.wb
	case "B>A":
		src, dst, wsrc, wdst = p.b, p.a, p.wb, p.wa
	case "foreign>A", "raw>A":
		dst, wdst = p.a, p.wa
	case "foreign>B", "raw>B":
		dst, wdst = p.b, p.wb
	default:
		k.t.Fatalf("c13: bad dir %q", c.Dir)
	}
	_ = src
	junkNo := uint64(0)
	junkIn := 0
	inj := func(sizes []int) {
		for _, s := range sizes {
			j := make([]byte, s)
			r.Read(j)
			dst.inject(j, vfC13Addr{Ep: "junk", ID: uint64(s)<<32 | junkNo})
			junkNo++
			junkIn++
		}
	}

	var orig []byte
	var wantFrom vfC13Addr
	inj(c.JunkBefore)
	if wsrc != nil {
		payload := make([]byte, c.Len)
		vfC13Fill(payload, c.tag)
		orig = vfExact(payload)
		wantFrom = vfC13Addr{Ep: src.name, ID: c.id}
		n, err := wsrc.WriteTo(payload, vfC13Addr{Ep: dst.name, ID: c.id})
		k.Count("ev_writes", 1)
		if err != nil {
			v.Add("obfs:write-error", c, "WriteTo of %d bytes failed: %v", c.Len, err)
		} else if n != c.Len {
			v.Add("obfs:writeto-count", c, "WriteTo(%d-byte packet) reported %d bytes written; the caller must see the original length %d", c.Len, n, c.Len)
		}
		if !bytes.Equal(payload, orig) {
			v.Add("obfs:write-mutates-caller-buffer", c, "WriteTo changed the caller's %d-byte buffer", c.Len)
		}
		ws := p.take()
		if len(ws) != 1 {
			v.Add("obfs:wire-packet-count", c, "one WriteTo put %d packets on the wire (want 1)", len(ws))
		}
		for _, w := range ws {
			k.Count("ev_wire_packets", 1)
			if w.to != (vfC13Addr{Ep: dst.name, ID: c.id}) {
				v.Add("obfs:destination-altered", c, "packet written to %v left the socket addressed to %v", vfC13Addr{Ep: dst.name, ID: c.id}, w.to)
			}
			if len(w.data) != c.Len+8 {
				v.Add("salamander:wire-length", c, "%d-byte payload became a %d-byte wire packet (want %d = 8 salt + payload)", c.Len, len(w.data), c.Len+8)
			} else if !bytes.Equal(vfC13RefDeobfuscate(p.key, w.data), orig) {
				v.Add("salamander:wire-not-spec", map[string]any{"case_id": c.CaseID, "case": c, "wire": hex.EncodeToString(w.data), "plain": hex.EncodeToString(orig)},
					"wire packet is not salt || payload XOR BLAKE2b-256(key||salt): reference decoding of the wire differs from the %d-byte payload written", c.Len)
			}
			wl.Add("real", c.CaseID, p.key, orig, w.data)
		}
	} else {
		var wire []byte
		if raw != nil {
			wire = raw
			orig = vfC13RefDeobfuscate(p.key, raw)
			k.Count("ev_raw_datagrams", 1)
		} else {
			orig = make([]byte, c.Len)
			vfC13Fill(orig, c.tag)
			salt, _ := hex.DecodeString(c.SaltHex)
			wire = vfC13RefObfuscate(p.key, salt, orig)
			k.Count("ev_ref_packets", 1)
		}
		wantFrom = vfC13Addr{Ep: "foreign", ID: c.id}
		wl.Add("ref", c.CaseID, p.key, orig, wire)
		dst.inject(wire, wantFrom)
	}
	inj(c.JunkAfter)
	k.Count("ev_junk_injected", int64(junkIn))

	buf := make([]byte, c.BufSize)
	got, surfaced := 0, 0
	for iter := 0; iter < junkIn+4; iter++ {
		for i := range buf {
			buf[i] = 0xA5
		}
		n, from, err := wdst.ReadFrom(buf)
		if err != nil {
			if !errors.Is(err, vfC13ErrEmpty) {
				v.Add("obfs:read-error", c, "ReadFrom failed: %v", err)
			}
			break
		}
		k.Count("ev_reads_returned", 1)
		fa, ok := from.(vfC13Addr)
		if !ok {
			v.Add("obfs:source-address-altered", c, "ReadFrom returned address %v (%T), not one the socket delivered", from, from)
			continue
		}
		if fa.Ep == "junk" {
			surfaced++
			size := fa.ID >> 32
			v.Add(vfC13JunkKey(size), map[string]any{"case_id": c.CaseID, "case": c, "junk_wire_len": size, "returned_n": n},
				"a %d-byte datagram (too short for salt + 1 payload byte) surfaced from ReadFrom as (n=%d, addr=%v, err=nil) instead of being dropped", size, n, fa)
			continue
		}
		got++
		if fa != wantFrom {
			v.Add("obfs:source-address-altered", c, "packet from %v was returned with source address %v", wantFrom, fa)
		}
		if n != len(orig) {
			v.Add("obfs:readfrom-count", c, "ReadFrom reported %d bytes for a %d-byte payload (%s)", n, len(orig), c.Dir)
		} else if !bytes.Equal(buf[:n], orig) {
			key := "obfs:payload-altered"
			if wsrc == nil {
				key = "salamander:foreign-packet-misdecoded"
			}
			v.Add(key, map[string]any{"case_id": c.CaseID, "case": c, "want": vfHex(orig), "got": vfHex(buf[:n])},
				"%d-byte payload delivered with different content (%s, key %d bytes)", n, c.Dir, len(p.key))
		} else if got == 1 {
			k.Count("ev_delivered_exact", 1)
		}
	}
	if got == 0 {
		v.Add("obfs:packet-lost", c, "valid %d-byte packet (%s) was never returned by ReadFrom although the wire delivered it", len(orig), c.Dir)
	} else if got > 1 {
		v.Add("obfs:packet-duplicated", c, "one packet was returned %d times", got)
	}
	if len(dst.inbox) != 0 {
		k.t.Fatalf("c13: inbox not drained")
	}
	k.Count("ev_junk_dropped", int64(junkIn-surfaced))
}

func vfC13JunkSizes(r *rand.Rand, max int) []int {
	n := r.Intn(max + 1)
	if max >= 3 && r.Intn(30) == 0 {
		// a long uninterrupted burst of junk: a reader that gives up after N invalid packets must not
		// surface anything either (bursts around 64/128/256 and beyond)
		n = []int{63, 64, 65, 127, 128, 129, 255, 256, 257, 300 + r.Intn(400)}[r.Intn(10)]
	}
	s := make([]int, n)
	for i := range s {
		s[i] = r.Intn(9) // 0..8
	}
	return s
}

var vfC13BoundaryLens = []int{1, 2, 7, 8, 9, 15, 16, 17, 31, 32, 33, 63, 64, 65, 1200, 1252, 1452, 1500, 2039, 2040}

func vfC13BufSize(r *rand.Rand, n int) int {
	switch r.Intn(5) {
	case 0:
		return n // exactly the payload, cap == len
	case 1:
		return 2040
	case 2:
		return 2048
	case 3:
		return 4096
	}
	return 65535
}

// ---------------------------------------------------------------------------- sal-keys

func TestVerifC13Keys(t *testing.T) {
	k := vfNewKit(t, "C13", "sal-keys")
	defer k.Finish()
	v := vfC13NewViol(k)
	wl := vfC13OpenWireLog(k, "sal-keys")
	defer wl.Close()
	r := k.Rand("keys")

	type kc struct {
		CaseID string `json:"case_id"`
		KeyHex string `json:"key"`
		Len    int    `json:"key_len"`
		Nil    bool   `json:"nil_slice"`
	}
	no := 0
	// too short: must be refused by both constructors
	for l := 0; l <= 3; l++ {
		var cands [][]byte
		if l == 0 {
			cands = append(cands, nil, []byte{})
		}
		cands = append(cands, make([]byte, l), bytes.Repeat([]byte{0xff}, l), []byte("abc")[:l])
		for i := 0; i < k.N(20, 200); i++ {
			b := make([]byte, l)
			r.Read(b)
			cands = append(cands, b)
		}
		for _, key := range cands {
			c := kc{CaseID: fmt.Sprintf("key-%d", no), KeyHex: hex.EncodeToString(key), Len: l, Nil: key == nil}
			no++
			if rc := k.ReplayCase(); rc != "" && rc != c.CaseID {
				continue
			}
			k.Eval()
			k.Nontrivial(fmt.Sprintf("short/%d/%s/%v", l, c.KeyHex, c.Nil))
			ep := &vfC13Ep{name: "A", inbox: make(chan vfC13Pkt, 1), nonblock: true}
			conn, err := WrapPacketConnSalamander(ep, key)
			if err == nil {
				v.Add("salamander:short-key-accepted", c, "WrapPacketConnSalamander accepted a %d-byte key (conn=%T); keys shorter than 4 bytes must be refused", l, conn)
			} else {
				k.Count("ev_keys_refused", 1)
			}
			ob, err := newSalamanderObfuscator(key)
			if err == nil {
				v.Add("salamander:short-key-accepted", c, "newSalamanderObfuscator accepted a %d-byte key (%v)", l, ob != nil)
			} else {
				k.Count("ev_keys_refused", 1)
			}
		}
	}
	// long enough: must be accepted and must carry a packet
	for _, key := range vfC13Keys(r) {
		c := kc{CaseID: fmt.Sprintf("key-%d", no), KeyHex: hex.EncodeToString(key.Key), Len: len(key.Key)}
		no++
		if rc := k.ReplayCase(); rc != "" && rc != c.CaseID {
			continue
		}
		k.Nontrivial(fmt.Sprintf("ok/%s", c.KeyHex))
		p, err := vfC13NewPair(key.Key, true, 1024)
		if err != nil {
			k.Eval()
			v.Add("salamander:valid-key-refused", c, "a %d-byte key was refused: %v", len(key.Key), err)
			continue
		}
		k.Count("ev_keys_accepted", 1)
		sc := &vfC13Case{CaseID: c.CaseID, KeyName: key.Name, KeyHex: c.KeyHex, Len: 1 + r.Intn(1400), Dir: "A>B",
			JunkBefore: []int{8}, BufSize: 2048, id: uint64(no), tag: uint64(r.Int63())}
		vfC13RunCase(k, v, wl, p, sc, r, nil)
		if len(key.Key) == 4 || len(key.Key) == 64 {
			k.Sample(map[string]any{"key_len": len(key.Key), "accepted": true, "then": sc})
		}
	}
	k.Sample(map[string]any{"key_lens_refused": "0,1,2,3 (nil, empty, zeros, 0xff, ascii, random)", "constructors": "WrapPacketConnSalamander, newSalamanderObfuscator"})
}

// ---------------------------------------------------------------------------- sal-roundtrip

func TestVerifC13Roundtrip(t *testing.T) {
	k := vfNewKit(t, "C13", "sal-roundtrip")
	defer k.Finish()
	v := vfC13NewViol(k)
	wl := vfC13OpenWireLog(k, "sal-roundtrip")
	defer wl.Close()
	r := k.Rand("cases")
	keys := vfC13Keys(k.Rand("keys"))
	pairs := make([]*vfC13Pair, len(keys))
	for i, key := range keys {
		p, err := vfC13NewPair(key.Key, true, 1024)
		if err != nil {
			v.Add("salamander:valid-key-refused", map[string]any{"case_id": "rt-setup", "key": hex.EncodeToString(key.Key)}, "a %d-byte key was refused: %v", len(key.Key), err)
			continue
		}
		pairs[i] = p
	}
	tagBase := uint64(r.Int63()) &^ 0xFFFFFFFF

	type plan struct {
		key, n int
		dir    string
		always bool // logged to the wire file in every tier
	}
	var plans []plan
	dirs := []string{"A>B", "B>A"}
	// every payload length once, keys round-robin
	for n := 1; n <= 2040; n++ {
		plans = append(plans, plan{n % len(keys), n, dirs[n%2], true})
	}
	// every key: boundary lengths, both directions
	for ki := range keys {
		for i, n := range vfC13BoundaryLens {
			plans = append(plans, plan{ki, n, dirs[(ki+i)%2], true})
		}
	}
	// random points
	for i := 0; i < k.N(2500, 30000); i++ {
		n := 1 + r.Intn(2040)
		if r.Intn(2) == 0 {
			n = 1 + r.Intn(100)
		}
		plans = append(plans, plan{r.Intn(len(keys)), n, dirs[r.Intn(2)], false})
	}

	for i, pl := range plans {
		c := &vfC13Case{CaseID: fmt.Sprintf("rt-%d", i), KeyName: keys[pl.key].Name, KeyHex: hex.EncodeToString(keys[pl.key].Key),
			Len: pl.n, Dir: pl.dir, id: uint64(i), tag: tagBase | uint64(i)}
		// all PRNG draws happen whether or not the case runs, so a replayed case sees the same values
		c.JunkBefore = vfC13JunkSizes(r, 4)
		c.JunkAfter = vfC13JunkSizes(r, 3)
		c.BufSize = vfC13BufSize(r, pl.n)
		jr := rand.New(rand.NewSource(r.Int63()))
		if rc := k.ReplayCase(); rc != "" && rc != c.CaseID {
			continue
		}
		p := pairs[pl.key]
		if p == nil {
			continue
		}
		log := wl
		if !k.Quick() && !pl.always && i%4 != 0 {
			log = vfC13NoLog
		}
		vfC13RunCase(k, v, log, p, c, jr, nil)
		k.Nontrivial(fmt.Sprintf("rt/%s/%d/%s/%v/%v", keys[pl.key].Name, pl.n, pl.dir, c.JunkBefore, c.JunkAfter))
		if i == 0 || i == 1199 || i == 2039 {
			k.Sample(c)
		}
	}
	k.Count("key_lengths", int64(len(keys)))
}

// vfC13NoLog swallows packets that the thorough tier does not sample into the wire file.
var vfC13NoLog = &vfC13WireLog{discard: true}

// ---------------------------------------------------------------------------- sal-interop

func TestVerifC13Interop(t *testing.T) {
	k := vfNewKit(t, "C13", "sal-interop")
	defer k.Finish()
	v := vfC13NewViol(k)
	wl := vfC13OpenWireLog(k, "sal-interop")
	defer wl.Close()
	r := k.Rand("cases")
	keys := vfC13Keys(k.Rand("keys"))
	pairs := make([]*vfC13Pair, len(keys))
	for i, key := range keys {
		p, err := vfC13NewPair(key.Key, true, 1024)
		if err != nil {
			v.Add("salamander:valid-key-refused", map[string]any{"case_id": "io-setup", "key": hex.EncodeToString(key.Key)}, "a %d-byte key was refused: %v", len(key.Key), err)
			continue
		}
		pairs[i] = p
	}
	tagBase := uint64(r.Int63()) &^ 0xFFFFFFFF
	specialSalts := [][]byte{
		make([]byte, 8), bytes.Repeat([]byte{0xff}, 8), {0, 0, 0, 0, 0, 0, 0, 1}, {1, 0, 0, 0, 0, 0, 0, 0},
		{0x80, 0, 0, 0, 0, 0, 0, 0}, []byte("saltsalt"),
	}
	salt := func(i int) []byte {
		if i%5 == 0 {
			return specialSalts[(i/5)%len(specialSalts)]
		}
		s := make([]byte, 8)
		r.Read(s)
		return s
	}
	type plan struct {
		key, n int
		raw    bool
		always bool
	}
	var plans []plan
	for n := 1; n <= 2040; n++ {
		plans = append(plans, plan{(n * 7) % len(keys), n, false, true})
	}
	for ki := range keys {
		for _, n := range vfC13BoundaryLens {
			plans = append(plans, plan{ki, n, false, true})
		}
	}
	for i := 0; i < k.N(1000, 15000); i++ {
		plans = append(plans, plan{r.Intn(len(keys)), 1 + r.Intn(2040), false, false})
	}
	// arbitrary datagrams of 9..2048 bytes: the protocol has no integrity check, so each is a valid
	// packet of the payload the reference decodes; n here is the payload length
	for _, n := range []int{1, 2, 31, 32, 33, 2039, 2040} {
		plans = append(plans, plan{r.Intn(len(keys)), n, true, true})
	}
	for i := 0; i < k.N(600, 8000); i++ {
		n := 1 + r.Intn(2040)
		if r.Intn(2) == 0 {
			n = 1 + r.Intn(40)
		}
		plans = append(plans, plan{r.Intn(len(keys)), n, true, false})
	}

	dsts := []string{"A", "B"}
	for i, pl := range plans {
		c := &vfC13Case{CaseID: fmt.Sprintf("io-%d", i), KeyName: keys[pl.key].Name, KeyHex: hex.EncodeToString(keys[pl.key].Key),
			Len: pl.n, id: uint64(i), tag: tagBase | uint64(i)}
		c.JunkBefore = vfC13JunkSizes(r, 2)
		c.JunkAfter = vfC13JunkSizes(r, 2)
		c.BufSize = vfC13BufSize(r, pl.n)
		var raw []byte
		if pl.raw {
			c.Dir = "raw>" + dsts[i%2]
			raw = make([]byte, pl.n+8)
			r.Read(raw)
			if i%11 == 0 {
				for j := range raw {
					raw[j] = 0 // an all-zero datagram
				}
			}
		} else {
			c.Dir = "foreign>" + dsts[i%2]
			c.SaltHex = hex.EncodeToString(salt(i))
		}
		jr := rand.New(rand.NewSource(r.Int63()))
		if rc := k.ReplayCase(); rc != "" && rc != c.CaseID {
			continue
		}
		p := pairs[pl.key]
		if p == nil {
			continue
		}
		log := wl
		if !k.Quick() && !pl.always && i%4 != 0 {
			log = vfC13NoLog
		}
		vfC13RunCase(k, v, log, p, c, jr, raw)
		k.Nontrivial(fmt.Sprintf("io/%s/%d/%s/%s/%v", keys[pl.key].Name, pl.n, c.Dir, c.SaltHex, pl.raw))
		if i == 4 || i == 2039 {
			k.Sample(c)
		}
	}
}
