//go:build verif

package trafficlogger

// C15, part 5 — a refused report disconnects the user, with REAL sockets on the target side.
//
// Real time, no bubble (kernel sockets cannot live in one): real server on UDP 127.0.0.1:0 with the
// DEFAULT outbound (net.Dial => the relay target is a real *net.TCPConn with everything that type
// brings: io.WriterTo / io.ReaderFrom fast paths, *net.OpError wrapping), the REAL stats server as
// TrafficLogger behind the recording pass-through, real clients on their own UDP sockets, targets =
// TCP listeners on 127.0.0.1:0 driven by the harness.
//
// One relay carries data in ONE direction only (download: target -> client, or upload: client -> target),
// paced by the recorder: the sender writes the next chunk when the server has reported the previous one.
// POST /kick for the user on the real handler; the next chunk's report is the user's next report.
// Oracle (logical order, no wall clock):
//   - that report is refused (recorder sees ok=false exactly once);
//   - "which disconnects them": after a logical clock of 100 complete echo round trips of ANOTHER user
//     through the same server (and a second 100 before anything is reported) the recorder must have
//     seen the user's offline notification, and a new Client.TCP on the kicked client must fail;
//   - the user's other (idle) connection, if any, stays online, GET /online shows exactly it, and its
//     next report is accepted (the kick was consumed).
// Real-time waits are watchdogs only: their firing is INCONCLUSIVE, never a violation.

import (
	"crypto/tls"
	"fmt"
	"io"
	"net"
	"sync/atomic"
	"testing"
	"time"

	"github.com/apernet/hysteria/core/v2/client"
	"github.com/apernet/hysteria/core/v2/server"
)

const vfC15RealWatchdog = 30 * time.Second

type vfC15RealCase struct {
	CaseID    string `json:"case_id"`
	Dir       string `json:"dir"` // down (target -> client) | up (client -> target)
	Chunk     int    `json:"chunk"`
	Warmup    int    `json:"warmup_chunks"`
	SecondCon bool   `json:"second_connection_of_user"`
}

// vfC15WaitFor polls cond (real time, watchdog only).
func vfC15WaitFor(cond func() bool) bool {
	deadline := time.Now().Add(vfC15RealWatchdog)
	for !cond() {
		if time.Now().After(deadline) {
			return false
		}
		time.Sleep(200 * time.Microsecond)
	}
	return true
}

type vfC15RealAuth struct{}

func (vfC15RealAuth) Authenticate(addr net.Addr, auth string, tx uint64) (bool, string) {
	if len(auth) > 3 && auth[:3] == "ok:" {
		return true, auth[3:]
	}
	return false, ""
}

// vfC15RealTarget is a TCP listener on loopback; every accepted connection is handed to the harness.
type vfC15RealTarget struct {
	ln    net.Listener
	conns chan net.Conn
}

func vfC15NewRealTarget() (*vfC15RealTarget, error) {
	ln, err := net.Listen("tcp", "127.0.0.1:0")
	if err != nil {
		return nil, err
	}
	t := &vfC15RealTarget{ln: ln, conns: make(chan net.Conn, 16)}
	go func() {
		for {
			c, err := ln.Accept()
			if err != nil {
				return
			}
			t.conns <- c
		}
	}()
	return t, nil
}

func (t *vfC15RealTarget) accept() net.Conn {
	select {
	case c := <-t.conns:
		return c
	case <-time.After(vfC15RealWatchdog):
		return nil
	}
}

func vfC15RealClient(saddr net.Addr, user string) (client.Client, error) {
	c, _, err := client.NewClient(&client.Config{
		ServerAddr: saddr,
		Auth:       "ok:" + user,
		TLSConfig:  client.TLSConfig{InsecureSkipVerify: true, ServerName: "verif"},
	})
	return c, err
}

func vfC15RealRun(t *testing.T, k *vfKit, c vfC15RealCase) {
	rep := func(extra map[string]any) map[string]any {
		m := map[string]any{"case_id": c.CaseID, "case": c}
		for a, b := range extra {
			m[a] = b
		}
		return m
	}
	stats := NewTrafficStatsServer(vfC15Secret)
	rec := vfC15NewRec(stats)
	pc, err := net.ListenUDP("udp", &net.UDPAddr{IP: net.IPv4(127, 0, 0, 1)})
	if err != nil {
		t.Fatalf("harness: %v", err)
	}
	srv, err := server.NewServer(&server.Config{
		TLSConfig:     server.TLSConfig{Certificates: []tls.Certificate{vfC15TLSCert()}},
		Conn:          pc,
		Authenticator: vfC15RealAuth{},
		TrafficLogger: rec, // Outbound left nil: the default outbound dials real TCP connections
	})
	if err != nil {
		t.Fatalf("harness: %v", err)
	}
	sdone := make(chan struct{})
	go func() { _ = srv.Serve(); close(sdone) }()
	var closers []func()
	defer func() {
		for i := len(closers) - 1; i >= 0; i-- {
			closers[i]()
		}
		_ = srv.Close()
		<-sdone
	}()

	user := c.CaseID + "-kicked"
	witness := c.CaseID + "-witness"
	tgt, err := vfC15NewRealTarget()
	if err != nil {
		t.Fatalf("harness: %v", err)
	}
	closers = append(closers, func() { _ = tgt.ln.Close() })
	echo, err := vfC15NewRealTarget()
	if err != nil {
		t.Fatalf("harness: %v", err)
	}
	closers = append(closers, func() { _ = echo.ln.Close() })

	victim, err := vfC15RealClient(pc.LocalAddr(), user)
	if err != nil {
		t.Fatalf("harness: client: %v", err)
	}
	closers = append(closers, func() { _ = victim.Close() })
	var second client.Client
	if c.SecondCon {
		if second, err = vfC15RealClient(pc.LocalAddr(), user); err != nil {
			t.Fatalf("harness: client: %v", err)
		}
		closers = append(closers, func() { _ = second.Close() })
	}
	wcl, err := vfC15RealClient(pc.LocalAddr(), witness)
	if err != nil {
		t.Fatalf("harness: client: %v", err)
	}
	closers = append(closers, func() { _ = wcl.Close() })

	// witness echo relay = the logical clock
	wconn, err := wcl.TCP(echo.ln.Addr().String())
	if err != nil {
		t.Fatalf("harness: witness relay: %v", err)
	}
	closers = append(closers, func() { _ = wconn.Close() })
	wsrv := echo.accept()
	if wsrv == nil {
		k.Inconclusive(c.CaseID + ": witness target connection never arrived")
		return
	}
	closers = append(closers, func() { _ = wsrv.Close() })
	go func() { _, _ = io.Copy(wsrv, wsrv) }()
	roundTrips := func(n int) bool {
		buf := make([]byte, 8)
		for i := 0; i < n; i++ {
			msg := []byte(fmt.Sprintf("rt%06d", i))
			_ = wconn.SetDeadline(time.Now().Add(vfC15RealWatchdog))
			if _, err := wconn.Write(msg); err != nil {
				return false
			}
			if _, err := io.ReadFull(wconn, buf); err != nil || string(buf) != string(msg) {
				return false
			}
		}
		k.Count("ev_realkick_clock_round_trips", int64(n))
		return true
	}

	// the relay of the user that is going to be kicked
	vconn, err := victim.TCP(tgt.ln.Addr().String())
	if err != nil {
		t.Fatalf("harness: relay: %v", err)
	}
	closers = append(closers, func() { _ = vconn.Close() })
	tconn := tgt.accept()
	if tconn == nil {
		k.Inconclusive(c.CaseID + ": target connection never arrived")
		return
	}
	closers = append(closers, func() { _ = tconn.Close() })
	var sender, receiver net.Conn = tconn, vconn // download
	if c.Dir == "up" {
		sender, receiver = vconn, tconn
	}
	var received atomic.Int64
	go func() {
		buf := make([]byte, 64*1024)
		for {
			n, err := receiver.Read(buf)
			received.Add(int64(n))
			if err != nil {
				return
			}
		}
	}()
	chunk := make([]byte, c.Chunk)
	for i := range chunk {
		chunk[i] = byte('a' + i%26)
	}
	// sendOne writes one chunk and waits until the server has reported it (all of it)
	sendOne := func() (ok bool, newReports int) {
		rep0, _ := rec.counts(user)
		b0 := rec.bytesSeen(user)
		if _, err := sender.Write(chunk); err != nil {
			return false, 0
		}
		ok = vfC15WaitFor(func() bool { return rec.bytesSeen(user) >= b0+uint64(len(chunk)) })
		rep1, _ := rec.counts(user)
		return ok, rep1 - rep0
	}
	for i := 0; i < c.Warmup; i++ {
		if ok, _ := sendOne(); !ok {
			k.Inconclusive(c.CaseID + ": warm-up chunk was never reported (watchdog)")
			return
		}
	}
	if !vfC15WaitFor(func() bool { return received.Load() >= int64(c.Warmup*c.Chunk) }) {
		k.Inconclusive(c.CaseID + ": warm-up data did not arrive (watchdog)")
		return
	}
	_, ref0 := rec.counts(user)
	if ref0 != 0 {
		k.Violation("realkick:refused-without-kick", rep(nil), "real sockets, %s: %d report(s) of user %s refused before any kick", c.CaseID, ref0, user)
		return
	}
	rec.mark("kick " + user)
	if err := vfC15Kick(stats, []string{user}); err != nil {
		t.Fatalf("harness: %v", err)
	}
	// the next chunk: its (first) report is the user's next report
	// (a write error is expected here when the chunk is large: the report of its first piece is refused
	// and the connection is torn down while the rest is still being written)
	_, _ = sender.Write(chunk)
	if !vfC15WaitFor(func() bool { rp, _ := rec.countsSince(user, "kick "+user); return rp >= 1 }) {
		k.Inconclusive(c.CaseID + ": no report after the kick (watchdog)")
		return
	}
	k.Count("ev_realkick_"+c.Dir, 1)
	if first, okv := rec.firstSince(user, "kick "+user); !okv || first.Ok {
		k.Violation("realkick:kick-not-enforced", rep(map[string]any{"first_report_after_kick": first}),
			"real sockets, %s (%s): user %s was kicked but its next traffic report was accepted", c.CaseID, c.Dir, user)
		return
	}
	// logical clock, then the connection must be gone
	gone := func() bool {
		rec.mu.Lock()
		off := rec.off[user]
		rec.mu.Unlock()
		return off >= 1
	}
	for round := 0; round < 2 && !gone(); round++ {
		if !roundTrips(100) {
			k.Inconclusive(c.CaseID + ": witness relay broke (watchdog or error)")
			return
		}
	}
	reports, refused := rec.countsSince(user, "kick "+user)
	if !gone() {
		rec.mu.Lock()
		on, off := rec.on[user], rec.off[user]
		rec.mu.Unlock()
		k.Violation("realkick:refused-report-did-not-disconnect", rep(map[string]any{"dir": c.Dir, "reports_since_kick": reports, "refused_since_kick": refused, "online_events": on, "offline_events": off, "recent_logger_calls": rec.tail(12)}),
			"real sockets, %s: user %s was kicked, its next report (%s direction, target is a real *net.TCPConn) was refused, but after 200 complete round trips of another user through the same server no connection of the user has been reported offline (online %d, offline %d): the refused report did not disconnect the user",
			c.CaseID, user, c.Dir, on, off)
		return
	}
	if refused != 1 {
		k.Violation("realkick:kick-refused-several-reports", rep(map[string]any{"refused": refused}), "real sockets, %s: one kick of user %s refused %d reports", c.CaseID, user, refused)
	}
	k.Count("ev_realkick_refused_then_offline", 1)
	k.Count("realkick_further_reports_after_refusal", int64(reports-refused))
	// the client learns it too: a new relay on the kicked connection must fail (give the CONNECTION_CLOSE
	// the same logical clock to arrive)
	failed := false
	for round := 0; round < 2 && !failed; round++ {
		s, err := victim.TCP(tgt.ln.Addr().String())
		if err != nil {
			failed = true
			break
		}
		_ = s.Close()
		if !roundTrips(100) {
			k.Inconclusive(c.CaseID + ": witness relay broke")
			return
		}
	}
	if !failed {
		k.Violation("realkick:kicked-client-still-connected", rep(nil), "real sockets, %s: the server reported user %s offline after the refused report but the client can still open relays", c.CaseID, user)
	} else {
		k.Count("ev_realkick_client_saw_disconnect", 1)
	}
	// census: exactly the user's other connection (if any) is online; its next report is accepted
	on, err := vfC15Online(stats)
	if err != nil {
		t.Fatalf("harness: %v", err)
	}
	want := int64(0)
	if c.SecondCon {
		want = 1
	}
	if n, listed := on[user]; n != want || (listed && n == 0) {
		k.Violation("realkick:online-listing-mismatch", rep(map[string]any{"online": on, "want": want}), "real sockets, %s: after the kicked connection went away GET /online shows %s: %d (listed=%v), want %d", c.CaseID, user, n, listed, want)
	}
	if c.SecondCon {
		s2, err := second.TCP(tgt.ln.Addr().String())
		if err != nil {
			k.Violation("realkick:other-connection-lost", rep(map[string]any{"err": fmt.Sprint(err)}), "real sockets, %s: the user's other connection cannot relay after the kick was consumed: %v", c.CaseID, err)
			return
		}
		closers = append(closers, func() { _ = s2.Close() })
		t2 := tgt.accept()
		if t2 == nil {
			k.Inconclusive(c.CaseID + ": second target connection never arrived")
			return
		}
		closers = append(closers, func() { _ = t2.Close() })
		rec.mark("probe " + user)
		if _, err := t2.Write(chunk); err != nil {
			k.Inconclusive(c.CaseID + ": cannot write probe chunk")
			return
		}
		if !vfC15WaitFor(func() bool { rp, _ := rec.countsSince(user, "probe "+user); return rp >= 1 }) {
			k.Inconclusive(c.CaseID + ": probe chunk never reported (watchdog)")
			return
		}
		if _, rf := rec.countsSince(user, "probe "+user); rf != 0 {
			k.Violation("realkick:kick-refuses-more-than-once", rep(nil), "real sockets, %s: after one kick of user %s had refused one report, a report of the user's other connection was refused too", c.CaseID, user)
		} else {
			k.Count("ev_realkick_other_conn_allowed", 1)
		}
	}
}

func TestVerifC15RealKick(t *testing.T) {
	k := vfNewKit(t, "C15", "c15-realkick")
	defer k.Finish()
	vfC15TLSCert()
	n := k.N(6, 48)
	for i := 0; i < n; i++ {
		caseID := fmt.Sprintf("realkick-%d", i)
		if rc := k.ReplayCase(); rc != "" && rc != caseID {
			continue
		}
		r := k.Rand(caseID)
		c := vfC15RealCase{CaseID: caseID, Dir: []string{"down", "up"}[i%2], Chunk: []int{700, 4096, 16000, 40000}[r.Intn(4)], Warmup: 1 + r.Intn(6), SecondCon: (i/2)%2 == 1}
		k.Eval()
		k.Nontrivial(fmt.Sprintf("%+v", c))
		if i < 2 {
			k.Sample(c)
		}
		t.Run(caseID, func(t *testing.T) { vfC15RealRun(t, k, c) })
	}
}
