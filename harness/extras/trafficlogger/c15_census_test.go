//go:build verif

package trafficlogger

// C15, part 3 — online census against a real server.
//
// A real Hysteria server (server.NewServer) runs on quic-go's simnet inside a testing/synctest
// bubble (virtual time). Its TrafficLogger is the REAL stats server object of this package behind a
// recording pass-through (vfC15Rec). Real clients (client.NewClient) and raw QUIC/h3 clients connect,
// authenticate (also: rejected, repeated, racing authentications), move TCP/UDP traffic, get kicked
// through POST /kick on the real handler, close, vanish (router blackhole -> 30 s idle timeout) or are
// cut by closing the server. After every step, at virtual quiescence, per user:
//
//	Σ LogOnlineState(true) − Σ LogOnlineState(false)   (never negative at any call)
//	  == number of connections the harness knows to be connected and authenticated
//	  == what GET /online lists (absent == 0; a listed 0 is reported as stale)
//
// and 0 for everybody at the end. Bytes are cross-checked too: Σ cleared snapshots + final snapshot
// == Σ bytes of the reports for which the real LogTraffic returned true.
//
// The network/raw-client helpers are copies of what harness/core/internal/integration_tests/vfnet_test.go
// provides (that file is package integration_tests and cannot be imported); all are prefixed vfC15.

import (
	"bytes"
	"context"
	"crypto/ecdsa"
	"crypto/elliptic"
	crand "crypto/rand"
	"crypto/tls"
	"crypto/x509"
	"crypto/x509/pkix"
	"fmt"
	"io"
	"math/big"
	"math/rand"
	"net"
	"net/http"
	"runtime"
	"runtime/debug"
	"sort"
	"strings"
	"sync"
	"sync/atomic"
	"testing"
	"testing/synctest"
	"time"

	"github.com/apernet/quic-go"
	"github.com/apernet/quic-go/http3"
	"github.com/apernet/quic-go/testutils/simnet"

	"github.com/apernet/hysteria/core/v2/client"
	"github.com/apernet/hysteria/core/v2/server"
)

// ---------------------------------------------------------------- TLS / network (copied kit)

var (
	vfC15CertOnce sync.Once
	vfC15Cert     tls.Certificate
)

func vfC15TLSCert() tls.Certificate {
	vfC15CertOnce.Do(func() {
		key, err := ecdsa.GenerateKey(elliptic.P256(), crand.Reader)
		if err != nil {
			panic(err)
		}
		tpl := &x509.Certificate{
			SerialNumber: big.NewInt(1),
			Subject:      pkix.Name{CommonName: "verif"},
			NotBefore:    time.Unix(0, 0),
			NotAfter:     time.Date(2200, 1, 1, 0, 0, 0, 0, time.UTC),
			KeyUsage:     x509.KeyUsageDigitalSignature,
			ExtKeyUsage:  []x509.ExtKeyUsage{x509.ExtKeyUsageServerAuth},
			DNSNames:     []string{"verif", "hysteria", "localhost"},
		}
		der, err := x509.CreateCertificate(crand.Reader, tpl, tpl, &key.PublicKey, key)
		if err != nil {
			panic(err)
		}
		vfC15Cert = tls.Certificate{Certificate: [][]byte{der}, PrivateKey: key}
	})
	return vfC15Cert
}

// vfC15Router: fixed one-way latency on virtual time, per-address blackholes.
type vfC15Router struct {
	mu        sync.Mutex
	nodes     map[string]simnet.PacketReceiver
	latency   time.Duration
	blackhole map[string]bool
}

func (r *vfC15Router) AddNode(addr net.Addr, rcv simnet.PacketReceiver) {
	r.mu.Lock()
	r.nodes[addr.String()] = rcv
	r.mu.Unlock()
}

func (r *vfC15Router) Blackhole(addr net.Addr) {
	r.mu.Lock()
	r.blackhole[addr.String()] = true
	r.mu.Unlock()
}

func (r *vfC15Router) SendPacket(p simnet.Packet) error {
	r.mu.Lock()
	rcv, ok := r.nodes[p.To.String()]
	drop := r.blackhole[p.To.String()] || r.blackhole[p.From.String()]
	lat := r.latency
	r.mu.Unlock()
	if !ok || drop {
		return nil
	}
	time.AfterFunc(lat, func() { rcv.RecvPacket(p) })
	return nil
}

// vfC15Auth accepts "ok:<id>" (after an optional virtual delay) and rejects everything else.
//
// Connections that fire several authentications at once (noSleep) must not be delayed on virtual
// time: the server calls Authenticate under its per-connection mutex, the other requests then wait
// on that mutex, which synctest does not count as durably blocked, so the bubble's clock could
// never advance. They get a scheduling delay (yields) instead, which lets the others pile up.
type vfC15Auth struct {
	delay   time.Duration
	calls   atomic.Int64
	mu      sync.Mutex
	noSleep map[string]bool
}

func (a *vfC15Auth) Authenticate(addr net.Addr, auth string, tx uint64) (bool, string) {
	a.calls.Add(1)
	a.mu.Lock()
	ns := a.noSleep[addr.String()]
	a.mu.Unlock()
	if ns {
		for i := 0; i < 50; i++ {
			runtime.Gosched()
		}
	} else if a.delay > 0 {
		time.Sleep(a.delay)
	}
	if strings.HasPrefix(auth, "ok:") {
		return true, strings.TrimPrefix(auth, "ok:")
	}
	return false, ""
}

// buffered in-memory pipe (unbounded), used as the outbound TCP target
type vfC15Buf struct {
	mu     sync.Mutex
	cond   *sync.Cond
	data   []byte
	total  int64
	closed bool
	broken bool
}

func vfC15NewBuf() *vfC15Buf { b := &vfC15Buf{}; b.cond = sync.NewCond(&b.mu); return b }

type vfC15BufConn struct {
	r, w *vfC15Buf
	once sync.Once
}

func vfC15Pipe() (*vfC15BufConn, *vfC15BufConn) {
	ab, ba := vfC15NewBuf(), vfC15NewBuf()
	return &vfC15BufConn{r: ba, w: ab}, &vfC15BufConn{r: ab, w: ba}
}

func (c *vfC15BufConn) Read(p []byte) (int, error) {
	b := c.r
	b.mu.Lock()
	defer b.mu.Unlock()
	for len(b.data) == 0 && !b.closed && !b.broken {
		b.cond.Wait()
	}
	if len(b.data) > 0 {
		n := copy(p, b.data)
		b.data = b.data[n:]
		return n, nil
	}
	if b.broken {
		return 0, net.ErrClosed
	}
	return 0, io.EOF
}

func (c *vfC15BufConn) Write(p []byte) (int, error) {
	b := c.w
	b.mu.Lock()
	defer b.mu.Unlock()
	if b.closed || b.broken {
		return 0, io.ErrClosedPipe
	}
	b.data = append(b.data, p...)
	b.total += int64(len(p))
	b.cond.Broadcast()
	return len(p), nil
}

// Received returns how many bytes were ever written towards this end.
func (c *vfC15BufConn) Received() int64 {
	c.r.mu.Lock()
	defer c.r.mu.Unlock()
	return c.r.total
}

func (c *vfC15BufConn) Close() error {
	c.once.Do(func() {
		c.w.mu.Lock()
		c.w.closed = true
		c.w.cond.Broadcast()
		c.w.mu.Unlock()
		c.r.mu.Lock()
		c.r.broken = true
		c.r.cond.Broadcast()
		c.r.mu.Unlock()
	})
	return nil
}

func (c *vfC15BufConn) LocalAddr() net.Addr                { return &net.TCPAddr{IP: net.IPv4(10, 9, 9, 9), Port: 1} }
func (c *vfC15BufConn) RemoteAddr() net.Addr               { return &net.TCPAddr{IP: net.IPv4(10, 9, 9, 8), Port: 2} }
func (c *vfC15BufConn) SetDeadline(t time.Time) error      { return nil }
func (c *vfC15BufConn) SetReadDeadline(t time.Time) error  { return nil }
func (c *vfC15BufConn) SetWriteDeadline(t time.Time) error { return nil }

// vfC15UDPSink is an outbound UDP socket: counts writes, echoes them back when Echo is set, and can be
// fed replies by the harness.
type vfC15UDPSink struct {
	first   string
	echo    bool
	in      chan vfC15Pkt
	closed  chan struct{}
	once    sync.Once
	written atomic.Int64
}

type vfC15Pkt struct {
	data []byte
	from string
}

func (s *vfC15UDPSink) ReadFrom(b []byte) (int, string, error) {
	select {
	case p := <-s.in:
		return copy(b, p.data), p.from, nil
	case <-s.closed:
		return 0, "", net.ErrClosed
	}
}

func (s *vfC15UDPSink) WriteTo(b []byte, addr string) (int, error) {
	select {
	case <-s.closed:
		return 0, net.ErrClosed
	default:
	}
	s.written.Add(1)
	if s.echo {
		s.Reply(b, addr)
	}
	return len(b), nil
}

func (s *vfC15UDPSink) Reply(data []byte, from string) {
	select {
	case s.in <- vfC15Pkt{append([]byte(nil), data...), from}:
	case <-s.closed:
	default: // full: drop like UDP
	}
}

func (s *vfC15UDPSink) Close() error { s.once.Do(func() { close(s.closed) }); return nil }

// vfC15Outbound hands out pipe targets / sinks and remembers them by requested address
// (every requested address is unique and names its connection and action).
type vfC15Outbound struct {
	mu      sync.Mutex
	targets map[string]*vfC15BufConn // harness end
	sinks   map[string]*vfC15UDPSink
	noEcho  map[string]bool
}

func (o *vfC15Outbound) TCP(reqAddr string) (net.Conn, error) {
	a, b := vfC15Pipe()
	o.mu.Lock()
	o.targets[reqAddr] = b
	o.mu.Unlock()
	return a, nil
}

func (o *vfC15Outbound) UDP(reqAddr string) (server.UDPConn, error) {
	o.mu.Lock()
	s := &vfC15UDPSink{first: reqAddr, echo: !o.noEcho[reqAddr], in: make(chan vfC15Pkt, 64), closed: make(chan struct{})}
	o.sinks[reqAddr] = s
	o.mu.Unlock()
	return s, nil
}

func (o *vfC15Outbound) CheckUDP(reqAddr string) error { return nil }

func (o *vfC15Outbound) target(addr string) *vfC15BufConn {
	o.mu.Lock()
	defer o.mu.Unlock()
	return o.targets[addr]
}

func (o *vfC15Outbound) sink(addr string) *vfC15UDPSink {
	o.mu.Lock()
	defer o.mu.Unlock()
	return o.sinks[addr]
}

// vfC15Par runs the functions concurrently and returns when all have finished. Channels, not
// sync.WaitGroup: inside a bubble WaitGroup.Wait was seen not to count as durably blocked (HARNESS_GUIDE).
func vfC15Par(fs ...func()) {
	done := make(chan struct{}, len(fs))
	for _, f := range fs {
		go func() {
			defer func() { done <- struct{}{} }()
			f()
		}()
	}
	for range fs {
		<-done
	}
}

// ---------------------------------------------------------------- the recording pass-through

type vfC15RecEv struct {
	T      int64  `json:"t_ns"`
	Kind   string `json:"kind"` // online | offline | traffic
	ID     string `json:"id"`
	Tx     uint64 `json:"tx,omitempty"`
	Rx     uint64 `json:"rx,omitempty"`
	Ok     bool   `json:"ok,omitempty"`
	Bal    int    `json:"balance_after,omitempty"`
	Marker string `json:"marker,omitempty"`
}

// vfC15Rec wraps the real stats server: every call is recorded and forwarded unchanged.
type vfC15Rec struct {
	inner TrafficStatsServer

	mu        sync.Mutex
	bal       map[string]int
	on, off   map[string]int
	negatives []vfC15RecEv
	allowedTx map[string]uint64
	allowedRx map[string]uint64
	reports   map[string]int
	refused   map[string]int
	evs       []vfC15RecEv

	// delay, when set, makes LogOnlineState slow: the call sleeps (virtual time) before it is recorded
	// and forwarded, as a contended or remote logger would. The balance is therefore the balance of
	// DELIVERED events. No lock is held while sleeping.
	delay func(id string, online bool) time.Duration
}

func vfC15NewRec(inner TrafficStatsServer) *vfC15Rec {
	return &vfC15Rec{inner: inner, bal: map[string]int{}, on: map[string]int{}, off: map[string]int{},
		allowedTx: map[string]uint64{}, allowedRx: map[string]uint64{}, reports: map[string]int{}, refused: map[string]int{}}
}

func (r *vfC15Rec) LogTraffic(id string, tx, rx uint64) bool {
	ok := r.inner.LogTraffic(id, tx, rx)
	r.mu.Lock()
	r.reports[id]++
	if ok {
		r.allowedTx[id] += tx
		r.allowedRx[id] += rx
	} else {
		r.refused[id]++
	}
	r.evs = append(r.evs, vfC15RecEv{T: time.Now().UnixNano(), Kind: "traffic", ID: id, Tx: tx, Rx: rx, Ok: ok})
	r.mu.Unlock()
	return ok
}

func (r *vfC15Rec) LogOnlineState(id string, online bool) {
	if r.delay != nil {
		if d := r.delay(id, online); d > 0 {
			time.Sleep(d)
		}
	}
	r.mu.Lock()
	e := vfC15RecEv{T: time.Now().UnixNano(), Kind: "offline", ID: id}
	if online {
		e.Kind = "online"
		r.bal[id]++
		r.on[id]++
	} else {
		r.bal[id]--
		r.off[id]++
	}
	e.Bal = r.bal[id]
	if r.bal[id] < 0 {
		r.negatives = append(r.negatives, e)
	}
	r.evs = append(r.evs, e)
	r.mu.Unlock()
	r.inner.LogOnlineState(id, online)
}

func (r *vfC15Rec) TraceStream(stream server.HyStream, stats *server.StreamStats) {
	r.inner.TraceStream(stream, stats)
}
func (r *vfC15Rec) UntraceStream(stream server.HyStream) { r.inner.UntraceStream(stream) }

func (r *vfC15Rec) mark(m string) {
	r.mu.Lock()
	r.evs = append(r.evs, vfC15RecEv{T: time.Now().UnixNano(), Kind: "step", Marker: m})
	r.mu.Unlock()
}

func (r *vfC15Rec) counts(id string) (reports, refused int) {
	r.mu.Lock()
	defer r.mu.Unlock()
	return r.reports[id], r.refused[id]
}

// bytesSeen: bytes of every report of id so far (accepted or refused).
func (r *vfC15Rec) bytesSeen(id string) uint64 {
	r.mu.Lock()
	defer r.mu.Unlock()
	var n uint64
	for _, e := range r.evs {
		if e.Kind == "traffic" && e.ID == id {
			n += e.Tx + e.Rx
		}
	}
	return n
}

// countsSince: reports / refused reports of id recorded after the (last) marker m.
func (r *vfC15Rec) countsSince(id, m string) (reports, refused int) {
	r.mu.Lock()
	defer r.mu.Unlock()
	for i := len(r.evs) - 1; i >= 0; i-- {
		e := r.evs[i]
		if e.Kind == "step" && e.Marker == m {
			break
		}
		if e.Kind == "traffic" && e.ID == id {
			reports++
			if !e.Ok {
				refused++
			}
		}
	}
	return
}

// firstSince: the first report of id recorded after the (last) marker m.
func (r *vfC15Rec) firstSince(id, m string) (vfC15RecEv, bool) {
	r.mu.Lock()
	defer r.mu.Unlock()
	var first vfC15RecEv
	found := false
	for i := len(r.evs) - 1; i >= 0; i-- {
		e := r.evs[i]
		if e.Kind == "step" && e.Marker == m {
			break
		}
		if e.Kind == "traffic" && e.ID == id {
			first, found = e, true
		}
	}
	return first, found
}

func (r *vfC15Rec) tail(n int) []vfC15RecEv {
	r.mu.Lock()
	defer r.mu.Unlock()
	if len(r.evs) <= n {
		return append([]vfC15RecEv(nil), r.evs...)
	}
	return append([]vfC15RecEv(nil), r.evs[len(r.evs)-n:]...)
}

// ---------------------------------------------------------------- raw client (copied kit)

type vfC15Raw struct {
	addr *net.UDPAddr
	ep   *simnet.SimConn
	tr   *quic.Transport
	conn *quic.Conn
	h3   *http3.ClientConn
	dgs  atomic.Int64
}

type vfC15Factory struct {
	f func() (net.PacketConn, error)
}

func (f *vfC15Factory) New(net.Addr) (net.PacketConn, error) { return f.f() }

func vfC15Varint(b []byte, v uint64) []byte {
	switch {
	case v <= 63:
		return append(b, byte(v))
	case v <= 16383:
		return append(b, byte(v>>8)|0x40, byte(v))
	case v <= 1073741823:
		return append(b, byte(v>>24)|0x80, byte(v>>16), byte(v>>8), byte(v))
	default:
		return append(b, byte(v>>56)|0xc0, byte(v>>48), byte(v>>40), byte(v>>32), byte(v>>24), byte(v>>16), byte(v>>8), byte(v))
	}
}

// 0x401 ‖ len ‖ addr ‖ padlen ‖ padding (PROTOCOL.md)
func vfC15TCPRequestFrame(addr string, pad int) []byte {
	b := vfC15Varint(nil, 0x401)
	b = vfC15Varint(b, uint64(len(addr)))
	b = append(b, addr...)
	b = vfC15Varint(b, uint64(pad))
	return append(b, bytes.Repeat([]byte{'p'}, pad)...)
}

func vfC15UDPMessage(sid uint32, addr string, data []byte) []byte {
	b := []byte{byte(sid >> 24), byte(sid >> 16), byte(sid >> 8), byte(sid), 0, 0, 0, 1}
	b = vfC15Varint(b, uint64(len(addr)))
	b = append(b, addr...)
	return append(b, data...)
}

func (r *vfC15Raw) authReq(cred string) (int, error) {
	req, err := http.NewRequest(http.MethodPost, "https://hysteria/auth", nil)
	if err != nil {
		return 0, err
	}
	req.Header.Set("Hysteria-Auth", cred)
	req.Header.Set("Hysteria-CC-RX", "0")
	req.Header.Set("Hysteria-Padding", "verifpadding")
	ctx, cancel := context.WithTimeout(context.Background(), 60*time.Second)
	defer cancel()
	resp, err := r.h3.RoundTrip(req.WithContext(ctx))
	if err != nil {
		return 0, err
	}
	_, _ = io.Copy(io.Discard, resp.Body)
	_ = resp.Body.Close()
	return resp.StatusCode, nil
}

func (r *vfC15Raw) close() {
	_ = r.conn.CloseWithError(0x100, "")
	_ = r.tr.Close()
	_ = r.ep.Close()
}

// ---------------------------------------------------------------- world

type vfC15ConnPlan struct {
	K    int      `json:"k"`
	Kind string   `json:"kind"` // hy | raw | hy_bad | raw_noauth
	User string   `json:"user,omitempty"`
	Pre  []string `json:"pre,omitempty"`  // raw, before the accepted auth: bad | race
	Post []string `json:"post,omitempty"` // raw, right after: again | other | bad
}

type vfC15Xfer struct {
	Conn int    `json:"conn"`
	Kind string `json:"kind"` // tcp_up | tcp_down | udp
	N    int    `json:"n"`
}

type vfC15Step struct {
	Op      string      `json:"op"` // connect | traffic | reauth | kick | kick_reconnect | kick_offline | close | vanish | server_close
	Conn    int         `json:"conn,omitempty"`
	Conns   []int       `json:"conns,omitempty"`
	Arg     string      `json:"arg,omitempty"`
	Traffic []vfC15Xfer `json:"traffic,omitempty"`
	Probe   int         `json:"probe,omitempty"` // kick: another live connection of the same user (0 = none)
	New     []int       `json:"new,omitempty"`   // kick_reconnect / kick_offline: the two connections made afterwards
}

type vfC15CensusCase struct {
	CaseID      string          `json:"case_id"`
	LatencyMs   int             `json:"latency_ms"`
	AuthDelayMs int             `json:"auth_delay_ms"`
	Users       []string        `json:"users"`
	Conns       []vfC15ConnPlan `json:"conns"`
	Initial     []int           `json:"initial"`
	Steps       []vfC15Step     `json:"steps"`
}

type vfC15Conn struct {
	plan   vfC15ConnPlan
	addr   *net.UDPAddr
	hy     client.Client
	raw    *vfC15Raw
	authed bool   // the client saw the authentication accepted
	ended  string // "" | closed | vanished | kicked | server_closed
	seq    int
	mu     sync.Mutex
	hyUDPs []client.HyUDPConn
	closeF []func()
}

func (c *vfC15Conn) live() bool { return c.authed && c.ended == "" }

type vfC15World struct {
	t      *testing.T
	k      *vfKit
	c      vfC15CensusCase
	router *vfC15Router
	stats  TrafficStatsServer
	rec    *vfC15Rec
	auth   *vfC15Auth
	out    *vfC15Outbound
	srv    server.Server
	sdone  chan struct{}
	saddr  *net.UDPAddr
	conns  map[int]*vfC15Conn
	cmu    sync.Mutex
	cl     vfC15Sums // Σ of cleared snapshots
	rnd    *rand.Rand
	failed atomic.Bool
}

func (w *vfC15World) rep(extra map[string]any) map[string]any {
	m := map[string]any{"case_id": w.c.CaseID, "case": w.c, "recent_logger_calls": w.rec.tail(30)}
	for a, b := range extra {
		m[a] = b
	}
	return m
}

func (w *vfC15World) clientAddr(k int) *net.UDPAddr {
	return &net.UDPAddr{IP: net.IPv4(10, 1, byte(k>>8), byte(k)), Port: 10000 + k}
}

func (w *vfC15World) settle(d time.Duration) {
	time.Sleep(d)
	synctest.Wait()
}

// connect runs one connection plan up to (and including) its authentication attempts.
func (w *vfC15World) connect(p vfC15ConnPlan) *vfC15Conn {
	c := &vfC15Conn{plan: p, addr: w.clientAddr(p.K)}
	w.cmu.Lock()
	w.conns[p.K] = c
	w.cmu.Unlock()
	switch p.Kind {
	case "hy", "hy_bad":
		cred := "ok:" + p.User
		if p.Kind == "hy_bad" {
			cred = fmt.Sprintf("wrong-password-c%d", p.K)
		}
		cfg := &client.Config{
			ConnFactory: &vfC15Factory{f: func() (net.PacketConn, error) {
				return simnet.NewBlockingSimConn(c.addr, w.router), nil
			}},
			ServerAddr: w.saddr,
			Auth:       cred,
			TLSConfig:  client.TLSConfig{InsecureSkipVerify: true, ServerName: "verif"},
		}
		cfg.QUICConfig.DisablePathMTUDiscovery = true
		hc, _, err := client.NewClient(cfg)
		if err != nil {
			if p.Kind == "hy" {
				w.t.Errorf("harness: client c%d could not connect: %v", p.K, err)
				w.failed.Store(true)
			}
			c.ended = "closed"
			return c
		}
		if p.Kind == "hy_bad" {
			w.k.Violation("server:bad-credentials-accepted", w.rep(map[string]any{"conn": p.K}), "client c%d with a wrong password was accepted", p.K)
		}
		c.hy = hc
		c.authed = true
	case "raw", "raw_noauth":
		ep := simnet.NewBlockingSimConn(c.addr, w.router)
		tr := &quic.Transport{Conn: ep}
		ctx, cancel := context.WithTimeout(context.Background(), 20*time.Second)
		conn, err := tr.Dial(ctx, w.saddr, &tls.Config{InsecureSkipVerify: true, ServerName: "verif", NextProtos: []string{http3.NextProtoH3}},
			&quic.Config{EnableDatagrams: true, MaxIdleTimeout: 30 * time.Second, KeepAlivePeriod: 10 * time.Second, DisablePathMTUDiscovery: true, DisablePathManager: true})
		cancel()
		if err != nil {
			_ = tr.Close()
			_ = ep.Close()
			w.t.Errorf("harness: raw client c%d could not connect: %v", p.K, err)
			w.failed.Store(true)
			c.ended = "closed"
			return c
		}
		raw := &vfC15Raw{addr: c.addr, ep: ep, tr: tr, conn: conn}
		raw.h3 = (&http3.Transport{}).NewClientConn(conn)
		c.raw = raw
		dctx, dcancel := context.WithCancel(context.Background())
		c.closeF = append(c.closeF, dcancel)
		go func() {
			for {
				if _, err := conn.ReceiveDatagram(dctx); err != nil {
					return
				}
				raw.dgs.Add(1)
			}
		}()
		for _, a := range p.Pre {
			switch a {
			case "bad":
				if st, err := raw.authReq(fmt.Sprintf("wrong-password-c%d", p.K)); err == nil && st == 233 {
					w.k.Violation("server:bad-credentials-accepted", w.rep(map[string]any{"conn": p.K}), "raw client c%d with a wrong password got 233", p.K)
				}
				w.k.Count("ev_auth_rejected", 1)
			}
		}
		if p.Kind == "raw_noauth" {
			return c
		}
		n := 1
		for _, a := range p.Pre {
			if a == "race" {
				n = 3
			}
		}
		res := make([]int, n)
		var fs []func()
		for i := 0; i < n; i++ {
			fs = append(fs, func() {
				st, err := raw.authReq("ok:" + p.User)
				if err == nil {
					res[i] = st
				}
			})
		}
		vfC15Par(fs...)
		for _, st := range res {
			if st == 233 {
				c.authed = true
			}
		}
		if n > 1 {
			w.k.Count("ev_auth_races", 1)
		}
		if !c.authed {
			w.t.Errorf("harness: raw client c%d: good credentials answered %v", p.K, res)
			w.failed.Store(true)
			return c
		}
		for _, a := range p.Post {
			w.reauth(c, a)
		}
	}
	return c
}

func (w *vfC15World) otherUser(u string) string {
	for _, x := range w.c.Users {
		if x != u {
			return x
		}
	}
	return u
}

func (w *vfC15World) reauth(c *vfC15Conn, how string) {
	cred := "ok:" + c.plan.User
	switch how {
	case "other":
		cred = "ok:" + w.otherUser(c.plan.User)
	case "bad":
		cred = fmt.Sprintf("wrong-password-c%d", c.plan.K)
	}
	_, _ = c.raw.authReq(cred) // the answer itself is C01's business; here only the census matters
	w.k.Count("ev_repeated_auth", 1)
}

type vfC15Stream struct {
	write func([]byte) error
	close func()
	rx    *atomic.Int64
	addr  string
}

// openTCP opens a proxied TCP stream on c to a fresh unique address.
func (w *vfC15World) openTCP(c *vfC15Conn) (*vfC15Stream, error) {
	c.seq++
	addr := fmt.Sprintf("c%d-t%d.verif:80", c.plan.K, c.seq)
	rx := &atomic.Int64{}
	if c.hy != nil {
		s, err := c.hy.TCP(addr)
		if err != nil {
			return nil, err
		}
		go func() {
			buf := make([]byte, 32*1024)
			for {
				n, err := s.Read(buf)
				rx.Add(int64(n))
				if err != nil {
					return
				}
			}
		}()
		st := &vfC15Stream{addr: addr, rx: rx, write: func(b []byte) error { _, err := s.Write(b); return err }, close: func() { _ = s.Close() }}
		c.closeF = append(c.closeF, st.close)
		return st, nil
	}
	qs, err := c.raw.conn.OpenStream()
	if err != nil {
		return nil, err
	}
	if _, err := qs.Write(vfC15TCPRequestFrame(addr, 5)); err != nil {
		return nil, err
	}
	go func() {
		buf := make([]byte, 32*1024)
		for {
			n, err := qs.Read(buf)
			rx.Add(int64(n))
			if err != nil {
				return
			}
		}
	}()
	st := &vfC15Stream{addr: addr, rx: rx, write: func(b []byte) error { _, err := qs.Write(b); return err },
		close: func() { qs.CancelRead(0); _ = qs.Close() }}
	c.closeF = append(c.closeF, st.close)
	return st, nil
}

// sendUDP sends one UDP message on a fresh session of c to a fresh unique address.
func (w *vfC15World) sendUDP(c *vfC15Conn, n int, echo bool) (addr string, err error) {
	c.seq++
	addr = fmt.Sprintf("c%d-u%d.verif:53", c.plan.K, c.seq)
	if !echo {
		w.out.mu.Lock()
		w.out.noEcho[addr] = true
		w.out.mu.Unlock()
	}
	data := bytes.Repeat([]byte{byte('a' + c.plan.K%26)}, n)
	if c.hy != nil {
		u, err := c.hy.UDP()
		if err != nil {
			return addr, err
		}
		c.mu.Lock()
		c.hyUDPs = append(c.hyUDPs, u)
		c.mu.Unlock()
		go func() {
			for {
				if _, _, err := u.Receive(); err != nil {
					return
				}
			}
		}()
		return addr, u.Send(data, addr)
	}
	return addr, c.raw.conn.SendDatagram(vfC15UDPMessage(uint32(1000+c.seq), addr, data))
}

func (w *vfC15World) traffic(tr vfC15Xfer) {
	c := w.conns[tr.Conn]
	payload := bytes.Repeat([]byte{byte('A' + tr.Conn%26)}, tr.N)
	w.k.Count("xfer_"+tr.Kind+"_attempts", 1)
	switch tr.Kind {
	case "tcp_up":
		st, err := w.openTCP(c)
		if err != nil {
			return
		}
		_ = st.write(payload)
		time.Sleep(800 * time.Millisecond)
		if tg := w.out.target(st.addr); tg != nil && tg.Received() == int64(tr.N) {
			w.k.Count("ev_tcp_up_complete", 1)
		}
		st.close()
	case "tcp_down":
		st, err := w.openTCP(c)
		if err != nil {
			return
		}
		time.Sleep(200 * time.Millisecond)
		tg := w.out.target(st.addr)
		if tg == nil {
			return
		}
		_, _ = tg.Write(payload)
		time.Sleep(800 * time.Millisecond)
		if st.rx.Load() >= int64(tr.N) {
			w.k.Count("ev_tcp_down_complete", 1)
		}
		st.close()
		_ = tg.Close()
	case "udp":
		n := tr.N%1000 + 1
		addr, err := w.sendUDP(c, n, true)
		if err != nil {
			return
		}
		time.Sleep(300 * time.Millisecond)
		if s := w.out.sink(addr); s != nil && s.written.Load() > 0 {
			w.k.Count("ev_udp_relayed", 1)
		}
	}
}

func (w *vfC15World) disconnected(c *vfC15Conn) bool {
	if c.raw != nil {
		return c.raw.conn.Context().Err() != nil
	}
	s, err := c.hy.TCP(fmt.Sprintf("c%d-probe.verif:1", c.plan.K))
	if err == nil {
		_ = s.Close()
		return false
	}
	return true
}

func (w *vfC15World) kick(st vfC15Step) {
	v := w.conns[st.Conn]
	u := v.plan.User
	var pre *vfC15Stream
	var preAddr string
	switch st.Arg { // things that must exist before the kick so that the very next report comes from the chosen site
	case "tcp_down":
		s, err := w.openTCP(v)
		if err != nil {
			w.k.Inconclusive("kick: cannot open stream on victim")
			return
		}
		pre = s
		w.settle(300 * time.Millisecond)
	case "udp_down":
		a, err := w.sendUDP(v, 40, false)
		if err != nil {
			w.k.Inconclusive("kick: cannot send datagram on victim")
			return
		}
		preAddr = a
		w.settle(300 * time.Millisecond)
	}
	rep0, ref0 := w.rec.counts(u)
	w.rec.mark("kick " + u)
	if err := vfC15Kick(w.stats, []string{u}); err != nil {
		w.t.Fatalf("harness: %v", err)
	}
	w.k.Count("ev_kick_"+st.Arg, 1)
	switch st.Arg {
	case "tcp_up":
		s, err := w.openTCP(v)
		if err != nil {
			w.k.Inconclusive("kick: cannot open stream on victim")
			return
		}
		_ = s.write(bytes.Repeat([]byte{'K'}, 3000))
	case "tcp_down":
		if tg := w.out.target(pre.addr); tg != nil {
			_, _ = tg.Write(bytes.Repeat([]byte{'k'}, 3000))
		}
	case "udp_up":
		_, _ = w.sendUDP(v, 50, false)
	case "udp_down":
		if s := w.out.sink(preAddr); s != nil {
			s.Reply([]byte("reply-after-kick"), preAddr)
		}
	}
	w.settle(1 * time.Second)
	rep1, ref1 := w.rec.counts(u)
	switch {
	case rep1 == rep0:
		w.k.Inconclusive(fmt.Sprintf("%s: the %s trigger on c%d produced no traffic report", w.c.CaseID, st.Arg, st.Conn))
		return
	case ref1 == ref0:
		w.k.Violation("census:kick-not-enforced", w.rep(map[string]any{"step": st, "user": u}),
			"user %s was kicked, then connection c%d reported traffic (%s): %d report(s), none refused", u, st.Conn, st.Arg, rep1-rep0)
	case ref1-ref0 == 1:
		v.ended = "kicked"
		w.k.Count("ev_kick_refused_once", 1)
		if !w.disconnected(v) {
			w.k.Violation("census:kicked-connection-not-disconnected", w.rep(map[string]any{"step": st, "user": u}),
				"the report of c%d (user %s) was refused after a kick but the client still has a working connection", st.Conn, u)
		}
	default:
		v.ended = "kicked"
		w.k.Violation("census:kick-refused-several-reports", w.rep(map[string]any{"step": st, "user": u}),
			"one kick of user %s refused %d reports", u, ref1-ref0)
	}
	if st.Probe != 0 {
		// the kick is consumed: the user's other connection keeps working and its report is allowed
		o := w.conns[st.Probe]
		rep2, ref2 := w.rec.counts(u)
		w.rec.mark(fmt.Sprintf("probe c%d after kick of %s", st.Probe, u))
		w.traffic(vfC15Xfer{Conn: st.Probe, Kind: "tcp_up", N: 2000})
		w.settle(500 * time.Millisecond)
		rep3, ref3 := w.rec.counts(u)
		if rep3 == rep2 {
			w.k.Inconclusive(fmt.Sprintf("%s: probe on c%d produced no traffic report", w.c.CaseID, st.Probe))
		} else if ref3 != ref2 {
			o.ended = "kicked" // what really happened, so that later census checks stay meaningful
			w.k.Violation("census:kick-refuses-more-than-once", w.rep(map[string]any{"step": st, "user": u}),
				"after the kick of user %s had refused one report of c%d, a report of the user's other connection c%d was refused too (no new kick)", u, st.Conn, st.Probe)
		} else {
			w.k.Count("ev_kick_consumed_other_conn_allowed", 1)
		}
	}
}

// kickReconnect: POST /kick for a user, then ALL of the user's connections (st.Conns, possibly none:
// the user has never been online) go away before any of them reports traffic. The user comes back
// (st.New[0]); its first traffic report is the user's next report after the kick and must be refused,
// which disconnects that connection. One more connection (st.New[1]) then reports and is accepted.
func (w *vfC15World) kickReconnect(st vfC15Step, label string) {
	u := st.Arg
	w.rec.mark("kick " + u + " (" + st.Op + ")")
	rep0, _ := w.rec.counts(u)
	if err := vfC15Kick(w.stats, []string{u}); err != nil {
		w.t.Fatalf("harness: %v", err)
	}
	w.k.Count("ev_"+st.Op, 1)
	var fs []func()
	for _, kx := range st.Conns {
		c := w.conns[kx]
		fs = append(fs, func() { w.closeConn(c) })
		if c.ended == "" {
			c.ended = "closed"
		}
	}
	vfC15Par(fs...)
	w.settle(1 * time.Second)
	if rep1, _ := w.rec.counts(u); rep1 != rep0 {
		w.k.Inconclusive(fmt.Sprintf("%s: user %s reported traffic between the kick and the disconnects", label, u))
		return
	}
	w.census(label + ": kicked user's connections all gone")
	first := w.connect(w.c.Conns[st.New[0]-1])
	w.settle(1 * time.Second)
	w.census(label + ": kicked user is back")
	if !first.live() {
		return
	}
	rep1, ref1 := w.rec.counts(u)
	kind := "tcp_up"
	if st.New[0]%2 == 0 {
		kind = "udp"
	}
	w.traffic(vfC15Xfer{Conn: st.New[0], Kind: kind, N: 1500})
	w.settle(1 * time.Second)
	rep2, ref2 := w.rec.counts(u)
	switch {
	case rep2 == rep1:
		w.k.Inconclusive(fmt.Sprintf("%s: c%d produced no traffic report", label, st.New[0]))
		return
	case ref2 == ref1:
		w.k.Violation("census:kick-lost-across-reconnect", w.rep(map[string]any{"step": st, "user": u}),
			"user %s was kicked while it had %d connection(s); they all disconnected without reporting traffic; the user reconnected (c%d) and its next %d traffic report(s) were all accepted — the kick was lost", u, len(st.Conns), st.New[0], rep2-rep1)
	default:
		first.ended = "kicked"
		w.k.Count("ev_kick_survived_reconnect", 1)
		if ref2-ref1 > 1 {
			w.k.Violation("census:kick-refused-several-reports", w.rep(map[string]any{"step": st, "user": u}), "one kick of user %s refused %d reports", u, ref2-ref1)
		}
		if !w.disconnected(first) {
			w.k.Violation("census:kicked-connection-not-disconnected", w.rep(map[string]any{"step": st, "user": u}),
				"the report of c%d (user %s) was refused after a kick but the client still has a working connection", st.New[0], u)
		}
	}
	w.census(label + ": after the reconnected user's first report")
	second := w.connect(w.c.Conns[st.New[1]-1])
	w.settle(1 * time.Second)
	if !second.live() {
		return
	}
	rep3, ref3 := w.rec.counts(u)
	w.traffic(vfC15Xfer{Conn: st.New[1], Kind: "tcp_up", N: 1500})
	w.settle(500 * time.Millisecond)
	rep4, ref4 := w.rec.counts(u)
	if rep4 == rep3 {
		w.k.Inconclusive(fmt.Sprintf("%s: c%d produced no traffic report", label, st.New[1]))
	} else if ref4 != ref3 {
		second.ended = "kicked"
		w.k.Violation("census:kick-refuses-more-than-once", w.rep(map[string]any{"step": st, "user": u}),
			"after the kick of user %s had been consumed, a report of the user's next connection c%d was refused too (no new kick)", u, st.New[1])
	} else {
		w.k.Count("ev_kick_consumed_next_conn_allowed", 1)
	}
}

// census compares, per user, the recorder's balance, GET /online and the harness's own table.
func (w *vfC15World) census(label string) {
	exp := map[string]int{}
	for _, c := range w.conns {
		if c.live() {
			exp[c.plan.User]++
		}
	}
	w.rec.mu.Lock()
	bal := map[string]int{}
	for u, n := range w.rec.bal {
		bal[u] = n
	}
	neg := w.rec.negatives
	w.rec.negatives = nil
	w.rec.mu.Unlock()
	for _, e := range neg {
		w.k.Violation("census:online-balance-negative", w.rep(map[string]any{"at": label, "event": e}),
			"offline reported for user %s without a matching online report: running balance %d", e.ID, e.Bal)
	}
	online, err := vfC15Online(w.stats)
	if err != nil {
		w.t.Fatalf("harness: %v", err)
	}
	users := map[string]bool{}
	for _, u := range w.c.Users {
		users[u] = true
	}
	for u := range bal {
		users[u] = true
	}
	for u := range online {
		users[u] = true
	}
	var names []string
	for u := range users {
		names = append(names, u)
	}
	sort.Strings(names)
	state := map[string]any{}
	for k, c := range w.conns {
		state[fmt.Sprintf("c%d", k)] = map[string]any{"user": c.plan.User, "kind": c.plan.Kind, "authenticated": c.authed, "ended": c.ended}
	}
	for _, u := range names {
		w.k.Count("ev_census_user_checks", 1)
		if bal[u] != exp[u] {
			w.k.Violation("census:online-balance-mismatch", w.rep(map[string]any{"at": label, "user": u, "balance": bal[u], "expected": exp[u], "connections": state}),
				"%s: user %s has %d connected authenticated connection(s) but Σonline−Σoffline = %d", label, u, exp[u], bal[u])
		}
		n, listed := online[u]
		switch {
		case listed && n < 0:
			w.k.Violation("census:online-listing-negative", w.rep(map[string]any{"at": label, "user": u, "online": online}), "%s: GET /online lists %s: %d", label, u, n)
		case listed && n == 0 && exp[u] == 0:
			w.k.Violation("census:online-listing-stale-zero-entry", w.rep(map[string]any{"at": label, "user": u, "online": online}),
				"%s: user %s has no connection left but GET /online still lists the user (with 0)", label, u)
		case int(n) != exp[u]:
			w.k.Violation("census:online-listing-mismatch", w.rep(map[string]any{"at": label, "user": u, "online": online, "expected": exp[u], "connections": state}),
				"%s: user %s has %d connected authenticated connection(s) but GET /online shows %d", label, u, exp[u], n)
		}
	}
	if w.rnd.Intn(2) == 0 {
		m, err := vfC15Traffic(w.stats, true)
		if err != nil {
			w.t.Fatalf("harness: %v", err)
		}
		w.cmu.Lock()
		w.cl.add(m)
		w.cmu.Unlock()
		w.k.Count("ev_census_clear_polls", 1)
	}
}

func (w *vfC15World) step(i int, st vfC15Step) {
	label := fmt.Sprintf("%s step %d (%s)", w.c.CaseID, i, st.Op)
	w.rec.mark(label)
	// a poller hits the real handler while the step runs (virtual 5 ms period)
	stop := make(chan struct{})
	pdone := make(chan struct{})
	go func() {
		defer close(pdone)
		for {
			select {
			case <-stop:
				return
			case <-time.After(5 * time.Millisecond):
			}
			if m, err := vfC15Traffic(w.stats, true); err == nil {
				w.cmu.Lock()
				w.cl.add(m)
				w.cmu.Unlock()
			}
			_, _ = vfC15Online(w.stats)
		}
	}()
	settle := 1 * time.Second
	switch st.Op {
	case "connect":
		w.connect(w.c.Conns[st.Conn-1])
	case "traffic":
		var fs []func()
		for _, tr := range st.Traffic {
			fs = append(fs, func() { w.traffic(tr) })
		}
		vfC15Par(fs...)
	case "reauth":
		w.reauth(w.conns[st.Conn], st.Arg)
	case "kick":
		w.kick(st)
	case "kick_reconnect", "kick_offline":
		w.kickReconnect(st, label)
	case "close":
		var fs []func()
		for _, k := range st.Conns {
			c := w.conns[k]
			fs = append(fs, func() { w.closeConn(c) })
			if c.ended == "" {
				c.ended = "closed"
			}
		}
		vfC15Par(fs...)
	case "vanish":
		c := w.conns[st.Conn]
		w.router.Blackhole(c.addr)
		c.ended = "vanished"
		settle = 40 * time.Second // server idle timeout is 30 s
	case "server_close":
		_ = w.srv.Close()
		<-w.sdone
		for _, c := range w.conns {
			if c.ended == "" {
				c.ended = "server_closed"
			}
		}
	}
	close(stop)
	<-pdone
	w.settle(settle)
	w.census(label)
}

func (w *vfC15World) closeConn(c *vfC15Conn) {
	for i := len(c.closeF) - 1; i >= 0; i-- {
		c.closeF[i]()
	}
	c.closeF = nil
	c.mu.Lock()
	us := c.hyUDPs
	c.hyUDPs = nil
	c.mu.Unlock()
	for _, u := range us {
		_ = u.Close()
	}
	if c.hy != nil {
		_ = c.hy.Close()
	}
	if c.raw != nil {
		c.raw.close()
	}
}

// vfC15NewWorld starts the real server with the real stats server behind the recorder. In a bubble.
func vfC15NewWorld(t *testing.T, k *vfKit, c vfC15CensusCase) *vfC15World {
	{
		w := &vfC15World{t: t, k: k, c: c, conns: map[int]*vfC15Conn{}, cl: vfC15NewSums(), rnd: k.Rand(c.CaseID + "/run")}
		w.router = &vfC15Router{nodes: map[string]simnet.PacketReceiver{}, blackhole: map[string]bool{}, latency: time.Duration(c.LatencyMs) * time.Millisecond}
		w.stats = NewTrafficStatsServer(vfC15Secret)
		w.rec = vfC15NewRec(w.stats)
		w.auth = &vfC15Auth{delay: time.Duration(c.AuthDelayMs) * time.Millisecond, noSleep: map[string]bool{}}
		for _, p := range c.Conns {
			for _, a := range p.Pre {
				if a == "race" {
					w.auth.noSleep[w.clientAddr(p.K).String()] = true
				}
			}
		}
		w.out = &vfC15Outbound{targets: map[string]*vfC15BufConn{}, sinks: map[string]*vfC15UDPSink{}, noEcho: map[string]bool{}}
		w.saddr = &net.UDPAddr{IP: net.ParseIP("10.0.0.1"), Port: 443}
		cfg := &server.Config{
			TLSConfig:     server.TLSConfig{Certificates: []tls.Certificate{vfC15TLSCert()}},
			Conn:          simnet.NewBlockingSimConn(w.saddr, w.router),
			Outbound:      w.out,
			Authenticator: w.auth,
			TrafficLogger: w.rec,
		}
		cfg.QUICConfig.DisablePathMTUDiscovery = true
		s, err := server.NewServer(cfg)
		if err != nil {
			t.Fatalf("harness: server: %v", err)
		}
		w.srv = s
		w.sdone = make(chan struct{})
		go func() { _ = s.Serve(); close(w.sdone) }()
		return w
	}
}

func vfC15CensusRun(t *testing.T, k *vfKit, c vfC15CensusCase) {
	synctest.Test(t, func(t *testing.T) {
		w := vfC15NewWorld(t, k, c)

		// initial connections: all at once
		var fs []func()
		for _, kx := range c.Initial {
			p := c.Conns[kx-1]
			fs = append(fs, func() { w.connect(p) })
		}
		vfC15Par(fs...)
		w.settle(1 * time.Second)
		w.census(c.CaseID + " after initial connects")
		serverClosed := false
		if !w.failed.Load() {
			for i, st := range c.Steps {
				w.step(i, st)
				if st.Op == "server_close" {
					serverClosed = true
				}
				if w.failed.Load() {
					break
				}
			}
		}
		// teardown
		for _, cn := range w.conns {
			w.closeConn(cn)
		}
		if !serverClosed {
			_ = w.srv.Close()
			<-w.sdone
		}
		w.out.mu.Lock()
		for _, tg := range w.out.targets {
			_ = tg.Close()
		}
		w.out.mu.Unlock()
		w.settle(1 * time.Second)
		if w.failed.Load() {
			return
		}
		// everybody is gone: nothing may be left online
		for _, cn := range w.conns {
			if cn.ended == "" {
				cn.ended = "closed"
			}
		}
		w.census(c.CaseID + " after teardown")
		// bytes: Σ cleared + final == Σ allowed
		final, err := vfC15Traffic(w.stats, false)
		if err != nil {
			t.Fatalf("harness: %v", err)
		}
		got := vfC15NewSums()
		got.merge(w.cl)
		got.add(final)
		w.rec.mu.Lock()
		defer w.rec.mu.Unlock()
		ids := map[string]bool{}
		for u := range got.tx {
			ids[u] = true
		}
		for u := range w.rec.allowedTx {
			ids[u] = true
		}
		for u := range w.rec.allowedRx {
			ids[u] = true
		}
		for u := range ids {
			if got.tx[u] != w.rec.allowedTx[u] || got.rx[u] != w.rec.allowedRx[u] {
				k.Violation("census:bytes-not-conserved", map[string]any{"case_id": c.CaseID, "case": c, "user": u,
					"snapshots_tx": got.tx[u], "snapshots_rx": got.rx[u], "allowed_tx": w.rec.allowedTx[u], "allowed_rx": w.rec.allowedRx[u]},
					"user %s: Σ cleared snapshots + final = tx %d rx %d, the server's allowed reports sum to tx %d rx %d",
					u, got.tx[u], got.rx[u], w.rec.allowedTx[u], w.rec.allowedRx[u])
			}
			k.Count("ev_census_bytes_users", 1)
		}
		var on, off, reports, refused int
		for _, n := range w.rec.on {
			on += n
		}
		for _, n := range w.rec.off {
			off += n
		}
		for _, n := range w.rec.reports {
			reports += n
		}
		for _, n := range w.rec.refused {
			refused += n
		}
		k.Count("ev_online_reports", int64(on))
		k.Count("ev_offline_reports", int64(off))
		k.Count("ev_traffic_reports", int64(reports))
		k.Count("ev_traffic_refused", int64(refused))
		k.Count("ev_authenticator_calls", w.auth.calls.Load())
	})
}

// vfC15CensusGen draws a script; it simulates which connections are alive so that every step is applicable.
func vfC15CensusGen(k *vfKit, caseID string) vfC15CensusCase {
	r := k.Rand(caseID)
	c := vfC15CensusCase{CaseID: caseID, LatencyMs: 1 + r.Intn(20)}
	if r.Intn(2) == 0 {
		c.AuthDelayMs = 1 + r.Intn(40)
	}
	nu := 2 + r.Intn(3)
	for i := 0; i < nu; i++ {
		c.Users = append(c.Users, fmt.Sprintf("%s-user%d", caseID, i+1))
	}
	nc := 7 + r.Intn(3)
	live := map[int]bool{} // authenticated and connected
	open := map[int]bool{} // has a client object that can be closed
	for i := 1; i <= nc; i++ {
		p := vfC15ConnPlan{K: i, User: c.Users[r.Intn(nu)]}
		if i <= 2 {
			p.User = c.Users[0] // at least two connections share a user
		}
		switch x := r.Intn(100); {
		case x < 40:
			p.Kind = "hy"
		case x < 85 || i <= 2:
			p.Kind = "raw"
			if i <= 2 && x >= 85 {
				p.Kind = "hy"
				break
			}
			for r.Intn(3) == 0 {
				p.Pre = append(p.Pre, "bad")
			}
			if r.Intn(3) == 0 {
				p.Pre = append(p.Pre, "race")
			}
			for r.Intn(2) == 0 && len(p.Post) < 3 {
				p.Post = append(p.Post, []string{"again", "other", "bad"}[r.Intn(3)])
			}
		default:
			// never authenticated: rejected attempts only, or no attempt at all. (A real client with a
			// wrong password is not used: client.connect() leaves the 404 response body open, which
			// leaks http3's per-request goroutine, and the bubble then refuses to exit.)
			p.Kind, p.User = "raw_noauth", ""
			for r.Intn(3) != 0 && len(p.Pre) < 3 {
				p.Pre = append(p.Pre, "bad")
			}
		}
		c.Conns = append(c.Conns, p)
	}
	nInit := nc - 1 - r.Intn(2)
	mark := func(i int) {
		p := c.Conns[i-1]
		if p.Kind == "hy" || p.Kind == "raw" {
			live[i] = true
		}
		if p.Kind != "hy_bad" {
			open[i] = true
		}
	}
	for i := 1; i <= nInit; i++ {
		c.Initial = append(c.Initial, i)
		mark(i)
	}
	next := nInit + 1
	liveList := func() []int {
		var l []int
		for i := 1; i <= nc; i++ {
			if live[i] {
				l = append(l, i)
			}
		}
		return l
	}
	nsteps := nc + 2 + r.Intn(4)
	didKick := false
	for s := 0; s < nsteps; s++ {
		ll := liveList()
		x := r.Intn(100)
		if s == 1 && !didKick {
			x = 40 // every script kicks at least once, early, while most connections are still there
		}
		switch {
		case x < 25 && len(ll) > 0:
			st := vfC15Step{Op: "traffic"}
			r.Shuffle(len(ll), func(a, b int) { ll[a], ll[b] = ll[b], ll[a] })
			n := 1 + r.Intn(3)
			if n > len(ll) {
				n = len(ll)
			}
			for _, kx := range ll[:n] {
				st.Traffic = append(st.Traffic, vfC15Xfer{Conn: kx, Kind: []string{"tcp_up", "tcp_down", "udp"}[r.Intn(3)], N: 1 + r.Intn(70000)})
			}
			c.Steps = append(c.Steps, st)
		case x < 35:
			var raws []int
			for _, kx := range ll {
				if c.Conns[kx-1].Kind == "raw" {
					raws = append(raws, kx)
				}
			}
			if len(raws) == 0 {
				continue
			}
			c.Steps = append(c.Steps, vfC15Step{Op: "reauth", Conn: raws[r.Intn(len(raws))], Arg: []string{"again", "other", "bad"}[r.Intn(3)]})
		case x < 60 && len(ll) > 1:
			v := ll[r.Intn(len(ll))]
			if !didKick { // prefer a user with two connections for the first kick
				v = 1
				if !live[1] {
					v = ll[0]
				}
			}
			st := vfC15Step{Op: "kick", Conn: v, Arg: []string{"tcp_up", "tcp_down", "udp_up", "udp_down"}[r.Intn(4)]}
			for _, o := range ll {
				if o != v && c.Conns[o-1].User == c.Conns[v-1].User {
					st.Probe = o
					break
				}
			}
			live[v], open[v] = false, true
			didKick = true
			c.Steps = append(c.Steps, st)
		case x < 75:
			var cand []int
			for i := 1; i <= nc; i++ {
				if open[i] {
					cand = append(cand, i)
				}
			}
			if len(cand) == 0 || len(ll) <= 1 {
				continue
			}
			r.Shuffle(len(cand), func(a, b int) { cand[a], cand[b] = cand[b], cand[a] })
			n := 1 + r.Intn(2)
			if n > len(cand) {
				n = len(cand)
			}
			st := vfC15Step{Op: "close", Conns: append([]int(nil), cand[:n]...)}
			for _, kx := range st.Conns {
				live[kx], open[kx] = false, false
			}
			c.Steps = append(c.Steps, st)
		case x < 85 && len(ll) > 1:
			v := ll[r.Intn(len(ll))]
			live[v] = false
			c.Steps = append(c.Steps, vfC15Step{Op: "vanish", Conn: v})
		default:
			if next > nc {
				continue
			}
			c.Steps = append(c.Steps, vfC15Step{Op: "connect", Conn: next})
			mark(next)
			next++
		}
	}
	for ; next <= nc; next++ {
		c.Steps = append(c.Steps, vfC15Step{Op: "connect", Conn: next})
		mark(next)
	}
	// every script: (a) kick a user that has 1..2 connections, all of which then close before any
	// traffic, the user reconnects; (b) kick a user that has never been online, who then connects.
	// Both are inserted at PRNG positions after the point where their victims are known to be alive,
	// i.e. here at the end of the drawn steps (the connections are still those of `live`).
	newPlan := func(user string) int {
		kx := len(c.Conns) + 1
		kind := "hy"
		if r.Intn(2) == 0 {
			kind = "raw"
		}
		c.Conns = append(c.Conns, vfC15ConnPlan{K: kx, Kind: kind, User: user})
		return kx
	}
	byUser := map[string][]int{}
	for _, kx := range liveList() {
		byUser[c.Conns[kx-1].User] = append(byUser[c.Conns[kx-1].User], kx)
	}
	var cand []string
	for _, u := range c.Users {
		if n := len(byUser[u]); n >= 1 && n <= 2 {
			cand = append(cand, u)
		}
	}
	tail := []vfC15Step{}
	if len(cand) > 0 {
		u := cand[r.Intn(len(cand))]
		st := vfC15Step{Op: "kick_reconnect", Arg: u, Conns: byUser[u]}
		st.New = []int{newPlan(u), newPlan(u)}
		tail = append(tail, st)
	} else {
		// nobody has 1..2 connections left: bring a fresh user online with one connection first
		u := fmt.Sprintf("%s-user%d", caseID, len(c.Users)+1)
		c.Users = append(c.Users, u)
		kx := newPlan(u)
		tail = append(tail, vfC15Step{Op: "connect", Conn: kx})
		st := vfC15Step{Op: "kick_reconnect", Arg: u, Conns: []int{kx}}
		st.New = []int{newPlan(u), newPlan(u)}
		tail = append(tail, st)
	}
	{
		u := fmt.Sprintf("%s-latecomer", caseID)
		c.Users = append(c.Users, u)
		st := vfC15Step{Op: "kick_offline", Arg: u}
		st.New = []int{newPlan(u), newPlan(u)}
		if r.Intn(2) == 0 {
			tail = append(tail, st)
		} else {
			tail = append([]vfC15Step{st}, tail...)
		}
	}
	c.Steps = append(c.Steps, tail...)
	c.Steps = append(c.Steps, vfC15Step{Op: "server_close"})
	return c
}

func TestVerifC15Census(t *testing.T) {
	k := vfNewKit(t, "C15", "c15-census")
	defer k.Finish()
	vfC15TLSCert() // outside the bubbles
	// go1.25.0: collect between bubbles only (a GC cycle while a bubble is alive can freeze it)
	defer debug.SetGCPercent(debug.SetGCPercent(-1))
	n := k.N(4, 38)
	for i := 0; i < n; i++ {
		runtime.GC()
		caseID := fmt.Sprintf("census-%d", i)
		if rc := k.ReplayCase(); rc != "" && rc != caseID {
			continue
		}
		c := vfC15CensusGen(k, caseID)
		k.Eval()
		k.Count("ev_connections", int64(len(c.Conns)))
		var sig []string
		interesting := false
		for _, p := range c.Conns {
			sig = append(sig, p.Kind+":"+strings.Join(p.Pre, "+")+":"+strings.Join(p.Post, "+"))
		}
		for _, st := range c.Steps {
			sig = append(sig, st.Op+"/"+st.Arg)
			if st.Op == "kick" || st.Op == "vanish" || st.Op == "kick_reconnect" {
				interesting = true
			}
		}
		if interesting {
			k.Nontrivial(strings.Join(sig, ","))
		}
		if i < 2 {
			k.Sample(c)
		}
		// one subtest per case: synctest.Test calls FailNow on its parent when the bubble's test
		// failed, and under -race a report from anywhere (e.g. the known unsynchronised read of
		// h3sHandler.authenticated in core/server, not a C15 matter) fails it. The next case must still run.
		t.Run(caseID, func(t *testing.T) { vfC15CensusRun(t, k, c) })
	}
}
