//go:build verif

package trafficlogger

// C15 — Traffic stats API conserves bytes; kick and online counts are exact.
//
// This file holds the two component-level parts (see DESIGN.md §3 C15); the census over a real
// server lives in c15_census_test.go.
//
//   c15-conserve: 16 logger goroutines call the real LogTraffic for 2..6 users while pollers hit the
//                 real HTTP handler (GET /traffic, GET /traffic?clear=1, GET /online, POST /kick,
//                 requests without the secret). Per user, exact integers, tx and rx separately:
//                 Σ(cleared snapshots) + final snapshot == Σ bytes of the reports that returned true.
//                 Bytes of refused reports are NOT in that sum (the statement says "logged as allowed").
//                 Counting checks that need no interleaving knowledge: refusals(u) <= kick requests
//                 naming u; a sequential epilogue per user (kick -> next report refused, the one after
//                 allowed; online +n -n -> user not listed). This is also the -race workload: the hot
//                 path shares no harness atomics/locks between loggers and pollers, so the only
//                 synchronisation the detector sees is the lock of the code under test.
//   c15-linhist:  records many short concurrent histories (call/return stamps from one atomic counter)
//                 of {log, snapshot(clear?), kick, online-state, online()} into $VERIF_OUT/c15-hist.jsonl;
//                 the verdict is given offline by checkers/cmd/c15lin (porcupine).

import (
	"bytes"
	"encoding/json"
	"fmt"
	"io"
	"math/rand"
	"net/http"
	"net/http/httptest"
	"os"
	"path/filepath"
	"runtime"
	"sort"
	"sync"
	"sync/atomic"
	"testing"
)

const vfC15Secret = "vf-c15-secret-7f3a"

// vfC15TR is the documented JSON shape of one user's entry in GET /traffic.
type vfC15TR struct {
	Tx uint64 `json:"tx"`
	Rx uint64 `json:"rx"`
}

func vfC15Req(method, target, secret string, body []byte) *http.Request {
	var rd io.Reader
	if body != nil {
		rd = bytes.NewReader(body)
	}
	req := httptest.NewRequest(method, target, rd)
	if secret != "" {
		req.Header.Set("Authorization", secret)
	}
	return req
}

func vfC15HTTP(h http.Handler, method, target, secret string, body []byte) (int, []byte) {
	rec := httptest.NewRecorder()
	h.ServeHTTP(rec, vfC15Req(method, target, secret, body))
	return rec.Code, rec.Body.Bytes()
}

func vfC15Traffic(h http.Handler, clear bool) (map[string]vfC15TR, error) {
	target := "/traffic"
	if clear {
		target = "/traffic?clear=1"
	}
	code, body := vfC15HTTP(h, http.MethodGet, target, vfC15Secret, nil)
	if code != http.StatusOK {
		return nil, fmt.Errorf("GET %s -> %d %q", target, code, body)
	}
	m := map[string]vfC15TR{}
	if err := json.Unmarshal(body, &m); err != nil {
		return nil, fmt.Errorf("GET %s: %v in %q", target, err, body)
	}
	return m, nil
}

func vfC15Online(h http.Handler) (map[string]int64, error) {
	code, body := vfC15HTTP(h, http.MethodGet, "/online", vfC15Secret, nil)
	if code != http.StatusOK {
		return nil, fmt.Errorf("GET /online -> %d %q", code, body)
	}
	m := map[string]int64{}
	if err := json.Unmarshal(body, &m); err != nil {
		return nil, fmt.Errorf("GET /online: %v in %q", err, body)
	}
	return m, nil
}

func vfC15Kick(h http.Handler, users []string) error {
	b, _ := json.Marshal(users)
	code, body := vfC15HTTP(h, http.MethodPost, "/kick", vfC15Secret, b)
	if code != http.StatusOK {
		return fmt.Errorf("POST /kick %s -> %d %q", b, code, body)
	}
	return nil
}

// vfC15Amount draws a byte count: zeros, small, chunk-sized and > 32-bit values.
func vfC15Amount(r *rand.Rand) uint64 {
	switch x := r.Intn(100); {
	case x < 8:
		return 0
	case x < 50:
		return uint64(1 + r.Intn(1500))
	case x < 90:
		return uint64(1 + r.Intn(32*1024))
	case x < 97:
		return uint64(r.Int63n(1 << 33))
	default:
		return uint64(r.Int63n(1 << 45))
	}
}

// ---------------------------------------------------------------- conservation

type vfC15ConsCase struct {
	CaseID       string `json:"case_id"`
	Users        int    `json:"users"`
	Loggers      int    `json:"loggers"`
	ClearPollers int    `json:"clear_pollers"`
	PlainPollers int    `json:"plain_pollers"`
	OpsPerLogger int    `json:"ops_per_logger"`
	KickPause    int    `json:"kick_pause_yields"`
	HotUser      bool   `json:"hot_user"`
}

type vfC15Sums struct {
	tx, rx map[string]uint64
}

func vfC15NewSums() vfC15Sums { return vfC15Sums{map[string]uint64{}, map[string]uint64{}} }

func (s vfC15Sums) add(m map[string]vfC15TR) {
	for u, e := range m {
		s.tx[u] += e.Tx
		s.rx[u] += e.Rx
	}
}

func (s vfC15Sums) merge(o vfC15Sums) {
	for u, v := range o.tx {
		s.tx[u] += v
	}
	for u, v := range o.rx {
		s.rx[u] += v
	}
}

func vfC15ConsRound(t *testing.T, k *vfKit, c vfC15ConsCase) {
	srv := NewTrafficStatsServer(vfC15Secret)
	users := make([]string, c.Users)
	for i := range users {
		users[i] = fmt.Sprintf("%s-u%d", c.CaseID, i+1) // unique per round: an effect names its round
	}
	pick := func(r *rand.Rand) string {
		if c.HotUser && r.Intn(2) == 0 {
			return users[0]
		}
		return users[r.Intn(len(users))]
	}
	rep := func(extra map[string]any) map[string]any {
		m := map[string]any{"case_id": c.CaseID, "case": c}
		for a, b := range extra {
			m[a] = b
		}
		return m
	}

	type logRes struct {
		allowed       vfC15Sums
		refusedTx     map[string]uint64
		refusedRx     map[string]uint64
		refused       map[string]int64
		nAllowed      int64
		onlineToggles int64
	}
	logRess := make([]logRes, c.Loggers)
	var lwg sync.WaitGroup
	start := make(chan struct{})
	for li := 0; li < c.Loggers; li++ {
		lwg.Add(1)
		go func(li int) {
			defer lwg.Done()
			r := k.Rand(fmt.Sprintf("%s/logger%d", c.CaseID, li))
			res := logRes{allowed: vfC15NewSums(), refusedTx: map[string]uint64{}, refusedRx: map[string]uint64{}, refused: map[string]int64{}}
			var onStack []string // users this goroutine has reported online and not yet offline
			<-start
			for i := 0; i < c.OpsPerLogger; i++ {
				u := pick(r)
				tx, rx := vfC15Amount(r), vfC15Amount(r)
				if r.Intn(3) == 0 { // like the server: most reports carry one direction only
					if r.Intn(2) == 0 {
						tx = 0
					} else {
						rx = 0
					}
				}
				if srv.LogTraffic(u, tx, rx) {
					res.allowed.tx[u] += tx
					res.allowed.rx[u] += rx
					res.nAllowed++
				} else {
					res.refused[u]++
					res.refusedTx[u] += tx
					res.refusedRx[u] += rx
				}
				switch r.Intn(24) {
				case 0:
					ou := pick(r)
					srv.LogOnlineState(ou, true)
					onStack = append(onStack, ou)
					res.onlineToggles++
				case 1:
					if n := len(onStack); n > 0 {
						srv.LogOnlineState(onStack[n-1], false)
						onStack = onStack[:n-1]
						res.onlineToggles++
					}
				case 2:
					runtime.Gosched()
				}
			}
			for _, ou := range onStack {
				srv.LogOnlineState(ou, false)
				res.onlineToggles++
			}
			logRess[li] = res
		}(li)
	}

	var stop atomic.Bool
	var pwg sync.WaitGroup
	cleared := make([]vfC15Sums, c.ClearPollers)
	var clearPolls, clearNonEmpty, plainPolls, onlinePolls, unauthPolls atomic.Int64
	type pollErr struct {
		key, msg string
		extra    map[string]any
	}
	var perrMu sync.Mutex
	var perrs []pollErr
	unauthCleared := vfC15NewSums() // guarded by perrMu
	addErr := func(key, msg string, extra map[string]any) {
		perrMu.Lock()
		if len(perrs) < 10 {
			perrs = append(perrs, pollErr{key, msg, extra})
		}
		perrMu.Unlock()
	}
	for pi := 0; pi < c.ClearPollers; pi++ {
		cleared[pi] = vfC15NewSums()
		pwg.Add(1)
		go func(pi int) {
			defer pwg.Done()
			r := k.Rand(fmt.Sprintf("%s/clear%d", c.CaseID, pi))
			<-start
			for !stop.Load() {
				m, err := vfC15Traffic(srv, true)
				if err != nil {
					addErr("trafficlogger:snapshot-request-failed", err.Error(), nil)
					return
				}
				cleared[pi].add(m)
				clearPolls.Add(1)
				if len(m) > 0 {
					clearNonEmpty.Add(1)
				}
				for j := r.Intn(8); j > 0; j-- {
					runtime.Gosched()
				}
			}
		}(pi)
	}
	for pi := 0; pi < c.PlainPollers; pi++ {
		pwg.Add(1)
		go func(pi int) {
			defer pwg.Done()
			r := k.Rand(fmt.Sprintf("%s/plain%d", c.CaseID, pi))
			<-start
			for !stop.Load() {
				switch r.Intn(4) {
				case 0: // online listing: never negative, never a zero entry
					m, err := vfC15Online(srv)
					if err != nil {
						addErr("trafficlogger:online-request-failed", err.Error(), nil)
						return
					}
					onlinePolls.Add(1)
					for u, n := range m {
						if n < 0 {
							addErr("trafficlogger:online-negative", fmt.Sprintf("GET /online lists %s with %d connections", u, n), map[string]any{"online": m})
						} else if n == 0 {
							addErr("trafficlogger:online-stale-zero-entry", fmt.Sprintf("GET /online lists %s with 0 connections", u), map[string]any{"online": m})
						}
					}
				case 1: // without the secret: whatever it answers, it must not take bytes away
					target := "/traffic?clear=1"
					code, body := vfC15HTTP(srv, http.MethodGet, target, "", nil)
					unauthPolls.Add(1)
					if code == http.StatusOK {
						// served anyway: then it is a snapshot taken with clear and belongs into the sum
						m := map[string]vfC15TR{}
						if json.Unmarshal(body, &m) == nil {
							perrMu.Lock()
							unauthCleared.add(m)
							perrMu.Unlock()
						}
					}
				default:
					target := "/traffic"
					if r.Intn(2) == 0 {
						target = "/traffic?clear=0"
					}
					code, body := vfC15HTTP(srv, http.MethodGet, target, vfC15Secret, nil)
					m := map[string]vfC15TR{}
					if code != http.StatusOK || json.Unmarshal(body, &m) != nil {
						addErr("trafficlogger:snapshot-request-failed", fmt.Sprintf("GET %s -> %d %q", target, code, body), nil)
						return
					}
					plainPolls.Add(1)
				}
				for j := r.Intn(8); j > 0; j-- {
					runtime.Gosched()
				}
			}
		}(pi)
	}
	kicks := map[string]int64{}
	var kickReqs int64
	pwg.Add(1)
	go func() {
		defer pwg.Done()
		r := k.Rand(c.CaseID + "/kicker")
		<-start
		for !stop.Load() {
			n := 1 + r.Intn(2)
			var ids []string
			for i := 0; i < n; i++ {
				ids = append(ids, pick(r))
			}
			if err := vfC15Kick(srv, ids); err != nil {
				addErr("trafficlogger:kick-request-failed", err.Error(), nil)
				return
			}
			kickReqs++
			seen := map[string]bool{}
			for _, id := range ids {
				if !seen[id] {
					kicks[id]++
					seen[id] = true
				}
			}
			for j := r.Intn(1 + 2*c.KickPause); j > 0; j-- {
				runtime.Gosched()
			}
		}
	}()

	close(start)
	lwg.Wait()
	stop.Store(true)
	pwg.Wait()

	for _, e := range perrs {
		k.Violation(e.key, rep(e.extra), "%s", e.msg)
	}

	allowed := vfC15NewSums()
	refused := map[string]int64{}
	var nAllowed, nRefused, toggles int64
	for _, lr := range logRess {
		allowed.merge(lr.allowed)
		for u, n := range lr.refused {
			refused[u] += n
			nRefused += n
		}
		nAllowed += lr.nAllowed
		toggles += lr.onlineToggles
	}
	clearedSum := vfC15NewSums()
	for _, cs := range cleared {
		clearedSum.merge(cs)
	}
	clearedSum.merge(unauthCleared)

	// each kick request naming u can refuse at most one report of u
	for _, u := range users {
		if refused[u] > kicks[u] {
			k.Violation("trafficlogger:more-refusals-than-kicks", rep(map[string]any{"user": u, "refused": refused[u], "kicks": kicks[u]}),
				"user %s: %d reports were refused but only %d kick requests named the user", u, refused[u], kicks[u])
		}
	}

	// sequential epilogue, per user: drain a possibly pending kick, then kick -> refused exactly once.
	for _, u := range users {
		log := func(tx, rx uint64) bool {
			ok := srv.LogTraffic(u, tx, rx)
			if ok {
				allowed.tx[u] += tx
				allowed.rx[u] += rx
				nAllowed++
			} else {
				nRefused++
			}
			return ok
		}
		first := log(3, 5) // may consume a kick left pending by the concurrent phase
		if !first {
			refused[u]++
			if refused[u] > kicks[u] {
				k.Violation("trafficlogger:more-refusals-than-kicks", rep(map[string]any{"user": u, "refused": refused[u], "kicks": kicks[u]}),
					"user %s: %d reports were refused but only %d kick requests named the user", u, refused[u], kicks[u])
			}
		}
		if !log(7, 11) {
			k.Violation("trafficlogger:kick-refuses-more-than-once", rep(map[string]any{"user": u, "first_epilogue_report_ok": first}),
				"user %s: with no kick request since the previous report, the next report was refused again (a kick must be consumed by the one report it refuses)", u)
			continue
		}
		if err := vfC15Kick(srv, []string{u}); err != nil {
			t.Fatalf("harness: %v", err)
		}
		kicks[u]++
		before, err := vfC15Traffic(srv, false)
		if err != nil {
			t.Fatalf("harness: %v", err)
		}
		if log(13, 17) {
			k.Violation("trafficlogger:kick-not-enforced", rep(map[string]any{"user": u}),
				"user %s was kicked (POST /kick 200) but the next traffic report returned true", u)
		} else {
			after, err := vfC15Traffic(srv, false)
			if err != nil {
				t.Fatalf("harness: %v", err)
			}
			if before[u] != after[u] {
				k.Violation("trafficlogger:refused-report-counted", rep(map[string]any{"user": u, "before": before[u], "after": after[u]}),
					"user %s: the refused report (13/17 bytes) changed the counters from %+v to %+v", u, before[u], after[u])
			}
		}
		if !log(19, 23) {
			k.Violation("trafficlogger:kick-refuses-more-than-once", rep(map[string]any{"user": u}),
				"user %s: one kick refused two consecutive reports", u)
		}
		k.Count("ev_epilogue_kick_cycles", 1)
		// The kick belongs to the USER's next report, whatever connects or disconnects in between:
		// the user's connections (1, then 2) all go away after the kick and before any report, the
		// user comes back, and the first report is the one that must be refused. Third variant: the
		// user is not online at all when kicked (n = 0), connects afterwards and reports.
		for _, n := range []int{1, 2, 0} {
			for j := 0; j < n; j++ {
				srv.LogOnlineState(u, true)
			}
			if err := vfC15Kick(srv, []string{u}); err != nil {
				t.Fatalf("harness: %v", err)
			}
			kicks[u]++
			for j := 0; j < n; j++ {
				srv.LogOnlineState(u, false)
			}
			if on, err := vfC15Online(srv); err == nil {
				if v, listed := on[u]; listed {
					k.Violation("trafficlogger:online-count-wrong", rep(map[string]any{"user": u, "online": on}), "user %s went online %d times and offline %d times but is still listed: %d", u, n, n, v)
				}
			}
			srv.LogOnlineState(u, true)
			if log(29, 31) {
				k.Violation("trafficlogger:kick-lost-across-reconnect", rep(map[string]any{"user": u, "connections_before_kick": n}),
					"user %s: POST /kick while the user had %d connection(s), all of them went offline without reporting traffic, the user came back online, and the next traffic report returned true (the kick was lost)", u, n)
			} else if !log(37, 41) {
				k.Violation("trafficlogger:kick-refuses-more-than-once", rep(map[string]any{"user": u, "connections_before_kick": n}),
					"user %s: one kick (issued before a reconnect) refused two consecutive reports", u)
			}
			srv.LogOnlineState(u, false)
			k.Count("ev_epilogue_kick_reconnect_cycles", 1)
		}
	}

	// online: balanced toggles -> nobody listed; then +n / -n sequentially
	on, err := vfC15Online(srv)
	if err != nil {
		t.Fatalf("harness: %v", err)
	}
	for u, n := range on {
		key := "trafficlogger:online-stale-after-balanced-toggles"
		if n == 0 {
			key = "trafficlogger:online-stale-zero-entry"
		} else if n < 0 {
			key = "trafficlogger:online-negative"
		}
		k.Violation(key, rep(map[string]any{"user": u, "online": on}), "after every online report was paired with an offline report GET /online still lists %s: %d", u, n)
	}
	for i, u := range users {
		n := int64(1 + i%3)
		for j := int64(0); j < n; j++ {
			srv.LogOnlineState(u, true)
		}
		on, _ = vfC15Online(srv)
		if on[u] != n {
			k.Violation("trafficlogger:online-count-wrong", rep(map[string]any{"user": u, "online": on, "want": n}), "after %d online reports GET /online shows %s: %d", n, u, on[u])
		}
		for j := int64(0); j < n; j++ {
			srv.LogOnlineState(u, false)
		}
		on, _ = vfC15Online(srv)
		if v, listed := on[u]; listed {
			key := "trafficlogger:online-stale-zero-entry"
			if v != 0 {
				key = "trafficlogger:online-count-wrong"
			}
			k.Violation(key, rep(map[string]any{"user": u, "online": on}), "after %d online and %d offline reports GET /online still lists %s: %d", n, n, u, v)
		}
		k.Count("ev_epilogue_online_cycles", 1)
	}

	// final snapshots: one with clear (goes into the cleared sum), then the final plain one, twice.
	m, err := vfC15Traffic(srv, true)
	if err != nil {
		t.Fatalf("harness: %v", err)
	}
	clearedSum.add(m)
	final, err := vfC15Traffic(srv, false)
	if err != nil {
		t.Fatalf("harness: %v", err)
	}
	final2, _ := vfC15Traffic(srv, false)
	if fmt.Sprint(final) != fmt.Sprint(final2) {
		k.Violation("trafficlogger:plain-snapshot-not-idempotent", rep(map[string]any{"first": final, "second": final2}), "two consecutive GET /traffic without clear differ with no report in between")
	}
	got := vfC15NewSums()
	got.merge(clearedSum)
	got.add(final)
	seenUsers := map[string]bool{}
	for _, u := range users {
		seenUsers[u] = true
	}
	for u := range got.tx {
		if !seenUsers[u] {
			k.Violation("trafficlogger:unknown-user-in-snapshot", rep(map[string]any{"user": u}), "snapshots contain user %q for which nothing was ever reported", u)
		}
	}
	for _, u := range users {
		if got.tx[u] != allowed.tx[u] || got.rx[u] != allowed.rx[u] {
			k.Violation("trafficlogger:bytes-not-conserved", rep(map[string]any{
				"user": u, "snapshots_tx": got.tx[u], "snapshots_rx": got.rx[u], "allowed_tx": allowed.tx[u], "allowed_rx": allowed.rx[u],
				"diff_tx": int64(got.tx[u] - allowed.tx[u]), "diff_rx": int64(got.rx[u] - allowed.rx[u]),
				"clear_polls": clearPolls.Load(), "refused_reports": refused[u],
			}), "user %s: Σ cleared snapshots + final = tx %d rx %d, but the reports that returned true sum to tx %d rx %d (diff tx %d rx %d; %d clearing polls ran concurrently)",
				u, got.tx[u], got.rx[u], allowed.tx[u], allowed.rx[u], int64(got.tx[u]-allowed.tx[u]), int64(got.rx[u]-allowed.rx[u]), clearPolls.Load())
		}
		k.Count("ev_users_balanced", 1)
	}

	k.Count("ev_log_allowed", nAllowed)
	k.Count("ev_log_refused", nRefused)
	k.Count("ev_clear_polls", clearPolls.Load())
	k.Count("clear_polls_nonempty", clearNonEmpty.Load())
	k.Count("ev_plain_polls", plainPolls.Load())
	k.Count("ev_online_polls", onlinePolls.Load())
	k.Count("ev_unauth_polls", unauthPolls.Load())
	k.Count("ev_kick_requests", kickReqs)
	k.Count("ev_online_toggles", toggles)
	if clearNonEmpty.Load() > 0 && nRefused > 0 && nAllowed > 0 {
		k.Nontrivial(fmt.Sprintf("%+v", c))
	}
}

func TestVerifC15Conservation(t *testing.T) {
	k := vfNewKit(t, "C15", "c15-conserve")
	defer k.Finish()
	total := k.N(200_000, 5_000_000)
	rounds := k.N(20, 100)
	r := k.Rand("rounds")
	for i := 0; i < rounds; i++ {
		c := vfC15ConsCase{
			CaseID:       fmt.Sprintf("cons-%d", i),
			Users:        2 + r.Intn(5),
			Loggers:      16,
			ClearPollers: 1 + r.Intn(2),
			PlainPollers: 1 + r.Intn(2),
			KickPause:    20 + r.Intn(400),
			HotUser:      r.Intn(2) == 0,
		}
		c.PlainPollers = 4 - c.ClearPollers
		if c.PlainPollers < 1 {
			c.PlainPollers = 1
		}
		c.OpsPerLogger = total / rounds / c.Loggers
		if rc := k.ReplayCase(); rc != "" && rc != c.CaseID {
			continue
		}
		k.Eval()
		if i < 2 {
			k.Sample(c)
		}
		vfC15ConsRound(t, k, c)
	}
}

// ---------------------------------------------------------------- linearizability histories

// vfC15Op is one completed operation of a recorded history (one JSON object; see checkers/cmd/c15lin).
type vfC15Op struct {
	Client int                `json:"c"`
	Kind   string             `json:"k"` // log | snap | kick | onl | online
	User   string             `json:"u,omitempty"`
	Tx     uint64             `json:"tx,omitempty"`
	Rx     uint64             `json:"rx,omitempty"`
	Ok     bool               `json:"ok,omitempty"`    // log: return value
	Clear  bool               `json:"clear,omitempty"` // snap
	On     bool               `json:"on,omitempty"`    // onl
	Users  []string           `json:"users,omitempty"` // kick
	Snap   map[string]vfC15TR `json:"snap,omitempty"`  // snap result
	Online map[string]int64   `json:"online,omitempty"`
	Call   int64              `json:"call"`
	Ret    int64              `json:"ret"`
	raw    []byte
}

type vfC15History struct {
	ID    string    `json:"id"`
	Seed  int64     `json:"seed"`
	Users []string  `json:"users"`
	Ops   []vfC15Op `json:"ops"`
}

var vfC15SpinSink atomic.Uint32

// vfC15YieldWriter is the harness-owned http.ResponseWriter handed to the handler in recorded
// histories: it yields the processor whenever the handler touches it (and vfC15YieldBody whenever
// the handler reads the request body). The handler calls these outside or inside its critical
// sections, so the call/return intervals of HTTP operations really contain other clients'
// operations even when the machine is too loaded for the clients to run in parallel.
type vfC15YieldWriter struct {
	*httptest.ResponseRecorder
	n int
}

func (w *vfC15YieldWriter) yield() {
	for j := 0; j < w.n; j++ {
		runtime.Gosched()
	}
}
func (w *vfC15YieldWriter) Header() http.Header { w.yield(); return w.ResponseRecorder.Header() }
func (w *vfC15YieldWriter) Write(b []byte) (int, error) {
	w.yield()
	return w.ResponseRecorder.Write(b)
}
func (w *vfC15YieldWriter) WriteHeader(code int) { w.yield(); w.ResponseRecorder.WriteHeader(code) }

type vfC15YieldBody struct {
	r io.Reader
	n int
}

func (b *vfC15YieldBody) Read(p []byte) (int, error) {
	for j := 0; j < b.n; j++ {
		runtime.Gosched()
	}
	return b.r.Read(p)
}
func (b *vfC15YieldBody) Close() error { return nil }

func vfC15RecordHistory(k *vfKit, id string) (vfC15History, error) {
	r := k.Rand(id)
	srv := NewTrafficStatsServer(vfC15Secret)
	nUsers := 2 + r.Intn(5)
	users := make([]string, nUsers)
	for i := range users {
		users[i] = fmt.Sprintf("u%d", i+1)
	}
	// In half of the histories one user is "quiet": sessions and kicks hit it, but nobody reports
	// traffic for it before the epilogue — so a kick stays pending across online/offline transitions.
	quiet := ""
	if r.Intn(2) == 0 {
		quiet = users[r.Intn(nUsers)]
	}
	const nLoggers, nPollers, nKickers = 16, 4, 1
	nClients := nLoggers + nPollers + nKickers
	var ctr atomic.Int64 // the ONE monotonic counter all call/return stamps come from
	perClient := make([][]vfC15Op, nClients)
	var ready atomic.Int32
	var wg sync.WaitGroup
	var herrMu sync.Mutex
	var herr error
	// between operations: either yield (reorders clients) or burn a few microseconds without
	// yielding (keeps the clients on their CPUs so that calls really overlap)
	pause := func(r *rand.Rand) {
		if r.Intn(3) == 0 {
			for j := r.Intn(6); j > 0; j-- {
				runtime.Gosched()
			}
			return
		}
		x := uint32(1)
		for j := r.Intn(12000); j > 0; j-- {
			x = x*1664525 + 1013904223
		}
		vfC15SpinSink.Store(x)
	}
	barrier := func() {
		ready.Add(1)
		for int(ready.Load()) < nClients {
			runtime.Gosched()
		}
	}
	for ci := 0; ci < nClients; ci++ {
		wg.Add(1)
		go func(ci int) {
			defer wg.Done()
			r := k.Rand(fmt.Sprintf("%s/client%d", id, ci))
			var ops []vfC15Op
			nops := 2 + r.Intn(2)
			var onStack []string
			// pre-draw everything so the timed section only contains the calls
			type plan struct {
				kind   string
				user   string
				tx, rx uint64
				clear  bool
				on     bool
				users  []string
				req    *http.Request
			}
			var plans []plan
			for i := 0; i < nops; i++ {
				switch {
				case ci < nLoggers && ci%3 == 0:
					// "session" client: one connection's life — online, maybe a report, offline. The
					// offline report comes only after this client's own online report has returned, so
					// the count can never be negative in any linearization. Sessions make the user's
					// count go 0 -> n -> 0 (-> n ...) between kicks and reports.
					if i > 0 {
						continue
					}
					u := users[r.Intn(nUsers)]
					if quiet != "" && r.Intn(2) == 0 {
						u = quiet
					}
					plans = append(plans, plan{kind: "onl", user: u, on: true})
					if u != quiet && r.Intn(2) == 0 {
						plans = append(plans, plan{kind: "log", user: u, tx: vfC15Amount(r) % 100000, rx: vfC15Amount(r) % 100000})
					}
					plans = append(plans, plan{kind: "onl", user: u, on: false})
				case ci < nLoggers:
					u := users[r.Intn(nUsers)]
					for u == quiet { // nobody reports for the quiet user before the epilogue
						u = users[r.Intn(nUsers)]
					}
					switch x := r.Intn(10); {
					case x == 0:
						plans = append(plans, plan{kind: "onl", user: u, on: true})
						onStack = append(onStack, u)
					case x == 1 && len(onStack) > 0:
						plans = append(plans, plan{kind: "onl", user: onStack[len(onStack)-1], on: false})
						onStack = onStack[:len(onStack)-1]
					default:
						plans = append(plans, plan{kind: "log", user: u, tx: vfC15Amount(r) % 100000, rx: vfC15Amount(r) % 100000})
					}
				case ci < nLoggers+nPollers:
					pi := ci - nLoggers
					switch {
					case r.Intn(5) == 0:
						plans = append(plans, plan{kind: "online", req: vfC15Req(http.MethodGet, "/online", vfC15Secret, nil)})
					case pi < 2: // two clearing pollers
						plans = append(plans, plan{kind: "snap", clear: true, req: vfC15Req(http.MethodGet, "/traffic?clear=1", vfC15Secret, nil)})
					default: // two plain pollers
						plans = append(plans, plan{kind: "snap", req: vfC15Req(http.MethodGet, "/traffic", vfC15Secret, nil)})
					}
				default:
					n := 1 + r.Intn(2)
					seen := map[string]bool{}
					var ids []string
					for j := 0; j < n; j++ {
						u := users[r.Intn(nUsers)]
						if quiet != "" && r.Intn(2) == 0 {
							u = quiet
						}
						if !seen[u] {
							seen[u] = true
							ids = append(ids, u)
						}
					}
					b, _ := json.Marshal(ids)
					plans = append(plans, plan{kind: "kick", users: ids, req: vfC15Req(http.MethodPost, "/kick", vfC15Secret, b)})
				}
			}
			barrier()
			for j := r.Intn(20); j > 0; j-- {
				runtime.Gosched()
			}
			for _, p := range plans {
				pause(r)
				op := vfC15Op{Client: ci, Kind: p.kind, User: p.user, Tx: p.tx, Rx: p.rx, Clear: p.clear, On: p.on, Users: p.users}
				switch p.kind {
				case "log":
					op.Call = ctr.Add(1)
					op.Ok = srv.LogTraffic(p.user, p.tx, p.rx)
					op.Ret = ctr.Add(1)
				case "onl":
					op.Call = ctr.Add(1)
					srv.LogOnlineState(p.user, p.on)
					op.Ret = ctr.Add(1)
				default:
					rec := httptest.NewRecorder()
					yw := &vfC15YieldWriter{ResponseRecorder: rec, n: r.Intn(4)}
					if p.req.Body != nil && p.req.Body != http.NoBody {
						p.req.Body = &vfC15YieldBody{r: p.req.Body, n: r.Intn(4)}
					}
					op.Call = ctr.Add(1)
					srv.ServeHTTP(yw, p.req)
					op.Ret = ctr.Add(1)
					if rec.Code != http.StatusOK {
						herrMu.Lock()
						herr = fmt.Errorf("%s %s -> %d", p.req.Method, p.req.URL, rec.Code)
						herrMu.Unlock()
						return
					}
					op.raw = rec.Body.Bytes()
				}
				ops = append(ops, op)
			}
			perClient[ci] = ops
		}(ci)
	}
	wg.Wait()
	if herr != nil {
		return vfC15History{}, herr
	}
	h := vfC15History{ID: id, Seed: k.Seed, Users: users}
	for _, ops := range perClient {
		h.Ops = append(h.Ops, ops...)
	}
	// sequential epilogue (strictly after everything above): it makes the final state visible.
	// Per user: a report (shows whether a kick of the concurrent phase is still pending), then
	// online, kick, offline (count back to 0), online, report (must be the refused one), report, offline.
	ep := nClients
	epLog := func(u string, tx, rx uint64) {
		op := vfC15Op{Client: ep, Kind: "log", User: u, Tx: tx, Rx: rx}
		op.Call = ctr.Add(1)
		op.Ok = srv.LogTraffic(u, tx, rx)
		op.Ret = ctr.Add(1)
		h.Ops = append(h.Ops, op)
	}
	epOnl := func(u string, on bool) {
		op := vfC15Op{Client: ep, Kind: "onl", User: u, On: on}
		op.Call = ctr.Add(1)
		srv.LogOnlineState(u, on)
		op.Ret = ctr.Add(1)
		h.Ops = append(h.Ops, op)
	}
	for ui, u := range users {
		epLog(u, 1, 10)
		n := ui % 3 // connections online when the kick arrives: 0 (kicked while offline), 1, 2
		for j := 0; j < n; j++ {
			epOnl(u, true)
		}
		b, _ := json.Marshal([]string{u})
		op := vfC15Op{Client: ep, Kind: "kick", Users: []string{u}}
		rec := httptest.NewRecorder()
		req := vfC15Req(http.MethodPost, "/kick", vfC15Secret, b)
		op.Call = ctr.Add(1)
		srv.ServeHTTP(rec, req)
		op.Ret = ctr.Add(1)
		if rec.Code != http.StatusOK {
			return h, fmt.Errorf("POST /kick -> %d", rec.Code)
		}
		h.Ops = append(h.Ops, op)
		for j := 0; j < n; j++ {
			epOnl(u, false)
		}
		epOnl(u, true)
		epLog(u, 2, 11)
		epLog(u, 3, 12)
		epOnl(u, false)
	}
	for _, target := range []string{"/traffic", "/online", "/traffic?clear=1", "/traffic"} {
		op := vfC15Op{Client: ep, Kind: "snap", Clear: target == "/traffic?clear=1"}
		if target == "/online" {
			op.Kind = "online"
		}
		rec := httptest.NewRecorder()
		req := vfC15Req(http.MethodGet, target, vfC15Secret, nil)
		op.Call = ctr.Add(1)
		srv.ServeHTTP(rec, req)
		op.Ret = ctr.Add(1)
		if rec.Code != http.StatusOK {
			return h, fmt.Errorf("GET %s -> %d", target, rec.Code)
		}
		op.raw = rec.Body.Bytes()
		h.Ops = append(h.Ops, op)
	}
	for i := range h.Ops {
		op := &h.Ops[i]
		switch op.Kind {
		case "snap":
			op.Snap = map[string]vfC15TR{}
			if err := json.Unmarshal(op.raw, &op.Snap); err != nil {
				return h, fmt.Errorf("snapshot body %q: %v", op.raw, err)
			}
		case "online":
			op.Online = map[string]int64{}
			if err := json.Unmarshal(op.raw, &op.Online); err != nil {
				return h, fmt.Errorf("online body %q: %v", op.raw, err)
			}
		}
	}
	sort.SliceStable(h.Ops, func(a, b int) bool { return h.Ops[a].Call < h.Ops[b].Call })
	return h, nil
}

func TestVerifC15LinHist(t *testing.T) {
	k := vfNewKit(t, "C15", "c15-linhist")
	defer k.Finish()
	n := k.N(300, 5000)
	path := filepath.Join(k.Out, "c15-hist.jsonl")
	f, err := os.Create(path)
	if err != nil {
		t.Fatalf("harness: %v", err)
	}
	defer f.Close()
	enc := json.NewEncoder(f)
	for i := 0; i < n; i++ {
		id := fmt.Sprintf("hist-%d", i)
		if rc := k.ReplayCase(); rc != "" && rc != id {
			continue
		}
		h, err := vfC15RecordHistory(k, id)
		if err != nil {
			t.Fatalf("harness: history %s: %v", id, err)
		}
		k.Eval()
		// overlap actually achieved: operations whose [call,ret] intervals intersect another one's
		overl := 0
		var maxRet int64
		for _, op := range h.Ops { // sorted by call
			if op.Call < maxRet {
				overl++
			}
			if op.Ret > maxRet {
				maxRet = op.Ret
			}
		}
		k.Count("ev_hist_ops", int64(len(h.Ops)))
		k.Count("hist_ops_overlapping_an_earlier_op", int64(overl))
		if overl > 0 {
			k.Nontrivial(fmt.Sprintf("%s/%d/%d", id, len(h.Ops), overl))
		}
		if err := enc.Encode(h); err != nil {
			t.Fatalf("harness: %v", err)
		}
		if i == 0 {
			s := h
			if len(s.Ops) > 12 {
				s.Ops = s.Ops[:12]
			}
			k.Sample(map[string]any{"history_head": s, "file": "c15-hist.jsonl", "judged_by": "checkers/cmd/c15lin"})
		}
	}
	k.Count("histories_recorded", int64(n))
}
