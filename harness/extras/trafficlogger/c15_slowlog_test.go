//go:build verif

package trafficlogger

// C15, part 4 — online/offline notifications keep their order when the logger is slow.
//
// Same world as the census (real server on simnet in a bubble, the REAL stats server behind the
// recording pass-through vfC15Rec), but the pass-through's LogOnlineState is SLOW: it sleeps 0 / 50 ms /
// 700 ms of virtual time before it records and forwards the call, as a contended or remote logger
// would. Clients authenticate and go away immediately / after a short while / stay; several
// connections of one user id overlap; some raw clients close while their authentication is still
// being answered.
//
// Oracle (the statement: the online listing shows the number of currently connected authenticated
// connections, never negative, not stale after a disconnect):
//   * per id, in DELIVERY order at the stats server, an offline event is never delivered before the
//     online event it belongs to: Σonline − Σoffline of delivered events is never negative
//     (for an id with a single connection that is exactly "online before offline");
//   * at quiescence (every connection goroutine finished + 3 s virtual, more than the largest delay)
//     balance == GET /online == number of still-open authenticated connections per id; after all
//     connections are closed (by the clients or by closing the server) the listing is {} and
//     Σonline == Σoffline per id.

import (
	"fmt"
	"runtime"
	"runtime/debug"
	"sync"
	"testing"
	"testing/synctest"
	"time"
)

type vfC15SlowConn struct {
	K       int    `json:"k"`
	Kind    string `json:"kind"` // hy | raw | raw_abort (closes while the authentication is being answered)
	User    string `json:"user"`
	StartMs int    `json:"start_ms"`
	LifeMs  int    `json:"life_ms"` // after the client saw the acceptance; -1 = stays until the end; raw_abort: ms after sending the request
}

type vfC15SlowCase struct {
	CaseID    string          `json:"case_id"`
	LatencyMs int             `json:"latency_ms"`
	Mode      string          `json:"mode"` // online-slow | offline-slow | both-slow | random
	DelayMs   int             `json:"delay_ms"`
	Users     []string        `json:"users"`
	Conns     []vfC15SlowConn `json:"conns"`
	EndBy     string          `json:"end_by"` // client | server
}

func vfC15SlowGen(k *vfKit, caseID string, i int) vfC15SlowCase {
	r := k.Rand(caseID)
	c := vfC15SlowCase{CaseID: caseID, LatencyMs: 1 + r.Intn(15)}
	c.Mode = []string{"online-slow", "random", "online-slow", "both-slow", "random", "offline-slow"}[i%6]
	c.DelayMs = []int{700, 50}[(i/2)%2]
	c.EndBy = []string{"client", "server"}[r.Intn(2)]
	nu := 1 + r.Intn(3)
	for u := 0; u < nu; u++ {
		c.Users = append(c.Users, fmt.Sprintf("%s-user%d", caseID, u+1))
	}
	nc := 5 + r.Intn(4)
	for j := 1; j <= nc; j++ {
		sc := vfC15SlowConn{K: j, User: c.Users[r.Intn(nu)], StartMs: r.Intn(150)}
		if j <= 2 { // a user of its own: for these ids the delivered sequence must be exactly online, offline
			sc.User = fmt.Sprintf("%s-solo%d", caseID, j)
			c.Users = append(c.Users, sc.User)
		}
		switch x := r.Intn(10); {
		case x < 4:
			sc.Kind = "hy"
		case x < 8:
			sc.Kind = "raw"
		default:
			sc.Kind = "raw_abort"
		}
		sc.LifeMs = []int{0, 0, 0, 20, 300, 2000, -1}[r.Intn(7)]
		if j == 1 {
			sc.Kind, sc.LifeMs = []string{"hy", "raw"}[r.Intn(2)], 0 // every case: authenticate and go away at once
		}
		if j == 3 {
			sc.LifeMs = -1 // every case: somebody is still there at the first census
		}
		if sc.Kind == "raw_abort" {
			sc.LifeMs = r.Intn(40)
		}
		c.Conns = append(c.Conns, sc)
	}
	return c
}

func vfC15SlowRun(t *testing.T, k *vfKit, c vfC15SlowCase) {
	synctest.Test(t, func(t *testing.T) {
		cc := vfC15CensusCase{CaseID: c.CaseID, LatencyMs: c.LatencyMs, Users: c.Users}
		for _, sc := range c.Conns {
			kind := sc.Kind
			if kind == "raw_abort" {
				kind = "raw_noauth"
			}
			cc.Conns = append(cc.Conns, vfC15ConnPlan{K: sc.K, Kind: kind, User: sc.User})
		}
		w := vfC15NewWorld(t, k, cc)
		var dmu sync.Mutex // never held while sleeping
		dr := k.Rand(c.CaseID + "/delays")
		w.rec.delay = func(id string, online bool) time.Duration {
			d := time.Duration(c.DelayMs) * time.Millisecond
			switch c.Mode {
			case "online-slow":
				if !online {
					d = 0
				}
			case "offline-slow":
				if online {
					d = 0
				}
			case "random":
				dmu.Lock()
				d = []time.Duration{0, 50 * time.Millisecond, 700 * time.Millisecond}[dr.Intn(3)]
				dmu.Unlock()
			}
			return d
		}
		rep := func(extra map[string]any) map[string]any {
			m := map[string]any{"case_id": c.CaseID, "case": c}
			for a, b := range extra {
				m[a] = b
			}
			return m
		}

		var fs []func()
		for i, sc := range c.Conns {
			plan := cc.Conns[i]
			fs = append(fs, func() {
				time.Sleep(time.Duration(sc.StartMs) * time.Millisecond)
				cn := w.connect(plan)
				if w.failed.Load() {
					return
				}
				if sc.Kind == "raw_abort" {
					// send good credentials and leave while the server is still answering
					res := make(chan int, 1)
					go func() {
						st, _ := cn.raw.authReq("ok:" + sc.User)
						res <- st
					}()
					time.Sleep(time.Duration(sc.LifeMs) * time.Millisecond)
					w.closeConn(cn)
					<-res
					cn.plan.User = sc.User
					cn.ended = "closed" // whatever the server decided, the connection is gone
					k.Count("ev_slowlog_aborted_during_auth", 1)
					return
				}
				if sc.LifeMs < 0 {
					k.Count("ev_slowlog_stayers", 1)
					return
				}
				if sc.LifeMs == 0 {
					k.Count("ev_slowlog_closed_at_once", 1)
				}
				time.Sleep(time.Duration(sc.LifeMs) * time.Millisecond)
				w.closeConn(cn)
				cn.ended = "closed"
			})
		}
		vfC15Par(fs...)
		if !w.failed.Load() {
			w.settle(3 * time.Second)
			w.census(c.CaseID + " (slow logger) after the short-lived connections are gone")
			// the rest goes away too
			if c.EndBy == "client" {
				var cl []func()
				for _, cn := range w.conns {
					if cn.ended == "" {
						cl = append(cl, func() { w.closeConn(cn) })
					}
				}
				vfC15Par(cl...)
			} else {
				_ = w.srv.Close()
				<-w.sdone
				w.srv = nil
			}
			for _, cn := range w.conns {
				if cn.ended == "" {
					cn.ended = "closed"
				}
			}
			w.settle(3 * time.Second)
			w.census(c.CaseID + " (slow logger) after everybody left")
		}
		// teardown
		for _, cn := range w.conns {
			w.closeConn(cn)
		}
		if w.srv != nil {
			_ = w.srv.Close()
			<-w.sdone
		}
		w.settle(3 * time.Second)
		if w.failed.Load() {
			return
		}
		w.rec.mu.Lock()
		defer w.rec.mu.Unlock()
		for _, e := range w.rec.negatives { // anything delivered late, after the last census
			k.Violation("census:online-balance-negative", rep(map[string]any{"event": e}),
				"offline delivered for user %s before the matching online: running balance %d", e.ID, e.Bal)
		}
		var on, off int
		for id, n := range w.rec.on {
			on += n
			off += w.rec.off[id]
			if n != w.rec.off[id] {
				k.Violation("census:online-offline-unpaired", rep(map[string]any{"user": id, "online_events": n, "offline_events": w.rec.off[id]}),
					"all connections are gone but user %s got %d online and %d offline notifications", id, n, w.rec.off[id])
			}
		}
		for id, n := range w.rec.off {
			if _, ok := w.rec.on[id]; !ok && n > 0 {
				off += n
				k.Violation("census:online-offline-unpaired", rep(map[string]any{"user": id, "online_events": 0, "offline_events": n}),
					"user %s got %d offline notifications and no online notification", id, n)
			}
		}
		// delivery order, written out for ids with one connection
		seq := map[string][]string{}
		for _, e := range w.rec.evs {
			if e.Kind == "online" || e.Kind == "offline" {
				seq[e.ID] = append(seq[e.ID], e.Kind)
			}
		}
		for _, sc := range c.Conns[:2] {
			s := seq[sc.User]
			ok := len(s) == 0 && sc.Kind == "raw_abort" || len(s) == 2 && s[0] == "online" && s[1] == "offline"
			if !ok {
				k.Violation("census:online-offline-order", rep(map[string]any{"user": sc.User, "delivered": s, "conn": sc}),
					"the only connection of user %s was delivered as %v, want [online offline]", sc.User, s)
			} else if len(s) == 2 {
				k.Count("ev_slowlog_solo_pairs_in_order", 1)
			}
		}
		k.Count("ev_slowlog_online_delivered", int64(on))
		k.Count("ev_slowlog_offline_delivered", int64(off))
		k.Count("ev_slowlog_connections", int64(len(c.Conns)))
	})
}

func TestVerifC15SlowLogger(t *testing.T) {
	k := vfNewKit(t, "C15", "c15-slowlog")
	defer k.Finish()
	vfC15TLSCert()
	// go1.25.0: collect between bubbles only (a GC cycle while a bubble is alive can freeze it)
	defer debug.SetGCPercent(debug.SetGCPercent(-1))
	n := k.N(6, 72)
	for i := 0; i < n; i++ {
		runtime.GC()
		caseID := fmt.Sprintf("slowlog-%d", i)
		if rc := k.ReplayCase(); rc != "" && rc != caseID {
			continue
		}
		c := vfC15SlowGen(k, caseID, i)
		k.Eval()
		k.Nontrivial(fmt.Sprintf("%+v", c))
		if i < 2 {
			k.Sample(c)
		}
		t.Run(caseID, func(t *testing.T) { vfC15SlowRun(t, k, c) })
	}
}
