from propkit import job

KIT = "harness/core/internal/integration_tests/vfnet_test.go"
H = "harness/core/internal/integration_tests/c10_rate_test.go"

PARTS = ["c10-negotiate", "c10-rawclient", "c10-fakeserver", "c10-history"]
NSHARDS = 12

PROP = {
    "level": "exploration",
    "technique": ("runtime monitoring: real server / real client / raw h3 peers on simnet in synctest bubbles; the "
                  "congestion-controller installation hook (build tag verif) compared with a reference of the "
                  "PROTOCOL.md rate rule and with the rates reported to the application"),
    "jobs": [
        # quick: one process, all bubbles one after the other
        job("rate", "core", "./internal/integration_tests/", "integration_tests",
            [KIT, H], "^TestVerifC10", PARTS, race=False, tiers=("quick",), timeout_quick=600),
    ] + [
        # thorough: the same case list split over NSHARDS processes (case index mod NSHARDS)
        job("rate-s%d" % i, "core", "./internal/integration_tests/", "integration_tests",
            [KIT, H], "^TestVerifC10", [p + "-s%d" % i for p in PARTS], race=False, tiers=("thorough",),
            timeout_thorough=3600, env={"VERIF_C10_SHARD": "%d/%d" % (i, NSHARDS)})
        for i in range(NSHARDS)
    ],
    "parallel": NSHARDS,
    "min_events": 2000,
    "rule": ("Limits range over {0, 65536, 65537, 10^6, 10^9, 2^64-1}; controllers over bbr/standard, "
             "bbr/conservative, bbr/aggressive, reno. One synctest bubble per server configuration ('world'), connection "
             "attempts 2 ms (virtual) apart so about ten handshakes overlap. c10-negotiate (real server x real "
             "client.NewClient): 12 corner worlds covering every (server MaxTx, client MaxRx) pair and every (client "
             "MaxTx, server MaxRx) pair with ignore-client-bandwidth on and off (72 handshakes), 6 reno worlds (server reno x "
             "MaxTx {0, 65536, 10^6} x ignore on/off, clients declaring 0 and non-zero limits, 36 handshakes), plus quick: 30 PRNG "
             "server configurations x 5 PRNG client configurations (150 handshakes); thorough: the full product "
             "server{MaxTx,MaxRx,ignore,cc} x client{MaxTx,MaxRx,cc} = 288 x 144 = 41472 handshakes. c10-rawclient "
             "(real server, raw h3 client): server MaxTx x ignore (quick: controller rotating plus reno for MaxTx 0/65536/10^6, 17 worlds; thorough: x 4 "
             "controllers, 48 worlds) x 31 Hysteria-CC-RX request values: absent, empty, 0, 1, 65535/65536/65537, "
             "10^6, 10^9, 2^64-1, leading zeros, 2^64, 2^65, 10^32, signed (-1, -65536, +65536), non-numeric (abc, "
             "auto, 1e6, 0x10000, 1_000_000, 1.5, 65536.0, NaN, inner space, comma list, ;q=1), leading/trailing "
             "space or tab. c10-fakeserver (real client, plain http3 server answering 233): client MaxTx x 23 "
             "Hysteria-CC-RX response values (auto, absent, empty, 0, 1, numbers, 2^64-1, overflow, garbage incl. "
             "'automatic', whitespace-padded) x Hysteria-UDP true/false/absent/garbage rotating (quick: controller "
             "rotating, 138 handshakes; thorough: x 4 controllers, 552). c10-history (real server x real client, ONE "
             "*client.Config value reused): 2..4 successive handshakes against servers at the same address whose answer "
             "is auto (A) / a numeric limit (N) / unlimited (U); mode newclient = client.NewClient(cfg) per step, mode "
             "reconnect = NewReconnectableClient whose configFunc returns the same cfg and the server is replaced "
             "between steps; quick: all 9 orders of length 2 in both modes, all 27 of length 3, 12 PRNG of length 4 (57 "
             "histories, 165 handshakes); thorough: all 117 orders of length 2..4 x both modes x 3 client "
             "configurations (702 histories). Every step is judged with the limits the client was originally "
             "configured with, and the caller's Config.BandwidthConfig must be unchanged after each handshake. "
             "Per handshake the oracle compares (a) the "
             "controller effective on each end (hook: the last report that installs something, brutal+bps / bbr+profile; a "
             "'reno' report installs nothing, so Reno only if nothing was installed before) with the reference rule; "
             "server-end reports that precede the connection's auth_ok in the ordered log are recorded and name the "
             "violation when the effective controller is not the ruled one, "
             "(b) HandshakeInfo.Tx and every EventLogger.Connect(tx) with the rate installed on that end (0 unless "
             "brutal), (c) each side's own Hysteria-CC-RX declaration with its configured receive limit ('auto' when "
             "ignoring). A handshake is non-trivial when it completed with 233; distinct = distinct (server config, "
             "client config or header value). Thorough tier splits the world list over 12 processes (index mod 12); "
             "bubbles of one process run one after the other with the collector run between them. In every part the "
             "congestion type and BBR profile are written into the Config in a fixed rotation of spellings (lower, "
             "Capitalised, UPPER, mIxEd, empty where the default means the same); the hook report is compared with the "
             "canonical meaning (lower-case type/profile). Spellings a tree rejects at NewServer/NewClient are skipped "
             "and counted (none on the clean tree)."),
    "assumptions": [
        "the verif-tagged hook in core/internal/congestion/utils.go reports exactly what UseBrutal/UseBBR/UseConfigured "
        "hand to quic-go's SetCongestionControl (reno = default left in place); quic-go itself is trusted to use it",
        "own send limit 0 means 'unlimited' for the server and 'unknown -> configured controller' for the client",
        "readings left open by PROTOCOL.md admit both outcomes: a decimal value >= 2^64 may count as 0 or saturate at "
        "2^64-1; optional whitespace around a value may or may not be stripped before parsing",
        "the authenticator's tx argument is the client's raw declaration by design and is only counted, not judged",
        "wire behaviour of the installed controllers is the subject of C11/C12, not of this check",
        "congestion type / BBR profile are case-insensitive and empty means bbr / standard (what the tree's own config "
        "validation accepts and utils.go documents)",
    ],
}
