from propkit import job

PROP = {
    "level": "exploration",
    "technique": "reference decoder + counting/chunking reader around the real readers and writers",
    "jobs": [
        job("proto", "core", "./internal/protocol/", "protocol",
            ["harness/core/internal/protocol/c04_model_test.go",
             "harness/core/internal/protocol/c04_framing_test.go"], "^TestVerifC04",
            ["roundtrip", "writers", "peer-frames", "reject", "server-path"], race=False,
            timeout_quick=600, timeout_thorough=3600),
        job("paths", "core", "./internal/integration_tests/", "integration_tests",
            ["harness/core/internal/integration_tests/vfnet_test.go",
             "harness/core/internal/integration_tests/c04_paths_test.go"], "^TestVerifC04",
            ["server-path-e2e", "client-fastopen-e2e", "client-addrlen-e2e"], race=False, timeout_quick=300, timeout_thorough=900),
    ],
    "parallel": 2,
    "min_events": 50000,
    "rule": ("[paths job, call sites in the running system: real server+raw client / real fast-open client on simnet in a "
             "bubble] server-path-e2e: 0x401 frame type in 2/4/8-byte varints x address lengths at the varint/limit "
             "boundaries x every admissible width of the address-length field, random padding length/width, payload "
             "0/1/17/4000 bytes in the same write as the frame or later; the outbound must be asked for exactly the "
             "address, the response must parse OK and the echoed payload must be unshifted. client-fastopen-e2e: dial "
             "held on the server while 0..2 client Reads time out, then released (success with a greeting of 1/9/700 "
             "bytes, or failure with a message): the next Read returns exactly the target's bytes / the dial error. client-addrlen-e2e: "
             "the real Client.TCP (plain and fast open) with target addresses of {1,2,62..65,255,2046,2047,2048} bytes: the outbound is asked "
             "for exactly that address and a 1500-byte payload behind the request is echoed unshifted. "
             "[proto job] Every case is a byte stream (frame [+ trailing tunnel payload]) handed to the real ReadTCPRequest/"
             "ReadTCPResponse through a reader that implements only io.Reader, serves a scripted chunking into "
             "non-empty reads and counts what was requested and delivered; a reference decoder written from "
             "PROTOCOL.md/RFC 9000 says what must happen (accept with this address/status/message and this frame "
             "end; reject at this length field; stream too short). roundtrip: frames from the real writers for "
             "EVERY address length 1..2048 and message length 0..2048 (fresh random padding per frame), each "
             "whole, byte-wise and in rotating chunkings with trailing payloads {0,1,17,9000}. writers: further "
             "draws of the writers' padding, written bytes must be exactly one well-formed frame. peer-frames: "
             "harness-encoded frames over lengths {0/1,2,62,63,64,65,255,1024,2047,2048} x padding "
             "{0,1,63,64,65,300,4095,4096} x EVERY varint width (1/2/4/8 that fits, i.e. incl. non-minimal) of both "
             "length fields x all chunkings (whole, byte-wise, max 2, max N, 3 random densities, one cut at every "
             "field boundary and one byte either side, all boundaries, EOF together with the last byte) x trailing "
             "{0,1,17} (quick tier: lengths {0/1,62,63,64,255,2047,2048} x padding {0,1,63,64,4095,4096}, one trailing "
             "length per combination, still every width and every chunking); truncation at every field boundary; "
             "PRNG streams mixing valid/over-limit/truncated. "
             "reject: address 0 and {2049,2050,4096,4097,16383,16384,2^16,2^20,2^30-1,2^30,2^62-1}, message likewise, "
             "padding {4097,4098,8192,16383,16384,...,2^62-1} in every width and chunking, with 0 .. the full "
             "declared amount of data available behind the header (quick tier: over-limit padding behind 5 instead of "
             "20 address/message settings). server-path: 0x401 (2/4/8-byte varint) read "
             "with quicvarint.Read(quicvarint.NewReader(stream)) as ProxyStreamHijacker does, then ReadTCPRequest. "
             "A case is non-trivial when the real reader ran on it and the oracle decided; distinct = distinct "
             "(kind, lengths, varint widths, chunking, trailing length)."),
    "assumptions": [
        "a response status byte is 0x00 or 0x01 (PROTOCOL.md defines no other value)",
        "the stream under the readers behaves like an io.Reader that never returns (0, nil) for a non-empty buffer",
        "server path: the hijacker's own two lines (quicvarint.Read(quicvarint.NewReader(stream)), then ReadTCPRequest on the same stream) "
        "are reproduced in the harness; the HTTP/3 layer's peek of the frame type is outside this property's harness (C01/C06 run it for real)",
        "padding drawn by the writers comes from the process-global math/rand and is not reproducible by seed; the drawn lengths are recorded",
    ],
}
