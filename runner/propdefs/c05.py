from propkit import job

PROP = {
    "level": "exploration",
    "technique": "runtime monitoring: reference split/reassembly oracle on the real splitter, reassembler and send paths (in-package, generated sizes/orders; packet-ID census)",
    "jobs": [
        job("frag", "core", "./internal/frag/", "frag",
            ["harness/core/internal/frag/c05_test.go"], "^TestVerifC05",
            ["frag-split", "frag-reassemble", "frag-interleave", "frag-retain"], race=False,
            timeout_quick=600, timeout_thorough=3600),
        job("server-send", "core", "./server/", "server",
            ["harness/core/server/c05_send_test.go"], "^TestVerifC05ServerSend$", ["server-send"]),
        job("server-session", "core", "./server/", "server",
            ["harness/core/server/c05_session_test.go"], "^TestVerifC05Server(Session|ReceiveOrder|Backpressure)$", ["server-session", "server-recv-order", "server-backpressure"]),
        job("client-send", "core", "./client/", "client",
            ["harness/core/client/c05_send_test.go"], "^TestVerifC05Client", ["client-send", "client-session"]),
    ],
    "parallel": 4,
    "min_events": 1000,
    "rule": ("split: boundary grid over (payload size, address length, datagram limit) incl. limit<=header, "
             "255/256/257 fragments, last fragment of 1 byte, plus PRNG points; each split message is sent "
             "through Serialize->ParseUDPMessage and reassembled in order, reversed and in a random order with "
             "duplicates. reassemble: all permutations (each also with a duplicate) for 2..5 fragments, random "
             "orders with duplicates and one-fragment-dropped runs for 6..255 fragments. interleave: 2..4 "
             "messages with distinct packet IDs, shuffled / locally swapped / round-robin arrival with drops "
             "and duplicates into one Defragger. server-send / client-send: the real send paths "
             "(sendMessageAutoFrag, udpConn.Send) against a fake IO answering DatagramTooLargeError with limits at/around "
             "the header size, tiny budgets (>255 fragments) and realistic ones; whatever left must fit the limit and "
             "reassemble (sent order and shuffled) to exactly the original, or nothing was delivered. client-session: 4..11 "
             "messages through ONE udpConn, most needing the same fragment count, some cut short mid-send (send "
             "error on a later fragment, datagram limit shrinking between two fragments); all datagrams that left "
             "go in order into one far-side Defragger: every emission must be a message handed to Send and every "
             "completely sent message must be delivered once. server-session: a real udpSessionManager relays 3..10 replies "
             "of 1..3x the datagram budget while the limit reported by the fake QUIC layer moves down and up between "
             "replies; every FRAGMENT handed to the datagram layer must fit the limit in force, and what left must "
             "reassemble to exactly the replies read from the socket. server-recv-order: fragments of a message fed to a real "
             "udpSessionManager in every permutation (2..4 fragments) and in random orders with duplicates (5..34), as the "
             "first message of a session and on an existing one: the socket must receive the payload exactly once. A case is non-trivial when the message was actually split "
             "(>=2 fragments); distinct = distinct (sizes, arrival order)."),
    "assumptions": [
        "concurrent messages carry distinct packet IDs (precondition stated by the property)",
        "Serialize/ParseUDPMessage are the wire path between splitter and reassembler",
    ],
}

