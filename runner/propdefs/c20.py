from propkit import job

_D = "harness/extras/realm/"
_MODEL = _D + "c20_model_test.go"          # reference codec, STUN classifier, generators (exported API only)


def _job(name, files, run, expect):
    return job(name, "extras", "./realm/", "realm", [_MODEL] + [_D + f for f in files], run, expect, race=True,
               timeout_quick=600, timeout_thorough=3600)


PROP = {
    "level": "exploration",
    "technique": "runtime monitoring with a reference punch/STUN decoder; race detector; offline linearizability check (porcupine)",
    "jobs": [
        # One go test child per part, run side by side. Every job compiles ONLY the files it needs, and all of
        # them except "census" use the exported API only (AddPunchAttempt / RemovePunchAttempt / ReadFrom /
        # Events / STUNEvents / Respond, exported types): a change of the registry's representation can make
        # the census job unbuildable (inconclusive) but leaves every behavioural oracle running.
        _job("codec", ["c20_codec_test.go"], "^TestVerifC20Codec$", ["punch-codec"]),
        _job("seq", ["c20_seq_test.go"], "^TestVerifC20DemuxSeq$", ["demux-seq"]),
        _job("conc", ["c20_conc_test.go"], "^TestVerifC20Demux(Conc|Hammer)$", ["demux-conc", "demux-hammer"]),
        _job("server", ["c20_server_test.go"], "^TestVerifC20ServerPunch$", ["server-punch"]),
        _job("udp", ["c20_udp_test.go"], "^TestVerifC20UDPSocket$", ["udp-socket"]),
        _job("census", ["c20_server_test.go", "c20_whitebox_test.go"], "^TestVerifC20Census$", ["registry-census"]),
    ],
    "parallel": 6,
    "post": [
        {"name": "c20-lin", "glob": "c20-history*.jsonl", "cmd": ["{verif}/build/bin/c20lin"], "timeout": 3600},
    ],
    "race_oracle": True,
    "race_files": ["extras/realm/punch_conn.go", "extras/realm/punch.go"],
    "min_events": 20000,
    "rule": ("punch-codec: for 5 (thorough 11) metadata incl. all-zero, all-ff and upper-case hex, EVERY padding length "
             "0..1024 x both types is encoded by an independent encoder and must decode under its own metadata with "
             "exact type/padding and under none of six related metadata (nonce 1 bit off, key 1 bit off, both, "
             "unrelated, other attempt's nonce, other attempt's key); near-miss packets (15 constructions: bit flips "
             "in header/salt/padding, truncations, extensions, wrong magic/type/nonce/key, wrong mask construction), "
             "every single-bit flip and every truncation of a packet per (metadata,type): real verdict must equal "
             "the reference verdict; real EncodePunchPacket output must be wire-format valid under its metadata only. "
             "demux-seq: scripts of 60..260 steps over 1..16 attempts (some sharing a nonce or a key, ids re-registered "
             "under other metadata) of add/remove/packet steps executed inside the fake inner conn's ReadFrom; packets: "
             "QUIC-like, random (window-edge lengths), valid punch of registered / just-removed / removed / foreign "
             "attempts, near-miss punch, 17 kinds of STUN-family messages, odd source addresses; each packet's fate "
             "(diverted / passed) is decided against the exactly known registered set. demux-conc: worlds with 3..8 "
             "attempts, 2..3 writers, 1..3 readers, 1500 (thorough 3000) packets from unique sources; call/return "
             "stamps from one atomic counter; per-attempt histories checked in-harness (single-owner attempts, exact) "
             "and offline with porcupine as a boolean register (all attempts incl. the one toggled by every writer). "
             "demux-hammer: worlds with 6..16 goroutines that each register and at once remove 120 (thorough 200) ids "
             "used exactly once, on top of 16..128 long-lived attempts; a punch packet of id Y handed over after "
             "RemovePunchAttempt(Y) returned (right away and again in a final sweep) must reach the reader; "
             "histories also go to porcupine. "
             "server-punch: ServerPuncher.Respond in a synctest bubble: two concurrent attempts (hello / ack / "
             "timeout / cancel), a duplicate-id Respond with other metadata while the first runs (refused, changes "
             "nothing), one Respond of each refusable kind (no / invalid / family-mismatched peers, forced family, "
             "negative timeout, negative interval, malformed metadata, empty id, cancelled context) followed by "
             "packets of its metadata (must pass) and by a valid Respond with the same id (must be served); after "
             "every return the attempt's packets reach the reader again. registry-census: the same scenarios with the "
             "white-box probe (registry read under the conn's lock; the only file touching unexported state). "
             "udp-socket: PunchPacketConn over a real loopback *net.UDPConn (udp4 with 4 senders on 127.0.0.1, and "
             "dual-stack with 3 senders on 127.0.0.1 + 1 on ::1), 40..100 lock-step steps (send one datagram, wait "
             "until it is returned or its event arrives), senders switched between datagrams: returned bytes "
             "identical and source == the socket that sent it. "
             "Non-trivial: codec case = packet accepted under own metadata or near-miss rejected; seq case = script in "
             "which packets were both diverted and passed (distinct by outcome vector); conc world / lin partition = "
             "both outcomes occurred and at least one read overlapped a write."),
    "assumptions": [
        "reference punch codec written from the format documented in punch.go's header comment (8-byte salt, "
        "SHA-256(key||salt) mask repeated, magic 'HYRLMv1\\0', type 1|2, 16-byte nonce, 0..1024 padding)",
        "STUN classifier is lenient on purpose (cookie, type 0x0101, declared length <= datagram, a (XOR-)MAPPED-ADDRESS "
        "attribute incl. legacy 0x8020) and only used as 'diverted => binding success response'",
        "completeness direction (a valid punch packet of an attempt registered for the whole read, from a usable UDP "
        "source, is diverted and produces one event while the channel has room) is taken from the doc comment of "
        "PunchPacketConn and from 'stops being diverted once its attempt is removed'",
        "a punch packet from a source that is not a UDP address with IP and non-zero port may be passed through",
        "in demux-conc/porcupine each attempt id keeps one metadata for its lifetime, so membership is a boolean register",
        "porcupine partitions undecided within 2 minutes are inconclusive",
        "udp-socket uses kernel loopback sockets in strict lock-step (one datagram in flight); its only real-time "
        "element is a 20 s watchdog per datagram whose firing is inconclusive; skipped layouts (no IPv6 loopback) are counted",
        "demux-hammer: every id is registered once and removed once by one goroutine and never again, so any "
        "diversion after the removal returned is a violation regardless of interleaving",
    ],
}
