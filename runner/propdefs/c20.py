from propkit import job

_FILES = [
    "harness/extras/realm/c20_model_test.go",
    "harness/extras/realm/c20_codec_test.go",
    "harness/extras/realm/c20_seq_test.go",
    "harness/extras/realm/c20_conc_test.go",
    "harness/extras/realm/c20_server_test.go",
]

PROP = {
    "level": "exploration",
    "technique": "runtime monitoring with a reference punch/STUN decoder; race detector; offline linearizability check (porcupine)",
    "jobs": [
        # one go test child per part (same test binary, built once); run side by side
        job("codec", "extras", "./realm/", "realm", _FILES, "^TestVerifC20Codec$", ["punch-codec"], race=True,
            timeout_quick=600, timeout_thorough=3600),
        job("seq", "extras", "./realm/", "realm", _FILES, "^TestVerifC20DemuxSeq$", ["demux-seq"], race=True,
            timeout_quick=600, timeout_thorough=3600),
        job("conc", "extras", "./realm/", "realm", _FILES, "^TestVerifC20DemuxConc$", ["demux-conc"], race=True,
            timeout_quick=600, timeout_thorough=3600),
        job("server", "extras", "./realm/", "realm", _FILES, "^TestVerifC20ServerPunch$", ["server-punch"], race=True,
            timeout_quick=600, timeout_thorough=3600),
    ],
    "parallel": 4,
    "post": [
        {"name": "c20-lin", "glob": "c20-history*.jsonl", "cmd": ["{verif}/build/bin/c20lin"], "timeout": 3600},
    ],
    "race_oracle": True,
    "race_files": ["extras/realm/punch_conn.go", "extras/realm/punch.go"],
    "min_events": 20000,
    "rule": ("punch-codec: for 5 (thorough 11) metadata incl. all-zero, all-ff and upper-case hex, EVERY padding length "
             "0..1024 x both types is encoded by an independent encoder and must decode under its own metadata with "
             "exact type/padding and under none of six related metadata (nonce 1 bit off, key 1 bit off, both, "
             "unrelated, other attempt's nonce, other attempt's key); near-miss packets (15 constructions: bit flips "
             "in header/salt/padding, truncations, extensions, wrong magic/type/nonce/key, wrong mask construction), "
             "every single-bit flip and every truncation of a packet per (metadata,type): real verdict must equal "
             "the reference verdict; real EncodePunchPacket output must be wire-format valid under its metadata only. "
             "demux-seq: scripts of 60..260 steps over 1..16 attempts (some sharing a nonce or a key, ids re-registered "
             "under other metadata) of add/remove/packet steps executed inside the fake inner conn's ReadFrom; packets: "
             "QUIC-like, random (window-edge lengths), valid punch of registered / just-removed / removed / foreign "
             "attempts, near-miss punch, 17 kinds of STUN-family messages, odd source addresses; each packet's fate "
             "(diverted / passed) is decided against the exactly known registered set. demux-conc: worlds with 3..8 "
             "attempts, 2..3 writers, 1..3 readers, 1500 (thorough 3000) packets from unique sources; call/return "
             "stamps from one atomic counter; per-attempt histories checked in-harness (single-owner attempts, exact) "
             "and offline with porcupine as a boolean register (all attempts incl. the one toggled by every writer). "
             "server-punch: ServerPuncher.Respond in a synctest bubble (hello / ack / timeout / cancel / two attempts), "
             "after it returns the attempt's packets reach the reader again. "
             "Non-trivial: codec case = packet accepted under own metadata or near-miss rejected; seq case = script in "
             "which packets were both diverted and passed (distinct by outcome vector); conc world / lin partition = "
             "both outcomes occurred and at least one read overlapped a write."),
    "assumptions": [
        "reference punch codec written from the format documented in punch.go's header comment (8-byte salt, "
        "SHA-256(key||salt) mask repeated, magic 'HYRLMv1\\0', type 1|2, 16-byte nonce, 0..1024 padding)",
        "STUN classifier is lenient on purpose (cookie, type 0x0101, declared length <= datagram, a (XOR-)MAPPED-ADDRESS "
        "attribute incl. legacy 0x8020) and only used as 'diverted => binding success response'",
        "completeness direction (a valid punch packet of an attempt registered for the whole read, from a usable UDP "
        "source, is diverted and produces one event while the channel has room) is taken from the doc comment of "
        "PunchPacketConn and from 'stops being diverted once its attempt is removed'",
        "a punch packet from a source that is not a UDP address with IP and non-zero port may be passed through",
        "in demux-conc/porcupine each attempt id keeps one metadata for its lifetime, so membership is a boolean register",
        "porcupine partitions undecided within 2 minutes are inconclusive",
    ],
}
