from propkit import job

KIT = "harness/core/internal/integration_tests/vfnet_test.go"
FILES = [KIT,
         "harness/core/internal/integration_tests/c16_env_test.go",
         "harness/core/internal/integration_tests/c16_scripts_test.go"]
PKG = ("core", "./internal/integration_tests/", "integration_tests")

PROP = {
    "level": "fault_enumeration",
    "technique": ("runtime monitoring: real server + client.NewReconnectableClient on simnet (virtual time), socket-census "
                  "PacketConn with kill switches behind a single-use ConnFactory, configFunc/connectedFunc recorders, "
                  "reference state model of the statement, race detector on the concurrent part"),
    "parallel": 5,
    "race_oracle": True,
    "race_files": ["core/client/reconnect.go"],
    "jobs": [
        # one bubble at a time per process (see the note in c16_scripts_test.go): shards are separate processes
        job("enum-0", *PKG, FILES, "^TestVerifC16Enum0$", ["c16-enum-0"], race=False, timeout_quick=900, timeout_thorough=5400),
        job("enum-1", *PKG, FILES, "^TestVerifC16Enum1$", ["c16-enum-1"], race=False, timeout_quick=900, timeout_thorough=5400),
        job("enum-2", *PKG, FILES, "^TestVerifC16Enum2$", ["c16-enum-2"], race=False, timeout_quick=900, timeout_thorough=5400),
        job("scripts", *PKG, FILES, "^TestVerifC16(Random|StreamLimit)$", ["c16-random", "c16-streamlimit"], race=False,
            timeout_quick=900, timeout_thorough=5400),
        job("concurrent", *PKG, FILES, "^TestVerifC16Concurrent$", ["c16-concurrent"], race=True,
            timeout_quick=900, timeout_thorough=5400),
    ],
    "min_events": 50000,
    "rule": ("Code under test: client.NewReconnectableClient against real Hysteria server(s) on quic-go's simnet. configFunc "
             "returns a fresh Config per evaluation (credential unique per evaluation, single-use ConnFactory as in "
             "app/cmd/client.go); each factory call creates a new simnet endpoint (new source address) wrapped in a census "
             "PacketConn that counts Close calls. Kill switches: router blackhole of the socket's address (QUIC idle timeout "
             "at ~30 s virtual, with or without waiting for it), injected socket read/write error, server restart on the same "
             "address with a FRESH stateless-reset key (silent: idle timeout), server restart on the same address with the "
             "SAME StatelessResetKey (the next packet of the old connection is answered with a valid QUIC stateless "
             "reset), server-side kick (TrafficLogger refuses the connection's traffic -> server CloseWithError 0x107, the "
             "client receives CONNECTION_CLOSE with an application error), server down for the next 1..3 attempts; "
             "failing reconnects: configFunc error, factory error, rejected credential, TLS verification failure (local "
             "CRYPTO_ERROR transport error during the handshake), server down (handshake timeout). How each loss "
             "surfaced is counted (ev_loss_by_stateless_reset / _remote_application_close / _idle_timeout). "
             "c16-enum-0..2 (FAULT ENUMERATION, three shards of one enumeration): base call scripts over {TCP call, UDP call, TCP call whose stream is held "
             "open} of length 1..6 (13 fixed scripts + 3 PRNG, thorough 40 PRNG); for EVERY base script, EVERY kill index "
             "p in 0..L (before call p; p=L: after the last call, before Close), EVERY one of 17 fault kinds (blackhole, "
             "blackhole+wait, socket error, server restart fresh key, server restart same key (stateless reset), same-key restart + config error, server kick, server down x1/x2, socket error + TLS failure, socket error followed by 1/2 config errors, "
             "1 factory error, 1/2 rejected credentials, blackhole + config error, server down + config error) and both "
             "start modes (lazy, eager) one case is run in its own synctest bubble, followed by Close and three calls "
             "after Close; space = sum over base scripts of (L+1)*17*2 (counters enum_space_cases, "
             "summed over the shards; enum_kill_positions_x_start_modes_all_shards, enum_fault_kinds, enum_base_scripts_all_shards). "
             "c16-random: PRNG scripts of 6..20 steps (calls, holds, release, virtual sleeps up to 40 s, kills of all "
             "kinds with 0..3 failing reconnects, a burst of 2..8 concurrent one-shot calls on a freshly blackholed "
             "connection, Close at a random step, failing eager constructor), a quarter of them with server "
             "MaxIncomingStreams=8. c16-streamlimit: MaxIncomingStreams=8, 9..13 TCP streams held open by the fake target, "
             "further TCP/UDP calls at the limit, release, calls again, optionally a kill and reconnect afterwards. "
             "Oracle for these sequential parts = reference model of the statement (state none/live/dying/closed), judged "
             "per call: a call after a kill may only fail with errors.As ClosedError (UDP() may still succeed until QUIC "
             "notices); the call after a reported loss evaluates configFunc exactly once, connectedFunc reports exactly "
             "previous+1, the call succeeds, its request reaches the server from the NEW socket and the server accepted the "
             "credential of exactly that evaluation; calls on a live connection evaluate nothing and do not fail (a stream "
             "limit error is allowed, must not be a ClosedError and must not be followed by a reconnect); a failing attempt "
             "returns an error and leaves its socket closed; after Close every call fails, nothing is evaluated, no socket "
             "is created. At every quiescent point (no call in flight, synctest.Wait + 50 ms virtual settle; after every "
             "step): every open factory socket must be the one of the latest successful connect (so at most one), every "
             "superseded or failed-attempt socket has had Close called; after Close none is open. "
             "c16-concurrent (real clock, no bubble, under the race detector): 1..8 goroutines x 2..5 rounds of 1..4 "
             "calls each, chaos goroutines injecting socket errors / failing reconnects / Close at random instants; at "
             "each join point: error classes (only ClosedError, injected reconnect failures, stream limit), successful "
             "reconnects in the round <= injected losses (+1 if the round started without a connection), census, then a "
             "sequential probe (failing call -> next call: exactly one evaluation, one connect, success); calls started "
             "after Close returned fail, no evaluation after Close. Non-trivial case = contains a kill and calls and "
             "reaches Close; distinct = distinct script."),
    "exhaustive_note": ("exhaustive within the stated bound: ONE fault per history, every kill index 0..L x 17 fault kinds x "
                        "lazy/eager for each listed base script of <= 6 calls (size in counters "
                        "c16-enum-*.enum_space_cases; quick: 16 base scripts). Histories with several faults, longer "
                        "scripts, Close at other positions and goroutine schedules are sampled (c16-random, "
                        "c16-concurrent), not enumerated"),
    "assumptions": [
        "sockets are simnet endpoints behind the ConnFactory injection point; kernel UDP sockets and port-hopping loops are not exercised",
        "links are lossless with fixed latency (1..25 ms virtual); a killed connection is one whose socket is blackholed or fails, or whose server is gone (quic-go destroys server-side connections silently)",
        "bubble workloads are sequential (plus one-shot bursts): a goroutine waiting on sync.Mutex is not durably blocked for synctest and reconnect() holds its mutex across the handshake, so real goroutine concurrency runs on the real clock; verdicts there come only from join points, counts and the race detector; an un-injected QUIC timeout on the real clock is recorded as inconclusive",
        "rejected-credential cases run on the real clock as well: core/client's auth-failure path leaves quic-go's http3 request goroutine blocked (response body never closed), which a bubble reports as a leftover goroutine; reported as an observation, not as a C16 verdict",
        "after Close only failure is demanded (the tree returns ClosedError; counted, not required)",
        "UDP() is a local operation: on a killed connection it may succeed until QUIC has noticed the loss; only TCP() is required to fail on a killed connection",
        "what a failing reconnect attempt returns is not prescribed beyond being an error; a second Close of the same socket is not a violation",
    ],
}
