from propkit import job

_FILES = ["harness/extras/obfs/c14_common_test.go", "harness/extras/obfs/c14_deliver_test.go",
          "harness/extras/obfs/c14_bounds_test.go", "harness/extras/obfs/c14_race_test.go"]

PROP = {
    "level": "exploration",
    "technique": "runtime monitoring in synctest bubbles: real sender frames replayed in scripted orders, "
                 "reference reassembly model, table census under the conn's own mutex after every step, race detector",
    "parallel": 3,
    "jobs": [
        job("gecko", "extras", "./obfs/", "obfs", _FILES,
            "^TestVerifC14(Wire|Reassemble|Interleave)$",
            ["gecko-wire", "gecko-reassemble", "gecko-interleave"], race=False,
            timeout_quick=600, timeout_thorough=3600),
        job("gecko-bounds", "extras", "./obfs/", "obfs", _FILES,
            "^TestVerifC14Bounds$", ["gecko-bounds"], race=False,
            timeout_quick=600, timeout_thorough=3600),
        job("gecko-race", "extras", "./obfs/", "obfs", _FILES,
            "^TestVerifC14Race$", ["gecko-race"], race=True,
            timeout_quick=600, timeout_thorough=3600),
    ],
    "race_oracle": True,
    "race_files": ["extras/obfs/gecko.go", "extras/obfs/gecko_frame.go"],
    "min_events": 20000,
    "rule": ("wire: every packet length 1..1500 through a real sender at the default size range plus a boundary/random "
             "grid at 10 other [min,max] ranges (min==max, ranges nothing fits in, 1..2048); each write repeated until "
             "every chunk count 2..8 was drawn. reassemble: real frames of one message at a time, ALL permutations for "
             "2..5 chunks at 8 packet lengths (incl. lengths below the chunk count), each also with 1..3 duplicates; "
             "random permutations with duplicates for 6..8 chunks. interleave: worlds of 1..64 real senders whose 8-bit "
             "ID counters start anywhere (single-source worlds go round the ID space several times); chunks of up to 8 "
             "pending messages per source interleaved, duplicated, lost, mixed with short-header packets, ill-formed "
             "frames and virtual-time steps; one world in six does not avoid cap/collision situations (outcomes recorded, "
             "state still judged). bounds: forged-with-key floods: 9..300 IDs from one source; global-cap floods "
             "parameterised by (IDs per source 1..8, chunk count, chunks already received): 4247 sources x 1 chunk, "
             "8 IDs x 540 sources, and floods whose >= 4397 entries over >= 600 sources are ALL one chunk short of "
             "completion (1 of 2, 2 of 3, 7 of 8, mixed counts), with the table census after every frame (full census "
             "every 32nd frame and at every inspection; in between: overall bound, sum(perSource)==len(table), exact "
             "census of the source just served); directed self-eviction: the table is filled to exactly 4096 with the oldest entries belonging to chosen sources (holding 1, 2, 3 or 7 entries each, every entry created at its own instant so that the oldest is unique), fillers from >= 512 other sources, then each chosen source sends a chunk of a NEW ID so that the entry evicted is its own oldest one - full census after each such step, after expiry, and two interleaved messages per source afterwards; ID walks with strides 1/3/127/129/255 over several trips round the "
             "ID space; chunk arrival at ages TTL-1ns/TTL/TTL+GC-1ms/TTL+GC/+1ns relative to sweeper ticks; pin: an "
             "incomplete message keeps receiving duplicates of chunks it already has (sometimes a further new chunk) at "
             "intervals below the TTL while other sources' traffic flows, over 4 cycles (> 4 TTLs); it must be gone "
             "TTL+GC after its FIRST chunk. race: one conn under 3 readers, 4 "
             "feeders, 3 writers, GC and a table inspector. A case is non-trivial when a long-header packet was actually "
             "fragmented / chunks reached the reassembly table; distinct = distinct (sizes, chunk count, arrival order) "
             "or scenario script."),
    "assumptions": [
        "precondition stated by the property design: two messages simultaneously pending from one source carry "
        "different 8-bit IDs; histories with a colliding stale ID are executed and recorded (counters unjudged_*), not judged",
        "a chunk that arrives between TTL and TTL+GC-period after the first chunk of its message, or while its source "
        "already has 8 pending messages, has no outcome fixed by the property: recorded, not judged (state bounds and the "
        "perSource census are judged after every step regardless)",
        "a message's TTL runs from its first chunk (the deadline is fixed when the entry is created; later frames for "
        "the same key, duplicates included, are not activity that may keep it pending): an incomplete message must be "
        "absent from the table once more than TTL + one GC period (12 s) has passed since its first chunk",
        "a second delivery is accepted only when every chunk of a message arrived a second time after its delivery",
        "Salamander (C13's subject) is used as the transport of forged frames and to open captured datagrams",
        "determinism: every script is a function of VERIF_SEED: the chunk count of each sender message used in a script "
        "is drawn by the harness PRNG (the write is repeated, from the same ID counter value, until the sender draws it), "
        "flood entries are created at pairwise different virtual instants so eviction victims do not depend on map order; "
        "what still varies between identical runs is only how often the sender had to be re-drawn (counters ev_writes, "
        "ev_wire_datagrams, sender_redraws), the padding bytes/sizes, and goroutine scheduling in the race part",
        "sender randomness (chunk count, padding) comes from crypto/rand and is sampled, not enumerated; replay re-runs "
        "the same script with fresh sender randomness",
    ],
}
