from propkit import job

KIT = "harness/core/internal/integration_tests/vfnet_test.go"

PROP = {
    "level": "exploration",
    "technique": "runtime monitoring: real server+raw QUIC/h3 clients on simnet in a synctest bubble, offline oracle over an ordered event log",
    "jobs": [
        job("authgate", "core", "./internal/integration_tests/", "integration_tests",
            [KIT, "harness/core/internal/integration_tests/c01_test.go"], "^TestVerifC01",
            ["c01-auth-gate", "c01-concurrent-auth", "c01-generations", "c01-slow-auth"], race=False, timeout_quick=300, timeout_thorough=3600),
    ],
    "min_events": 200,
    "rule": ("PRNG scripts over 2..6 concurrent raw connections to one real server (virtual time, one-way latency "
             "1..30 ms, authenticator delay 0..80 ms, UDP on/off): actions auth good / bad / held (authenticator "
             "blocked while a 0x401 stream and a datagram are fired) / held-then-rejected, non-auth request, "
             "0x401 stream with TCPRequest, UDPMessage datagram whole and fragmented, repeated auth good/bad. "
             "Every requested address names its connection and action. Oracle: each outbound TCP/UDP/CheckUDP call, "
             "UDP write and TCP/UDP request event must be preceded in the log by auth_ok of the same connection; no "
             "Authenticate call after acceptance; repeated auth answers 233; never-authenticated connections read 0 "
             "stream bytes / 0 datagrams; requests sent after the client saw 233 (also after a later rejected "
             "attempt) reach the outbound. concurrent-auth (real time on simnet, because a request waiting on the handler's "
             "mutex would stop a bubble's clock): a second/third auth request is sent while the authenticator still "
             "holds the first; verdicts by log order only: one acceptance per connection, no Authenticate after it, "
             "one Connect event, nothing proxied before it. generations (bubble, GOMAXPROCS(1)): 3..6 rounds on one server, "
             "each: 1..3 connections authenticate, proxy and close; after they are gone 1..3 fresh connections that never "
             "authenticate fire streams, a datagram and a rejected auth — state left over from (or recycled after) an "
             "ended authenticated connection must authorise nothing. slow-auth (bubble): the authenticator takes 6/11/21 virtual "
             "seconds to decide 1..3 connections (accept or reject); after those verdicts 12..27 fresh connections present rejected "
             "credentials one after the other, each followed by a 0x401 stream and a datagram: a verdict reached for one connection must "
             "never be handed to another (no 233, no socket, no payload). Non-trivial = script mixes auth actions with proxy actions; distinct = "
             "distinct script."),
    "assumptions": [
        "absence is observed until virtual quiescence plus 1 s virtual settle",
        "the connection's source address identifies it at the authenticator/event logger (one address per connection)",
        "lossless simnet links (so requests sent after acceptance must arrive)",
    ],
}
