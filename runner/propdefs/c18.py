from propkit import job

MUXF = ["harness/app/internal/proxymux/c18_mock_test.go", "harness/app/internal/proxymux/c18_fakes_test.go",
        "harness/app/internal/proxymux/c18_enum_test.go", "harness/app/internal/proxymux/c18_handover_test.go",
        "harness/app/internal/proxymux/c18_stress_test.go", "harness/app/internal/proxymux/c18_relisten_test.go"]

PROP = {
    "level": "exploration",
    "technique": ("in-package monitors: mock client.Client + AuthFunc recorder + scripted client conns sharing one ordered "
                  "event log (gate), offset-coded payloads (integrity), fake base listener with Close()-observing conns in "
                  "synctest bubbles (mux: schedule enumeration, gated hand-over races, -race storm), loopback TCP through the real manager"),
    "parallel": 3,
    "race_oracle": True,
    "race_files": ["app/internal/proxymux/"],
    "jobs": [
        job("mux-enum", "app", "./internal/proxymux/", "proxymux", MUXF, "^TestVerifC18MuxEnum$",
            ["mux-enum"], race=False, timeout_quick=600, timeout_thorough=3600),
        job("socks5", "app", "./internal/socks5/", "socks5",
            ["harness/app/internal/socks5/c18_mock_test.go", "harness/app/internal/socks5/c18_socks5_test.go",
             "harness/app/internal/socks5/c18_history_test.go"],
            "^TestVerifC18Socks", ["socks5-gate", "socks5-relay", "socks5-history"], race=False, timeout_quick=600, timeout_thorough=3600),
        job("http", "app", "./internal/http/", "http",
            ["harness/app/internal/http/c18_mock_test.go", "harness/app/internal/http/c18_http_test.go",
             "harness/app/internal/http/c18_history_test.go"],
            "^TestVerifC18HTTP", ["http-gate", "http-relay", "http-history"], race=False, timeout_quick=600, timeout_thorough=3600),
        job("mux-parts", "app", "./internal/proxymux/", "proxymux", MUXF, "^TestVerifC18Mux(Handover|Bytes|E2E|Held)$",
            ["mux-handover", "mux-bytes", "mux-e2e", "mux-held"], race=False, timeout_quick=600, timeout_thorough=3600),
        # own child: the outcome under test can be a process-fatal panic inside a mux goroutine
        job("mux-relisten", "app", "./internal/proxymux/", "proxymux", MUXF, "^TestVerifC18MuxRelisten$",
            ["mux-relisten"], race=False, timeout_quick=300, timeout_thorough=300),
        job("mux-race", "app", "./internal/proxymux/", "proxymux", MUXF, "^TestVerifC18Mux(Stress|TCP)$",
            ["mux-stress", "mux-tcp"], race=True, timeout_quick=600, timeout_thorough=3600),
    ],
    "min_events": 1000000,
    "rule": ("socks5-gate / http-gate: one real Server per case, 1..4 local connections run concurrently, each with its own "
             "credentials and its own target address so that every HyClient.TCP(addr) names the connection that caused it; "
             "a third of the cases use an AuthFunc that rejects everything (oracle: zero TCP()/UDP() calls), the rest one "
             "that accepts exactly the registered pairs (oracle: dial(addr) => earlier auth_ok(owner(addr)) in the ordered "
             "log; UDP sessions opened so far <= auth_ok events of UDP-requesting connections so far). SOCKS5 stream kinds "
             "(built from RFC 1928/1929 layouts): right credentials (also 255-byte user/password, extra offered methods, "
             "UDP ASSOCIATE), wrong password/user, unknown user, only method 0x00 offered (CONNECT and UDP), 0x00+0x02 "
             "offered then the request sent as if no-auth had been chosen, GSSAPI only, no methods, 255 methods without "
             "0x02, sub-negotiation skipped, RFC1929 version 0/5, zero-length user/password/both, truncated at a random "
             "byte, wrong SOCKS version, BIND/unknown command, unknown ATYP, 1..3 random byte mutations, random bytes; "
             "domain/IPv4/IPv6 targets. HTTP: CONNECT and plain GET/POST (1..3 requests on a keep-alive connection) with "
             "Proxy-Authorization right (Basic/basic/BASIC, duplicate right-then-wrong), missing, wrong password/user, "
             "invalid base64 characters, truncated base64, no colon, Bearer/Digest/Negotiate, 'Basic' without space / two "
             "spaces / empty, empty value, Authorization instead of Proxy-Authorization, URL-safe base64, duplicate "
             "wrong-then-right, ':' only, 'user:' only; single-connection cases are additionally truncated / mutated / "
             "replaced by random bytes. Every stream is handed to the server in one of 7 chunkings (one read, 1-byte reads "
             "through the header, random splits, random splits with zero-length reads, split at the header end, header "
             "plus k payload bytes, all 1-byte). socks5-history / http-history: ONE Server lives through a sequence of connections run one after "
             "the other: 1..3 credentials X are accepted, then 4..9 near-misses of each X that the AuthFunc never accepted "
             "(HTTP: Base64 text of X with the case of one/some/all letters flipped - only variants that still decode to "
             "something else - also under basic/BASIC, all-lower/all-upper token; both: password prefix/suffix/extension/"
             "case variant, user case variant, other user with X's password, blank/NUL added, user|pass boundary shifted, "
             "swapped), verbatim replays of X (positive control), X replayed after revocation (counted, not judged) and "
             "near-misses after the revocation; oracle: dial/udp_open of connection j => earlier auth_ok for exactly the "
             "credential j presented; AuthFunc calls are counted. socks5-relay / http-relay: well-formed CONNECT with and without AuthFunc, "
             "payload sizes 0,1,2,7,8,9,255,256,4095..4097,32767..32769,65535,65536 and random 0..64 KiB crossed with the 7 "
             "chunkings (HTTP also with Content-Length and a >4 KiB header): bytes recorded by the mock upstream == payload, "
             "bytes the client got after the reply are a prefix of the upstream's scripted reply. "
             "mux-enum: every sequence over {ListenSOCKS, ListenHTTP, Close(socks), Close(http), connect(0x05), "
             "connect(other byte), connect-send-nothing-close} (sequences containing a Close of a handle that is not open "
             "are equal to a shorter one and skipped), each run in modes eager/lazy (handlers call Accept at once / only "
             "after the schedule) x plain/settled (main loop blocked before the first registration) and in two burst "
             "modes without quiescence between operations; verdict at synctest quiescence, then again after teardown. "
             "Besides 'exactly one of delivered/closed' two delivery obligations are judged: a connection may be closed by the "
             "mux only as the fallback - if a sub-listener of its protocol was returned by Listen* on the same mux before the "
             "connection was made, was never closed, has its handler in Accept and the mux is still up at quiescence, the "
             "connection must have been delivered (all modes, also mux-stress); and (where every Listen* starts from a "
             "quiescent point: non-burst modes, mux-bytes, mux-e2e, H6) a sub-listener the application has not closed must "
             "not see its mux shut down or its Accept fail. "
             "mux-handover / mux-relisten: gated schedules H1..H4 (hand-over pending at Close; Accept return delayed over "
             "the mux shutdown; first byte after Close, optionally after re-registration; re-registration inside the "
             "shutdown path) and H6 (Close immediately followed by Listen* of the same protocol, the re-registration forced "
             "ahead of the main loop through the mux's own mutex, with and without the other protocol registered). mux-held: 1 or 7 sessions (socks/http first bytes mixed) are delivered and still in use (client paused after 1..n bytes) "
             "when one / both sub-listeners are closed or the base Accept fails; a delivered connection may only be closed by "
             "its handler (judged in every fake-listener part: mux:delivered-conn-closed-by-mux), the rest of the stream must "
             "reach the handler and the handler's reply the client. mux-bytes: all 256 first-byte values, payloads 0..64 KiB, client chunkings, handler reads with "
             "zero-length/1-byte/random buffers. mux-e2e: real socks5.Server and http.Server behind the mux, whole sessions "
             "pipelined in one stream. mux-stress: 5 goroutines (2 register/close loops, 3 dialers) with virtual-time jitter "
             "under -race. mux-tcp: random operation sequences through the real muxManager on 127.0.0.1:0. "
             "A case is non-trivial when the AuthFunc was consulted (gate), a payload was relayed (relay), or a connection "
             "was accepted by the mux (mux parts); distinct = distinct case id (seeded script)."),
    "exhaustive_note": ("mux-enum is exhaustive within its bound: all operation sequences up to length 5 in six modes and "
                        "length 6 in mode lazy (quick), up to length 7 in all six modes "
                        "(thorough); counters mux-enum.enumerated_len_<n>_<mode> give the executed counts, "
                        "mux-enum.enumerated_sequences_pruned_as_redundant the skipped no-op variants. Goroutine schedules "
                        "inside a mode are those the Go scheduler produced (burst modes, mux-stress) or the gated ones of "
                        "mux-handover/mux-relisten; they are sampled, not enumerated."),
    "assumptions": [
        "the Hysteria client is a mock (client.Client): 'upstream connection opened' means TCP()/UDP() was called on it",
        "credentials are unique per local connection, so an accepted pair identifies the connection that presented it",
        "a scripted client conn returns io.EOF after its last byte (half-close); servers may still write to it",
        "mux parts use an in-memory base listener injected through newMuxListener (manager.go only accepts real addresses; "
        "its GetOrCreate/delete protocol is mirrored by the harness and exercised for real only by mux-tcp)",
        "'closed by the mux' = Close() called on the accepted conn; in mux-tcp = the client's Read returns EOF/reset; "
        "the 10 s real-time watchdog there only yields 'inconclusive'",
        "downstream integrity (prefix check) is title-level ('relay bytes intact'), the statement only names client->upstream bytes",
    ],
}
