from propkit import job

PROP = {
    "level": "exploration",
    "technique": "runtime monitoring of the real session manager on virtual time (testing/synctest) + race detector",
    "jobs": [
        job("udp-sessions", "core", "./server/", "server",
            ["harness/core/server/c07c08_fakes_test.go", "harness/core/server/c07c08_wb_table_test.go",
             "harness/core/server/c07_sessions_test.go"],
            "^TestVerifC07", ["udp-timelines", "udp-boundary", "udp-slowdial", "udp-endsweep", "udp-writegate", "udp-bufreuse", "udp-realio", "udp-fraginterleave"], race=True,
            timeout_quick=300, timeout_thorough=3600),
    ],
    "race_oracle": True,
    "race_files": ["core/server/udp.go"],
    "min_events": 20000,
    "rule": ("timelines: a PRNG script places, on the virtual clock of a synctest bubble, the datagrams of 1..12 session "
             "IDs (complete, fragmented, never completed), remote replies, socket read errors, table snapshots and the "
             "final connection loss; each ID follows a role (keep-alive by datagrams / by replies / by fragments at gaps "
             "timeout, timeout-1ms, ...; expire and reuse the ID at offsets around the expiry sweep; missing fragment "
             "arriving inside the exit of a socket-less session; dial right before a sweep; dial / hook / send / read / write "
             "faults; hook rewrite; random), idle timeout from {100ms..5s}; the fake eventLogger.Close sleeps 0..20 ms "
             "(virtual) between closed=true and the removal from the table; dial, Hook and socket Close run under the "
             "session lock and yield to the scheduler 0..50 times instead (a virtual sleep there would hang the bubble); "
             "amounts chosen by hash of (seed, call, session, n). The first cases "
             "force each role in turn. boundary: one session, last activity (datagram / fragment / reply) at offsets "
             "around the 1 s sweep grid x timeouts x a second datagram at offsets around the expiry sweep. slowdial: the dial / request hook of a new session is gated "
             "(parks until released) and starts timeout+{1,50,600}ms before a sweep instant; at that instant the driver "
             "spins (no clock) until the sweeper waits for the session lock or has closed the session, then releases "
             "the dial; x {dial, hook, hook with rewrite} x timeouts {100,300}ms x 0/3 bystander sessions x what follows "
             "(end, datagram queued behind the dial, reply, same ID again). endsweep: k idle-but-not-yet-swept and m fresh sessions (k,m in 1..8, x2 variants), the IO ends 1..12 ms "
             "before a sweep instant and the first Close event of Run's final cleanup sleeps (virtual) across that "
             "instant, so a periodic sweep runs in the middle of the final cleanup; verdict by the end-of-connection "
             "census. writegate: the fake socket write of one datagram of a session is gated (handed to the open socket, returns "
             "only when released); while it is in flight the session is torn down by a socket read error / a failed reply "
             "send / the sweeper (idle timeout passes during the write); then 1..3 more datagrams with the same ID, with "
             "or without a datagram of another session in between, x timeouts {100,300}ms x first/second write gated x "
             "0/2 bystanders. bufreuse: 1 or 3 sessions are closed by the sweeper while their reply loop is stalled between a completed "
             "socket read and the hand-over to the client (gate at SendMessage entry, or at ReadFrom exit after the copy), "
             "then 1 / 3 / 140 new sessions are created and read replies of their own, then the stalled loops continue; "
             "every reply the client-side IO sees must carry the ID and the bytes of one and the same socket. realio: the "
             "real udpIOImpl (server.go) sits between the manager and the fakes; outbound dials take 0 / 1 / 9.999 / 10 / "
             "10.001 / 12 / 40 s of virtual time and then succeed or fail (idle timeout 2 min), followed by nothing / more "
             "traffic / a full drain, with 0/2 bystander sessions queued behind the dial; plus 40 ordinary timelines "
             "through the real udpIOImpl; verdict by the socket census (every socket the outbound ever returned is closed "
             "exactly once). fraginterleave: fragmented datagrams of 2..4 sessions arrive interleaved fragment by fragment with the "
             "SAME packet ID and fragment count in every session, some left incomplete, sessions with / without an open "
             "socket; for 2 sessions x 2 fragments every order of every subset (>=2) of the 4 fragments, larger shapes "
             "shuffled / round-robin / late tail; every byte a socket writes must be a message of its own session, and a "
             "socket is opened only for a session that has completely sent a message. A case is "
             "non-trivial when at least one idle expiry and at least one delivered reply occurred; distinct = distinct "
             "(timeout, script)."),
    "assumptions": [
        "the sweep interval named by the property is the 1 s grid starting when Run() starts; harness-injected delays "
        "inside one sweep stay below 1 s (checked per sweep, else the case is inconclusive)",
        "datagram / reply activity is stamped when the fake hands it to the server; events at the very instant of a "
        "sweep are treated as unordered with it (either outcome accepted)",
        "fakes stand in for the QUIC connection, the outbound sockets and the event logger",
        "goroutine interleavings are those the Go scheduler produces inside the bubble plus the windows opened by "
        "virtual sleeps in the fakes; not every interleaving is enumerated",
    ],
}
