from propkit import job

PROP = {
    "level": "exploration",
    "technique": ("in-package monitors around Sniffer.Check/TCP/UDP: scripted HyStream with virtual-time chunk arrivals and real "
                  "read-deadline semantics (testing/synctest), conservation oracle putback+remainder==sent, before/after comparison of "
                  "the UDP slice, reference QUIC Initial codec written from RFC 9001/9369"),
    "jobs": [
        job("sniff", "extras", "./sniff/", "sniff",
            ["harness/extras/sniff/c17_model_test.go", "harness/extras/sniff/c17_tcp_test.go",
             "harness/extras/sniff/c17_tls_test.go", "harness/extras/sniff/c17_udp_test.go"],
            "^TestVerifC17", ["tcp-short", "tcp-http", "tcp-tls", "udp-quic"], race=False,
            timeout_quick=900, timeout_thorough=3600),
        job("server", "core", "./internal/integration_tests/", "integration_tests",
            ["harness/core/internal/integration_tests/vfnet_test.go",
             "harness/core/internal/integration_tests/c17_server_test.go"], "^TestVerifC17Server",
            ["server-replay", "server-udp-first"], race=False, timeout_quick=300, timeout_thorough=1800),
    ],
    "parallel": 2,
    "min_events": 200000,
    "rule": (
        "[server job: real server+client on simnet in a bubble, harness-owned hook standing in for the sniffer] server-replay: the hook "
        "reads 0 / 1 / half / all of what the client sent (1 B .. 256 KiB, sizes around 32 KiB, client chunking whole/1200/333/random, "
        "with and without traffic logger and fast open) and hands it back for replay: the target must receive replay+rest == sent and "
        "the outbound must be dialled with the rewritten host and the original port. server-udp-first: the first datagram of a hooked "
        "UDP session (1..3000 B) reaches the socket byte-identical at the rewritten destination. [sniff job] "
        "The driver does what core/server does around the hook: Check(), then TCP(stream,&addr) / UDP(data,&addr), then the relay reads "
        "the rest of the stream / forwards the very slice. TCP case = (client bytes, chunk sizes with VIRTUAL arrival times, FIN time or "
        "never, FIN glued to the last data read or separate, per-Read cap, coalescing, zero-length reads, Sniffer.Timeout incl. 0=default, "
        "original destination IPv4/IPv6/domain, RewriteDomain, TCP port filter absent/containing/excluding the port). The fake stream "
        "blocks in Read until the next chunk, the FIN or the read deadline (an expired deadline wins over buffered data, error is a "
        "net.Error with Timeout()==true unwrapping to os.ErrDeadlineExceeded). Oracles: (1) putback ‖ bytes the relay can still read == "
        "bytes sent, exactly (a read deadline left armed that cuts the relay off, or still armed on return, is reported separately); "
        "(2) destination still host:port with the original port; (3) host unchanged, or (valid mainstream input whose sniffable header "
        "- HTTP header block up to 192 KiB, one honest TLS record - arrived strictly before the deadline and Check()==true) exactly the "
        "embedded name, compared case-insensitively; garbage, truncated input, input completing after the deadline, requests without a "
        "host name and destinations not hooked must leave the destination string untouched; everything else (bit-flipped, fragmented "
        "or mis-sized records, custom methods, header completing exactly at the deadline, header blocks > 192 KiB) may only become a name "
        "that occurs (case-insensitively, %-unescaped) in the bytes the hook read. "
        "tcp-short: 14 short inputs (minimal HTTP with Host / Host:port / absolute URI / bare IPv6 literal / empty host part / no host, the smallest "
        "ClientHello crypto/tls produces alone and followed by more records, binary/SSH/TLS-like/HTTP-like garbage, empty): every split "
        "point x second part at {0, D/2, D-1ns, D, D+1ns, D+1s}, every truncation x FIN {never, 0, D-1ns, D+1s}, byte-by-byte with the "
        "deadline cutting in at stepped offsets, zero-length reads around offsets 0/2/3/5, default timeout. "
        "tcp-http: generated requests 10 B..310 KiB (size classes around 4 KiB, 8-17 KiB, 64-192 KiB, 250-310 KiB; single header lines "
        "of 4-13 KiB), Host forms name / name:port / absolute URI / absolute URI with other Host header / absolute URI without Host / "
        "CONNECT / IPv4 / [IPv6]:port / bare [IPv6] / empty host part (\":8080\") / missing / custom method, header-name case and whitespace variants, decoy names in "
        "query, other headers, body and a pipelined second request; 1/12 truncated anywhere, 1/12 truncated in the last 4 header bytes, "
        "1/12 bit-flipped; plus random bytes behind a 3-letter probe. Schedules: one piece / 2..25 random pieces / fixed 1-16 byte "
        "pieces / 4095-4096-4097-8192 pieces / MTU-sized pieces; everything at t=0, spread before the deadline, or a gap placed at a "
        "marked offset (0..6, around the Host line, the last header bytes, header end+-1, 4096+-1, 256 KiB+-1, end) with the rest arriving "
        "after the deadline, 1 ns after, exactly at, or 1 ns before it. "
        "tcp-tls: ClientHello records from crypto/tls (TLS1.2-only, X25519-only, P256, ALPN variants; with ML-KEM about 1.5 KB) and utls "
        "browser presets (Chrome, Firefox, Safari, iOS, Edge) for unique random SNIs, each first accepted by crypto/tls's server-side "
        "parser with that SNI; sent honest (also followed by more bytes, record version 0x0301/0x0303), with odd record versions, declared "
        "length larger than everything that ever arrives (up to 0xFFFF), larger and completed by random bytes, shorter than the hello, "
        "hello fragmented over two records, record type 0x17, truncated, bit-flipped, plus random bytes behind a TLS record header; same "
        "schedule generator with marks at 0..6, record end+-1, middle, end. "
        "udp-quic: first-flight datagrams captured from real quic-go dials (v1 and v2, X25519-only so that the hello fits one datagram, "
        "default curves so that it spans two) inside a bubble over a recording black-hole socket; the captured ClientHellos re-packed with "
        "the reference codec (version 1/2, DCID 0..20, SCID 0..20, token 0..80, packet number 0..2 or random in 1..4 bytes, 2/4-byte "
        "Length, 1..4 CRYPTO frames in order or shuffled with PADDING/PING between, coalesced trailer); CRYPTO frame layouts that are NOT a "
        "partition of the ClientHello (overlapping frames, exact duplicates, a gap inside / outside the server name without and with "
        "duplicated bytes of the same or a different total length, a frame beyond the end, missing start, hello cut short plus duplicates; "
        "shuffled or not) - for these a name only counts as present if it lies inside one frame or inside one maximal run of covered "
        "CRYPTO stream bytes, never across a hole; truncations, 1-3 bit flips, real "
        "header + random payload, random bytes (optionally long-header + version), later datagram of a two-datagram flight, the suite's "
        "own sample; slice with cap==len or inside a larger buffer. Oracles: data identical before/after; port; host decided by the "
        "reference codec (not decryptable as v1/v2 client Initial -> untouched; decryptable with complete ClientHello and mainstream "
        "framing -> the SNI; else unchanged or a name present in the decrypted payload). "
        "Datagrams whose first byte has the fixed bit but not the long-header bit and whose bytes 1..4 are QUIC v1/v2 are NOT generated "
        "(live defect D2, a panic in packet_protector.go that belongs to C03; counted as skipped_d2_region). "
        "Distinct & non-trivial = the hook consumed at least one byte / the datagram decrypted, distinct (input hash, schedule, config)."),
    "assumptions": [
        "the hook is only invoked when Check() returned true and with a host:port destination, as core/server does",
        "HyStream reads behave like quic-go's: short reads allowed, (n>0, io.EOF) allowed, an expired read deadline fails the read even if data is buffered",
        "Sniffer.Timeout is the sniffing budget; with Timeout==0 only 'header complete within 1 s => sniffed' is demanded",
        "exact-name rewriting is demanded only for mainstream inputs (standard methods, header block <= 192 KiB, honest single TLS record, QUIC v1/v2 Initial with packet number <= 2 and DCID >= 8 bytes carrying the whole ClientHello); the property statement itself only forbids wrong rewrites",
        "bytes of captured QUIC/utls packets depend on those libraries' own crypto/rand use (connection ids, key shares, GREASE); kinds, sizes, names, schedules and mutation positions are fixed by VERIF_SEED",
        "crypto/tls's server-side ClientHello parser and the harness's RFC 9001 reference codec (self-checked against the repository's QUIC sample and by seal/open round trip) are correct",
        "the end-to-end path (real server with the Sniffer as RequestHook) is not exercised here: module core cannot import extras; server.go:281-325 and udp.go:316-328 were read instead (putback is written to the target before relaying; the hook gets the slice that is forwarded)",
    ],
}
