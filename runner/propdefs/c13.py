from propkit import job

PROP = {
    "level": "exploration",
    "technique": "in-package monitors on a wrapped in-memory PacketConn pair + offline BLAKE2b recomputation (Python hashlib) + race detector",
    "jobs": [
        job("obfs", "extras", "./obfs/", "obfs",
            ["harness/extras/obfs/c13_salamander_test.go", "harness/extras/obfs/c13_concurrent_test.go",
             "harness/extras/obfs/c13_alias_test.go"],
            "^TestVerifC13",
            ["sal-keys", "sal-roundtrip", "sal-interop", "sal-concurrent", "sal-alias"], race=True,
            timeout_quick=600, timeout_thorough=3600),
    ],
    "race_oracle": True,
    "race_files": ["extras/obfs/salamander.go", "extras/obfs/conn.go"],
    "post": [
        {"name": "c13-blake", "glob": "c13-wire-*.jsonl",
         "cmd": ["python3", "{verif}/checkers/py/c13_blake.py"], "timeout": 1800},
    ],
    "min_events": 20000,
    "rule": ("One case = one packet put through the real wrapper (WrapPacketConnSalamander over a harness-owned "
             "in-memory PacketConn pair, same key on both sides); its destination address carries a unique id that "
             "becomes the delivered packet's source address, so every ReadFrom result names its write. "
             "keys: 0..3-byte keys (nil, empty, zeros, 0xff, random) must be refused; every key length 4..64 plus "
             "65..1000 and special contents must be accepted and carry a packet. roundtrip (sequential): every payload "
             "length 1..2040 once, boundary lengths for every key, PRNG lengths, both directions, 0..4 junk datagrams "
             "of 0..8 bytes queued before and 0..3 after the valid one, read buffers from exactly-fitting to 64 KiB. "
             "interop: the same grid with packets made by a reference written from PROTOCOL.md (special and random "
             "salts) and arbitrary 9..2048-byte datagrams, fed to the real deobfuscator. concurrent: 3 (quick) / 10 "
             "(thorough) rounds of 8 writers + 4 readers on one wrapped socket against a peer with 2 writers + 2 "
             "readers and a reference-packet injector, junk interleaved, under -race; round 0 repeats the 1..2040 "
             "length sweep. alias (memory ownership): keys passed as windows of sentinel-filled buffers with spare "
             "capacity 0/1/7/8/9/64 through both constructors - the caller's whole buffer must stay byte-identical after "
             "construction and after every packet, and after the caller wipes/reuses its key buffer the socket must "
             "still match the reference under the ORIGINAL key value; two keys carved from one config buffer, sockets "
             "built in either order with interleaved traffic, must stay independent; payload / wire / output windows "
             "passed to WriteTo, ReadFrom, Obfuscate, Deobfuscate: inputs unmodified, nothing written outside the "
             "window. Distinct & non-trivial = distinct (key, payload length, direction, junk pattern) for the "
             "sequential parts, distinct delivered packet for the concurrent part, distinct (key, salt, length) for "
             "the offline checker. Wire log for the Python checker: quick logs every captured packet; thorough logs "
             "every sweep/boundary packet but only a deterministic sample of the rest (case index % 4 == 0 in the "
             "sequential parts, write id % 16 == 0 in the concurrent part) - the unsampled packets are still checked "
             "in-process against the Go reference, which the Python checker validates through its own logged packets."),
    "assumptions": [
        "the harness-owned in-memory network neither loses, duplicates nor reorders datagrams and cuts a datagram to the reader's buffer like UDP",
        "callers pass ReadFrom a buffer of at least the payload size (the wrapper drops, not truncates, packets larger than the buffer; not covered by the property)",
        "payloads longer than 2040 bytes and empty payloads are outside the property's range and are not exercised",
        "salts of the real obfuscator come from its own time-seeded PRNG and cannot be chosen; chosen salts are exercised in the interop direction only",
        "hashlib.blake2b (CPython stdlib) is a correct BLAKE2b",
        "'the same key' is the key VALUE passed at construction; the wrapper may not write to, or keep a live view of, the caller's key/payload memory (Go slice-ownership convention); bytes inside an output buffer beyond the returned n may be used as scratch",
    ],
}
