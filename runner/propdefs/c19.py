from propkit import job

PROP = {
    "level": "fault_enumeration",
    "technique": "reference port-set model + socket census / routing monitors on fake sockets in synctest bubbles, race detector",
    "parallel": 5,
    "race_oracle": True,
    "race_files": ["extras/transport/udphop/", "extras/utils/portunion.go"],
    "jobs": [
        job("utils", "extras", "./utils/", "utils",
            ["harness/extras/utils/c19_portunion_test.go"], "^TestVerifC19(PortExpr|Normalize)$",
            ["port-expr", "port-normalize"], race=False,
            timeout_quick=600, timeout_thorough=3600),
        job("utils-race", "extras", "./utils/", "utils",
            ["harness/extras/utils/c19_portunion_test.go"], "^TestVerifC19PortConcurrent$",
            ["port-concurrent"], race=True,
            timeout_quick=600, timeout_thorough=3600),
        job("udphop-enum-a", "extras", "./transport/udphop/", "udphop",
            ["harness/extras/transport/udphop/c19_hop_test.go"], "^TestVerifC19HopEnum$",
            ["hop-enum-a"], race=True, env={"VERIF_C19_ENUM": "a"},
            timeout_quick=420, timeout_thorough=5400),
        job("udphop-enum-b", "extras", "./transport/udphop/", "udphop",
            ["harness/extras/transport/udphop/c19_hop_test.go"], "^TestVerifC19HopEnum$",
            ["hop-enum-b"], race=True, env={"VERIF_C19_ENUM": "b"},
            timeout_quick=420, timeout_thorough=5400),
        job("udphop", "extras", "./transport/udphop/", "udphop",
            ["harness/extras/transport/udphop/c19_hop_test.go"], "^TestVerifC19Hop(Addr|Long|Race|Idle)$",
            ["hop-addr", "hop-long", "hop-race", "hop-idle"], race=True,
            timeout_quick=420, timeout_thorough=5400),
    ],
    "min_events": 100000,
    "rule": ("port-expr: fixed table (documented examples, every junk/ambiguous token alone), a grid of two "
             "ranges with all bounds in {0..3, 65532..65535}, and 20 000 (thorough 250 000) PRNG expressions of "
             "1..8 (some up to 40) items where every new range is placed in a chosen relation to an earlier one "
             "(adjacent, one-port gap, overlapping, contained, containing, identical, same start/end), rendered "
             "reversed at random, shuffled; 16 % are damaged into invalid strings (empty item, missing bound, "
             "second dash, junk token, number > 65535), 4 % random soup over the grammar's alphabet, 12 % are strings whose validity the documentation does not "
             "settle (blanks, leading zeros, '+', 'ALL', wildcard in a list: only set equality is judged when "
             "accepted). Verdict per expression: accept/reject by class, Ports() as a set over all 65 536 ports == "
             "reference set, no duplicates, documented normal form, Contains() == reference. port-normalize: the same "
             "set/normal-form oracle on Normalize() of directly built unions. "
             "hop-enum (fault enumeration): EVERY subset of failing socket creations for every history of 0..8 hops "
             "(sum 2^n, n=0..8 = 511 histories per pass; passes differ in port set, interval configuration and "
             "Close variant), each run in its own synctest bubble; after every hop attempt, at synctest.Wait(): "
             "virtual-clock gap in [Min,Max], open sockets == the two newest successfully created ones, every "
             "WriteTo recorded on the newest socket to server-IP:port-of-set with intact payload, a tagged packet "
             "injected on the previous and on the current socket is returned by ReadFrom (again at a random offset "
             "< Min inside the interval); read-deadline steps between hops (about 700 quick): the deadline expires with a reader blocked, or is set "
             "in the past; ReadFrom must fail with a timeout net.Error without blocking; the deadline is then cleared or moved far ahead, the "
             "stale timeout results are read, and the full write/inbound round (previous AND current socket deliver) must hold again; then Close (optionally with a reader blocked, with packets queued, at the "
             "very instant of the next hop, twice): every socket ever created closed exactly once, empty-queue reads "
             "fail without blocking, packets injected after Close never returned, every WriteTo fails, no socket "
             "is opened later. hop-idle: the caller sets a read deadline in the past and stops reading (receive queue fills with 1024 timeout results, "
             "receive loops park); every subset of failing creations for (hops before, hops after) in {0,1,2}x{2,3,4} (196 histories per pass); "
             "each later hop attempt must come within Max, the connection mutex must be free at quiescence (else, if still held 3 intervals "
             "later: hop-or-close-never-returns), census/writes as above, then Close must return, close every socket once, writes and all "
             "reads fail without blocking. hop-long: random failure subsets (sparse, dense, bursts) over 9..200 hops. "
             "hop-race: readers, writers, deadline/buffer setters, injector and concurrent Close calls placed on "
             "the same virtual instants as the hops, under the race detector, with census checks at every "
             "quiescent point. A history is non-trivial when it performed at least one hop attempt and reached "
             "Close; distinct = distinct (port set, interval, hops, failure subset, variant)."),
    "exhaustive_note": ("exhaustive within the stated bound: all 2^n subsets of failing socket creations for all "
                        "hop counts n = 0..8 (511 fault histories, counter hop-enum-a/-b.exhaustive_fault_subsets per "
                        "pass), crossed with a sample (not all) of port sets / interval configurations / Close "
                        "variants; histories longer than 8 hops and all schedules are sampled, not enumerated"),
    "assumptions": [
        "sockets are fakes behind ListenUDPFunc (the injection point the package offers); kernel UDP behaviour is not exercised",
        "fake sockets honour read deadlines on the virtual clock like a UDP socket (expired deadline: every read fails at once with a timeout net.Error; a deadline change wakes a blocked read); write deadlines and buffer sizes are only recorded",
        "after an expired read deadline is extended/cleared the delivery clause is checked with packets that arrive once the caller has read the stale timeout results (<= queue size + 2); a packet arriving while the 1024-slot receive queue is still full of such results takes the code's documented queue-full drop path and is recorded as an observation (hop-long.probe_* counters), not judged",
        "outside hop-idle read deadlines are never left expired across a hop or Close; the race part only uses deadlines that do not expire",
        "hop-idle decides 'never returns' logically inside the bubble: no hop attempt within Max, or the connection mutex (read through the package-internal field) held at two quiescent points three maximal intervals apart; WriteTo/Close are only invoked when the mutex is free",
        "receive goroutines left parked on the full queue after Close (a goroutine leak, no socket involved) are not judged; the harness empties the queue during cleanup",
        "a failed socket creation is modelled as ListenUDPFunc returning (nil, error)",
        "WriteTo is called with the hop connection's own address (what quic-go passes)",
        "strings whose validity the documentation leaves open are not judged for accept/reject",
        "target port and jitter come from the global math/rand source: which port/gap is drawn differs between runs, the verdicts do not depend on it",
    ],
}
