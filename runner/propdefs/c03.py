from propkit import job

# C03 — Peer-controlled bytes never crash the process.
#
# One `go test` child per package (a process-fatal panic in a goroutine of the code under test
# kills only that child; the runner turns it into a violation `crash:<first panic line>` and the
# witness is the last line of build/C03/<job>/inputs-<part>.log). Every harness part has its own
# kit name listed in `expect`. c03_common_test.go is the same file in every package
# (harness/common/c03_common_test.go.tmpl, copied by harness/common/c03_sync.py).


def _files(d, *names):
    return ["harness/%s/c03_common_test.go" % d] + ["harness/%s/%s" % (d, n) for n in names]


def _fuzz(name, module, pkg, pkgname, d, files, target, part, race=False):
    """Thorough tier only: Go native fuzzing as a WORKLOAD GENERATOR (execution count, not a duration).
    The targets chdir to $VERIF_OUT before fuzzing, so crasher files never land in the repository."""
    return job(name, module, pkg, pkgname, _files(d, *files), "^$", [part], race=race,
               tiers=("thorough",), args=["-fuzz=^%s$" % target, "-fuzztime=300000x", "-fuzzminimizetime=2000x"],
               timeout_thorough=3600)


PROP = {
    "level": "exploration",
    "technique": ("in-package entry points driven with generated hostile inputs (cap==len slices, input logged to disk "
                  "before every call), recover()/process-exit oracle, -race/checkptr where cheap, 'service continues' "
                  "canaries on the same object; thorough: Go native fuzzing as additional workload generator"),
    "parallel": 4,
    "jobs": [
        job("protocol", "core", "./internal/protocol/", "protocol", _files("core/internal/protocol", "c03_decoders_test.go"),
            "^TestVerifC03", ["proto-tcpreq", "proto-tcpresp", "proto-udpmsg"], race=True,
            timeout_quick=600, timeout_thorough=3600),
        job("frag", "core", "./internal/frag/", "frag", _files("core/internal/frag", "c03_frag_test.go"),
            "^TestVerifC03", ["frag-feedseq", "frag-split"], race=True,
            timeout_quick=600, timeout_thorough=3600),
        job("server", "core", "./server/", "server", _files("core/server", "c03_udp_test.go"),
            "^TestVerifC03Server", ["srv-feed", "srv-reply", "srv-loop", "srv-run"], race=True,
            timeout_quick=600, timeout_thorough=3600),
        job("client", "core", "./client/", "client", _files("core/client", "c03_udp_test.go"),
            "^TestVerifC03Client", ["cli-feed", "cli-run", "cli-send", "cli-tcpresp"], race=True,
            timeout_quick=600, timeout_thorough=3600),
        # concurrency workloads in jobs of their own: the flood runs in goroutines of the code under test
        # (run(), Run, receive loops); a panic there is process-fatal and must not take other parts' results along
        job("client-conc", "core", "./client/", "client", _files("core/client", "c03_udp_test.go", "c03_conc_test.go"),
            "^TestVerifC03ConcClient", ["cli-conc-feed", "cli-conc-run"], race=True,
            timeout_quick=600, timeout_thorough=3600),
        job("server-conc", "core", "./server/", "server", _files("core/server", "c03_udp_test.go", "c03_conc_test.go"),
            "^TestVerifC03ConcServer", ["srv-conc"], race=True,
            timeout_quick=600, timeout_thorough=3600),
        job("quic", "extras", "./sniff/internal/quic/", "quic", _files("extras/sniff/internal/quic", "c03_quic_test.go"),
            "^TestVerifC03", ["quic-header", "quic-unprotect", "quic-crypto"], race=True,
            timeout_quick=600, timeout_thorough=3600),
        # no -race here and for speedtest: the code under test allocates 64 KiB buffers per input, which the race
        # runtime makes ~300x slower (measured: 2 s vs >10 min); nothing in these two packages uses unsafe
        job("sniff", "extras", "./sniff/", "sniff", _files("extras/sniff", "c03_sniff_test.go"),
            "^TestVerifC03", ["sniff-tcp", "sniff-udp"], race=False,
            timeout_quick=600, timeout_thorough=3600),
        job("obfs", "extras", "./obfs/", "obfs", _files("extras/obfs", "c03_obfs_test.go"),
            "^TestVerifC03", ["obfs-salamander", "obfs-gecko"], race=True,
            timeout_quick=600, timeout_thorough=3600),
        job("realm", "extras", "./realm/", "realm", _files("extras/realm", "c03_realm_test.go", "c03_demux_test.go"),
            "^TestVerifC03", ["realm-punch", "realm-stun", "realm-conn", "realm-demux"], race=True,
            timeout_quick=600, timeout_thorough=3600),
        job("speedtest", "extras", "./outbounds/speedtest/", "speedtest", _files("extras/outbounds/speedtest", "c03_speedtest_test.go"),
            "^TestVerifC03", ["spd-server", "spd-pipe", "spd-client"], race=False,
            timeout_quick=600, timeout_thorough=3600),
        # ---- thorough: native fuzz targets, one per invocation
        _fuzz("fuzz-proto-udpmsg", "core", "./internal/protocol/", "protocol", "core/internal/protocol", ["c03_decoders_test.go"],
              "FuzzVerifC03ParseUDPMessage", "fuzz-proto-udpmsg"),
        _fuzz("fuzz-proto-tcp", "core", "./internal/protocol/", "protocol", "core/internal/protocol", ["c03_decoders_test.go"],
              "FuzzVerifC03ReadTCPFrames", "fuzz-proto-tcp"),
        _fuzz("fuzz-quic-packet", "extras", "./sniff/internal/quic/", "quic", "extras/sniff/internal/quic", ["c03_quic_test.go"],
              "FuzzVerifC03ReadCryptoPayload", "fuzz-quic-packet"),
        _fuzz("fuzz-quic-frames", "extras", "./sniff/internal/quic/", "quic", "extras/sniff/internal/quic", ["c03_quic_test.go"],
              "FuzzVerifC03CryptoFrames", "fuzz-quic-frames"),
        _fuzz("fuzz-sniff-udp", "extras", "./sniff/", "sniff", "extras/sniff", ["c03_sniff_test.go"],
              "FuzzVerifC03SnifferUDP", "fuzz-sniff-udp"),
        _fuzz("fuzz-sniff-tcp", "extras", "./sniff/", "sniff", "extras/sniff", ["c03_sniff_test.go"],
              "FuzzVerifC03SnifferTCP", "fuzz-sniff-tcp"),
        _fuzz("fuzz-obfs-gecko", "extras", "./obfs/", "obfs", "extras/obfs", ["c03_obfs_test.go"],
              "FuzzVerifC03GeckoFrame", "fuzz-obfs-gecko"),
        _fuzz("fuzz-realm", "extras", "./realm/", "realm", "extras/realm", ["c03_realm_test.go", "c03_demux_test.go"],
              "FuzzVerifC03RealmPackets", "fuzz-realm"),
    ],
    "min_events": 150000,
    "rule": ("One case = one byte string (fresh slice, cap==len) handed to one entry point, or one step of a sequence into one "
             "stateful receiver; the input is appended to inputs-<part>.log before the call. Inputs per entry: (a) ALL lengths "
             "0..64 of structured prefixes (every interesting first byte / type / version / length field, four fill patterns); "
             "(b) mutations of valid seeds: truncation at every offset, every bit of the first 48 bytes flipped, bytes set to "
             "00/01/7f/80/ff, every length field set to 0/1/max/limit+-1 in varint widths 1/2/4/8 (also with shorter and longer "
             "bodies), inserted/deleted/duplicated ranges; (c) random bytes of every length 0..64 plus long ones; (d) sequences for "
             "stateful receivers (Defragger, server and client UDP session managers incl. their own goroutines, reply path with "
             "*quic.DatagramTooLargeError for limits <=header/0/negative, Gecko reassembly from up to 700 sources incl. cap floods, "
             "punch/STUN demultiplexer, speed-test handler and client over scripted connections; hostile plaintext behind valid "
             "QUIC Initial protection made by a reference RFC 9001 sealer); (e) aggregates of individually valid inputs: complete "
             "fragment sets summing to 4095/4096/4097/8 KiB/64 KiB/255x1200..1400 bytes in order/reversed/shuffled with duplicates, "
             "thousands of sessions, more messages than a session's channel holds, CRYPTO frame sums around the 256 KiB cap, "
             "maximal Gecko chunk sets and 400 messages pending at once, event-channel overflow; (f) concurrency: the peer's "
             "flood for a session (backlog empty/almost full/full/overfull) while the application closes/reopens that session "
             "(client feed and run(); the closer acts when the receive path is parked in a synctest bubble, and free-running "
             "under -race), and the client's datagrams while the server session is closed by a socket error, a failing reply "
             "or the idle sweeper (datagrams timed onto the sweeper's instants in a bubble); (g) leftovers: STUN-looking datagrams "
             "(magic cookie; truncated/oversize/inconsistent lengths, cut or bad attributes, other message types, mutated genuine "
             "responses, also with the pending transaction id) through the real PunchPacketConn.ReadFrom reader before and while "
             "DiscoverWithDemux / Discover run, one synctest bubble per case, then a clean discovery that must return the right address. Oracle: no panic (recover in the calling goroutine -> "
             "key '<entry>-panic'; panic elsewhere / fatal error / checkptr kills the child -> key 'crash:...'), and after hostile "
             "input the same object processes a well-formed input correctly ('<entry>-service-stops'). Distinct & non-trivial = "
             "distinct (entry point, input bytes) executed; ev_accepted/ev_rejected and ev_canary_ok show that both the accepting "
             "and the rejecting paths of the decoders were reached. Thorough adds 8 native fuzz targets x 300000 executions "
             "(coverage-guided generator only; same oracle)."),
    "assumptions": [
        "session managers are fed only what protocol.ParseUDPMessage accepts (the fakes' ReceiveMessage is a copy of udpIOImpl.ReceiveMessage); "
        "hand-built UDPMessage values a peer cannot produce (empty address, nil data) are not fed",
        "PacketProtector.UnProtect is called only with the arguments ReadCryptoPayload derives from the datagram; arbitrary pnOffset values are a caller contract, not peer input",
        "tcpConn (core/client) wraps a concrete *quic.Stream and cannot be built over a scripted stream: its only decoder, ReadTCPResponse, "
        "is driven exactly as tcpConn.Read/clientImpl.TCP call it",
        "fakes return what real sockets return (n within the buffer, a *net.UDPAddr source); a misbehaving local socket is not peer input",
        "the data-race detector is not a C03 oracle (DESIGN 2.3); -race is used for checkptr and is off for extras/sniff and speedtest (64 KiB allocations per input make it ~300x slower)",
        "native fuzzing (thorough) is not reproducible from VERIF_SEED; a finding's input is stored in the replay file and replays through the regular part",
        "sampled input space: a panic that needs a precise structure longer than 64 bytes which neither the mutators nor coverage guidance reach is missed",
    ],
}
