from propkit import job

STATS = "harness/extras/trafficlogger/c15_stats_test.go"
CENSUS = "harness/extras/trafficlogger/c15_census_test.go"
SLOWLOG = "harness/extras/trafficlogger/c15_slowlog_test.go"
REALKICK = "harness/extras/trafficlogger/c15_realkick_test.go"

PROP = {
    "level": "exploration",
    "technique": ("runtime monitoring: conservation equation over the real stats handler under -race, offline porcupine "
                  "linearizability check of recorded histories, online census against a real server on simnet in a "
                  "synctest bubble"),
    "jobs": [
        job("stats", "extras", "./trafficlogger/", "trafficlogger",
            [STATS], "^TestVerifC15(Conservation|LinHist)$",
            ["c15-conserve", "c15-linhist"], race=True, timeout_quick=600, timeout_thorough=3600),
        job("census", "extras", "./trafficlogger/", "trafficlogger",
            [STATS, CENSUS, SLOWLOG, REALKICK], "^TestVerifC15(Census|SlowLogger|RealKick)$",
            ["c15-census", "c15-slowlog", "c15-realkick"], race=True, timeout_quick=600, timeout_thorough=3600),
    ],
    "parallel": 2,
    "post": [
        {"name": "c15-lin", "glob": "c15-hist*.jsonl", "cmd": ["{verif}/build/bin/c15lin"], "timeout": 3600},
    ],
    "race_oracle": True,
    "race_files": ["extras/trafficlogger/http.go"],
    "min_events": 50000,
    "rule": ("conserve: rounds of 16 logger goroutines calling the real LogTraffic (amounts 0..2^45, 2..6 users, optional "
             "hot user) against 4 pollers on the real handler (GET /traffic?clear=1, GET /traffic, GET /online, requests "
             "without the secret) and a kicker (POST /kick); per user and direction, exact integers: sum of cleared "
             "snapshots + final snapshot == sum of the reports that returned true; refusals <= kick requests; sequential "
             "epilogue kick -> refused once -> allowed, refused bytes not counted, online +n/-n -> not listed; "
             "kick while the user has 1 / 2 / 0 connections online, all of them go offline without a report, the user "
             "comes back online, next report must be the refused one and the one after allowed. "
             "linhist: short histories (about 60 operations, 21 clients released by a spin barrier, call/return stamps from "
             "one atomic counter; a third of the loggers are 'session' clients online -> [report] -> offline; in half of the "
             "histories one user is 'quiet': sessions and kicks but no report before the epilogue, so kicks stay pending "
             "across 0 -> n -> 0 online transitions; sequential epilogue per user: report, online x(0|1|2), kick, offline "
             "back to 0, online, report, report, offline, then snapshots) judged offline by porcupine against a "
             "per-user sequential model (counters, kick flag consumed by the one report it refuses and untouched by "
             "online/offline, online count), "
             "2-minute cap per history, timeout = inconclusive. census: PRNG scripts over 11..14 connections per real "
             "server (real clients and raw QUIC/h3 clients on simnet, virtual time) with the real stats server as "
             "TrafficLogger behind a recording pass-through: concurrent connects, rejected and repeated and racing "
             "authentications, TCP/UDP traffic, kick via each of the four report sites, client close, blackholed "
             "client (30 s idle timeout), kick of a user whose 1..2 connections all close before any traffic and who "
             "then reconnects (first report refused and that connection disconnected, next connection accepted), kick of "
             "a user who has never been online and then connects, server close; after every step, at virtual quiescence, per user: "
             "sum(online)-sum(offline) == live authenticated connections == GET /online, never negative, 0 at the end. "
             "slowlog: same world, but the pass-through's LogOnlineState sleeps 0/50/700 ms virtual before recording and "
             "forwarding (modes: only online slow, only offline slow, both, random per call); 5..8 connections per case "
             "(real and raw clients, staggered starts, overlapping connections of one id, two ids with a single "
             "connection) authenticate and close at once / after 20, 300, 2000 ms / stay / close while the "
             "authentication is still being answered; per id the balance of DELIVERED events never goes negative "
             "(single-connection ids: exactly online then offline), balance == GET /online == open authenticated "
             "connections at quiescence, {} and online==offline counts after everybody left (client close or server close). "
             "realkick (same job, real time, no bubble): real server on UDP 127.0.0.1:0 with the DEFAULT outbound, so the "
             "relay target is a real *net.TCPConn (WriterTo/ReaderFrom fast paths, *net.OpError wrapping), real stats "
             "server behind the recorder, real clients, harness TCP listeners on loopback; one relay carries data in one "
             "direction only (download or upload, chunk 700..40000 B, paced by the recorder), POST /kick, next chunk: its "
             "report must be refused exactly once and, after a logical clock of 100 (+100) complete echo round trips of "
             "another user through the same server, the user's offline notification must have been delivered and a new "
             "Client.TCP on the kicked client must fail; the user's idle second connection (every other pair of cases) "
             "stays listed with 1 and its next report is accepted. Real-time waits are watchdogs (inconclusive only). "
             "Non-trivial = round with non-empty cleared snapshots and refusals / history with overlapping operations "
             "on one user / census script containing a kick or a non-client-close ending; distinct = distinct script."),
    "assumptions": [
        "realkick: 'later' after a refused report = 2 x 100 complete round trips of another user through the same server (logical clock, as in C06's real-socket part)",
        "histories are partitioned by user: a snapshot that is not atomic across users is not detected (the property is per user)",
        "absent user in a listing is read as zero traffic / zero connections; a listed user with 0 connections is reported as stale",
        "census: lossless simnet links; quiescence = synctest.Wait() after a virtual settle (1 s, 40 s after a blackhole)",
        "census ground truth: a connection counts from the moment its client saw status 233 / NewClient returned, until the harness closed it, blackholed it (+40 s), had it kicked, or closed the server",
    ],
}
