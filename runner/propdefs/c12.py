from propkit import job

D = "harness/core/internal/congestion/bbr/"
# Go >= 1.24 turns math/rand.Seed into a no-op unless randseednop=0; bbr_sender.go draws its PROBE_BW gain-cycle
# offset from math/rand's global source, and the harness seeds that source per case to make every case reproducible.
ENV = {"GODEBUG": "randseednop=0"}
FILES = [D + "c12_mon_test.go", D + "c12_sim_test.go", D + "c12_quic_test.go", D + "c12_resume_test.go"]

PROP = {
    "level": "exploration",
    "technique": ("runtime monitoring: one monitor wrapping the real bbrSender, driven (1) by a quic-go-faithful trace "
                  "simulator on a virtual clock and (2) by real quic-go connections on simnet in a synctest bubble; "
                  "oracles after every callback, structural predicate over both call sequences"),
    "parallel": 2,
    "jobs": [
        job("traces", "core", "./internal/congestion/bbr/", "bbr", FILES, "^TestVerifC12Traces$",
            ["bbr-traces"], race=False, timeout_quick=900, timeout_thorough=5400, env=ENV),
        job("progress", "core", "./internal/congestion/bbr/", "bbr", FILES, "^TestVerifC12(Progress|Resume)$",
            ["bbr-progress", "bbr-resume"], race=False, timeout_quick=900, timeout_thorough=5400, env=ENV),
        job("quic", "core", "./internal/congestion/bbr/", "bbr", FILES, "^TestVerifC12RealQUIC$",
            ["bbr-real-quic"], race=False, timeout_quick=900, timeout_thorough=5400, env=ENV),
    ],
    "min_events": 100000,
    "rule": ("traces: PRNG traces stratified over 12 kinds x 3 profiles (conservative/standard/aggressive): capacity "
             "0.3..1000 Mbit/s, propagation RTT 5..500 ms (plus a long-RTT class: 1.5..5 s at 0.3..8 Mbit/s, RTT known from the handshake, and a LAN class: 0.1..2 ms at 0.5..10 Gbit/s), tail-drop queue 0.1..4 BDP, random loss 0..10 %, burst loss, "
             "blackouts (PTO probes that silently take the oldest packet out of flight, skipped packet number), ACK every "
             "1/2/4/10 packets with delayed-ACK timer, ACK aggregation 1..80 ms, ACK loss/jitter, data reordering, "
             "application-limited bursts and bulk/idle phases, packet-number gaps of 1..3 every >=8 packets, runs of <=19 "
             "ack-only packets from reverse traffic, path-MTU probes whose ACK raises the datagram size after the ACK's "
             "congestion event (start 1200/1252/1280/1350, seed min(start,1280)), 0..4 packets sent before the controller "
             "was installed, small maximum windows (40..440 packets) to reach the upper clamp; loss detection by packet "
             "(3) and time (9/8 RTT) threshold, event lists ascending and never both empty, ACK events >=10 us apart. "
             "progress: loss-free fixed-capacity links x 3 profiles (WAN links 1..500 Mbit/s x 5..300 ms for 20 virtual seconds; "
             "short-RTT fast paths 1..10 Gbit/s x 0.1..1.9 ms, BDP >> initial window, for 0.2..0.8 virtual seconds; timer-paced fast paths 200 Mbit/s..2.5 Gbit/s x 5..30 ms with ACK every 2 / every 10 "
             "packets / ACK bursts every quarter or half RTT, 0.25..4 virtual seconds, the send loop woken between ACKs only by "
             "TimeUntilSend), queue >= BDP, second-half goodput "
             "vs capacity and quiescence-with-data (deadlock) check; runs with a queue drop are excluded and counted. "
             "resume: the same loss-free links with a scripted application: bulk -> application-limited at 2/4/20 % of capacity "
             "for 3/12/40 round trips -> bulk (A), application-limited from the first packet -> bulk (B), on/off bursts -> bulk (C); "
             "delivered rate over max(1 s, 25 RTT) after the application became bulk again must reach 50 % of capacity (A, C; "
             "clean tree 86..98 %) resp. at least the rate the application offered before (B; the clean tree itself converges "
             "slowly there, 15..93 %, ratios recorded). "
             "real-quic: real quic-go server->client bulk transfers (3 profiles x (3 links + one 2.2 s-RTT link), plus lossy/reordering/shallow-"
             "queue routers in thorough) with the monitor installed by SetCongestionControl after Accept. After every "
             "callback: no panic, 4*MTU <= cwnd <= maxWindow*MTU, pacer bandwidth >= 65536 B/s, sampler queue keeps nothing "
             "older than min(lowest in flight, largest acked - 8), slots <= 24*(in flight+1)+64, queue entry of an "
             "in-flight packet is the one stored for it; pacing gate: HasPacingBudget=false => TimeUntilSend() non-zero and strictly "
             "after now, and at an announced deadline with nothing in between HasPacingBudget is true; all outputs are also "
             "checked at installation, before the first packet. Non-trivial = trace reached PROBE_BW with >= 50 congestion events "
             "(traces), asserted loss-free run (progress, resume), completed transfer with >= 500 monitored callbacks (real-quic); "
             "distinct = distinct parameter set."),
    "assumptions": [
        "QUIC-consistent = what quic-go's sentPacketHandler can emit for the application-data packet number space after "
        "the handshake (BBR is installed after the handshake by Hysteria); the structural predicate encoding this is "
        "asserted on every simulator trace and on the call sequences recorded from real quic-go",
        "simulator parameter ranges: ACK events >= 10 us apart, capacity <= 1 Gbit/s, RTT <= 500 ms, or RTT <= 5 s at <= 8 Mbit/s, or <= 10 Gbit/s at RTT <= 2 ms (rtt x bandwidth inside 63 bits; receivers on multi-Gbit/s paths ack every >= 25 us worth of packets)",
        "QUIC has an RTT measurement (from the handshake) before the controller is installed",
        "'not far below capacity' is the calibrated threshold 50 % of capacity over the second half of 20 virtual seconds "
        "(measured 93..100 % on WAN links, 84..91 % on sub-millisecond multi-Gbit/s links, on the unchanged tree), not a theorem",
        "'packets in flight' = retransmittable packets given to OnPacketSent and not yet reported acked/lost, aged by QUIC's "
        "packet-threshold rule; bookkeeping bound constants K=8, C=24, C0=64 justified in c12_mon_test.go",
        "bbr_sender.go draws its PROBE_BW gain-cycle offset from math/rand's global source; the harness seeds it per case",
    ],
}
