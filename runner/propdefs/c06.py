from propkit import job

KIT = "harness/core/internal/integration_tests/vfnet_test.go"

HARNESS = "harness/core/internal/integration_tests/c06_relay_test.go"


def _shard(name, i, n, tiers):
    return job(name, "core", "./internal/integration_tests/", "integration_tests", [KIT, HARNESS], "^TestVerifC06(Relay|Parallel|Churn|Boundary|Hooked)$",
               ["c06-relay-%dof%d" % (i + 1, n), "c06-parallel-%dof%d" % (i + 1, n), "c06-churn-%dof%d" % (i + 1, n),
                "c06-boundary-%dof%d" % (i + 1, n), "c06-hooked-%dof%d" % (i + 1, n)],
               race=False, timeout_quick=600, timeout_thorough=3600,
               tiers=tiers, env={"VERIF_C06_SHARD": "%d/%d" % (i, n)})


PROP = {
    "level": "exploration",
    "technique": ("runtime monitoring: real server + real client on simnet in a synctest bubble, scripted in-memory "
                  "targets, offset-coded streams, recording TrafficLogger, oracle over one ordered event log"),
    # One process runs its bubbles strictly one after the other (go1.25.0: concurrent bubbles + GC can
    # freeze a bubble); the case list is split over processes by VERIF_C06_SHARD=i/n.
    "jobs": [_shard("q%d" % i, i, 2, ("quick",)) for i in range(2)]
            + [_shard("t%d" % i, i, 8, ("thorough",)) for i in range(8)]
            + [job("real", "core", "./internal/integration_tests/", "integration_tests",
                   [KIT, HARNESS, "harness/core/internal/integration_tests/c06_real_test.go"], "^TestVerifC06Real$",
                   ["c06-real"], race=False, timeout_quick=600, timeout_thorough=3600)],
    "parallel": 8,
    "min_events": 3000,
    "rule": ("PRNG worlds (virtual time, one-way latency 1..50 ms, loss 0..3 % in veto-free worlds, traffic logger "
             "present 4/5 with 0..3 ms answer delay): 'exact' worlds of 2..6 users with ONE relay each (own client and "
             "user id), 'parallel' worlds of one user with 1..32 concurrent streams, and 'churn' worlds (own part, "
             "GOMAXPROCS(1)): 5..8 rounds back to back on one server; per round relay A's target half-closes while A's client "
             "keeps uploading, the (harness-owned, slow) EventLogger.TCPError holds the server 80..300 ms between the relay "
             "function returning and the close of A's two ends, and in that window 2..3 relays B of other users start and "
             "stream both ways with a logger taking 0.3..2 ms per chunk -- anything shared between a relay being torn down "
             "and a starting one shows as foreign bytes; 'boundary' worlds (own part, enumerated, fast open off/on): request "
             "ADDRESS lengths and dial-error MESSAGE lengths 62, 63, 64, 65, 2047, 2048 (varint width changes, 16383/16384 "
             "capped by the 2048 limits), each relay with its own client (the same lengths are also sampled in 1/5 of the "
             "'exact' relays / half of their failed dials); 'hooked' worlds (own part): the server has a RequestHook that intercepts "
             "every relay (early accept, then hook.TCP): hook behaviour none / peek up to 600 payload bytes and put them back / "
             "peek and rewrite the address / refuse, x dial ok / slow ok / refused / slow then refused, x quiesce, c_close_idle, "
             "t_close_idle, x fast open; relays 0..2 of each world are fixed (refused without fast open, slow-then-refused with "
             "fast open, hook refusal). Oracles there: client reads a prefix of what the target wrote -- not one byte when no "
             "target ever existed -- target gets (putback first) a prefix of what the client wrote, completeness shapes (i)/(ii); "
             "the accounting clause is not applied to hooked connections (excluded by the statement); SLOW DIAL: in 1/4 of all bubble relays (and enumerated in the "
             "boundary worlds) the fake Outbound.TCP answers only after 50..500 ms, and with fast open the client first issues "
             "0..2 Reads whose deadline expires while the server is still dialling, then clears the deadline -- later Reads "
             "must deliver exactly the target's stream (prefix oracle) or the DialError; Client.TCP and the first fast-open Read are bounded by 300 s of "
             "virtual time (never answered => dial:request-never-answered / dial:error-not-carried); and a REAL-SOCKET part "
             "(job 'real', real time, no bubble): real server on UDP 127.0.0.1:0 with the DEFAULT outbound (targets are "
             "*net.TCPConn), real clients, harness TCP listeners on 127.0.0.1:0, 36 relays quick / 270 thorough cycling "
             "c_close_ii, c_close_slow (upload of 1..4 MiB into a target that starts reading 100..500 ms late and pauses 0.3..1.5 ms "
             "per 8..32 KiB read, default socket buffers; must receive every byte before the end of stream), t_close_ii "
             "(FIN), t_halfclose_ii (CloseWrite), t_rst (SetLinger(0)+Close mid-stream), veto_rx, "
             "veto_tx (n-th call of that direction, n in 1..4), dial_refused (listener closed; DialError.Message must equal the "
             "error text in the server's EventLogger.TCPError); there only load-safe oracles decide: prefix both directions, "
             "completeness shape (ii) when the receiver saw the end of stream (watchdog 40 s => inconclusive), arrived <= "
             "approved at every arrival, and after a veto a Client.TCP issued after 100 (and again after 200) complete round "
             "trips of another user's relay through the same server must fail with ClosedError. Relay script = mode in "
             "{quiesce, c_close_idle, t_close_idle, c_close_mid, t_close_mid, both_close, t_error, dial_fail} x sizes "
             "0..2 MiB per direction x write chunking 1..64 KiB x pacing sleeps x client read buffer 1..64 KiB x fast "
             "open on/off (late first Read) x veto at LogTraffic call n in {1,2,3..20} one-shot or sticky, answered at once "
             "or after 50..500 ms (slow logger) -- with modes c_close_on_veto / t_close_on_veto in which the side that "
             "is NOT being vetoed closes while the logger is still deciding, so the vetoed direction finishes second. "
             "Content is "
             "keyed by (case, relay, direction, offset). Oracles: prefix at every arrival in both directions; "
             "completeness only for shape (i) nobody closes until all bytes arrived and shape (ii) sender writes N, "
             "closes, opposite direction idle; failed dial => DialError.Message == outbound error text from Client.TCP "
             "(or first Read with fast open) and nothing relayed; at every arrival forwarded <= approved so far; at the "
             "end 0 <= handed - written-to-target <= last handed chunk (tx), client-read <= handed <= taken-from-target "
             "+ last chunk (rx) -- with P streams per user the slack is the sum of the P largest chunks; after a veto "
             "a new Client.TCP fails with ClosedError. An evaluation is one relay; distinct = distinct "
             "(mode, sizes, chunking, cut point, read buffer, fast open, logger, veto, streams, latency, loss)."),
    "assumptions": [
        "bubble parts: targets are in-memory duplex pipes; kernel TCP semantics (WriterTo/ReaderFrom, OpError wrapping, FIN, "
        "half-close, RST) are exercised by the real-socket part only, with load-safe oracles",
        "real-socket part: 'later' after a veto = 2 x 100 complete round trips of another user through the same server",
        "no request hook is configured (the accounting clause only covers un-hooked connections)",
        "the close after a veto is observed on a lossless link, >= 1 s + 8 one-way latencies of virtual time later",
        "300 s of virtual time without delivery while nobody closed counts as never",
        "relay goroutines the server (or a client Write) leaves blocked for ever after Close+connection loss are "
        "outside the statement: counted as obs_* observations and released through a write deadline",
        "bytes forwarded target->client are bracketed by (bytes read by the client, bytes the server took from the "
        "target); bytes forwarded client->target are observed exactly",
    ],
}
