from propkit import job

KIT = "harness/core/internal/integration_tests/vfnet_test.go"

PROP = {
    "level": "exploration",
    "technique": ("runtime monitoring, differential: real Hysteria server vs. a plain quic-go http3.Server with the same "
                  "http.Handler, identical raw HTTP/3 clients, one synctest bubble on simnet (overlapping-request part: simnet in "
                  "real time with a logical clock); accepted-auth decided by the authenticator fake's event log"),
    "jobs": [
        # real-time parts first: they decide "never answered" on a logical clock; a server defect of that kind
        # freezes the bubble parts (a goroutine waiting on a mutex is not durably blocked)
        job("realtime", "core", "./internal/integration_tests/", "integration_tests",
            [KIT, "harness/core/internal/integration_tests/c02_masq_test.go"], "^TestVerifC02(Repeat|Overlap)$",
            ["c02-repeat", "c02-overlap"], race=False, timeout_quick=600, timeout_thorough=1800),
        job("held", "core", "./internal/integration_tests/", "integration_tests",
            [KIT, "harness/core/internal/integration_tests/c02_masq_test.go"], "^TestVerifC02Held$",
            ["c02-held"], race=False, timeout_quick=600, timeout_thorough=1800),
        job("masq", "core", "./internal/integration_tests/", "integration_tests",
            [KIT, "harness/core/internal/integration_tests/c02_masq_test.go"], "^TestVerifC02(Matrix|Scripts)$",
            ["c02-matrix", "c02-scripts"], race=False, timeout_quick=600, timeout_thorough=1800),
    ],
    "min_events": 2000,
    "rule": ("Each world = one real Hysteria server (MasqHandler = nil or a deterministic custom web application that "
             "echoes method/host/path/query/Hysteria-* request headers/body digest and, by an X-Vf-Mode request header, answers "
             "with custom status (201..503), custom and multi-valued headers, empty / implicit / flushed / 1 B..300 kB bodies, "
             "redirects, 404) plus a plain quic-go http3.Server with the same handler (http.NotFound for nil) on a second "
             "simnet endpoint. Every connection has a twin connection to the reference; each request goes to both through "
             "the same client code at the same virtual instant. Part c02-matrix: the complete matrix "
             "{GET,POST,PUT,HEAD,OPTIONS,DELETE} x {hysteria, example.com, hysteria.example, xhysteria} x "
             "{/auth, /auth/, /authx, /Auth, /, /a/b?q=1} x {no Hysteria header, Hysteria-Auth rejected, full client header set "
             "with rejected credentials, Hysteria-CC-RX garbage, Hysteria-Padding, Hysteria-Auth with ACCEPTABLE credentials "
             "(near-misses only)}, 48 requests per connection in PRNG order, on unauthenticated connections and on "
             "connections authenticated first, with and without the custom handler. Part c02-scripts: PRNG sequences of "
             "4..15 actions on 1..4 concurrent connections (45 % one-coordinate near-misses of POST hysteria/auth, 15 % POST "
             "hysteria/auth with rejected credentials, rest uniform), an accepted authentication at a random position on "
             "~60 % of the connections (requests before / between / after it), short fresh connections, 0x401+TCPRequest "
             "streams before acceptance and UDPMessage datagrams on never-authenticated connections. Oracle per request that "
             "the authenticator fake did not accept (its log: auth_call/auth_ok/auth_rej of that connection while the request "
             "was in flight; census at the end that no call happened outside such a window): status, all header names, all "
             "header values (Date value: observation only) and body equal the reference's; status != 233; no header name "
             "starting with 'Hysteria'; near-misses never reach the authenticator. Repeated POST hysteria/auth on an already "
             "accepted connection is C01's subject and is not compared. Unauthenticated stream: bytes read must not parse as "
             "a TCPResponse (unless the plain web server returns the same bytes); unauthenticated datagrams: none received "
             "until 1 s virtual after the script. Part c02-overlap (simnet in REAL time, because a request waiting on a server "
             "mutex would freeze a bubble's clock): OVERLAPPING requests on one unauthenticated connection. A POST hysteria/auth "
             "with to-be-rejected credentials is kept pending (a) inside the authenticator fake ('hold:' credential) or (b) "
             "inside the custom masquerade handler answering the rejected request (gate); meanwhile 1..3 ordinary / near-miss "
             "requests go out on the same connection (and on its twin to the reference). Logical clock: 40 sequential "
             "request/response round trips on a second, untouched connection to each server; if they complete (confirmed by a "
             "second 40), the pending request is still pending, the reference answered the overlapping request and the Hysteria "
             "server did not -> server:request-stalled-behind-pending-auth. After release every response (overlapping and the "
             "rejected auth itself) is compared with the reference as above and the authenticator log must contain exactly the "
             "one pending call. Real time only orchestrates; 30 s watchdogs yield inconclusive. "
             "Part c02-repeat (real time, same logical clock, runs first): sequences on ONE unauthenticated connection of 2..4 POST "
             "hysteria/auth with rejected credentials (header sets none / auth / full / CC-RX garbage / padding) shuffled with "
             "0..4 ordinary or near-miss requests, sent one after the other to the connection and its reference twin; a request "
             "the reference has answered and the Hysteria server has not while 2x40 round trips completed on an untouched "
             "connection to each server -> server:request-never-answered; otherwise compared with the reference as above; "
             "census: one Authenticate call per auth-shaped request with its credential, none else. "
             "Long-lived unauthenticated connections (bubble parts, free on virtual time): scripts contain quiet periods of 11 s "
             "or 24 s (below QUIC's 30 s idle timeout, at most one between two requests), every matrix connection one of 11 s, "
             "and the custom handler has a mode that sends its body in two flushes 12 s apart; the reference gets the same "
             "treatment, the differential oracle decides (a connection closed under a masquerade client shows as "
             "server:masq-no-response). A frozen bubble (no request completes for 150 s real time: some goroutine waits "
             "non-durably, e.g. on a server mutex) is reported inconclusive with the goroutine dump, never as a verdict. "
             "Part c02-held (bubble, own job): a POST hysteria/auth is HELD in the authenticator fake for 30 ms..7 s virtual; while it is "
             "held the client opens 1..2 0x401+TCPRequest streams and sends a UDPMessage datagram on the same connection (variant: "
             "streams/datagram before the auth request); then the decision is released. Rejected credentials: until 6.5 s after "
             "the release no TCPResponse on those streams (differential with the reference twin), no datagram, no outbound "
             "TCP/UDP/CheckUDP call, UDP write or TCP/UDP request event for their unique addresses "
             "(server:outbound-for-unauthenticated-connection), and the rejected auth is answered like the reference's twin. "
             "Accepted credentials: streams sent for variety only, not judged (C01's subject). "
             "The custom web application also: sends 1xx informational responses before the final status (103 Early Hints with "
             "Link, 102, several 1xx, 103 followed by an implicit 200), calls WriteHeader twice, flushes before WriteHeader, "
             "writes a body without WriteHeader/Content-Type, sets then deletes headers and suppresses Date, sends trailers "
             "(declared and TrailerPrefix), and reports which optional interfaces its ResponseWriter offers; the client records "
             "the 1xx sequence (httptrace) and trailers, and both are compared with the reference's "
             "(server:masq-informational-differs, server:masq-trailer-differs). c02-matrix additionally runs EVERY handler mode "
             "once as an ordinary request, as a rejected POST hysteria/auth and as a near-miss, before and after an accepted auth. "
             "evaluation = one request / stream / datagram action; non-trivial = a "
             "compared request; distinct = distinct (handler, authenticated?, method, host, path, header set, mode, body)."),
    "assumptions": [
        "quic-go's http3.Server with the same handler is the definition of 'the response the handler gives on a plain web server'",
        "repeat part: same logical clock as the overlap part decides 'never answered' (no wall-clock threshold)",
        "matrix/scripts parts: requests on one connection are sequential, so authenticator events logged while a request is in flight belong to it",
        "overlap part: a request that the reference answers and the Hysteria server does not answer during 2x40 sequential round trips on another connection of the same process, while the auth request is verifiably still pending, counts as stalled (no wall-clock threshold)",
        "absence of datagrams / stray authenticator calls is observed until virtual quiescence plus 1 s virtual settle",
        "case variants of the host and 'hysteria:443', and POST hysteria/auth with a query string, are not generated (debatable)",
        "equality of the Date header value is not demanded (compared, mismatch only counted)",
        "held part: an accepted auth request carries Hysteria-CC-RX 0 so that Brutal (which panics on the negative monotime of a bubble) is never installed",
    ],
}
