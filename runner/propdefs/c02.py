from propkit import job

KIT = "harness/core/internal/integration_tests/vfnet_test.go"

PROP = {
    "level": "exploration",
    "technique": ("runtime monitoring, differential: real Hysteria server vs. a plain quic-go http3.Server with the same "
                  "http.Handler, identical raw HTTP/3 clients, one synctest bubble on simnet; accepted-auth decided by the "
                  "authenticator fake's event log"),
    "jobs": [
        job("masq", "core", "./internal/integration_tests/", "integration_tests",
            [KIT, "harness/core/internal/integration_tests/c02_masq_test.go"], "^TestVerifC02",
            ["c02-matrix", "c02-scripts"], race=False, timeout_quick=600, timeout_thorough=3600),
    ],
    "min_events": 2000,
    "rule": ("Each world = one real Hysteria server (MasqHandler = nil or a deterministic custom web application that "
             "echoes method/host/path/query/Hysteria-* request headers/body digest and, by an X-Vf-Mode request header, answers "
             "with custom status (201..503), custom and multi-valued headers, empty / implicit / flushed / 1 B..300 kB bodies, "
             "redirects, 404) plus a plain quic-go http3.Server with the same handler (http.NotFound for nil) on a second "
             "simnet endpoint. Every connection has a twin connection to the reference; each request goes to both through "
             "the same client code at the same virtual instant. Part c02-matrix: the complete matrix "
             "{GET,POST,PUT,HEAD,OPTIONS,DELETE} x {hysteria, example.com, hysteria.example, xhysteria} x "
             "{/auth, /auth/, /authx, /Auth, /, /a/b?q=1} x {no Hysteria header, Hysteria-Auth rejected, full client header set "
             "with rejected credentials, Hysteria-CC-RX garbage, Hysteria-Padding, Hysteria-Auth with ACCEPTABLE credentials "
             "(near-misses only)}, 48 requests per connection in PRNG order, on unauthenticated connections and on "
             "connections authenticated first, with and without the custom handler. Part c02-scripts: PRNG sequences of "
             "4..15 actions on 1..4 concurrent connections (45 % one-coordinate near-misses of POST hysteria/auth, 15 % POST "
             "hysteria/auth with rejected credentials, rest uniform), an accepted authentication at a random position on "
             "~60 % of the connections (requests before / between / after it), short fresh connections, 0x401+TCPRequest "
             "streams before acceptance and UDPMessage datagrams on never-authenticated connections. Oracle per request that "
             "the authenticator fake did not accept (its log: auth_call/auth_ok/auth_rej of that connection while the request "
             "was in flight; census at the end that no call happened outside such a window): status, all header names, all "
             "header values (Date value: observation only) and body equal the reference's; status != 233; no header name "
             "starting with 'Hysteria'; near-misses never reach the authenticator. Repeated POST hysteria/auth on an already "
             "accepted connection is C01's subject and is not compared. Unauthenticated stream: bytes read must not parse as "
             "a TCPResponse (unless the plain web server returns the same bytes); unauthenticated datagrams: none received "
             "until 1 s virtual after the script. evaluation = one request / stream / datagram action; non-trivial = a "
             "compared request; distinct = distinct (handler, authenticated?, method, host, path, header set, mode, body)."),
    "assumptions": [
        "quic-go's http3.Server with the same handler is the definition of 'the response the handler gives on a plain web server'",
        "requests on one connection are sequential, so authenticator events logged while a request is in flight belong to it",
        "absence of datagrams / stray authenticator calls is observed until virtual quiescence plus 1 s virtual settle",
        "case variants of the host and 'hysteria:443', and POST hysteria/auth with a query string, are not generated (debatable)",
        "equality of the Date header value is not demanded (compared, mismatch only counted)",
    ],
}
