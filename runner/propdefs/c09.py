from propkit import job

PROP = {
    "level": "exploration",
    "technique": "independent reference evaluator + history-consistency monitor + race detector",
    "jobs": [
        job("acl", "extras", "./outbounds/acl/", "acl",
            ["harness/extras/outbounds/acl/c09_model_test.go",
             "harness/extras/outbounds/acl/c09_ruleset_test.go"], "^TestVerifC09(History|BigCache|Concurrent)$",
            ["acl-history", "acl-bigcache", "acl-concurrent"], race=True,
            timeout_quick=600, timeout_thorough=3600),
        # the > 65 536-rule list is single-threaded and scan-heavy: run it without the race detector
        job("acl-long", "extras", "./outbounds/acl/", "acl",
            ["harness/extras/outbounds/acl/c09_model_test.go",
             "harness/extras/outbounds/acl/c09_ruleset_test.go"], "^TestVerifC09LongList$",
            ["acl-longlist"], race=False,
            timeout_quick=600, timeout_thorough=3600),
        job("engine", "extras", "./outbounds/", "outbounds",
            ["harness/extras/outbounds/c09_model_test.go",
             "harness/extras/outbounds/c09_engine_test.go"], "^TestVerifC09",
            ["engine-history", "engine-concurrent"], race=True,
            timeout_quick=600, timeout_thorough=3600),
    ],
    "parallel": 3,
    "race_oracle": True,
    "race_files": ["extras/outbounds/acl/", "extras/outbounds/acl.go"],
    "min_events": 50000,
    "rule": ("rule lists of 1..12 (with an order block at most 13) rules are drawn in a structured form (address kind exact / suffix: / "
             "wildcard / IP / CIDR / all over a small per-case universe of domains, IPv4 and IPv6 networks "
             "and ports, so rules overlap; protocol tcp|udp|both; no port, single port or inclusive range; "
             "optional IPv4/IPv6 hijack address). Every other rule list embeds an ORDER-sensitivity block: one "
             "address pattern (exact, suffix, wildcard, IP or CIDR) occurs 2..4 times with different outbounds, "
             "protocols, port sets overlapping around a common port and hijack addresses, with exact-name rules "
             "for other names that share (outbound, proto/port, hijack) with the first / last / any occurrence "
             "placed ahead of, between and after the occurrences (runs of exact-only rules), optionally between "
             "random rules. Lists are rendered to rule-file text (mixed case, trailing dots, "
             "comments, blank lines, spacing, `all` vs `*`, the documented protoPort spellings) and compiled "
             "by the real ParseTextRules+Compile. Queries are derived from the rules: names equal to a "
             "pattern, `x`+pattern, sub-domain, parent, pattern+`x`, other TLD, wildcard instantiations and "
             "their neighbours, upper-case and trailing-dot variants; IPs at both edges of each CIDR, one "
             "beyond each edge, the sibling network, IP rule +-1, IPv4 in 4- and 16-byte form, IPv4+IPv6 "
             "together, IP literals as host; ports lo-1, lo, hi, hi+1, mid of rules that cover the host; both "
             "protocols; a quarter of the hosts are drawn from addresses that occur in several rules and are probed at "
             "the port edges of ALL rules covering them; plus random ones. Each history asks every query >= 3 times at different points "
             "(permutation, immediate/near repeats, sibling bursts, derivation order, permutation) against "
             "cache sizes 1, 4 and 1024 (and > 1024 distinct queries against 1024), then a cold lookup on a "
             "fresh rule set. One in eight IPv4 address/CIDR rules is written in IPv4-mapped notation "
             "(::ffff:a.b.c.d, prefix+96) and one in eight hosts carries an IPv4-mapped address in its IPv6 slot "
             "(as an AAAA answer may), judged as the IPv4 address it denotes. Long list (job acl-long, no race "
             "detector): one synthetic list of 67 036 rules (thorough also 131 772), every rule with its own "
             "address and a hijack address encoding its position; probes whose deciding rule sits at positions "
             "0,1,2,254..257, 65533..65538 (and 131069..131074), the last two rules, the final `all` rule and a "
             "miss; each asked cold, immediately again and twice more (cache hits). Engine layer: the same cases through aclEngine with recording fake outbounds; requests "
             "carry ResolveInfo nil / empty / Err only / addresses / addresses together with Err (partial "
             "resolution: one of the A/AAAA lookups failed), the last judged on the addresses present. "
             "A case = (rule list, query); non-trivial when the query is decided by a rule (not a miss); "
             "distinct = distinct (rule file text, query)."),
    "assumptions": [
        "documented semantics as read from the ACL doc comments and the package's own tests: `*` in a name "
        "pattern stands for any run of characters including dots, the pattern covers the whole name; whether "
        "`*` may stand for the empty string is undocumented, so such queries are only required to be answered "
        "consistently and with one of the two readings",
        "IP and CIDR patterns are matched against the resolved IPv4/IPv6 of the request, family-strict; "
        "an IPv4-mapped IPv6 address (::ffff:a.b.c.d), in a rule or in either "
        "resolved-address slot, denotes the IPv4 address a.b.c.d (RFC 4291 2.5.5.2; the meaning net.IP.Equal / "
        "IPNet.Contains give it); mapped-notation CIDR rules are only written with prefix >= 96 and mapped request "
        "addresses are not generated next to a `::/0` rule, where the two readings would differ",
        "not demanded: `|` in names, IDN / xn-- labels, port 0 in rules, geoip:/geosite: matchers",
        "interface.go documents that ResolveInfo may hold an error together with resolved addresses; such "
        "addresses are resolved addresses of the host and IP/CIDR rules apply to them (Err alone: name only)",
        "a host name that is an IP literal always comes with that IP as its resolved address (as the resolver "
        "stage produces it)",
    ],
}
