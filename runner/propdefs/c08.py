from propkit import job

PROP = {
    "level": "exploration",
    "technique": "runtime monitoring: policy oracle on every socket write of the real session manager; CheckUDP/UDP agreement of the real ACL engine",
    "parallel": 2,
    "jobs": [
        job("udp-policy", "core", "./server/", "server",
            ["harness/core/server/c07c08_fakes_test.go", "harness/core/server/c07c08_wb_none_test.go",
             "harness/core/server/c08_policy_test.go"],
            "^TestVerifC08", ["udp-policy"], race=False,
            timeout_quick=300, timeout_thorough=3600),
        job("acl-udp", "extras", "./outbounds/", "outbounds",
            ["harness/extras/outbounds/c08_aclcheck_test.go", "harness/extras/outbounds/c08_resolvers_test.go"],
            "^TestVerifC08", ["acl-checkudp", "acl-resolvers"], race=False,
            timeout_quick=300, timeout_thorough=3600),
    ],
    "min_events": 20000,
    "rule": ("server layer: per case a PRNG allow/deny table over 1..600 destination strings (host and port both matter; "
             "deny share 5..95 %) is applied by the fake outbound in UDP() and CheckUDP(); 1..2 sessions send 1..2000 "
             "datagrams following one of 9 patterns (uniform, deny/allow alternation, fill-and-evict with re-probes of a "
             "denied and an allowed destination, denied first, zipf, mostly-denied overflow, >256 allowed first then the "
             "denied ones, hostile fragments, cross-session). Cross-session: 2..6 sessions of one connection name "
             "literally the same destination strings; 1..3 hooked sessions open with a datagram addressed to a REJECTED "
             "destination D that the hook rewrites (the policy never sees D for them), 1..3 plain sessions whose socket "
             "exists send to D as a later destination, in the orders plain-first / D-already-rejected-for-the-plain-session "
             "/ hooked-first, repeated and mixed with ordinary traffic: D must never receive a datagram. Hostile client: fragment sets of ONE datagram whose fragments name "
             "DIFFERENT destinations -- for 2 and 3 fragments every allowed/denied assignment in every arrival order, as "
             "first datagram of a session and on an established socket -- whole datagrams with FragCount 0/1 but FragID "
             "1/2/255, sets with FragID >= FragCount; the systematic enumeration is its own pattern and random hostile "
             "sets are sprinkled (1 in 25) into all other patterns; such a datagram may only go to a destination one of "
             "its fragments named AND the policy allows. Hook rewrite on for 40 % of the cases (the rewritten destination is itself allowed or denied). "
             "Every WriteTo of every fake socket is checked. A case is non-trivial when a session used more than 256 "
             "distinct destinations on one socket (decision cache overflowed); distinct = (pattern, table size, deny "
             "share, sequence). ACL layer: random rule texts (1..14 rules over exact / wildcard / suffix / CIDR / IP / all "
             "matchers, proto tcp|udp|*, ports and ranges, optional hijack IP, outbounds ob1 ob2 direct default reject) "
             "compiled by the real engine behind PluggableOutboundAdapter, with and without a fake resolver stage that -- like "
             "the real resolvers -- also delivers partial failures (error set AND one address family resolved) and complete "
             "failures; for every address of a host x port grid (names, IP literals, partially / completely unresolvable "
             "names) plus malformed addresses: CheckUDP rejects <=> UDP rejects, both consult the same sub-outbound with "
             "the same address, verdicts are stable when re-asked after >1024 other lookups, and the chosen outbound / "
             "reject and the host handed on equal a reference first-match evaluation written from the documented rule "
             "semantics (IP and CIDR rules apply to whatever address was resolved, hijack replaces the host, no match = "
             "default outbound). Resolvers: the same chain with the REAL resolver stages -- standard resolver over UDP and over "
             "TCP against an in-process DNS server on loopback, DoH resolver against an in-process HTTPS server (SERVFAIL "
             "for one family = partial failure, NXDOMAIN = complete failure), system resolver with localhost -- 8 rule "
             "sets per stage (random rules plus IP/CIDR rejections incl. loopback), destinations written as host names "
             "and as IP literals x 4 ports: the verdict (reject / outbound / host) must be the same as a session's first "
             "destination (UDP) and as a later one (CheckUDP), and equal the reference evaluation on the name and the "
             "addresses it resolves to in the harness's zone."),
    "assumptions": [
        "the policy is a pure function of the destination string (as the property quantifies it)",
        "the server-layer job is black-box: it uses newUDPSessionManager / Run / Count and the udpIO, UDPConn, "
        "udpEventLogger interfaces only (no field of udp.go's structs, no constant)",
        "sub-outbounds behind the ACL engine answer CheckUDP and UDP consistently (fakes do)",
        "the real-resolver part needs loopback UDP/TCP sockets (inconclusive if they cannot be opened); real time only "
        "carries the DNS queries, verdicts are compared by value",
        "reference ACL evaluation: '*' in a name pattern matches any run of characters, names compare case-insensitively; "
        "IDN (xn--) hosts and, without a resolver stage, IP-literal hosts are excluded from the reference comparison",
        "no idle expiry or socket fault occurs in the server-layer cases (10 min timeout, virtual time barely moves)",
    ],
}
