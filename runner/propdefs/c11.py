from propkit import job

D = "harness/core/internal/congestion/brutal/"
BRUTAL_FILES = [D + "c11_brutal_test.go", D + "c11_quic_test.go"]

PROP = {
    "level": "exploration",
    "technique": ("runtime monitoring: the real BrutalSender / Pacer driven by a quic-go-faithful simulated send loop on a "
                  "virtual monotonic clock and by real quic-go connections on simnet in a synctest bubble; reference "
                  "models (token-bucket envelope over all intervals, 5-slot ack-rate model) evaluated after every call"),
    "parallel": 3,
    "jobs": [
        job("brutal", "core", "./internal/congestion/brutal/", "brutal", BRUTAL_FILES, "^TestVerifC11(SendLoop|AckRate|Window)$",
            ["brutal-sendloop", "brutal-ackrate", "brutal-window"], race=False,
            timeout_quick=600, timeout_thorough=3600),
        job("realquic", "core", "./internal/congestion/brutal/", "brutal", BRUTAL_FILES, "^TestVerifC11RealQUIC$",
            ["brutal-real-quic"], race=False,
            timeout_quick=600, timeout_thorough=3600),
        job("pacer", "core", "./internal/congestion/common/", "common",
            ["harness/core/internal/congestion/common/c11_pacer_test.go"], "^TestVerifC11",
            ["pacer-loop"], race=False,
            timeout_quick=600, timeout_thorough=3600),
    ],
    "min_events": 500000,
    "rule": ("brutal-sendloop: one trace = one BrutalSender (rate log-uniform 65 536..5e9 B/s plus corners, a third "
             "of the traces below 1.5 MB/s where the pacing delay exceeds the 1 ms timer floor; datagram size "
             "1200..1500 set at start or left at the controller default, raised later by acknowledged MTU probes; "
             "network RTT 0 / 50 us..500 ms; loss probability 0..1 switching between phases, a fifth around the 0.8 "
             "clamp; loss compensation off in a fifth) driven by a loop that mirrors quic-go: "
             "CanSend(bytesInFlight) -> HasPacingBudget(now) -> OnPacketSent(now, inFlightAfter, pn, size, "
             "ackEliciting); when pacing limited it sleeps until TimeUntilSend() (exactly, or up to 2 ms late, or cut "
             "short by an ack event), occasionally emitting an un-paced ACK-only packet as quic-go does; of the packets sent through the OPEN gate a "
             "per-trace share of 0 / 25 / 75 / 100 % (or bursts of 4..300) is not ack-eliciting (isRetransmittable=false, "
             "25 B..one datagram, never in flight, never acknowledged) and counts in full towards the envelope; when window "
             "limited it waits for acks; the application alternates bursts of 1..2000 packets, bucket-draining "
             "backlogs and idle gaps from 0 up to the edge of the stated range rate x gap < 2^63; acks/losses arrive "
             "one network RTT later in coalesced batches through OnCongestionEventEx after the RTT estimate was "
             "updated. 2 500..60 000 loop steps per trace (enough to drain the initial bucket at every rate). "
             "brutal-ackrate: one trace = 120..320 direct OnCongestionEventEx calls with virtual time steps from 0 "
             "to 27 s (exact second boundaries, 4..6.5 s and >7 s silences) and batches of 1..4 packets (totals "
             "creep through the 50-sample threshold) or 1..4400 packets. brutal-window: 30..90 calls per case (window reads, "
             "MTU raises at arbitrary points, sends, ack/loss batches, rare RTT changes) on a fake RTT provider that "
             "otherwise keeps returning the same value, half of the cases at 64..200 KB/s with RTT 0..10 ms and a "
             "third with 2 x rate x RTT within 15 % of one datagram, so the one-datagram floor is what determines the "
             "window; the floor is asserted against the current datagram size after every call, incl. right after "
             "SetMaxDatagramSize (also in sendloop, a third of whose traces now run with a fixed smoothed RTT, and in "
             "real-quic). pacer-loop: common.Pacer alone under the "
             "same loop with a bandwidth that jumps inside [bps, bps/0.8] every 0..3 ms / 0..400 ms or stays at an "
             "end point. brutal-real-quic: real quic-go server->client bulk transfers (~6 virtual seconds) in a synctest "
             "bubble over simnet with a bottleneck router (capacity 2x / 0.92x / 0.6x the Brutal rate, one-way delay "
             "5..120 ms, tail-drop queue, path MTU 1330/1400/1452/none, random loss in thorough, optional reverse "
             "traffic so the server also emits ACK-only packets); Brutal rates 0.3/1/4/12 MB/s; a monitor embedding the "
             "real BrutalSender is installed with SetCongestionControl after Accept (as UseBrutal does) and checks the "
             "factor against the reference model, window >= datagram, and 'pacing limited => future wake-up with budget' "
             "on the calls quic-go actually makes, plus the byte envelope over the packets released through the open "
             "gate (OnPacketSent at the instant of a preceding HasPacingBudget==true; un-gated ACK-only packets and PTO "
             "probes excluded); two extra transfers per variant make the server (Brutal at 64 / 100 KB/s) mostly a "
             "receiver of an 8..12 MB client upload, so nearly everything it releases is ACK-only. A trace is non-trivial when it reached the pacing-limited state and saw ack events "
             "(sendloop), drove the factor below 1 (ackrate), raised the datagram size while the floor was binding (window), closed the pacing gate (pacer), or completed its transfer with >= 20 checked announcements and >= 50 ack "
             "events (real-quic); distinct = distinct "
             "parameter vector / event script."),
    "assumptions": [
        "virtual monotonic timestamps are positive and non-decreasing (monotime.Now() is never 0 and never goes back); "
        "the clock starts at 1 h + 0..10 s",
        "rate x (time since the last packet) < 2^63 as in the statement's quantifier: the loop lets an ACK-only "
        "packet out before an idle gap would leave that range",
        "every packet handed to OnPacketSent after passing the pacing gate is at most one datagram "
        "(SetMaxDatagramSize value, 1280 before the first call); an MTU probe larger than that counts as one "
        "datagram of pacing-released bytes, ACK-only packets sent while pacing/window limited (without asking the gate) "
        "count as none; packets that did pass the gate count whether or not they are ack-eliciting",
        "burst bound B = max(4 ms x bps/0.8, 10 x largest datagram size of the trace) + one datagram "
        "(full bucket plus one datagram of overshoot a correct token bucket may allow)",
        "'roughly the last five seconds' is read as the anchors put it: five one-second slots keyed by the integer "
        "second of the event time, i.e. the current second and the four before it; mismatches that depend on that "
        "reading (samples younger than 5.000 s outside the five slots) carry their own key "
        "brutal:ackrate-differs-from-model-slot-boundary; samples = packets (entries of the acked/lost lists); the "
        "factor is compared right after each ack/loss event (it only changes there)",
        "'budget at the announced time' is demanded only when no send, ack/loss event or datagram-size change "
        "happened between the announcement and that time",
        "real-quic part: inside a synctest bubble quic-go's monotime.Now() is negative (reference instant taken from the "
        "real clock at package init, bubble clock starts in 2000), which cannot happen in production; the monitor adds "
        "a constant 2^60 ns to every instant handed to the sender and subtracts it from TimeUntilSend (monotime's origin "
        "is arbitrary by contract)",
        "the rate floor is observed, not demanded: the title 'sends at the configured rate' and the anchor 'pacer "
        "bandwidth = bps / ackRate' suggest that a saturated loop woken exactly at the announced times moves >= bps x "
        "elapsed bytes minus one datagram and rounding, but the statement only bounds the rate from above and demands "
        "progress; shortfalls are counted as obs_saturated_rate_below_configured / obs_saturated_rate_below_bandwidth "
        "(0 on the unchanged tree) and are not a verdict",
    ],
    "level_note": ("not demanded and only counted (obs_wakeup_sooner_than_1ms_after_last_packet): the 1 ms "
                   "MinPacingDelay floor of the announced time — a pacer without it still satisfies the statement"),
}
