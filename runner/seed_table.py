#!/usr/bin/env python3
"""Prints the markdown table of independently written breaking changes (seeded/<id>/meta.json)."""
import glob
import json
import os
import re

VERIF = os.path.dirname(os.path.dirname(os.path.abspath(__file__)))
rows = []
for d in sorted(glob.glob(os.path.join(VERIF, "seeded", "*"))):
    mp = os.path.join(d, "meta.json")
    if not os.path.exists(mp):
        continue
    m = json.load(open(mp))
    v = m.get("verification", {})
    caught = []
    for c, r in sorted(v.get("checks", {}).items()):
        if r["rc"] == 1:
            keys = [re.sub(r"\s+harness=.*", "", l.strip())[4:] for l in r["lines"] if l.strip().startswith("key=")]
            caught.append("%s (`%s`)" % (c, keys[0] if keys else "?"))
    summ = re.sub(r"\s+", " ", m.get("summary", ""))[:230]
    needs = re.sub(r"\s+", " ", m.get("needs", ""))[:160]
    status = ", ".join(caught) if caught else ("**not detected** — " + re.sub(r"\s+", " ", m.get("triage", "see meta.json"))[:200])
    rows.append("| %s | %s | %s | %s |" % (os.path.basename(d), summ.replace("|", "\\|"), needs.replace("|", "\\|"), status.replace("|", "\\|")))
print("| Change | What it does | Needs, to manifest | Caught by (quick tier, seed 1) |")
print("|---|---|---|---|")
print("\n".join(rows))
