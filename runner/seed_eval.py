#!/usr/bin/env python3
"""Evaluate one independently written breaking change against the checks.

  seed_eval.py <src dir with patch.diff, demo*, meta.json> <dest id, e.g. C01-1> [--checks C01,C03]

Steps (all in a scratch worktree of /repo under /tmp, removed afterwards):
  1. demo passes on the clean tree; 2. patch applies and the module builds; 3. demo fails with the patch;
  4. the touched packages' own tests still pass with the patch (best effort, named in meta.json);
  5. ./check <prop> (quick) against the patched tree: exit 1 + VIOLATION expected.
Writes /verif/seeded/<id>/{patch.diff, demo..., meta.json} with what was run and observed.
"""
import json
import os
import shutil
import subprocess
import sys
import time

VERIF = os.path.dirname(os.path.dirname(os.path.abspath(__file__)))


def sh(cmd, cwd=None, timeout=1800, env=None):
    e = dict(os.environ)
    for k in ("GOFLAGS", "GOSUMDB", "GOWORK"):
        e.pop(k, None)
    e["GOPROXY"] = "off"
    e["GOTOOLCHAIN"] = "auto"
    if env:
        e.update(env)
    p = subprocess.run(cmd, shell=True, cwd=cwd, env=e, stdout=subprocess.PIPE, stderr=subprocess.STDOUT, text=True, timeout=timeout)
    return p.returncode, p.stdout


def main():
    src, sid = sys.argv[1], sys.argv[2]
    meta = json.load(open(os.path.join(src, "meta.json")))
    prop = meta["property"]
    checks = [prop]
    if meta.get("checks_to_run"):
        checks = meta["checks_to_run"].split(",")
    if "--checks" in sys.argv:
        checks = sys.argv[sys.argv.index("--checks") + 1].split(",")
    wt = "/tmp/seedeval-%s" % sid
    sh("git -C /repo worktree remove --force %s" % wt)
    shutil.rmtree(wt, ignore_errors=True)
    rc, out = sh("git -C /repo worktree add --detach %s HEAD" % wt)
    assert rc == 0, out
    obs = {"evaluated_at_repo_commit": sh("git -C /repo rev-parse --short HEAD")[1].strip(), "ran": []}
    try:
        demo_dst = os.path.join(wt, meta["demo_path_in_repo"])
        demos = [f for f in os.listdir(src) if f.startswith("demo")]
        for d in demos:
            p = os.path.join(src, d)
            if os.path.isdir(p):
                shutil.copytree(p, demo_dst)
            else:
                os.makedirs(os.path.dirname(demo_dst), exist_ok=True)
                shutil.copy(p, demo_dst)
        demo_cmd = meta["demo_cmd"]
        rc0, out0 = sh(demo_cmd, cwd=wt, timeout=900)
        obs["demo_without_patch_rc"] = rc0
        obs["ran"].append("clean tree: " + demo_cmd)
        rc, out = sh("git apply %s" % os.path.join(os.path.abspath(src), "patch.diff"), cwd=wt)
        obs["patch_applies"] = rc == 0
        if rc != 0:
            obs["apply_error"] = out[-1500:]
        mods = sorted({f.split("/")[0] for f in meta.get("touched_files", [])})
        for m in mods:
            rc, out = sh("go build ./... && go test -count=1 -run '^$' ./... >/dev/null", cwd=os.path.join(wt, m), timeout=1200)
            obs["builds_" + m] = rc == 0
            if rc != 0:
                obs["build_error_" + m] = out[-1500:]
        rc1, out1 = sh(demo_cmd, cwd=wt, timeout=900)
        obs["demo_with_patch_rc"] = rc1
        obs["demo_with_patch_tail"] = out1[-1200:]
        obs["ran"].append("patched tree: " + demo_cmd)
        # the packages' own tests with the patch (demo removed)
        if os.path.isdir(demo_dst):
            shutil.rmtree(demo_dst)
        else:
            os.remove(demo_dst)
        pk = sorted({os.path.dirname(f) for f in meta.get("touched_files", []) if f.endswith(".go")})
        own = {}
        for d in pk:
            m, rel = d.split("/", 1) if "/" in d else (d, ".")
            cmd = "go test -count=1 -timeout 600s ./%s/" % rel
            rc, out = sh(cmd, cwd=os.path.join(wt, m), timeout=900)
            own[d] = {"rc": rc, "tail": out[-300:]}
            obs["ran"].append("patched tree: cd %s && %s" % (m, cmd))
        obs["own_package_tests_with_patch"] = own
        det = {}
        for c in checks:
            t0 = time.time()
            rc, out = sh("./check %s --tier quick" % c, cwd=VERIF, timeout=3000, env={"VERIF_REPO": wt})
            lines = [l for l in out.splitlines() if l.startswith("VIOLATION") or l.strip().startswith("key=") or l.startswith("[") or l.startswith("INCONCLUSIVE")]
            det[c] = {"rc": rc, "wall_s": round(time.time() - t0, 1), "lines": lines[:8]}
            obs["ran"].append("VERIF_REPO=<patched tree> ./check %s --tier quick" % c)
        obs["checks"] = det
        obs["detected"] = any(v["rc"] == 1 for v in det.values())
    finally:
        sh("git -C /repo worktree remove --force %s" % wt)
        shutil.rmtree(wt, ignore_errors=True)
        import hashlib
        alt = os.path.join(VERIF, "build", "alt-" + hashlib.sha1(os.path.realpath(wt).encode()).hexdigest()[:8])
        shutil.rmtree(alt, ignore_errors=True)
    dst = os.path.join(VERIF, "seeded", sid)
    if os.path.realpath(src) != os.path.realpath(dst):
        shutil.rmtree(dst, ignore_errors=True)
        shutil.copytree(src, dst)
    for k in ("triage",):
        if k in meta:
            pass  # keep earlier triage notes
    meta["verification"] = obs
    meta["valid_seed"] = bool(obs.get("patch_applies") and obs.get("demo_without_patch_rc") == 0 and obs.get("demo_with_patch_rc") not in (0, None)
                              and all(obs.get("builds_" + m) for m in mods))
    json.dump(meta, open(os.path.join(dst, "meta.json"), "w"), indent=1)
    print(sid, "valid_seed=%s" % meta["valid_seed"], "detected=%s" % obs.get("detected"),
          {c: (v["rc"], v["lines"][:2]) for c, v in obs.get("checks", {}).items()})


if __name__ == "__main__":
    main()
