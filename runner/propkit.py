"""Helpers for property definition files (runner/propdefs/cNN.py)."""


def job(name, module, pkg, pkgname, files, run, expect, race=False, **kw):
    """One `go test` child.
    name: unique within the property; module: app|core|extras; pkg: ./path/ relative to the module;
    pkgname: Go package clause of the target package; files: harness files (relative to /verif, *_test.go);
    run: -run regex; expect: harness part names (vfNewKit name) that must produce a result file;
    optional: timeout_quick / timeout_thorough (s), tiers=("quick","thorough"), env={}, args=[...]"""
    d = {"name": name, "module": module, "pkg": pkg, "pkgname": pkgname, "files": files,
         "run": run, "expect": expect, "race": race}
    d.update(kw)
    return d
