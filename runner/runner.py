"""Runner: builds the overlay, runs `go test` children against the current working
tree of the repository, runs offline checkers, merges what the monitors observed
into evidence/<id>.json and prints the verdict lines."""
import concurrent.futures
import glob
import hashlib
import json
import os
import re
import shutil
import signal
import subprocess
import sys
import time

VERIF = os.path.dirname(os.path.dirname(os.path.abspath(__file__)))
REPO = os.environ.get("VERIF_REPO", "/repo")
BUILD = os.path.join(VERIF, "build")
EVID = os.path.join(VERIF, "evidence")
if os.path.realpath(REPO) != "/repo":
    # a scratch copy of the repository (self-validation with mutants): keep its output apart
    BUILD = os.path.join(VERIF, "build", "alt-" + hashlib.sha1(os.path.realpath(REPO).encode()).hexdigest()[:8])
    EVID = os.path.join(BUILD, "evidence")
KNOWN = os.path.join(VERIF, "known_findings.txt")
KIT = os.path.join(VERIF, "harness", "common", "vkit_test.go.tmpl")

sys.path.insert(0, os.path.dirname(os.path.abspath(__file__)))
import props as P  # noqa: E402


def log(*a):
    print(*a, flush=True)


def go_env(inside_repo=True):
    env = dict(os.environ)
    for k in ("GOFLAGS", "GOSUMDB", "GOTOOLCHAIN", "GOWORK"):
        env.pop(k, None)
    env["GOPROXY"] = "off"
    env["GOTOOLCHAIN"] = "auto"
    if not inside_repo:
        env["GOFLAGS"] = "-mod=mod"
    return env


# ----------------------------------------------------------------------------- known findings

def load_known():
    """known_findings.txt lines:
         known: property=<id> key=<key> <what fails>
         fixed: property=<id> <commit> <what failed>     (suppresses nothing)
    """
    known = []
    if os.path.exists(KNOWN):
        for line in open(KNOWN):
            line = line.strip()
            m = re.match(r"known:\s+property=(\S+)\s+key=(\S+)\s+(.*)$", line)
            if m:
                known.append({"property": m.group(1), "key": m.group(2), "what": m.group(3)})
    return known


# ----------------------------------------------------------------------------- overlay + go test

def make_overlay(job, outdir):
    """Map harness files (and the kit) into the target package directory."""
    pkgdir = os.path.normpath(os.path.join(REPO, job["module"], job["pkg"]))
    rep = {}
    kit_src = open(KIT).read().replace("package PKGNAME", "package " + job["pkgname"])
    kit_path = os.path.join(outdir, "zz_verif_kit_test.go")
    with open(kit_path, "w") as f:
        f.write(kit_src)
    rep[os.path.join(pkgdir, "zz_verif_kit_test.go")] = kit_path
    for rel in job["files"]:
        src = os.path.join(VERIF, rel)
        base = os.path.basename(rel)
        if not base.endswith("_test.go"):
            raise SystemExit("harness file must end in _test.go: " + rel)
        rep[os.path.join(pkgdir, "zz_verif_" + base)] = src
    # extra non-test replacements (rare): {"repo/relative/path.go": "verif/relative/path.go"}
    for dst, src in job.get("extra_overlay", {}).items():
        rep[os.path.join(REPO, dst)] = os.path.join(VERIF, src)
    path = os.path.join(outdir, "overlay.json")
    with open(path, "w") as f:
        json.dump({"Replace": rep}, f, indent=1)
    return path


def run_job(prop_id, job, tier, seed, replay_case=None, attempt=0):
    name = job["name"]
    outdir = os.path.join(BUILD, prop_id, name)
    shutil.rmtree(outdir, ignore_errors=True)
    os.makedirs(outdir, exist_ok=True)
    overlay = make_overlay(job, outdir)
    env = go_env(True)
    env.update({
        "VERIF_OUT": outdir, "VERIF_SEED": str(seed), "VERIF_TIER": tier,
        "VERIF_DIR": VERIF,
    })
    if replay_case:
        env["VERIF_REPLAY_CASE"] = replay_case
    env.update(job.get("env", {}))
    cap = job.get("timeout_" + tier, 600 if tier == "quick" else 3600)
    cmd = ["go", "test", "-tags", "verif", "-vet=off", "-count=1", "-overlay=" + overlay,
           "-run", job["run"], "-timeout", "%ds" % cap]
    if job.get("race"):
        cmd.append("-race")
        env["GORACE"] = "halt_on_error=0 log_path=%s" % os.path.join(outdir, "race")
    if job.get("fuzz") and tier == "thorough":
        pass  # fuzz targets are separate jobs (see props)
    cmd += job.get("args_" + tier, job.get("args", []))
    cmd.append(job["pkg"])
    logf = os.path.join(outdir, "go-test.log")
    t0 = time.time()
    cwd = os.path.join(REPO, job["module"])
    wd_cap = cap + (120 if cap > 60 else 3)
    with open(logf, "w") as lf:
        lf.write("# cwd=%s\n# %s\n" % (cwd, " ".join(cmd)))
        lf.flush()
        # own process group, so that the watchdog also reaches the test binary (a grandchild)
        p = subprocess.Popen(cmd, cwd=cwd, env=env, stdout=lf, stderr=subprocess.STDOUT, start_new_session=True)
        try:
            p.wait(timeout=wd_cap)
        except subprocess.TimeoutExpired:
            for sig, grace in ((signal.SIGQUIT, 30), (signal.SIGKILL, 30)):
                try:
                    os.killpg(p.pid, sig)
                except ProcessLookupError:
                    break
                try:
                    p.wait(timeout=grace)
                    break
                except subprocess.TimeoutExpired:
                    continue
            if p.returncode is None or p.returncode >= 0:
                p.returncode = 124
        else:
            # nothing of the child may outlive it and keep writing into the job directory
            try:
                os.killpg(p.pid, signal.SIGKILL)
            except (ProcessLookupError, PermissionError):
                pass
    wall = time.time() - t0
    txt = open(logf, errors="replace").read()
    res = {"job": name, "rc": p.returncode, "wall_s": wall, "log": logf, "outdir": outdir,
           "results": [], "status": "ok", "crash": None}
    for rf in sorted(glob.glob(os.path.join(outdir, "result-*.json"))):
        try:
            res["results"].append(json.load(open(rf)))
        except Exception as e:  # truncated file
            res["status"] = "broken"
            res["why"] = "unreadable result %s: %s" % (rf, e)
    got = {r["harness"] for r in res["results"]}
    missing = [h for h in job.get("expect", []) if h not in got]
    # A part that recorded violations (each is written to its replay file at once) and then hung or died
    # has no result file: salvage what it had already refuted.
    for h in missing:
        sv = []
        for rp in sorted(glob.glob(os.path.join(outdir, "replay-%s-[0-9][0-9][0-9].json" % h))):
            try:
                d = json.load(open(rp))
                sv.append({"key": d.get("key", "?"), "detail": d.get("detail", ""), "replay": rp})
            except Exception:
                pass
        if sv:
            res["results"].append({"property": prop_id, "harness": h, "tier": tier, "seed": seed, "evaluations": len(sv),
                                   "distinct_nontrivial": 0, "samples": [], "counters": {"partial_result_salvaged": 1},
                                   "violations": sv, "inconclusive": [], "wall_s": wall, "complete": False})
    if replay_case:
        missing = []
    build_failed = "[build failed]" in txt or "[setup failed]" in txt
    if build_failed:
        res["status"] = "build_failed"
        res["why"] = "\n".join(txt.splitlines()[:40])
        return res
    timed_out = p.returncode in (124, 137, -3, -9) or "panic: test timed out" in txt or "SIGQUIT" in txt
    crash = None
    m = re.search(r"^(panic: .*|fatal error: .*)$", txt, re.M)
    if m and "panic: test timed out" not in m.group(1):
        crash = m.group(1)
    # a synctest bubble that cannot finish panics with a deadlock message
    if crash is None:
        m2 = re.search(r"^.*(deadlock: .*|blocked goroutines remain.*)$", txt, re.M)
        if m2:
            crash = m2.group(0).strip()
    if (missing or p.returncode != 0) and crash:
        res["status"] = "crash"
        res["crash"] = crash
    elif missing and timed_out:
        res["status"] = "timeout"
    elif missing:
        res["status"] = "broken"
        res["why"] = "no result from harness part(s) %s (rc=%d)" % (missing, p.returncode)
    elif p.returncode != 0 and not job.get("race"):
        # harness tests record violations and pass; a failing test without a crash is a broken harness
        if not any(r["violations"] for r in res["results"]):
            if "--- FAIL" in txt:
                res["status"] = "broken"
                res["why"] = "test failed without recording a violation"
    return res


# ----------------------------------------------------------------------------- race reports

def parse_race_reports(outdir):
    blocks = []
    for f in sorted(glob.glob(os.path.join(outdir, "race.*"))):
        txt = open(f, errors="replace").read()
        for b in re.split(r"^={18}$", txt, flags=re.M):
            if "WARNING: DATA RACE" in b:
                blocks.append(b)
    return blocks


def race_stacks(block):
    """Return the list of stacks (each a list of (func, file, line)) in a report."""
    stacks, cur = [], None
    lines = block.splitlines()
    i = 0
    while i < len(lines):
        ln = lines[i]
        if re.match(r"^(Read|Write|Previous read|Previous write|Atomic|Previous atomic).* by ", ln.strip()) or \
                re.match(r"^Goroutine .* created at:", ln.strip()):
            cur = {"head": ln.strip(), "frames": []}
            stacks.append(cur)
        elif cur is not None and ln.startswith("  ") and i + 1 < len(lines):
            m = re.match(r"^\s+(\S+):(\d+)( \+0x[0-9a-f]+)?$", lines[i + 1])
            if m and not ln.strip().startswith("/"):
                cur["frames"].append((ln.strip(), m.group(1), int(m.group(2))))
                i += 1
        i += 1
    return stacks


def classify_races(blocks, anchored):
    """Keep reports whose two access stacks both contain a frame in an anchored
    source file of the repository (non-test). Dedupe by line-stripped stacks."""
    seen, kept, other = set(), [], 0

    def anchored_frame(st):
        for fn, path, line in st["frames"]:
            if path.startswith(REPO + "/") and not path.endswith("_test.go"):
                rel = path[len(REPO) + 1:]
                if any(rel == a or rel.startswith(a.rstrip("/") + "/") for a in anchored):
                    return (fn, rel, line)
        return None

    for b in blocks:
        st = race_stacks(b)
        acc = [s for s in st if not s["head"].startswith("Goroutine")]
        if len(acc) < 2:
            other += 1
            continue
        a, c = anchored_frame(acc[0]), anchored_frame(acc[1])
        if not a or not c:
            other += 1
            continue
        sig = tuple(sorted([tuple(f for f, _, _ in acc[0]["frames"][:6]), tuple(f for f, _, _ in acc[1]["frames"][:6])]))
        if sig in seen:
            continue
        seen.add(sig)
        kept.append({"a": "%s %s:%d" % a, "b": "%s %s:%d" % c, "report": b.strip()[:6000]})
    return kept, other


# ----------------------------------------------------------------------------- evidence

def write_evidence(prop_id, cfg, tier, seed, merged, wall, nviol):
    os.makedirs(EVID, exist_ok=True)
    cov = {
        "evaluations": merged["evaluations"],
        "distinct_nontrivial": merged["distinct_nontrivial"],
        "rule": cfg["rule"],
        "samples": merged["samples"][:12],
        "events_observed": merged["events_observed"],
        "per_harness": merged["per_harness"],
        "counters": merged["counters"],
        "race_reports_attributed": merged.get("races", 0),
        "race_reports_other": merged.get("races_other", 0),
        "inconclusive_cases": merged["inconclusive"],
        "known_findings_hit": merged.get("known_hit", []),
        "repo": REPO,
    }
    if cfg.get("exhaustive_note"):
        cov["exhaustive_note"] = cfg["exhaustive_note"]
    ev = {
        "property_id": prop_id, "tier": tier, "seed": seed, "level": cfg["level"],
        "coverage": cov, "assumptions": cfg.get("assumptions", []),
        "wall_s": round(wall, 2), "violations": nviol,
    }
    tmp = os.path.join(EVID, prop_id + ".json.tmp")
    with open(tmp, "w") as f:
        json.dump(ev, f, indent=1, default=str)
    os.replace(tmp, os.path.join(EVID, prop_id + ".json"))


def merge_results(job_results):
    merged = {"evaluations": 0, "distinct_nontrivial": 0, "samples": [], "events_observed": 0,
              "per_harness": {}, "counters": {}, "inconclusive": 0, "violations": []}
    per_h_samples = []
    for jr in job_results:
        for r in jr["results"]:
            merged["evaluations"] += int(r["evaluations"])
            merged["distinct_nontrivial"] += int(r["distinct_nontrivial"])
            per_h_samples.append(list(r.get("samples") or []))
            c = r.get("counters") or {}
            merged["per_harness"][r["harness"]] = {
                "evaluations": r["evaluations"], "distinct_nontrivial": r["distinct_nontrivial"],
                "wall_s": round(r.get("wall_s", 0), 2)}
            for k, v in c.items():
                merged["counters"][r["harness"] + "." + k] = v
                if k.startswith("ev_") or k == "events":
                    merged["events_observed"] += int(v)
            merged["inconclusive"] += int(c.get("inconclusive_cases", 0))
            for v in r.get("violations") or []:
                v = dict(v)
                v["harness"] = r["harness"]
                merged["violations"].append(v)
    # round-robin samples across harness parts
    i = 0
    while any(per_h_samples) and len(merged["samples"]) < 12:
        for s in per_h_samples:
            if i < len(s):
                merged["samples"].append(s[i])
        i += 1
        if i > 12:
            break
    return merged


# ----------------------------------------------------------------------------- post checkers

def run_post(prop_id, cfg, tier, seed, job_results):
    """Offline checkers over recorded logs. Each returns a result dict in the same
    format as a harness result file."""
    out = []
    for post in cfg.get("post", []):
        outdir = os.path.join(BUILD, prop_id, "post-" + post["name"])
        shutil.rmtree(outdir, ignore_errors=True)
        os.makedirs(outdir, exist_ok=True)
        inputs = []
        for jr in job_results:
            inputs += sorted(glob.glob(os.path.join(jr["outdir"], post["glob"])))
        env = go_env(False)
        env.update({"VERIF_OUT": outdir, "VERIF_SEED": str(seed), "VERIF_TIER": tier})
        cmd = [c.replace("{verif}", VERIF) for c in post["cmd"]] + inputs
        logf = os.path.join(outdir, "post.log")
        t0 = time.time()
        with open(logf, "w") as lf:
            p = subprocess.run(["timeout", "-s", "KILL", str(post.get("timeout", 1800))] + cmd, cwd=VERIF, env=env,
                               stdout=lf, stderr=subprocess.STDOUT)
        jr = {"job": "post-" + post["name"], "rc": p.returncode, "wall_s": time.time() - t0, "log": logf,
              "outdir": outdir, "results": [], "status": "ok", "crash": None}
        for rf in sorted(glob.glob(os.path.join(outdir, "result-*.json"))):
            jr["results"].append(json.load(open(rf)))
        if not jr["results"]:
            jr["status"] = "broken"
            jr["why"] = "offline checker %s produced no result (rc=%d, inputs=%d)" % (post["name"], p.returncode, len(inputs))
        out.append(jr)
    return out


# ----------------------------------------------------------------------------- main per property

_locks = []


def check_property(prop_id, tier, seed, replay=None):
    cfg = P.PROPS[prop_id]
    t0 = time.time()
    os.makedirs(os.path.join(BUILD, prop_id), exist_ok=True)
    # two runs of the same property against the same repository share the job directories: serialise them
    import fcntl
    lockf = open(os.path.join(BUILD, prop_id + ".lock"), "w")
    fcntl.flock(lockf, fcntl.LOCK_EX)
    _locks.append(lockf)
    for stale in glob.glob(os.path.join(BUILD, prop_id, "race-*.txt")):
        os.remove(stale)
    jobs = [j for j in cfg["jobs"] if tier in j.get("tiers", ("quick", "thorough"))]
    replay_case = None
    if replay:
        doc = json.load(open(replay))
        jobs = [j for j in jobs if doc.get("harness") in j.get("expect", [])] or jobs
        seed = int(doc.get("seed", seed))
        tier = doc.get("tier", tier)
        case = doc.get("case")
        if isinstance(case, dict) and case.get("case_id") is not None:
            replay_case = str(case["case_id"])
    par = cfg.get("parallel", 1)
    results = []

    def one(job):
        r = run_job(prop_id, job, tier, seed, replay_case)
        if r["status"] == "timeout" and not any(x.get("violations") for x in r["results"]):
            log("  [%s/%s] watchdog fired after %.0fs: inconclusive, retrying once in a fresh process" % (prop_id, job["name"], r["wall_s"]))
            keep = r["log"] + ".first-attempt"
            shutil.copy(r["log"], keep)
            r = run_job(prop_id, job, tier, seed, replay_case, attempt=1)
        return r

    with concurrent.futures.ThreadPoolExecutor(max_workers=par) as ex:
        results = list(ex.map(one, jobs))
    results += run_post(prop_id, cfg, tier, seed, results)

    merged = merge_results(results)
    violations = list(merged["violations"])
    broken = []
    for jr in results:
        if jr["status"] == "crash":
            key = "crash:" + re.sub(r"0x[0-9a-f]+|\d+", "N", jr["crash"])[:120].replace(" ", "_")
            violations.append({"key": key, "detail": "%s child died: %s" % (jr["job"], jr["crash"]),
                               "replay": jr["log"], "harness": jr["job"]})
        elif jr["status"] in ("build_failed", "broken", "timeout"):
            broken.append(jr)

    # race oracle
    if cfg.get("race_oracle"):
        blocks = []
        for jr in results:
            blocks += parse_race_reports(jr["outdir"])
        kept, other = classify_races(blocks, cfg["race_files"])
        merged["races"], merged["races_other"] = len(kept), other
        for i, r in enumerate(kept):
            path = os.path.join(BUILD, prop_id, "race-%03d.txt" % i)
            with open(path, "w") as f:
                f.write(r["report"])
            fa = re.sub(r":\d+$", "", r["a"]).split(" ")[0]
            fb = re.sub(r":\d+$", "", r["b"]).split(" ")[0]
            violations.append({"key": "race:%s|%s" % tuple(sorted([fa, fb])),
                               "detail": "data race between %s and %s" % (r["a"], r["b"]),
                               "replay": path, "harness": "race-detector"})
    else:
        blocks = []
        for jr in results:
            blocks += parse_race_reports(jr["outdir"])
        merged["races_other"] = len(blocks)

    # known findings
    known = [k for k in load_known() if k["property"] == prop_id]
    new, hit = [], []
    for v in violations:
        kf = next((k for k in known if k["key"] == v["key"]), None)
        if kf:
            if kf["key"] not in [h["key"] for h in hit]:
                hit.append(kf)
        else:
            new.append(v)
    merged["known_hit"] = [h["key"] for h in hit]

    wall = time.time() - t0
    floor = cfg.get("min_events", 1)
    observed_nothing = (merged["evaluations"] < 1 or merged["events_observed"] < floor) and not replay
    if merged["evaluations"] >= 1 and merged["distinct_nontrivial"] >= 2 or new:
        ev_merged = dict(merged)
        write_evidence(prop_id, cfg, tier, seed, ev_merged, wall, len(new))
    for h in hit:
        log("KNOWN-FINDING: property=%s %s" % (prop_id, h["what"]))
    seenk = set()
    for v in new:
        if v["key"] in seenk:
            continue
        seenk.add(v["key"])
        log("VIOLATION property=%s replay=%s" % (prop_id, v["replay"]))
        log("  key=%s harness=%s: %s" % (v["key"], v.get("harness"), v["detail"][:600]))
    log("[%s] tier=%s seed=%d evaluations=%d distinct_nontrivial=%d events=%d violations=%d known=%d inconclusive=%d wall=%.1fs"
        % (prop_id, tier, seed, merged["evaluations"], merged["distinct_nontrivial"], merged["events_observed"],
           len(new), len(hit), merged["inconclusive"], wall))
    if new:
        return 1
    if broken:
        for jr in broken:
            log("INCONCLUSIVE %s/%s: %s (%s) log=%s" % (prop_id, jr["job"], jr["status"], jr.get("why", "")[:2000], jr["log"]))
        return 2
    if observed_nothing:
        log("INCONCLUSIVE %s: monitors observed too little (events=%d < floor=%d)" % (prop_id, merged["events_observed"], floor))
        return 2
    return 0


# ----------------------------------------------------------------------------- setup

def setup():
    os.makedirs(BUILD, exist_ok=True)
    rc = 0
    chk = os.path.join(VERIF, "checkers")
    if os.path.isdir(chk):
        os.makedirs(os.path.join(BUILD, "bin"), exist_ok=True)
        p = subprocess.run(["go", "build", "-o", os.path.join(BUILD, "bin") + "/", "./..."], cwd=chk, env=go_env(False))
        rc |= p.returncode
    # warm the build cache: compile every harness test binary once (no tests run)
    seen = set()
    warm = []
    for pid, cfg in P.CLAIMED.items():
        for job in cfg["jobs"]:
            key = (job["module"], job["pkg"], bool(job.get("race")))
            if key in seen:
                continue
            seen.add(key)
            warm.append((pid, job))

    def w(item):
        pid, job = item
        outdir = os.path.join(BUILD, "_warm", pid + "-" + job["name"])
        os.makedirs(outdir, exist_ok=True)
        ov = make_overlay(job, outdir)
        cmd = ["go", "test", "-tags", "verif", "-vet=off", "-count=1", "-overlay=" + ov, "-run", "^$"]
        if job.get("race"):
            cmd.append("-race")
        cmd.append(job["pkg"])
        p = subprocess.run(cmd, cwd=os.path.join(REPO, job["module"]), env=go_env(True),
                           stdout=subprocess.PIPE, stderr=subprocess.STDOUT, text=True)
        return (pid, job["name"], p.returncode, p.stdout[-2000:])

    with concurrent.futures.ThreadPoolExecutor(max_workers=4) as ex:
        for pid, name, r, out in ex.map(w, warm):
            if r != 0:
                log("setup: warm build of %s/%s failed:\n%s" % (pid, name, out))
                rc |= 1
    shutil.rmtree(os.path.join(BUILD, "_warm"), ignore_errors=True)
    log("setup done rc=%d" % rc)
    return rc


def main(argv):
    tier = os.environ.get("VERIF_TIER", "quick")
    seed = int(os.environ.get("VERIF_SEED", "1") or "1")
    replay = None
    ids = []
    i = 0
    while i < len(argv):
        a = argv[i]
        if a == "--setup":
            return setup()
        elif a == "--tier":
            tier = argv[i + 1]
            i += 1
        elif a == "--seed":
            seed = int(argv[i + 1])
            i += 1
        elif a == "--replay":
            replay = argv[i + 1]
            i += 1
        elif a == "--all":
            ids = sorted(P.CLAIMED)
        else:
            ids.append(a)
        i += 1
    if tier not in ("quick", "thorough"):
        tier = "quick"
    if not ids:
        log(__doc__)
        return 2
    worst = 0
    for pid in ids:
        if pid not in P.PROPS:
            log("unknown or unclaimed property " + pid)
            return 2
        rc = check_property(pid, tier, seed, replay)
        worst = max(worst, rc) if rc != 1 and worst != 1 else 1
    return worst
