#!/bin/bash
cd "$(dirname "$0")/.."
for p in "$@"; do for i in 1; do [ -f /tmp/seed-out6/$p/$i/meta.json ] && echo "$p $i"; done; done | xargs -P ${SEEDP:-3} -L1 sh -c 'python3 runner/seed_eval.py /tmp/seed-out6/$0/$1 $0-r6-$1 2>&1 | tail -1 | cut -c1-300'
