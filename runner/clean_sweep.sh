#!/bin/bash
# Runs every claimed check on the unchanged tree at several seeds; prints one line per run and every alarm.
#   clean_sweep.sh <tier> <seed> [<seed> ...]
cd "$(dirname "$0")/.."
tier=$1; shift
for s in "$@"; do
  for p in $(grep -v '#' runner/claimed.txt); do
    out=$(VERIF_SEED=$s ./check $p --tier $tier 2>&1); rc=$?
    echo "seed=$s rc=$rc $(echo "$out" | grep -E '^\[C' | tail -1)"
    [ $rc -ne 0 ] && echo "$out" | grep -E "VIOLATION|INCONCLUSIVE|key=" | head -5
  done
done
