#!/usr/bin/env python3
"""Rewrites the seeded-change table in DESIGN.md (between the SEEDS markers) from seeded/*/meta.json."""
import os, re, subprocess
V = os.path.dirname(os.path.dirname(os.path.abspath(__file__)))
tab = subprocess.run(["python3", os.path.join(V, "runner", "seed_table.py")], capture_output=True, text=True).stdout
p = os.path.join(V, "DESIGN.md")
s = open(p).read()
s = re.sub(r"<!-- SEEDS-BEGIN -->.*<!-- SEEDS-END -->", "<!-- SEEDS-BEGIN -->\n" + tab + "<!-- SEEDS-END -->", s, flags=re.S)
open(p, "w").write(s)
print("table rows:", tab.count("\n") - 2)
