"""Loads per-property definitions from runner/propdefs/cNN.py (each defines PROP)."""
import glob
import importlib.util
import os
import sys

HERE = os.path.dirname(os.path.abspath(__file__))
sys.path.insert(0, HERE)

PROPS = {}
for path in sorted(glob.glob(os.path.join(HERE, "propdefs", "c[0-9]*.py"))):
    pid = os.path.basename(path)[:-3].upper()
    spec = importlib.util.spec_from_file_location("propdef_" + pid, path)
    mod = importlib.util.module_from_spec(spec)
    spec.loader.exec_module(mod)
    PROPS[pid] = mod.PROP

# properties not claimed (yet), with the reason shown in MANIFEST.not_applicable
NOT_CLAIMED = {}
