"""Loads per-property definitions from runner/propdefs/cNN.py (each defines PROP)."""
import glob
import importlib.util
import os
import sys

HERE = os.path.dirname(os.path.abspath(__file__))
sys.path.insert(0, HERE)

# Only properties listed in runner/claimed.txt are claimed (a propdef may exist while its harness is still being built).
_claimed = None
_cl = os.path.join(HERE, "claimed.txt")
if os.path.exists(_cl):
    _claimed = {l.strip() for l in open(_cl) if l.strip() and not l.startswith("#")}

PROPS = {}
for path in sorted(glob.glob(os.path.join(HERE, "propdefs", "c[0-9]*.py"))):
    pid = os.path.basename(path)[:-3].upper()
    spec = importlib.util.spec_from_file_location("propdef_" + pid, path)
    mod = importlib.util.module_from_spec(spec)
    spec.loader.exec_module(mod)
    PROPS[pid] = mod.PROP

# properties not claimed (yet), with the reason shown in MANIFEST.not_applicable
NOT_CLAIMED = {}

# PROPS holds every propdef present (so a harness under construction can be run with ./check Cxx);
# CLAIMED is what MANIFEST.json, --setup and --all use.
CLAIMED = {p: PROPS[p] for p in PROPS if _claimed is None or p in _claimed}
