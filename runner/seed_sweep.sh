#!/bin/bash
# Re-evaluates every seeded change in /verif/seeded against the current checks (3 at a time).
cd "$(dirname "$0")/.."
ls seeded | grep -E '^C[0-9]+-(r[0-9]-)?[0-9]+$' | xargs -P 3 -I{} sh -c 'python3 runner/seed_eval.py seeded/{} {} 2>&1 | tail -1 | cut -c1-200'
