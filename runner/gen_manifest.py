#!/usr/bin/env python3
"""Regenerates /verif/MANIFEST.json from runner/props.py (single source of truth)."""
import json
import os
import subprocess
import sys

HERE = os.path.dirname(os.path.abspath(__file__))
VERIF = os.path.dirname(HERE)
sys.path.insert(0, HERE)
import props as P  # noqa: E402

ALL = [json.loads(l)["id"] for l in open(os.path.join(VERIF, "properties.jsonl"))]

hook_commits = []
try:
    out = subprocess.run(["git", "-C", "/repo", "log", "--format=%H %s"], capture_output=True, text=True).stdout
    for line in out.splitlines():
        h, s = line.split(" ", 1)
        if s.startswith("verif hook"):
            hook_commits.append(h)
except Exception:
    pass

def level_text(pid, cfg):
    parts = ["Held on the executions this run produced, nothing more: the real code of /repo's working tree is driven by generated "
             "hostile/stress workloads (sizes are counts fixed by tier and VERIF_SEED) while monitors decide the property's oracle on every "
             "observed event; evidence reports evaluations, distinct non-trivial cases, events observed and written-out samples."]
    if cfg["level"] == "fault_enumeration":
        parts.append("Within stated small bounds the fault positions are enumerated exhaustively (see 'rule' and exhaustive_note in the "
                     "evidence); beyond them faults are sampled.")
    if cfg.get("race_oracle"):
        parts.append("The Go race detector is an additional oracle, restricted to reports whose two access stacks both lie in "
                     + ", ".join(cfg.get("race_files", [])) + ".")
    if cfg.get("post"):
        parts.append("Recorded logs/histories are also decided offline (" + ", ".join(x["name"] for x in cfg["post"]) + "); a checker "
                     "timeout is inconclusive, never a violation.")
    parts.append("This is the right level for a property quantified over inputs, schedules and fault histories that a runtime-monitoring "
                 "technique can only sample: no proof or exhaustive model is claimed.")
    return " ".join(parts)


def level_note(pid, cfg):
    base = ("Trusted: Go runtime, testing/synctest virtual time, race detector, quic-go (incl. its simnet), the harness-owned fakes and "
            "reference models (written from PROTOCOL.md / documented behaviour). Only generated inputs and interleavings are covered; "
            "exit 2 = inconclusive (build failure, watchdog, too few events), never reported as a violation. ")
    ass = cfg.get("assumptions") or []
    if ass:
        base += "Assumptions: " + "; ".join(a if len(a) < 220 else a[:217] + "..." for a in ass[:6])
    return base


checks = []
for pid in sorted(P.CLAIMED):
    cfg = P.CLAIMED[pid]
    checks.append({
        "property_id": pid,
        "quick_cmd": "./check %s --tier quick" % pid,
        "thorough_cmd": "./check %s --tier thorough" % pid,
        "evidence_file": "/verif/evidence/%s.json" % pid,
        "replay_cmd_template": "./check %s --replay {path}" % pid,
        "engine": "runner",
        "level_claimed": {
            "category": cfg["level"],
            "text": cfg.get("level_text") or level_text(pid, cfg),
            "design_ref": "DESIGN.md §3 %s, §8a (as built), §11 (seeded changes caught)" % pid,
        },
        "level_note": cfg.get("level_note") or level_note(pid, cfg),
        "technique": cfg.get("technique", "runtime monitoring: generated workload + online oracle (reference model) on the real code"),
    })

na = []
for pid in ALL:
    if pid not in P.CLAIMED:
        na.append({"property_id": pid, "reason": P.NOT_CLAIMED.get(pid, "check not built yet (work in progress); no claim is made")})

man = {
    "version": 1,
    "setup_cmd": "./check --setup",
    "hooks": {
        "guard": "verif",
        "enable": "go test -tags verif -overlay=<generated> (harness files are injected into the package under test as _test.go files; "
                  "the only source hook is core/internal/congestion/hook_on.go)",
        "baseline_off_cmd": "for m in app core extras; do (cd /repo/$m && go test -json -vet=off -count=1 -timeout 25m ./...); done",
        "source_commits": hook_commits,
        "add_only": True,
    },
    "engines": [
        {"name": "runner", "path": "/verif/check", "serves_properties": sorted(P.CLAIMED),
         "kind_free_text": "python driver: builds a go test -overlay per job from /repo's working tree, runs monitors/workloads "
                           "(Go, in-package, tag verif, -race where the race detector is an oracle), offline checkers "
                           "(porcupine, python), merges observations into evidence"},
    ],
    "checks": checks,
    "not_applicable": na,
    "notes": "All checks are runtime monitors over executions of the real code. Exit 2 = inconclusive (never a violation). "
             "Known/fixed findings: /verif/known_findings.txt.",
}
with open(os.path.join(VERIF, "MANIFEST.json"), "w") as f:
    json.dump(man, f, indent=1)
print("MANIFEST.json: %d checks, %d not claimed" % (len(checks), len(na)))
