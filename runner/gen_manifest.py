#!/usr/bin/env python3
"""Regenerates /verif/MANIFEST.json from runner/props.py (single source of truth)."""
import json
import os
import subprocess
import sys

HERE = os.path.dirname(os.path.abspath(__file__))
VERIF = os.path.dirname(HERE)
sys.path.insert(0, HERE)
import props as P  # noqa: E402

ALL = [json.loads(l)["id"] for l in open(os.path.join(VERIF, "properties.jsonl"))]

hook_commits = []
try:
    out = subprocess.run(["git", "-C", "/repo", "log", "--format=%H %s"], capture_output=True, text=True).stdout
    for line in out.splitlines():
        h, s = line.split(" ", 1)
        if s.startswith("verif hook"):
            hook_commits.append(h)
except Exception:
    pass

checks = []
for pid in sorted(P.CLAIMED):
    cfg = P.CLAIMED[pid]
    checks.append({
        "property_id": pid,
        "quick_cmd": "./check %s --tier quick" % pid,
        "thorough_cmd": "./check %s --tier thorough" % pid,
        "evidence_file": "/verif/evidence/%s.json" % pid,
        "replay_cmd_template": "./check %s --replay {path}" % pid,
        "engine": "runner",
        "level_claimed": {
            "category": cfg["level"],
            "text": cfg.get("level_text", "Held on the executions produced by this run: the real code is driven by generated "
                                           "hostile workloads while monitors check the property's oracle on every event; "
                                           "evidence lists what was observed."),
            "design_ref": "DESIGN.md §3 " + pid,
        },
        "level_note": cfg.get("level_note", "Trusted: Go runtime/race detector/testing/synctest, the harness's reference model; "
                                            "only the generated inputs/interleavings are covered."),
        "technique": cfg.get("technique", "runtime monitoring: generated workload + online oracle"),
    })

na = []
for pid in ALL:
    if pid not in P.CLAIMED:
        na.append({"property_id": pid, "reason": P.NOT_CLAIMED.get(pid, "check not built yet (work in progress); no claim is made")})

man = {
    "version": 1,
    "setup_cmd": "./check --setup",
    "hooks": {
        "guard": "verif",
        "enable": "go test -tags verif -overlay=<generated> (harness files are injected into the package under test as _test.go files; "
                  "the only source hook is core/internal/congestion/hook_on.go)",
        "baseline_off_cmd": "for m in app core extras; do (cd /repo/$m && go test -json -vet=off -count=1 -timeout 25m ./...); done",
        "source_commits": hook_commits,
        "add_only": True,
    },
    "engines": [
        {"name": "runner", "path": "/verif/check", "serves_properties": sorted(P.CLAIMED),
         "kind_free_text": "python driver: builds a go test -overlay per job from /repo's working tree, runs monitors/workloads "
                           "(Go, in-package, tag verif, -race where the race detector is an oracle), offline checkers "
                           "(porcupine, python), merges observations into evidence"},
    ],
    "checks": checks,
    "not_applicable": na,
    "notes": "All checks are runtime monitors over executions of the real code. Exit 2 = inconclusive (never a violation). "
             "Known/fixed findings: /verif/known_findings.txt.",
}
with open(os.path.join(VERIF, "MANIFEST.json"), "w") as f:
    json.dump(man, f, indent=1)
print("MANIFEST.json: %d checks, %d not claimed" % (len(checks), len(na)))
